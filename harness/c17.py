"""C17 — the convex region-graph oracle solves its variational problem.
Model (Model/Region.v): the Hazan-Peng-Shashua sweep (unit counting numbers, damping) with beliefs
b_r ~ exp(theta_r + sum_children m_{c->r} - sum_parents m_{r->p}).  Theorem (Props/C17.v): whenever such beliefs are consistent along
the region-graph edges they maximise sum_r <theta_r, mu_r> + sum_r H(mu_r) over ALL locally consistent pseudo-marginals (certificate;
no convergence analysis needed).  Per run: (A) float sweep model vs the code after k sweeps and over consecutive calls (messages
persist); (B) run to the code's own convergence test and require agreement of every pair of nested regions; (C) oracle: feasible
perturbations of the returned point within the local polytope never improve the objective."""
import itertools, json, math
import numpy as np
import common, rgen


def project_table(t, attrs_r, attrs_s):
    ax = tuple(i for i, a in enumerate(attrs_r) if a not in attrs_s)
    m = t.sum(axis=ax) if ax else t
    kept = [a for a in attrs_r if a in attrs_s]
    return np.transpose(m, [kept.index(a) for a in attrs_s])


def objective(regs, pots, mus, total):
    F = 0.0
    for r in regs:
        mu = mus[r]; th = np.asarray(pots[r].values, dtype=float)
        F += float((th * mu).sum())
        nz = mu > 0
        F += float(-(mu[nz] * np.log(mu[nz] / total)).sum())
    return F


def main(chk):
    from mbi import Domain, Factor, CliqueVector, RegionGraph
    chk.prove()
    rng = chk.rng
    n = 40 if chk.tier == 'quick' else 500
    lines, pend = [], []
    nbad = 0
    for it in range(n):
        kind = rng.choice(['chain', 'star', 'tree3', 'loop', 'dense', 'nested', 'deep', 'disconnected'])
        attrs, sizes, cliques = rgen.gen_structure(rng, kind)
        dom = Domain(attrs, sizes)
        total = rng.choice([1.0, 20.0, 300.0])
        rho = rng.choice([0.2, 0.45, 0.5, 0.7, 0.9])
        scale = rng.choice([0.5, 2.0])
        info = dict(structure=kind, attrs=attrs, sizes=sizes, cliques=[list(c) for c in cliques], total=total, damping=rho, potential_scale=scale)
        chk.count('structure.' + kind); chk.count('damping=%s' % rho)
        try:
            with np.errstate(all='ignore'):
                k = rng.choice([1, 3, 10]); calls = rng.choice([1, 2])
                rg = RegionGraph(dom, list(cliques), total, convex=True, iters=k, convergence=-1.0, damping=rho)
                regs = list(rg.cliques)
                pots = {r: Factor(dom.project(r), np.array([rng.uniform(-1, 1) * scale for _ in range(dom.size(r))]).reshape(dom.project(r).shape)) for r in regs}
                if rng.random() < 0.5:      # potentials only on some regions
                    for r in regs:
                        if rng.random() < 0.4:
                            pots[r] = Factor.zeros(dom.project(r))
                for _ in range(calls):
                    mu = rg.belief_propagation(CliqueVector(pots))
                line, _, _ = rgen.region_line('hps', rg, pots, total, rho, k, calls)
                code = [np.asarray(mu[r].values, dtype=float) for r in regs]
                lines.append(line); pend.append((dict(info, sweeps=k, calls=calls), code))
                tabs = None
                if nbad < 3:
                    # (B) run to convergence with a fresh oracle (skipped once three runs have failed: a diverging oracle is slow)
                    rg2 = RegionGraph(dom, list(cliques), total, convex=True, iters=6000, convergence=1e-9 * total, damping=rho)
                    mu2 = rg2.belief_propagation(CliqueVector(pots))
                    tabs = {r: np.asarray(mu2[r].values, dtype=float) for r in regs}
        except Exception as e:
            chk.violation(dict(kind='exception', what=common.exc_kind(e)), 'convex oracle raised %s: %s' % (common.exc_kind(e), str(e)[:100]), info, found_input=True)
            continue
        nontriv = len(regs) >= 4
        chk.case(('hps', json.dumps(info)), nontriv, dict(info, regions=[''.join(r) for r in regs]) if len(chk.samples) < 3 and nontriv else None)
        if tabs is None:
            chk.count('convergence-run-skipped-after-3-failures'); continue
        bad = None
        for r in regs:
            t = tabs[r]
            if not np.all(np.isfinite(t)) or t.min() < 0 or abs(t.sum() - total) > 1e-8 * max(1.0, total):
                bad = 'pseudo-marginal of %s is not a valid table summing to the total' % ''.join(r); break
        worst = 0.0
        if not bad:
            for r, s in itertools.permutations(regs, 2):
                if set(s) < set(r):
                    d = float(np.abs(project_table(tabs[r], list(r), list(s)) - tabs[s]).sum())
                    if d > worst:
                        worst, wr = d, (r, s)
            if worst > 1e-5 * total:
                bad = 'after convergence the pseudo-marginals of %s and %s disagree on the shared sub-region by %.3g (total %.3g)' % (''.join(wr[0]), ''.join(wr[1]), worst, total)
        if bad:
            nbad += 1
            chk.violation(dict(kind='consistency'), bad, dict(info, disagreement=worst), found_input=True)
            continue
        # (C) feasible perturbations inside the local polytope never improve the objective
        offs, pos = {}, 0
        for r in regs:
            offs[r] = pos; pos += tabs[r].size
        rows = []
        for r in regs:
            row = np.zeros(pos); row[offs[r]:offs[r] + tabs[r].size] = 1; rows.append(row)
            for s in rg2.children[r]:
                cfg = dict(zip(attrs, sizes))
                for ci, cell in enumerate(itertools.product(*[range(cfg[a]) for a in s])):
                    row = np.zeros(pos)
                    for xi, x in enumerate(itertools.product(*[range(cfg[a]) for a in r])):
                        if all(x[list(r).index(a)] == v for a, v in zip(s, cell)):
                            row[offs[r] + xi] = 1
                    row[offs[s] + ci] -= 1
                    rows.append(row)
        A = np.array(rows)
        F0 = objective(regs, pots, tabs, total)
        x0 = np.concatenate([tabs[r].reshape(-1) for r in regs])
        _, sv, Vt = np.linalg.svd(A, full_matrices=True)
        rank = int((sv > 1e-9).sum())
        null = Vt[rank:]
        improved = None
        for trial in range(12 if null.shape[0] else 0):
            d = null.T @ np.array([rng.gauss(0, 1) for _ in range(null.shape[0])])
            d /= max(1e-12, np.abs(d).max())
            for t in (1e-2, 1e-3):
                x = x0 + t * total * d * min(1.0, float(x0[x0 > 0].min()) / total * 0.5 / 1e-2) if x0.min() > 0 else None
                if x is None or x.min() < 0:
                    continue
                mus = {r: x[offs[r]:offs[r] + tabs[r].size].reshape(tabs[r].shape) for r in regs}
                F1 = objective(regs, pots, mus, total)
                if F1 > F0 + 1e-7 * max(1.0, abs(F0)):
                    improved = (F0, F1)
        chk.count('perturbation-test')
        if improved:
            chk.violation(dict(kind='optimality'), 'a locally consistent perturbation of the returned pseudo-marginals has a larger objective (%.9g > %.9g)' % (improved[1], improved[0]), info, found_input=True)
    outs = common.run_num(lines, timeout=1800)
    for line, (info, code), out in zip(lines, pend, outs):
        if isinstance(out, str):
            chk.violation(dict(kind='model-error'), 'sweep model failed: ' + out[:80], info, found_input=False); continue
        tabs, ok = rgen.split_tables(out, [t.shape for t in code])
        ok = ok and all(np.allclose(a, b, rtol=1e-8, atol=1e-10 * info['total']) for a, b in zip(tabs, code))
        if not ok:
            chk.violation(dict(kind='sweep-correspondence'), 'pseudo-marginals after %d sweeps x %d calls differ from the model of the Hazan-Peng-Shashua sweep' % (info['sweeps'], info['calls']),
                          dict(info, code=[t.reshape(-1)[:8].tolist() for t in code][:3], model=[t.reshape(-1)[:8].tolist() for t in tabs][:3]), found_input=False)
    return chk.finish(rule='structures {chain, star, tree of 3-cliques, four-level, loop, dense pairs, nested, disconnected}, sizes 2-3, potentials U(-s,s) on all or on a random subset of regions, totals {1,20,300}, '
                      'damping {.2,.45,.5,.7,.9}. (A) k in {1,3,10} sweeps x {1,2} consecutive calls: float sweep model vs code (1e-8); (B) run to the code\'s convergence test (1e-9*total): all nested pairs of '
                      'regions agree within 1e-5*total; (C) 24 random feasible perturbations inside the local polytope do not improve the objective. Non-trivial = >= 4 regions.',
                      assumptions=['the region-graph structure is taken from the code; convergence of the sweeps is observed with the code\'s own test (partial)', 'scipy logsumexp vs pairwise log-add-exp at 1e-8'])


def replay(chk, rp):
    print(json.dumps(rp, indent=1, default=str)[:4000])
    return 0
