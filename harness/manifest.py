"""Regenerates /verif/MANIFEST.json from the table below (kept in one place so it stays valid)."""
import json, os
V = os.path.dirname(os.path.dirname(os.path.abspath(__file__)))
CHECKS = {
 'C01': dict(
   technique='Coq proof (induction over arbitrary valid schedules + rooted junction-tree induction) over a hand-written line-by-line model of belief_propagation on a zero-sum-free semifield + exact-rational differential correspondence',
   text='Theorem C01_exact (Props/C01.v): for every semifield instance, domain, tree, potentials (zeros = -inf included), total, and EVERY schedule that respects the message dependencies, the division-based run of the model of GraphicalModel.belief_propagation returns at every clique the brute-force marginal of the normalised product of the potentials scaled to the total, provided the tree passes the computable junction-tree conditions (recursive running intersection for every root), which the extracted model evaluates on every tree the code builds. Schedule independence is a corollary. The very same Gallina term is extracted and run on exact non-negative rationals against the code (random linear extensions of the schedule, permuted attribute orders, -inf and 2^+-1200 potentials).',
   design='4/C01',
   note='Trusted: Coq kernel; extraction+driver; harness. Axiom: functional_extensionality_dep only (tables are functions on assignments). Hypothesis kept in the theorem: the junction-tree conditions rootokb (computed per case on the code\'s tree; textbook RIP implies them) and structural side conditions (symmetric duplicate-free neighbour lists, scopes inside the domain), evaluated as structb. float64 log-space vs exact rationals compared at 1e-9.'),
 'C02': dict(
   technique='Coq proof (variable elimination correct for every order; both project branches = marginal of the explicit joint; krondot; totals) over hand-written models + exact-rational differential correspondence of every query path',
   text='Props/C02.v: over any commutative semiring variable elimination equals the iterated sum of the product for EVERY elimination list; the uncached project path and (through C01_exact) the cached path both return the marginal of the single explicit joint scaled to the total, so the cache is irrelevant; answers sum to the total; krondot is the Kronecker query applied to the joint. Each run compares every code path (project cached/uncached in any requested order incl. () and full, calculate_many_marginals, krondot, datavector, after save+load) under random cache-populating interleavings with the exact joint marginal computed by the extracted model.',
   design='4/C02',
   note='partial: the chaining of conditionals in calculate_many_marginals along tree paths is compared with the joint per run, not proved; pickling is exercised, not modelled. Axiom: functional_extensionality_dep. Cached-path theorem inherits the junction-tree conditions of C01.'),
 'C03': dict(
   technique='Coq proof of the optimality certificate (convexity + Frank-Wolfe gap bound over all non-negative tables with the same total) + per-run decision against an independent NNLS reference and the certificate',
   text='Props/C03.v proves over exact rationals that for the stacked objective the loss of any table exceeds the loss of EVERY non-negative table with the same total by at most <grad,P> - N*min(grad) (convexity + the vertex bound). Per run each solver (MD/RDA/IG, with earlier calls on the same engine, cyclic/nested/permuted projections incl. chordless 5-rings) is judged independently of the estimator: the table the model answers from must be a valid table whose loss equals the loss of the marginal answers (never below the optimum), must be within 2e-2*max(1,loss) of the best of an NNLS reference and the other solvers (re-run once with 4x iterations, same call history), and no worse than the uniform start; the certificate gap of the reference is recorded as certified lower bound.',
   design='4/C03',
   note='partial: convergence of the three float solvers is observed with the iteration counts used, not proved; the generated stream is well conditioned (0/1 queries, noise >= 0.5). Theorems closed under the global context.'),
 'C04': dict(
   technique='Coq proof over exact rationals (second-order expansion: gradient = derivative, convexity, adjointness; grouping lemmas) + differential correspondence of the whole objective against _setup/_marginal_loss',
   text='Props/C04.v: for every query matrix, answers, noise scale, point and direction the model loss satisfies loss(x+d) = loss(x) + <grad x, d> + 1/2|cQd|^2 exactly (so the gradient used is the derivative and the loss is convex), the transpose used is the adjoint, and a measurement is grouped with a clique containing its projection. The model objective sums over the supplied measurement list (each once). Every run compares loss and every gradient entry of the code (all spellings: dense/sparse/operator/None, tuple/list/str; L2 and L1; earlier _setup calls on the same engine) with the model on exact rationals, and the smoothness constant with eigvalsh of the dense Hessian.',
   design='4/C04',
   note='partial: the smoothness bound is an eigenvalue statement checked numerically per case (not a theorem). Theorems closed under the global context. scipy sparse/LinearOperator products are external (compared through the result).'),
 'C07': dict(
   technique='Coq proof over a model TRANSLATED from mechanisms/cdp2adp.py on every run (Python ast -> Gallina) + validation of the translation against the running code',
   text='Gen/Cdp2adp_gen.v is regenerated from the source on every run and Props/C07.v is re-checked against it: for every number type (floats included) the returned rho/eps pass the code\'s own test (sound) and the other bisection end fails it; on the reals cdp_delta equals the published Renyi-order bound at an alpha in [1.01, amax0], the tested expression is the derivative of the log-bound (Coquelicot), is increasing, the optimum is bracketed at every iteration with width (amax0-1.01)/2^n, and the bound is monotone in rho and eps for every order. The generated functions are executed on floats against the real functions, and a property oracle (exact Gaussian delta, golden-section optimum, monotonicity, round trips) searches the code for a failing input.',
   design='4/C07',
   note='Trusted: Coq kernel, translator/py2gallina.py (validated per run), extraction + ocaml/cdp driver (libm exp/log/log1p/sqrt). Axioms under the R theorems: the standard Reals axioms (sig_forall_dec, sig_not_dec, functional_extensionality_dep) and Classical_Prop.classic; the generic soundness theorems are closed. NOT proved: Bound(alpha) >= exact Gaussian delta (published Prop. 12) - observed on the grid; monotonicity/inverse of the composed conversions - observed.'),
 'C08': dict(
   technique='Coq proof (answers of the modelled query paths are marginals of one explicit joint => agree on shared attributes, sum to the total; linearity of marginalisation) + exact-rational differential check of every returned model against the joint of its stored parameters',
   text='Props/C08.v: any two marginals of the explicit joint agree on the attributes they share and each sums to the total; marginalisation is linear (averaged iterates of consistent marginals are consistent); non-negativity is carried by the executed type. Each run takes the model returned by estimate (MD/RDA/IG, 1/2/50 iterations, early exits on empty measurement lists, structural zeros on/off, known/estimated totals), converts exp(stored potentials) to exact rationals and compares the stored clique marginals, in- and out-of-clique answers and the data vector with the exact joint marginals computed by the extracted model, plus finiteness/sign/sum.',
   design='4/C08',
   note='partial: mle_reproduces (BP(mle mu) = mu on a junction tree), which is what makes the RDA/IG parameters coherent with their averaged marginals, is NOT proved; it is observed per run. Known finding: float64 absorption for potentials beyond ~1e13 (known_findings.json). Axiom: functional_extensionality_dep.'),
 'C09': dict(
   technique='Coq proof over exact rationals (unbiasedness of accepted estimators, inverse-variance combination of equal estimates, lower bound 1) with the least-squares solution as oracle input + differential correspondence of the four copies of the estimation',
   text='Props/C09.v: an estimator v accepted by the row-space test Q^T v = 1 returns sum(x) on noise-free answers; the inverse-variance combination of estimates all equal to N >= 1 is N; the result is >= 1 and is 1 when nothing is accepted. Every run drives the four copies (FactoredInference.estimate with MD/RDA/IG and earlier calls on the same engine, LocalInference._setup, public_inference.estimate_total, mixture_inference.estimate_total exec\'d from source) over the query families of the quantifier, records the lsmr output, evaluates the exact model on it, and checks selection (exactly the measurements whose row space contains the ones vector, by dense lstsq), noise-free => N, known totals used exactly.',
   design='4/C09',
   note='partial: lsmr is external (its output is an oracle input; that it is the minimum-norm solution = BLUE, and optimality of inverse-variance weights, are not proved). Theorems closed under the global context.'),
 'C10': dict(
   technique='Coq proof (a zero potential entry annihilates its cells in every marginal of the explicit joint; updates keep zeros; guarded division; mass preserved) + differential checks of returned models with structural zeros',
   text='Props/C10.v: for every semifield instance, potentials, total and attribute list covering the zero clique, the marginal of the explicit joint is 0 on every cell whose projection is a declared zero; multiplicative updates keep a zero; x / 0 := x never yields an undefined value; the remaining mass sums to the total. Each run estimates with zero sets on measured cliques (any attribute order), sub-cliques and unmeasured groups, for MD/RDA/IG, 1-150 iterations, warm start on/off and a second call on the same engine, and checks every answer path (project in/out of clique, data vector, calculate_many_marginals) directly (mass <= 1e-30*total on declared cells, finite, sums to total) and against the exact joint of the stored parameters.',
   design='4/C10',
   note='The theorem is about the marginals of the stored parameters; that the solvers keep the declared cells at parameter -inf is observed per run (RDA did not: fixed in 9960fce). Synthetic records: C11. Axiom: functional_extensionality_dep.'),
 'C12': dict(
   technique='Coq proofs (triangulation covers inputs; recursive running intersection => single top node per attribute; checker soundness) + differential correspondence of the elimination model and verified checkers run on the code\'s tree',
   text='Props/C12.v: for every clique set and every elimination order the model of _triangulated yields an elimination clique containing each input clique; the computable conditions evaluated on the tree the code builds (rooted unfolding from every root reaches each node once, recursive running intersection, eliminated attributes = complement of the node) imply the textbook property that the nodes containing any attribute form one connected subtree; cover / attribute-coverage / antichain checks and the schedule check (each direction exactly once, after its dependencies) are proved sound. Each run compares the code\'s node set with the model\'s maximal elimination cliques (exhaustively for all graphs on <=4 (quick) / <=5 (thorough) attributes x orders, plus random sets up to 8 attributes) and evaluates the verified checkers on the code\'s tree and schedule.',
   design='4/C12',
   note='partial (rip_partial): that networkx\'s maximum-weight spanning tree always passes the running-intersection check is NOT proved in general; it is decided per tree by the verified checker. networkx find_cliques/minimum_spanning_tree/topological_sort/dfs are external, outputs validated. Theorems closed under the global context except functional_extensionality_dep where the rooted-tree library is used.'),
 'C14': dict(
   technique='Coq proof over a hand-written name-addressed Factor model (any value type, any scalar op) + differential correspondence of the extracted model against mbi.Factor/CliqueVector',
   text='Theorems (Props/C14.v): for every pair of factors over arbitrarily ordered/overlapping attribute lists and every scalar operation, each model operation (expand, transpose, binary ops through the merged domain, in-place variants, sum/max/logsumexp aggregation, project, condition, elementwise maps, CliqueVector combine) yields at every joint assignment the scalar operation applied to the operands\' values at that assignment, with result axes in the stated order; in-place = pure. The extracted model runs against the code on random factors (exact comparison; log-space ops after exp at 1e-9) on every run; a by-name Python oracle decides whether a disagreement is a property failure.',
   design='4/C14',
   note='Trusted: Coq kernel, extraction+driver, harness. numpy reshape/moveaxis/broadcast_to/sum(axis)/indexing are MODELLED by name-addressed tabulation (not verified) and tied by the correspondence. Axioms: none, except functional_extensionality_dep under C14_sum_is_sum_vars.'),
 'C15': dict(
   technique='Coq proof over a hand-written model (contingency-table and domain laws, any semiring) + differential correspondence of the extracted model against mbi.Dataset/mbi.Domain',
   text='Theorems (Props/C15.v) prove for every domain, record list, weight vector and projection list that the model\'s datavector is the contingency table in row-major order, that projection commutes with marginalise+transpose and carries weights, mass preservation, and the Domain set/product laws; the extracted model is run against the code on random domains/datasets with exact rational comparison on every run.',
   design='4/C15',
   note='Trusted: Coq kernel, extraction+OCaml driver, the harness; numpy.histogramdd/pandas column selection are modelled (index semantics) and tied only by the correspondence. Theorems closed under the global context.'),
}
NA_REASON = 'check not built yet (framework under construction; see DESIGN.md section 7 build order)'

def main():
    checks = []
    for pid in sorted(CHECKS):
        c = CHECKS[pid]
        checks.append(dict(property_id=pid, quick_cmd='./check %s quick' % pid, thorough_cmd='./check %s thorough' % pid,
                           evidence_file='/verif/evidence/%s.json' % pid, replay_cmd_template='./check %s --replay {path}' % pid,
                           engine='coq+correspondence',
                           level_claimed=dict(category='proof', text=c['text'], design_ref='DESIGN.md section ' + c['design']),
                           level_note=c['note'], technique=c['technique']))
    na = [dict(property_id='C%02d' % i, reason=NA_REASON) for i in range(1, 21) if 'C%02d' % i not in CHECKS]
    m = dict(version=1, setup_cmd='./setup.sh',
             hooks=dict(guard='PRIVATE_PGM_VERIF', enable='no hooks: checks import /repo\'s working tree directly (PYTHONPATH=/repo/src:/repo/mechanisms) and observe public return values, public attributes and numpy.random from outside',
                        baseline_off_cmd='cd /repo && /venv/bin/python -m pytest -ra -q -p no:cacheprovider --timeout=900 --continue-on-collection-errors',
                        source_commits=[], add_only=True),
             engines=[dict(name='coq+correspondence', path='/verif/check', serves_properties=sorted(CHECKS),
                           kind_free_text='Coq 8.16 theorems over executable Gallina models (coq/), extracted to OCaml (build/modelrun) and run differentially against /repo by harness/cXX.py')],
             checks=checks, not_applicable=na,
             notes='See DESIGN.md. known_findings.json lists recorded findings and fixed defects.')
    json.dump(m, open(os.path.join(V, 'MANIFEST.json'), 'w'), indent=1)
main()
