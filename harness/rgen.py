"""Shared helpers for the approximate-oracle properties (C16, C17, C18): structures, serialisation of the code's region graph /
factor graph for the float sweep models (build/numrun), brute-force reference."""
import itertools, math
import numpy as np

NAMES = ['a', 'b', 'c', 'd', 'e', 'f', 'g']
IDS = {n: i for i, n in enumerate(NAMES)}


def hx(v):
    return float(v).hex()


def gen_structure(rng, kind):
    """returns attrs, sizes, cliques.  kinds: chain, star, tree3 (tree of 3-cliques), disconnected (all satisfy running intersection
    with maximal cliques only), loop, dense, nested (arbitrary)."""
    if kind == 'chain':
        k = rng.randint(2, 5); at = rng.sample(NAMES, k)
        cl = [tuple(rng.sample([at[i], at[i + 1]], 2)) for i in range(k - 1)]
    elif kind == 'star':
        k = rng.randint(3, 5); at = rng.sample(NAMES, k)
        cl = [tuple(rng.sample([at[0], a], 2)) for a in at[1:]]
    elif kind == 'tree3':
        k = rng.choice([4, 5, 6]); at = rng.sample(NAMES, k)
        cl = [tuple(at[0:3])]
        for i in range(3, k):
            base = rng.choice(cl)
            cl.append(tuple(rng.sample(list(base), 2) + [at[i]]))
    elif kind == 'deep':
        # separators nest three deep (bcd > cd > d): a four-level region graph that still has the running-intersection property
        at = rng.sample(NAMES, 7)
        a, b, c, d, e, f, g = at
        cl = [(a, b, c, d), (b, c, d, e), (c, d, f), (d, g)]
        cl = [tuple(rng.sample(list(x), len(x))) for x in cl]
        rng.shuffle(cl)
        return at, [2] * 7, cl
    elif kind == 'disconnected':
        at = rng.sample(NAMES, 4)
        cl = [(at[0], at[1]), (at[2], at[3])] if rng.random() < 0.6 else [(at[0], at[1]), (at[2],), (at[3],)]
    elif kind == 'loop':
        k = rng.randint(3, 5); at = rng.sample(NAMES, k)
        cl = [tuple(rng.sample([at[i], at[(i + 1) % k]], 2)) for i in range(k)]
    elif kind == 'dense':
        k = rng.randint(3, 4); at = rng.sample(NAMES, k)
        cl = [tuple(c) for c in itertools.combinations(at, 2)]
    else:   # nested: a clique together with one of its sub-cliques
        k = rng.randint(3, 4); at = rng.sample(NAMES, k)
        cl = [tuple(at[0:2]), tuple(at[1:3]), (at[1],)] + ([tuple(at[2:4])] if k == 4 else [])
    sizes = [rng.choice([2, 2, 3]) for _ in at]
    rng.shuffle(cl)
    return at, sizes, cl


def brute_marginals(attrs, sizes, pots, total, targets):
    """pots: dict clique -> ndarray of LOG potentials (axes in clique order); float brute force."""
    shape = sizes
    logp = np.zeros(shape)
    for cl, arr in pots.items():
        ax = [attrs.index(a) for a in cl]
        order = np.argsort(ax)
        a2 = np.transpose(np.asarray(arr, dtype=float), order)
        sh = [sizes[i] if i in ax else 1 for i in range(len(attrs))]
        logp = logp + a2.reshape(sh)
    m = logp.max()
    P = np.exp(logp - m); P = P * total / P.sum()
    out = {}
    for t in targets:
        ax = tuple(i for i, a in enumerate(attrs) if a not in t)
        marg = P.sum(axis=ax) if ax else P
        kept = [a for a in attrs if a in t]
        out[t] = np.transpose(marg, [kept.index(a) for a in t])
    return out


def region_line(cmd, rg, potentials, total, rho, sweeps, calls=1):
    """serialise a RegionGraph (structure from the code) and the potentials for the float model."""
    regs = list(rg.cliques)              # all regions, sorted by length
    idx = {r: i for i, r in enumerate(regs)}
    cfg = dict(zip(rg.domain.attrs, rg.domain.shape))
    parts = [cmd, hx(total), hx(rho), str(sweeps), str(calls), str(len(regs))]
    for r in regs:
        parts.append(str(len(r)) + ' ' + ' '.join('%d %d' % (IDS[a], cfg[a]) for a in r))
        parts.append('%d %s' % (len(rg.parents[r]), ' '.join(str(idx[p]) for p in rg.parents[r])))
        parts.append('%d %s' % (len(rg.children[r]), ' '.join(str(idx[c]) for c in rg.children[r])))
        f = potentials[r]
        assert tuple(f.domain.attrs) == tuple(r)
        parts.append(' '.join(hx(v) for v in np.asarray(f.values, dtype=float).reshape(-1)))
    return ' '.join(parts), regs, idx


def gbp_line(rg, potentials, total, sweeps):
    line, regs, idx = region_line('gbp', rg, potentials, total, 0.5, sweeps)
    order = list(rg.message_order)
    el = lambda l: '%d %s' % (len(l), ' '.join('%d %d' % (idx[a], idx[b]) for a, b in l))
    parts = [line, el(order)]
    for e in order:
        parts.append(el(list(rg.N[e])))
    for e in order:
        parts.append(el(list(rg.D[e])))
    for r in regs:
        parts.append(el(list(rg.B[r])))
    parts.append('%d %s' % (len(regs), ' '.join(str(i) for i in range(len(regs)))))
    return ' '.join(parts), regs


def lbp_line(fg, potentials, total, sweeps):
    cfg = dict(zip(fg.domain.attrs, fg.domain.shape))
    parts = ['lbp', hx(total), str(sweeps), str(len(fg.cliques))]
    for cl in fg.cliques:
        f = potentials[cl]
        assert tuple(f.domain.attrs) == tuple(cl)
        parts.append(str(len(cl)) + ' ' + ' '.join('%d %d' % (IDS[a], cfg[a]) for a in cl))
        parts.append(' '.join(hx(v) for v in np.asarray(f.values, dtype=float).reshape(-1)))
    parts.append(str(len(fg.domain.attrs)) + ' ' + ' '.join('%d %d' % (IDS[a], cfg[a]) for a in fg.domain.attrs))
    return ' '.join(parts)


def split_tables(flat, shapes):
    out, pos = [], 0
    for sh in shapes:
        n = int(np.prod(sh)) if len(sh) else 1
        out.append(np.array(flat[pos:pos + n]).reshape(sh))
        pos += n
    return out, pos == len(flat)
