#!/bin/bash
# (Re)extract the executable models and build build/modelrun.  Requires the .vo files (make -C coq).
set -e
cd "$(dirname "$0")/.."
mkdir -p build
cd build
timeout 600 coqc -Q ../coq PGM ../coq/Extract/Extract.v >extract.log 2>&1 || { cat extract.log; exit 1; }
cp ../ocaml/*.ml .
DRV=$(ls drv_*.ml | sort | tr '\n' ' ')
timeout 600 ocamlfind ocamlopt -w -a -O2 -package str model.mli model.ml io.ml $DRV main.ml -o modelrun 2>build.log || \
timeout 600 ocamlfind ocamlopt -w -a model.mli model.ml io.ml $DRV main.ml -o modelrun 2>build.log || { cat build.log; exit 1; }
