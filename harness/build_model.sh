#!/bin/bash
# (Re)extract the executable models and build build/modelrun (and build/cdprun, the generated C07 model).
# Requires the .vo files (make -C coq).   usage: build_model.sh [main|cdp|all]
set -e
cd "$(dirname "$0")/.."
what="${1:-all}"
mkdir -p build/main build/cdp build/gen
if [ "$what" = main ] || [ "$what" = all ]; then
  cd build/main
  timeout 900 coqc -Q ../../coq PGM ../../coq/Extract/Extract.v >extract.log 2>&1 || { cat extract.log; exit 1; }
  cp ../../ocaml/*.ml .
  DRV=$(ls drv_*.ml | sort | tr '\n' ' ')
  timeout 900 ocamlfind ocamlopt -w -a -O2 model.mli model.ml io.ml $DRV main.ml -o ../modelrun.new 2>build.log || \
  timeout 900 ocamlfind ocamlopt -w -a model.mli model.ml io.ml $DRV main.ml -o ../modelrun.new 2>build.log || { cat build.log; exit 1; }
  mv ../modelrun.new ../modelrun
  cd ../..
fi
if [ "$what" = num ] || [ "$what" = all ]; then
  mkdir -p build/num
  cd build/num
  timeout 600 coqc -Q ../../coq PGM ../../coq/Extract/ExtractNum.v >extract.log 2>&1 || { cat extract.log; exit 1; }
  cp ../../ocaml/num/*.ml .
  timeout 600 ocamlfind ocamlopt -w -a num_model.mli num_model.ml num_ext.ml num_main.ml -o ../numrun.new 2>build.log || { cat build.log; exit 1; }
  mv ../numrun.new ../numrun
  cd ../..
fi
if [ "$what" = cdp ] || [ "$what" = all ]; then
  cd build/cdp
  rm -f ../cdprun
  timeout 600 coqc -Q ../../coq PGM ../../coq/Extract/ExtractCdp.v >extract.log 2>&1 || { cat extract.log; exit 1; }
  cp ../../ocaml/cdp/cdp_main.ml .
  timeout 600 ocamlfind ocamlopt -w -a cdp_model.mli cdp_model.ml cdp_main.ml -o ../cdprun 2>build.log || { cat build.log; exit 1; }
  cd ../..
fi
if [ "$what" = gen ] || [ "$what" = all ]; then
  cd build/gen
  rm -f ../genrun
  timeout 600 coqc -Q ../../coq PGM ../../coq/Extract/ExtractGen.v >extract.log 2>&1 || { cat extract.log; exit 1; }
  cp ../../ocaml/io.ml ../../ocaml/main.ml ../../ocaml/gen/gen_main.ml .
  timeout 600 ocamlfind ocamlopt -w -a model.mli model.ml io.ml gen_main.ml main.ml -o ../genrun 2>build.log || { cat build.log; exit 1; }
  cd ../..
fi
