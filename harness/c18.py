"""C18 — approximate estimation is valid, and exact when nothing is relaxed.
Theorems (Props/C18.v): every table an oracle returns is normalised (any messages); with no region-graph edges (pairwise disjoint
cliques) local consistency is vacuous and the certificate of C17 makes the oracle's beliefs N*softmax(theta) the exact maximiser, so
the problem solved is the one exact estimation solves; the post-iteration loop exits with feasibility < 1 or after 1000 sweeps.
The message-passing sweeps themselves are tied to the code by C16/C17.  Per run: LocalInference.estimate for every marginal oracle
(convex, approx, pairwise) x iteration counts x measurement sets: completes without error; every measured clique's table finite,
non-negative, summing to the total; fit no worse than the uniform start; convex oracle: overlapping tables agree within the
feasibility tolerance the estimator enforces; disjoint families: loss vs the exact optimum (independent per-clique NNLS)."""
import itertools, json, math
import numpy as np
import common, infgen, c03, rgen


def disjoint_problem(rng):
    names = rng.sample(infgen.NAMES, rng.randint(2, 4))
    sizes = [rng.choice([2, 3, 4]) for _ in names]
    # partition the attributes into disjoint cliques
    rest = list(names); rng.shuffle(rest)
    cliques = []
    while rest:
        k = rng.randint(1, min(2, len(rest)))
        cliques.append(tuple(rest[:k])); rest = rest[k:]
    cfg = dict(zip(names, sizes))
    N = rng.choice([20, 100])
    ms = []
    for cl in cliques:
        for rep in range(rng.randint(1, 2)):
            p = math.prod(cfg[a] for a in cl)
            mv = np.array([rng.random() for _ in range(p)]); mv = mv * N / mv.sum()
            Q = np.eye(p)        # well-conditioned: cumulative queries at small noise need > 5000 mirror-descent steps (slow, not wrong)
            sigma = rng.choice([0.5, 1.0, 2.0, 9.0])
            # a repeated measurement keeps the attribute order: (a,b) and (b,a) are two factor nodes for the pairwise oracle, tied only through
            # single-attribute marginals, i.e. two measured cliques that DO share attributes - outside the exactness clause
            proj = tuple(cl); mvp = mv
            ms.append(dict(proj=proj, Q=Q, y=Q @ mvp + np.array([rng.gauss(0, sigma) for _ in range(p)]), sigma=sigma, kind='identity/prefix', spelling='dense', mv=mvp))
    return dict(attrs=names, sizes=sizes, N=N, ms=ms), cliques


def fresh_answers(rng, prob, N):
    """another measurement set on the same cliques (a different dataset): used as the EARLIER call on the same engine"""
    ms = []
    for m in prob['ms']:
        p = m['Q'].shape[1]
        mv = np.array([rng.random() for _ in range(p)]); mv = mv * N / mv.sum()
        ms.append(dict(m, mv=mv, y=m['Q'] @ mv + np.array([rng.gauss(0, m['sigma']) for _ in range(m['Q'].shape[0])])))
    return dict(prob, ms=ms)


TEMPLATES = [('abc', 'bcd', 'be'), ('abc', 'bcd', 'bef', 'beg'), ('abc', 'abd', 'ae'), ('abc', 'bcd', 'cde'), ('abc', 'ab', 'a'), ('ab', 'bc', 'cd', 'da'), ('abc', 'cd', 'd')]


def structured_problem(rng):
    """overlapping cliques whose region graph has three or more levels / several parents per region"""
    tpl = rng.choice(TEMPLATES)
    letters = sorted(set(''.join(tpl)))
    ren = dict(zip(letters, rng.sample(rgen.NAMES, len(letters))))
    attrs = [ren[l] for l in letters]; rng.shuffle(attrs)
    sizes = [2] * len(attrs)
    cfg = dict(zip(attrs, sizes))
    N = rng.choice([100, 200])
    cells = list(itertools.product(*[range(s) for s in sizes]))
    w = np.array([rng.random() ** 3 for _ in cells]); x = N * w / w.sum()
    ms = []
    for cl in tpl:
        proj = tuple(rng.sample([ren[l] for l in cl], len(cl)))
        pos = [attrs.index(a) for a in proj]
        mv = np.zeros([2] * len(proj))
        for c, v in zip(cells, x):
            mv[tuple(c[p] for p in pos)] += v
        mv = mv.reshape(-1); p = mv.size
        sigma = rng.choice([0.5, 1.0, 3.0])
        ms.append(dict(proj=proj, Q=np.eye(p), y=mv + np.array([rng.gauss(0, sigma) for _ in range(p)]), sigma=sigma, kind='identity', spelling=rng.choice(['dense', 'sparse']), mv=mv))
    return dict(attrs=attrs, sizes=sizes, N=N, ms=ms)


def marg(t, attrs_r, shape_r, shared):
    a = np.asarray(t, dtype=float).reshape(shape_r)
    ax = tuple(i for i, x in enumerate(attrs_r) if x not in shared)
    m = a.sum(axis=ax) if ax else a
    kept = [x for x in attrs_r if x in shared]
    return np.transpose(m, [kept.index(x) for x in shared])


def main(chk):
    from mbi import Domain, LocalInference
    chk.prove()
    rng = chk.rng
    n = 15 if chk.tier == 'quick' else 150
    for it in range(n):
        stream = ('overlapping', 'disjoint', 'structured')[it % 3]
        disjoint = stream == 'disjoint'
        cliques = None
        if disjoint:
            prob, cliques = disjoint_problem(rng)
        elif stream == 'structured':
            prob = structured_problem(rng)
        else:
            prob = infgen.gen_problem(rng, max_attrs=4, max_cells=100)
            for m in prob['ms']:
                if m['kind'] in ('dense', 'wide'):
                    p = m['Q'].shape[1]; m['Q'] = np.eye(p); m['kind'] = 'identity'
                m['sigma'] = max(m['sigma'], 0.5)
                if m['spelling'] == 'none':
                    m['spelling'] = 'dense'       # LocalInference documents Q as an array / sparse matrix / LinearOperator: Q=None is not part of its interface
                m['y'] = m['Q'] @ (m['mv'] * min(1.0, 200.0 / max(1.0, float(np.sum(m['mv']))))) + np.array([rng.gauss(0, m['sigma']) for _ in range(m['Q'].shape[0])])
            prob['N'] = min(prob['N'], 200)
        known = rng.random() < 0.7
        history = rng.random() < 0.5
        earlier = fresh_answers(rng, prob, prob['N']) if history else None
        cfg = dict(zip(prob['attrs'], prob['sizes']))
        for oracle in ('convex', 'approx', 'pairwise'):
            iters = rng.choice([60, 300, 60, 300, 1, 2, 3, 7, 15]) if not disjoint else 1500      # also very few iterations: the fit must still be no worse than the uniform start
            info = dict(infgen.describe(prob), stream=stream, oracle=oracle, iters=iters, disjoint_cliques=disjoint, total=('known' if known else 'estimated'),
                        earlier_call_on_same_engine=(infgen.describe(earlier)['measurements'] if history else None))
            chk.count('oracle.' + oracle); chk.count('stream.' + stream); chk.count('history.' + ('second-call' if history else 'fresh-engine'))
            try:
                with infgen.quiet(), np.errstate(all='ignore'):
                    eng = LocalInference(Domain(prob['attrs'], prob['sizes']), iters=iters, marginal_oracle=oracle)
                    if history:
                        eng.iters = 20
                        eng.estimate(infgen.measurements(earlier), total=float(prob['N']))
                        eng.iters = iters
                    model = eng.estimate(infgen.measurements(prob), total=(float(prob['N']) if known else None))
            except Exception as e:
                chk.violation(dict(kind='exception', oracle=oracle, what=common.exc_kind(e)), 'LocalInference(%s).estimate raised %s: %s' % (oracle, common.exc_kind(e), str(e)[:100]), info, found_input=True)
                continue
            total = float(model.total)
            chk.case((it, oracle), len(prob['ms']) >= 2, dict(info, model_total=total) if len(chk.samples) < 3 else None)
            bad = None
            answers = {}
            with np.errstate(all='ignore'):
                for m in prob['ms']:
                    t = np.asarray(model.project(tuple(m['proj'])).datavector(), dtype=float)
                    answers[tuple(m['proj'])] = t
                    if not np.all(np.isfinite(t)) or t.min() < -1e-9 * total or abs(t.sum() - total) > 1e-6 * max(1.0, total):
                        bad = 'table of the measured clique %s is not finite / non-negative / summing to the total (sum %.9g, total %.9g)' % (''.join(m['proj']), float(t.sum()), total); break
            if not bad:
                L = infgen.loss_of_answers(prob, lambda pr: answers[tuple(pr)])
                Lu = infgen.loss_of_answers(prob, lambda pr: np.full(answers[tuple(pr)].shape, total / answers[tuple(pr)].size))
                info.update(loss=L, loss_uniform=Lu)
                dmp = getattr(model, 'damping', None)
                if L > Lu * (1 + 1e-6) + 1e-6:
                    bad = 'fit %.6g is worse than the uniform start %.6g' % (L, Lu)
                elif oracle != 'pairwise' and not (0.5 <= dmp <= 0.9):
                    bad = 'damping %r left the range [0.5, 0.9] of the schedule rho <- (0.9 + rho)/2' % dmp
                elif oracle == 'convex':
                    pf = float(model.primal_feasibility(model.marginals))
                    nedges = sum(len(model.children[r]) for r in model.regions) if hasattr(model, 'children') else 1
                    info['primal_feasibility'] = pf
                    if not (pf < 1.0 + 1e-9) and iters < 1000:
                        bad = 'convex oracle: overlapping tables disagree by %.3g on average, above the tolerance 1.0 the estimator enforces' % pf       # it runs up to 1000 extra sweeps to get below 1.0
                    else:
                        # independent of the oracle's own edge list: measured cliques r, s with a shared sub-clique I are joined through I by region-graph
                        # edges, each contributing its L1 disagreement; average < 1 over the edges bounds every pair by (#edges) * 1.0
                        keys = list(answers)
                        for r, s2 in itertools.combinations(keys, 2):
                            shared = [a for a in r if a in s2]
                            if not shared:
                                continue
                            d = float(np.abs(marg(answers[r], list(r), [cfg[a] for a in r], shared) - marg(answers[s2], list(s2), [cfg[a] for a in s2], shared)).sum())
                            if d > max(1, nedges) * 1.0 + 1e-6 and pf < 1.0:
                                info['overlap_disagreement'] = d
                                bad = 'convex oracle: tables of %s and %s disagree on their shared attributes by %.4g (L1), more than the enforced feasibility tolerance allows (%d edges x 1.0)' % (''.join(r), ''.join(s2), d, nedges)
                                break
                if not bad and disjoint:
                    # nothing is relaxed: the exact optimum is the sum of independent per-clique simplex-constrained least squares
                    Lstar = 0.0
                    for cl in cliques:
                        sub = dict(attrs=list(cl), sizes=[prob['sizes'][prob['attrs'].index(a)] for a in cl], ms=[m for m in prob['ms'] if set(m['proj']) == set(cl)])
                        if not sub['ms']:
                            continue
                        A, b = c03.stack(sub)
                        P = c03.reference(A, b, total)
                        Lstar += 0.5 * float(((A @ P - b) ** 2).sum())
                    info['exact_optimum'] = Lstar
                    if L > Lstar + 2e-2 * max(1.0, Lstar):
                        # slow or wrong?  the same calls with four times the iterations decide
                        with infgen.quiet(), np.errstate(all='ignore'):
                            eng = LocalInference(Domain(prob['attrs'], prob['sizes']), iters=4 * iters, marginal_oracle=oracle)
                            if history:
                                eng.iters = 20; eng.estimate(infgen.measurements(earlier), total=float(prob['N'])); eng.iters = 4 * iters
                            model4 = eng.estimate(infgen.measurements(prob), total=(float(prob['N']) if known else None))
                            ans4 = {tuple(m['proj']): np.asarray(model4.project(tuple(m['proj'])).datavector(), dtype=float) for m in prob['ms']}
                        L = infgen.loss_of_answers(prob, lambda pr: ans4[tuple(pr)]); info['loss_at_4x_iterations'] = L
                        chk.count('rerun-at-4x-iterations')
                    if L > Lstar + 2e-2 * max(1.0, Lstar):
                        bad = 'disjoint cliques (local = global consistency): loss %.6g, exact estimation attains %.6g' % (L, Lstar)
            if bad:
                chk.violation(dict(kind='local', oracle=oracle, disjoint=disjoint), '%s: %s' % (oracle, bad), info, found_input=True)
    return chk.finish(rule='three streams in turn: overlapping problems (as C03: 2-4 attributes, 1-5 measurements, identity/prefix queries, noise >= .5), disjoint clique families (1-2 measurements per clique in the same '
                      'attribute order, different noise scales), structured overlapping cliques whose region graph has >= 3 levels / several parents per region; x oracles {convex, approx, pairwise} x iterations '
                      '{60, 300} (disjoint: 1500), known/estimated totals, fresh engine or a second estimate call on an engine that already fitted other answers. Checks: no exception; every measured clique\'s table '
                      'finite, >= 0, sums to the total; loss <= loss(uniform); damping within [.5,.9]; convex: primal feasibility < 1 and every pair of measured cliques agrees on shared attributes within (#edges)*1.0; '
                      'disjoint: loss within 2e-2*max(1,.) of the independent per-clique NNLS optimum (a miss is re-run with 4x the iterations before it counts). Non-trivial = >= 2 measurements.',
                      assumptions=['the message-passing sweeps are tied to the code by C16 / C17; convergence of mirror descent and termination of the restart recursion are observed, not proved (partial)',
                                   '\'pairwise-convex\' needs cvxopt (absent) and is outside the statement; Q=None is not part of LocalInference\'s interface'])


def replay(chk, rp):
    print(json.dumps(rp, indent=1, default=str)[:4000])
    return 0
