"""Two-run privacy recorder shared by C05 and C06.
numpy.random.normal / laplace / choice are wrapped FROM OUTSIDE (no hook in /repo).  A noise draw made by a file under
mechanisms/ returns an ndarray subclass whose __array_ufunc__ captures the operand it is added to; a `choice(n, p=...)` made by
a file under mechanisms/ is a private selection.  Run 1 (dataset D) records released values and selections; run 2 (neighbour D')
is FORCED to observe the same released values and selections.  Post-processing randomness (anything else) comes from the global
numpy generator, re-seeded identically for both runs."""
import contextlib, importlib, io, math, os, sys
import numpy as np
import pandas as pd

_REAL = dict(normal=np.random.normal, laplace=np.random.laplace, choice=np.random.choice)


class Noise(np.ndarray):
    """zero-information placeholder for a noise vector; adding it to an operand yields the released value."""
    def __new__(cls, values, rec, idx):
        obj = np.asarray(values, dtype=float).view(cls)
        obj._rec, obj._idx = rec, idx
        return obj
    def __array_finalize__(self, obj):
        self._rec = getattr(obj, '_rec', None); self._idx = getattr(obj, '_idx', None)
    def __array_ufunc__(self, ufunc, method, *inputs, **kwargs):
        rec, idx = self._rec, self._idx
        plain = [np.asarray(x).view(np.ndarray) if isinstance(x, Noise) else x for x in inputs]
        if rec is not None and ufunc is np.add and method == '__call__' and len(inputs) == 2 and 'out' not in kwargs:
            other = plain[1] if inputs[0] is self else plain[0]
            return rec.released(idx, np.asarray(other, dtype=float), np.asarray(self).view(np.ndarray))
        if rec is not None:
            rec.events[idx]['misuse'] = 'noise combined by %s.%s instead of a plain addition' % (ufunc.__name__, method)
        return getattr(ufunc, method)(*plain, **kwargs)


class Recorder:
    def __init__(self, mode, seed, prior=None):
        self.mode, self.prior, self.seed = mode, prior, seed
        self.events = []
        self.rs = np.random.RandomState(seed)
        self.diverged = None
        self.sel_args = []
        self.true_l1_sens = 1.0       # L1 error scores move by 1 under add/remove, 2 under replace-one

    def _site(self):
        f = sys._getframe(2)
        while f is not None:
            fn = f.f_code.co_filename
            if os.sep + 'mechanisms' + os.sep in fn and not fn.endswith('dprec.py'):
                return os.path.basename(fn), f.f_code.co_name
            if os.sep + 'mbi' + os.sep in fn:
                return None
            f = f.f_back
        return None

    def _prior_event(self, kind):
        i = len(self.events)
        if self.prior is None:
            return None
        if i >= len(self.prior.events) or self.prior.events[i]['kind'] != kind:
            if self.diverged is None:
                self.diverged = 'event %d: %s here, %s in the first run' % (i, kind, self.prior.events[i]['kind'] if i < len(self.prior.events) else 'nothing')
            return None
        return self.prior.events[i]

    def noise(self, kind, loc, scale, size):
        site = self._site()
        if site is None:
            return _REAL[kind](loc, scale, size)
        n = int(np.prod(size)) if size is not None else 1
        ev = dict(kind=kind, scale=float(np.max(np.atleast_1d(scale))), scale_vector=(np.atleast_1d(scale).size > 1), loc=float(np.max(np.abs(np.atleast_1d(loc)))), size=n, site=site, operand=None, released=None)
        pe = self._prior_event(kind)
        vals = getattr(self.rs, kind)(0.0, ev['scale'] if ev['scale'] > 0 and math.isfinite(ev['scale']) else 1.0, n) if self.mode == 'record' else np.zeros(n)
        self.events.append(ev)
        ev['_prior'] = pe
        ev['_vals'] = vals
        return Noise(vals.reshape(size) if size is not None and not np.isscalar(size) else vals, self, len(self.events) - 1)

    def released(self, idx, operand, vals):
        ev = self.events[idx]
        ev['operand'] = operand.copy()
        if self.mode == 'record':
            ev['released'] = operand + vals
        else:
            pe = ev.get('_prior')
            if pe is not None and pe.get('released') is not None and pe['released'].shape == operand.shape:
                ev['released'] = pe['released'].copy()
            else:
                if self.diverged is None:
                    self.diverged = 'event %d: released value of the first run not available / other shape' % idx
                ev['released'] = operand + vals
        return ev['released'].copy()

    def choice(self, a, size=None, replace=True, p=None):
        site = self._site()
        if site is None or size is not None or p is None:
            return _REAL['choice'](a, size, replace, p)
        ev = dict(kind='select', p=np.array(p, dtype=float), n=int(a) if np.isscalar(a) else len(a), site=site)
        pe = self._prior_event('select')
        self.events.append(ev)
        if self.mode == 'record':
            pp = ev['p'] / ev['p'].sum() if np.all(np.isfinite(ev['p'])) and ev['p'].sum() > 0 else None
            ev['index'] = int(self.rs.choice(len(ev['p']), p=pp))
        else:
            if pe is not None and pe['n'] == ev['n']:
                ev['index'] = pe['index']
            else:
                if self.diverged is None:
                    self.diverged = 'event %d: selection over %d candidates here, %s in the first run' % (len(self.events) - 1, ev['n'], pe['n'] if pe else 'none')
                ev['index'] = 0
        return ev['index'] if np.isscalar(a) else a[ev['index']]


@contextlib.contextmanager
def patched(rec, cap_iters=15):
    import mbi
    np.random.normal = lambda loc=0.0, scale=1.0, size=None: rec.noise('normal', loc, scale, size)
    np.random.laplace = lambda loc=0.0, scale=1.0, size=None: rec.noise('laplace', loc, scale, size)
    np.random.choice = lambda a, size=None, replace=True, p=None: rec.choice(a, size, replace, p)
    real_est = mbi.FactoredInference.estimate
    def est(self, *a, **kw):
        self.iters = min(self.iters, cap_iters)          # post-processing only: the privacy accounting does not depend on it
        return real_est(self, *a, **kw)
    mbi.FactoredInference.estimate = est
    # record the arguments each private selection is parameterised with (epsilon, sensitivity it is told, sensitivity its scores really have)
    undo = []
    def wrap(obj, attr, fn):
        orig = getattr(obj, attr)
        setattr(obj, attr, fn(orig)); undo.append((obj, attr, orig))
    mst = importlib.import_module('mst'); ag = importlib.import_module('adaptive_grid'); mw = importlib.import_module('mwem+pgm')
    mechm = importlib.import_module('mechanisms.mechanism'); aim = importlib.import_module('aim')
    def w_em(orig):
        def f(q, eps, sensitivity, *a, **kw):
            rec.sel_args.append(dict(eps=float(eps), sens_given=float(sensitivity), sens_true=1.0, where='exponential_mechanism'))
            return orig(q, eps, sensitivity, *a, **kw)
        return f
    wrap(mst, 'exponential_mechanism', w_em); wrap(ag, 'exponential_mechanism', w_em)
    def w_mwem(orig):
        def f(workload_answers, est_, workload, eps, penalty=True, bounded=False):
            rec.sel_args.append(dict(eps=float(eps), sens_given=(2.0 if bounded else 1.0), sens_true=rec.true_l1_sens, where='worst_approximated'))
            return orig(workload_answers, est_, workload, eps, penalty, bounded)
        return f
    wrap(mw, 'worst_approximated', w_mwem)
    def w_aim(orig):
        def f(self, candidates, answers, model, eps, sigma):
            rec.aim_max_weight = max(abs(v) for v in candidates.values())
            return orig(self, candidates, answers, model, eps, sigma)
        return f
    wrap(aim.AIM, 'worst_approximated', w_aim)
    def w_mech(orig):
        def f(self, qualities, epsilon, sensitivity=1.0, base_measure=None):
            rec.sel_args.append(dict(eps=float(epsilon), sens_given=float(sensitivity), sens_true=float(getattr(rec, 'aim_max_weight', sensitivity)) * rec.true_l1_sens, where='Mechanism.exponential_mechanism'))
            return orig(self, qualities, epsilon, sensitivity, base_measure)
        return f
    wrap(mechm.Mechanism, 'exponential_mechanism', w_mech)
    try:
        with contextlib.redirect_stdout(io.StringIO()), np.errstate(all='ignore'):
            yield
    finally:
        np.random.normal, np.random.laplace, np.random.choice = _REAL['normal'], _REAL['laplace'], _REAL['choice']
        mbi.FactoredInference.estimate = real_est
        for obj, attr, orig in undo:
            setattr(obj, attr, orig)


def make_data(rng, with_size1=False):
    from mbi import Dataset, Domain
    k = rng.randint(2, 4)
    names = rng.sample(['a', 'b', 'c', 'd', 'e'], k)
    sizes = [rng.choice([2, 2, 3, 4]) for _ in names]
    if with_size1:
        sizes[rng.randrange(k)] = 1
    n = rng.choice([20, 50, 120])
    rows = [[min(int(abs(rng.gauss(0, s / 2.0))), s - 1) for s in sizes] for _ in range(n)]
    df = pd.DataFrame(rows, columns=names)
    return Dataset(df, Domain(names, sizes)), names, sizes


def neighbour(rng, data, bounded):
    from mbi import Dataset
    df = data.df.copy()
    i = rng.randrange(df.shape[0])
    if bounded:
        for a, s in zip(data.domain.attrs, data.domain.shape):
            old = int(df.loc[df.index[i], a])
            # the replacement differs in every attribute that has another value: every marginal then moves by the full L1 = 2 / L2 = sqrt 2
            df.loc[df.index[i], a] = rng.choice([v for v in range(s) if v != old]) if s >= 2 else old
        return Dataset(df.reset_index(drop=True), data.domain), 'replace record %d' % i
    return Dataset(df.drop(df.index[i]).reset_index(drop=True), data.domain), 'remove record %d' % i


def run_mechanism(name, params, data):
    if name == 'mst':
        mod = importlib.import_module('mst')
        return mod.MST(data, params['epsilon'], params['delta'])
    if name == 'aim':
        mod = importlib.import_module('aim')
        mms = params.get('max_model_size', 80)
        if mms == 'grow':
            # two-way marginals become admissible only after ~45% of the budget has been used (the candidate set grows during the run)
            attrs = list(data.domain.attrs)
            mms = mod.hypothetical_model_size(data.domain, [(a,) for a in attrs] + [tuple(attrs[:2])]) / 0.45
        kw = dict(rounds=params.get('rounds'), max_model_size=mms)
        if params.get('explicit_prng'):
            kw['prng'] = np.random
        mech = mod.AIM(params['epsilon'], params['delta'], **kw)
        W = [(cl, 1.0) for cl in params['workload']]
        return mech.run(data, W)
    if name == 'mwem':
        mod = importlib.import_module('mwem+pgm')
        return mod.mwem_pgm(data, params['epsilon'], params['delta'], workload=params['workload'], rounds=params['rounds'], pgm_iters=15,
                            noise=params['noise'], bounded=params['bounded'])
    if name == 'adagrid':
        mod = importlib.import_module('adaptive_grid')
        kw = {}
        if params.get('split') is not None:
            kw['split_strategy'] = list(params['split'])
        return mod.adagrid(data, params['epsilon'], params['delta'], params['threshold'], targets=params.get('targets', []), iters=15, **kw)
    raise KeyError(name)


def gen_params(rng, name, names):
    import itertools
    eps = rng.choice([0.5, 1.0, 3.0, 30.0])
    delta = rng.choice([1e-6, 1e-9])
    p = dict(epsilon=eps, delta=delta)
    pairs = [tuple(c) for c in itertools.combinations(names, 2)]
    if name == 'aim':
        p.update(workload=pairs + ([tuple(names[:3])] if len(names) >= 3 and rng.random() < 0.3 else []), rounds=rng.choice([None, None, 4 * len(names), 30]),
                 explicit_prng=rng.random() < 0.3, max_model_size=rng.choice([80, 'grow', 'grow']))
        if len(names) >= 3 and rng.random() < 0.35:
            # a workload whose downward closure does not touch every attribute: the untouched attributes must still be in the output
            keep = names[:-1] if rng.random() < 0.5 else names[1:]
            p['workload'] = [tuple(c) for c in itertools.combinations(keep, 2)]
            p['partial_workload'] = True
    elif name == 'mwem':
        p.update(workload=pairs + ([pairs[0]] if rng.random() < 0.2 else []), rounds=rng.choice([1, 2, 3]), noise=rng.choice(['gaussian', 'gaussian', 'laplace', 'Laplace']), bounded=rng.random() < 0.5)
    elif name == 'adagrid':
        p.update(threshold=rng.choice([3.0, 5.0]), targets=([names[-1]] if len(names) >= 3 and rng.random() < 0.4 else []),
                 split=rng.choice([None, None, [0.1, 0.1, 0.8], [1, 1, 2], [0.2, 0.3, 0.5]]))
    return p


def far_dataset(rng, data):
    from mbi import Dataset
    df = data.df.copy()
    for a, sz in zip(data.domain.attrs, data.domain.shape):
        df[a] = [rng.randrange(sz) for _ in range(df.shape[0])]
    return Dataset(df.reset_index(drop=True), data.domain)


def forced_run(name, params, data, seed, prior, bounded):
    rec = Recorder('replay', seed, prior=prior)
    rec.true_l1_sens = 2.0 if bounded else 1.0
    np.random.seed(seed)
    err = None
    with patched(rec):
        try:
            run_mechanism(name, params, data)
        except Exception as e:
            err = '%s: %s' % (type(e).__name__, str(e)[:150])
    return rec, err


def pair_of_runs(rng, name, params, data, seed):
    bounded = bool(params.get('bounded', False))
    data2, how = neighbour(rng, data, bounded)
    out = {}
    rec1 = Recorder('record', seed)
    rec1.true_l1_sens = 2.0 if bounded else 1.0
    np.random.seed(seed)
    with patched(rec1):
        try:
            out['synth1'] = run_mechanism(name, params, data)
        except Exception as e:
            out['error1'] = '%s: %s' % (type(e).__name__, str(e)[:150])
    rec2 = Recorder('replay', seed, prior=rec1)
    rec2.true_l1_sens = 2.0 if bounded else 1.0
    np.random.seed(seed)
    with patched(rec2):
        try:
            out['synth2'] = run_mechanism(name, params, data2)
        except Exception as e:
            out['error2'] = '%s: %s' % (type(e).__name__, str(e)[:150])
    out.update(rec1=rec1, rec2=rec2, neighbour=how, bounded=bounded, data2=data2)
    return out


def describe_events(rec, limit=60):
    out = []
    for e in rec.events[:limit]:
        if e['kind'] == 'select':
            out.append(dict(kind='select', candidates=e['n'], site=list(e['site'])))
        else:
            out.append(dict(kind=e['kind'], scale=e['scale'], size=e['size'], site=list(e['site'])))
    return out
