"""C16 — approximate marginal oracles are normalised, and exact on acyclic structures.
Model (Model/Region.v): generalized-BP sweep on the region graph and loopy-BP sweep on the factor graph, generic in the number type
(structure taken from the code).  Theorem (Props/C16.v): the belief normalisation exp(b + ln N - logsumexp b) is positive and sums to
N for ANY messages (every sweep count, both oracles).  Correspondence: float instance of the sweeps vs the code's pseudo-marginals
after k sweeps.  Exactness (observed, partial): on clique sets with the running-intersection property (potentials on the maximal
cliques) generalized BP must match the brute-force marginals; on tree factor graphs loopy BP must."""
import json, math
import numpy as np
import common, rgen


def rand_pots(rng, dom, cliques, scale):
    from mbi import Factor, CliqueVector
    out = {}
    for cl in cliques:
        d = dom.project(cl)
        out[cl] = Factor(d, np.array([rng.uniform(-1, 1) * scale for _ in range(d.size())]).reshape(d.shape))
    return out


def run_lbp_exact(chk, n):
    """FactorGraph.loopy_belief_propagation vs the extracted executable model Model/LBP.v (the term C16_loopy_model_exact_on_trees is about) on
    exact rationals: positive potentials, trees and loopy graphs, every sweep count; 1e-9 relative."""
    from fractions import Fraction
    from mbi import Domain, Factor, CliqueVector, FactorGraph
    import pgmgen
    from common import ltok, qtok, parse_qlist
    import random as _random
    rng = _random.Random('lbp-exact-%s-%s' % (chk.tier, chk.seed))      # its own stream: the generalized-BP / float streams below stay as they were
    lines, pend = [], []
    for _ in range(n):
        kind = rng.choice(['chain', 'star', 'tree3', 'disconnected', 'loop', 'dense'])
        attrs, sizes, cliques = rgen.gen_structure(rng, kind)
        cliques = list(dict.fromkeys(tuple(c) for c in cliques))
        if any(len(set(c)) != len(c) for c in cliques):
            continue
        ids = pgmgen.ids_of(attrs); cfg = dict(zip(attrs, sizes))
        dom = Domain(attrs, sizes)
        # is the bipartite factor/variable graph a forest?  (two factors sharing two attributes already make a cycle)
        par = {}
        def find(z):
            while par.setdefault(z, z) != z:
                z = par[z]
            return z
        forest = True
        for ci, cl in enumerate(cliques):
            for a in cl:
                ra, rb = find(('c', ci)), find(('a', a))
                if ra == rb:
                    forest = False
                par[ra] = rb
        total = rng.choice([1.0, 10.0, 500.0]); sweeps = rng.choice([1, 2, 3, 6]) if forest else rng.choice([1, 1, 2])     # on loopy graphs the exact rationals grow with every sweep
        vals = {cl: [Fraction(rng.randint(1, 9), rng.randint(1, 9)) for _ in range(math.prod(cfg[a] for a in cl))] for cl in cliques}
        info = dict(oracle='lbp-exact', structure=kind, forest=forest, attrs=attrs, sizes=sizes, cliques=[list(c) for c in cliques], total=total, sweeps=sweeps)
        chk.count('lbp-exact.' + ('forest' if forest else 'loopy')); chk.case(('lbp-exact', json.dumps(info)), len(cliques) >= 2)
        try:
            with np.errstate(all='ignore'):
                fg = FactorGraph(dom, cliques, total, convex=False, iters=sweeps)
                pots = CliqueVector({cl: Factor(dom.project(cl), np.array([math.log(v.numerator) - math.log(v.denominator) for v in vals[cl]]).reshape([cfg[a] for a in cl])) for cl in cliques})
                mg = fg.belief_propagation(pots)
            code = [[float(v) for v in np.asarray(mg[cl].values, dtype=float).reshape(-1)] if list(mg[cl].domain.attrs) == list(cl) else None for cl in cliques]
        except Exception as e:
            chk.violation(dict(kind='exception', oracle='lbp', what=common.exc_kind(e)), 'FactorGraph.belief_propagation raised %s: %s' % (common.exc_kind(e), str(e)[:80]), info, found_input=True)
            continue
        parts = [pgmgen.dom_tok(attrs, sizes, ids), str(len(cliques))]
        for cl in cliques:
            parts += [ltok([ids[a] for a in cl]), ltok([(a, cfg[a]) for a in cl], lambda p: '%d %d' % (ids[p[0]], p[1])), ltok(vals[cl], qtok)]
        parts += [str(sweeps), qtok(Fraction(total))]
        lines.append('lbp ' + ' '.join(parts)); pend.append((info, code))
    outs = common.run_model(lines, timeout=1800)
    for (info, code), out in zip(pend, outs):
        try:
            tabs = [parse_qlist('[' + t.strip().strip('[]') + ']') for t in out.replace('] [', ']|[').split('|')]
            agree = len(tabs) == len(code) and all(c is not None and len(c) == len(t) and all(abs(x - float(q)) <= 1e-9 * max(abs(float(q)), 1e-300) + 1e-12 * info['total'] for x, q in zip(c, t)) for c, t in zip(code, tabs))
        except Exception:
            agree = False
        if not agree:
            chk.violation(dict(kind='lbp-exact-model'), 'loopy_belief_propagation differs from the verified executable model after %d sweeps (%s)' % (info['sweeps'], info['structure']),
                          dict(info, code=[c[:8] if c else c for c in code], model=out[:300]), found_input=False)


def main(chk):
    from mbi import Domain, Factor, CliqueVector, RegionGraph, FactorGraph
    chk.prove()
    run_lbp_exact(chk, 40 if chk.tier == 'quick' else 500)
    rng = chk.rng
    n = 140 if chk.tier == 'quick' else 1200
    lines, pend = [], []
    plan = [('corpus', None)] if any(f.get('corpus') for f in chk.findings) else []
    plan += [(None, None)] * n
    for kind_, _ in plan:
        corpus = kind_ == 'corpus'
        oracle = rng.choice(['gbp', 'gbp', 'lbp']) if not corpus else 'gbp'
        kind = rng.choice(['chain', 'star', 'tree3', 'deep', 'disconnected', 'loop', 'dense', 'nested']) if not corpus else 'nested'
        attrs, sizes, cliques = rgen.gen_structure(rng, kind)
        if oracle == 'lbp' and kind in ('nested', 'deep'):
            kind = 'chain'; attrs, sizes, cliques = rgen.gen_structure(rng, kind)
        dom = Domain(attrs, sizes)
        total = rng.choice([1.0, 10.0, 500.0])
        sweeps = rng.choice([1, 5, 25, 60] + ([200] if chk.tier == 'thorough' else [])) if not corpus else 60
        scale = rng.choice([0.5, 2.0, 5.0])
        exact_expected = kind in ('chain', 'star', 'tree3', 'deep', 'disconnected')
        if oracle == 'lbp':
            # loopy BP is exact when the bipartite factor graph (cliques - attributes) is a forest
            par = {}
            def find(x):
                while par.setdefault(x, x) != x:
                    x = par[x]
                return x
            forest = True
            for ci, cl in enumerate(set(map(tuple, cliques))):
                for a in cl:
                    ra, rb = find(('c', ci)), find(('a', a))
                    if ra == rb:
                        forest = False
                    par[ra] = rb
            exact_expected = forest and len(set(map(tuple, cliques))) == len(cliques)
        info = dict(oracle=oracle, structure=kind, attrs=attrs, sizes=sizes, cliques=[list(c) for c in cliques], total=total, sweeps=sweeps, potential_scale=scale)
        chk.count('oracle.' + oracle); chk.count('structure.' + kind); chk.count('sweeps=%d' % sweeps)
        try:
            with np.errstate(all='ignore'):
                if oracle == 'gbp':
                    rg = RegionGraph(dom, list(cliques), total, convex=False, iters=sweeps)
                    regs = list(rg.cliques)
                    maxi = [r for r in regs if not any(set(r) < set(s) for s in regs)]
                    pots = {r: Factor.zeros(dom.project(r)) for r in regs}
                    pots.update(rand_pots(rng, dom, maxi, scale))
                    sub_pot = corpus or (kind == 'nested' and rng.random() < 0.5)
                    if sub_pot:
                        subs = [r for r in regs if r not in maxi]
                        if subs:
                            pots.update(rand_pots(rng, dom, [subs[0]], scale))       # a potential on a nested (non-maximal) region
                            info['potential_on_subregion'] = list(subs[0])
                    if rng.random() < 0.3:
                        total = rng.choice([3.0, 77.0]); rg.total = total; info['total'] = total; info['total_reassigned'] = True     # as LocalInference does with a ready-made oracle
                    saved = {r: np.array(pots[r].values, dtype=float, copy=True) for r in pots}
                    cv = CliqueVector(pots)
                    mu = rg.belief_propagation(cv)
                    line, regs2 = rgen.gbp_line(rg, pots, total, sweeps)
                    if rng.random() < 0.4 and not corpus:
                        # a second call with the SAME potentials object, on a fresh oracle (what LocalInference does on its restart path):
                        # the answer must not depend on the first call
                        rg_b = RegionGraph(dom, list(cliques), total, convex=False, iters=sweeps)
                        mu = rg_b.belief_propagation(cv); info['second_call_same_potentials'] = True
                    if any(not np.array_equal(saved[r], np.asarray(pots[r].values, dtype=float)) for r in pots):
                        chk.violation(dict(kind='potentials-overwritten', oracle=oracle), 'gbp overwrote the caller\'s potentials in place', info, found_input=True)
                    code = [np.asarray(mu[r].values, dtype=float) for r in regs]
                    keys = regs
                else:
                    fg = FactorGraph(dom, list(cliques), total, convex=False, iters=sweeps)
                    pots = rand_pots(rng, dom, list(cliques), scale)
                    if rng.random() < 0.3:
                        off = rng.choice([-900.0, 900.0]); c0 = list(cliques)[0]
                        pots[c0] = Factor(pots[c0].domain, pots[c0].values + off); info['potential_offset'] = off      # adding a constant must not matter
                    if rng.random() < 0.3:
                        total = rng.choice([3.0, 77.0]); fg.total = total; info['total'] = total; info['total_reassigned'] = True
                    if rng.random() < 0.25:
                        # a structurally impossible value: a whole slice of one potential at -inf
                        c0 = list(cliques)[rng.randrange(len(cliques))]; v = np.array(pots[c0].values, dtype=float, copy=True)
                        ax = rng.randrange(v.ndim)
                        if v.shape[ax] >= 2:
                            idx = [slice(None)] * v.ndim; idx[ax] = rng.randrange(v.shape[ax]); v[tuple(idx)] = -np.inf
                            pots[c0] = Factor(pots[c0].domain, v); info['minus_inf_slice'] = [list(c0), ax]
                    cv = CliqueVector(pots)
                    if rng.random() < 0.3:
                        # the way LocalInference drives the oracle: potentials attached to the oracle, updated in place between calls
                        fg.potentials = cv
                        first = {cl: Factor(pots[cl].domain, np.array(pots[cl].values, copy=True)) for cl in pots}
                        for cl in pots:
                            pots[cl].values[...] = np.zeros_like(pots[cl].values)
                        fg.marginals = fg.belief_propagation(cv)        # LocalInference stores the result on the oracle
                        for cl in pots:
                            pots[cl].values[...] = first[cl].values
                        info['in_place_update_between_calls'] = True
                        fg.messages = FactorGraph(dom, list(cliques), total, convex=False, iters=sweeps).messages      # fresh messages, same oracle object
                    mu = fg.belief_propagation(cv)
                    line = rgen.lbp_line(fg, pots, total, sweeps)
                    code = [np.asarray(mu[cl].values, dtype=float) for cl in fg.cliques]
                    keys = list(fg.cliques)
        except Exception as e:
            chk.violation(dict(kind='exception', oracle=oracle, what=common.exc_kind(e)), '%s raised %s: %s' % (oracle, common.exc_kind(e), str(e)[:100]), info, found_input=True)
            continue
        nontriv = len(keys) >= 3
        chk.case((oracle, json.dumps(info)), nontriv, dict(info, first_table=code[0].reshape(-1)[:6].tolist()) if len(chk.samples) < 3 and nontriv else None)
        # normalisation: finite, non-negative, sums to the total - for every oracle, structure and sweep count
        bad = None
        for k_, t in zip(keys, code):
            if not np.all(np.isfinite(t)) or t.min() < 0 or abs(t.sum() - total) > 1e-9 * max(1.0, total):
                bad = 'pseudo-marginal of %s is not a finite non-negative table summing to the total (sum %.9g)' % (''.join(k_), float(t.sum())); break
        if bad:
            chk.violation(dict(kind='normalisation', oracle=oracle), bad, info, found_input=True)
        # exactness on acyclic structures, enough sweeps
        sub = info.get('potential_on_subregion') is not None
        if (exact_expected or sub) and sweeps >= 60:
            ref = rgen.brute_marginals(attrs, sizes, {cl: pots[cl].values for cl in pots}, total, keys)
            worst = max(float(np.abs(t - ref[k_]).max()) for k_, t in zip(keys, code))
            if worst > 1e-6 * total:
                chk.violation(dict(kind='exactness', oracle=oracle, potential_on_subregion=sub),
                              '%s on a %s structure deviates from the exact marginals by %.3g (total %.3g) after %d sweeps' % (oracle, kind, worst, total, sweeps), dict(info, deviation=worst), found_input=True)
        lines.append(line); pend.append((info, code))
    outs = common.run_num(lines, timeout=1800)
    for line, (info, code), out in zip(lines, pend, outs):
        if isinstance(out, str):
            chk.violation(dict(kind='model-error'), 'sweep model failed: ' + out[:80], info, found_input=False); continue
        tabs, ok = rgen.split_tables(out, [t.shape for t in code])
        ok = ok and all(np.allclose(a, b, rtol=1e-8, atol=1e-10 * info['total']) for a, b in zip(tabs, code))
        if not ok:
            chk.violation(dict(kind='sweep-correspondence', oracle=info['oracle']), '%s: pseudo-marginals after %d sweeps differ from the model of the sweep' % (info['oracle'], info['sweeps']),
                          dict(info, code=[t.reshape(-1)[:8].tolist() for t in code][:3], model=[t.reshape(-1)[:8].tolist() for t in tabs][:3]), found_input=False)
    return chk.finish(rule='structures {chain, star, tree of 3-cliques, disconnected (running intersection holds), loop, dense pairs, nested}, 2-6 attributes of size 2-3, potentials U(-s,s) with s in {.5,2,5}, '
                      'totals {1,10,500}, sweeps {1,5,25,60(,200)}; oracles: region-graph generalized BP and factor-graph loopy BP. Every pseudo-marginal: finite, >= 0, sums to total; float sweep model vs code '
                      '(1e-8); on running-intersection structures with >= 60 sweeps: deviation from brute-force marginals <= 1e-6*total. Non-trivial = >= 3 tables.',
                      assumptions=['the region-graph structure (parents, children, N/D/B sets, message order) is taken from the code; exactness on acyclic structures is observed, not proved (partial)',
                                   'scipy logsumexp vs the model\'s pairwise log-add-exp: compared at 1e-8'])


def replay(chk, rp):
    print(json.dumps(rp, indent=1, default=str)[:4000])
    return 0
