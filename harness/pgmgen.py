"""Shared generators / converters for the inference properties (C01, C02, C08, C10, C12)."""
import itertools, math
from fractions import Fraction
import numpy as np
from common import ltok, hexz, qtok

NAMES = ['a', 'b', 'c', 'd', 'e', 'f', 'g', 'h']


def ids_of(attrs):
    """attribute name -> id; ids follow the lexicographic order of the names."""
    return {n: i for i, n in enumerate(sorted(NAMES))}


def gen_structure(rng, max_attrs=6, max_cells=1500, max_cliques=6, force_ring=False):
    while True:
        k = rng.randint(2, max_attrs) if not force_ring else rng.randint(5, max(5, max_attrs))
        attrs = rng.sample(NAMES[:max_attrs + 1], k)
        sizes = [rng.choice([1, 2, 2, 2, 3, 3, 4]) for _ in attrs]
        n = 1
        for s in sizes:
            n *= s
        if n <= max_cells:
            break
    ncl = rng.randint(1, max_cliques)
    cliques = []
    shape_kind = rng.random() if not force_ring else 0.0
    if shape_kind < 0.3 and k >= 4:
        # structured stream: a chordless ring (needs dependent fill-in edges), optionally with a chord / pendant clique
        ring = list(attrs); rng.shuffle(ring)
        ring = ring[:(rng.randint(4, k) if not force_ring else rng.randint(5, k))]       # force_ring: a chordless cycle of length >= 5 (fill-in must cascade)
        for i in range(len(ring)):
            e = [ring[i], ring[(i + 1) % len(ring)]]
            rng.shuffle(e)
            cliques.append(tuple(e))
        rng.shuffle(cliques)
        ncl = rng.choice([0, 0, 1])
    elif shape_kind < 0.4:
        # star / chain through a hub that is not first in the domain
        hub = attrs[-1]
        for a in attrs[:-1]:
            e = [a, hub]; rng.shuffle(e); cliques.append(tuple(e))
        ncl = 0
    for _ in range(ncl):
        r = rng.random()
        if cliques and r < 0.12:
            base = list(rng.choice(cliques)); rng.shuffle(base)         # duplicate in another order
            cliques.append(tuple(base))
        elif cliques and r < 0.25 and len(rng.choice(cliques)) > 1:
            base = list(rng.choice(cliques))
            cliques.append(tuple(rng.sample(base, rng.randint(1, len(base)))))   # nested
        else:
            cliques.append(tuple(rng.sample(attrs, rng.randint(1, min(3, k)))))
    mode = rng.choice(['none', 'perm', 'perm', 'int'])
    if mode == 'none':
        order = None
    elif mode == 'perm':
        order = list(attrs); rng.shuffle(order)
    else:
        order = rng.randint(1, 4)
    return attrs, sizes, cliques, order, mode


def gen_potential(rng, n, stream):
    vals = []
    for _ in range(n):
        if stream == 'small':
            vals.append(Fraction(rng.randint(1, 9), rng.randint(1, 9)))
        elif stream == 'zeros':
            vals.append(Fraction(0) if rng.random() < 0.4 else Fraction(rng.randint(1, 9), rng.randint(1, 5)))
        elif stream == 'huge':
            vals.append(Fraction(rng.randint(1, 9)) * Fraction(2) ** rng.choice([-1200, -600, 0, 600, 1200]))
        elif stream == 'unit':
            vals.append(Fraction(1))
    return vals


def flog(q):
    if q == 0:
        return -np.inf
    return math.log(q.numerator) - math.log(q.denominator)


def random_schedule(rng, edges_dir, nbrs):
    """a random linear extension of the message-dependency order: (k,i) before (i,j) for all k != j."""
    done, sched = set(), []
    remaining = set(edges_dir)
    while remaining:
        enabled = [(i, j) for (i, j) in remaining if all((k, i) in done for k in nbrs[i] if k != j)]
        if not enabled:
            return None
        e = rng.choice(sorted(enabled))
        sched.append(e); done.add(e); remaining.discard(e)
    return sched


def brute_joint(attrs, sizes, pots):
    """pots: list of (attr list, values in row-major order of that list) with Fraction values."""
    cfg = dict(zip(attrs, sizes))
    joint = {}
    for cell in itertools.product(*[range(s) for s in sizes]):
        x = dict(zip(attrs, cell))
        v = Fraction(1)
        for pa, pv in pots:
            idx = 0
            for a in pa:
                idx = idx * cfg[a] + x[a]
            v *= pv[idx]
            if v == 0:
                break
        joint[cell] = v
    return joint


def brute_marginal(attrs, sizes, joint, proj, total):
    cfg = dict(zip(attrs, sizes))
    Z = sum(joint.values())
    pos = [attrs.index(a) for a in proj]
    out = {}
    for cell, v in joint.items():
        key = tuple(cell[p] for p in pos)
        out[key] = out.get(key, 0) + v
    return [out.get(c, Fraction(0)) * total / Z for c in itertools.product(*[range(cfg[a]) for a in proj])], Z


def dom_tok(attrs, sizes, ids):
    return ltok(list(zip(attrs, sizes)), lambda p: '%d %d' % (ids[p[0]], p[1]))
