"""seed_admin.py <prop> <i> [check_prop]: confirm a sub-agent's seeded change in its scratch worktree
(/tmp/mut/<prop>), store it under /verif/seeded/<prop>-<i>/, run our check against it on /repo, record the outcome."""
import json, os, shutil, subprocess, sys
prop, i = sys.argv[1], sys.argv[2]
check_prop = sys.argv[3] if len(sys.argv) > 3 else prop
wt = '/tmp/mut/%s' % prop
out = '%s/_out' % wt
env = dict(os.environ, PYTHONPATH='/tmp/mut/stubs:%s/src:%s/mechanisms:%s' % (wt, wt, wt), PYTHONHASHSEED='0')
def sh(cmd, cwd=wt, timeout=1800):
    p = subprocess.run(cmd, shell=True, cwd=cwd, env=env, stdout=subprocess.PIPE, stderr=subprocess.STDOUT, text=True, timeout=timeout)
    return p.returncode, p.stdout
patch = '%s/patch%s.diff' % (out, i); demo = '%s/demo%s.py' % (out, i)
assert sh('git diff --quiet')[0] == 0, 'worktree dirty'
rc0, o0 = sh('/venv/bin/python %s' % demo)
assert sh('git apply %s' % patch)[0] == 0, 'patch does not apply'
rct, ot = sh('/venv/bin/python -m pytest -q -p no:cacheprovider --timeout=900 test 2>&1 | tail -3')
rc1, o1 = sh('/venv/bin/python %s' % demo)
sh('git checkout -- .')
passed = '31 passed' in ot or '32 passed' in ot
print('demo clean rc=%d, patched rc=%d, tests: %s' % (rc0, rc1, ot.strip().split('\n')[-1]))
ok = rc0 == 0 and rc1 != 0 and passed
d = '/verif/seeded/%s-%s' % (prop, i)
if not ok:
    print('NOT CONFIRMED'); sys.exit(1)
os.makedirs(d, exist_ok=True)
shutil.copy(patch, d + '/patch.diff'); shutil.copy(demo, d + '/demo.py')
notes = open('%s/notes%s.txt' % (out, i)).read() if os.path.exists('%s/notes%s.txt' % (out, i)) else ''
# run our check on /repo with the patch applied
assert subprocess.run('git diff --quiet', shell=True, cwd='/repo').returncode == 0, '/repo dirty'
evf = '/verif/evidence/%s.json' % check_prop
evbak = open(evf).read() if os.path.exists(evf) else None
subprocess.run('git apply %s' % patch, shell=True, cwd='/repo', check=True)
try:
    p = subprocess.run('./check %s quick' % check_prop, shell=True, cwd='/verif', stdout=subprocess.PIPE, stderr=subprocess.STDOUT, text=True, timeout=3600)
finally:
    subprocess.run('git checkout -- .', shell=True, cwd='/repo')
    if evbak is not None:
        open(evf, 'w').write(evbak)   # evidence files must come from runs on the unchanged tree
viol = [l for l in p.stdout.split('\n') if l.startswith('VIOLATION')]
meta = dict(property=prop, breaks=notes.strip(), needs_to_manifest=notes.strip(),
            confirmed=dict(demo_on_clean_exit=rc0, demo_on_patched_exit=rc1, pytest_tail=ot.strip().split('\n')[-1],
                           ran='in scratch worktree %s: demo on clean tree; git apply patch; pytest test/; demo; git checkout' % wt),
            check=dict(cmd='./check %s quick' % check_prop, exit=p.returncode, violation_lines=viol[:3],
                       detected=bool(viol), with_failing_input=any('no-failing-input-found' not in v for v in viol)))
json.dump(meta, open(d + '/meta.json', 'w'), indent=1)
print('stored', d, 'detected=%s with_input=%s' % (meta['check']['detected'], meta['check']['with_failing_input']))
