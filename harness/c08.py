"""C08 — the returned model is one coherent, valid distribution.
Theorems (Props/C08.v): every answer the query paths give is a marginal of the one explicit joint (C01/C02), hence answers agree on
shared attributes and sum to the total; marginalisation is linear (averaged iterates stay consistent).
Correspondence: for every solver / iteration count / early exit the returned model's stored clique marginals, in-clique and
out-of-clique answers and data vector are compared with the exact joint marginals the extracted model computes from the model's
STORED PARAMETERS (exp of the potentials as exact rationals)."""
import json, math, os
from fractions import Fraction
import numpy as np
import common, pgmgen, infgen, c02
from common import ltok, qtok, parse_qlist


def zero_spec(rng, prob):
    attrs, sizes = prob['attrs'], prob['sizes']
    cfg = dict(zip(attrs, sizes))
    out = {}
    for _ in range(rng.randint(1, 2)):
        base = rng.choice([m['proj'] for m in prob['ms']] + [tuple(rng.sample(attrs, rng.randint(1, 2)))]) if prob['ms'] else tuple(rng.sample(attrs, rng.randint(1, 2)))
        cl = tuple(rng.sample(list(base), rng.randint(1, min(2, len(base)))))
        cells = set()
        for _ in range(rng.randint(1, 2)):
            cells.add(tuple(rng.randrange(cfg[a]) for a in cl))
        # never forbid every cell of the clique
        if len(cells) < math.prod(cfg[a] for a in cl):
            out[cl] = sorted(cells)
    # the zero sets must leave at least one possible cell (an empty support is outside the statement)
    import itertools
    def feasible(o):
        for cell in itertools.product(*[range(s) for s in sizes]):
            x = dict(zip(attrs, cell))
            if all(tuple(x[a] for a in cl) not in set(map(tuple, zs)) for cl, zs in o.items()):
                return True
        return False
    while out and not feasible(out):
        out.pop(next(iter(out)))
    return out


def check_model(chk, model, info, rng, lines, pend, tol=1e-7):
    if rng.random() < 0.3 and float(model.total) >= 1:
        # a caller that generated synthetic records first: the model must still be the same coherent distribution afterwards
        try:
            with infgen.quiet(), np.errstate(all='ignore'):
                model.synthetic_data(rows=rng.choice([None, 7, 50]))
            info = dict(info, history='synthetic_data() called before the queries')
            chk.count('history.synthetic_data')
        except Exception as e:
            chk.violation(dict(kind='exception', what='synthetic_data ' + common.exc_kind(e)), 'synthetic_data raised %s: %s' % (common.exc_kind(e), str(e)[:80]), info, found_input=True)
    case = infgen.model_to_case(model)
    attrs = case['attrs']
    ids = case['ids']
    pre = c02.model_prefix(case)
    tt = qtok(Fraction(float(model.total)))
    mags = [float(np.abs(v[np.isfinite(v)]).max()) if np.isfinite(v).any() else 0.0 for v in (np.asarray(model.potentials[cl].values, dtype=float) for cl in model.cliques)]
    info = dict(info, max_abs_potential=max(mags) if mags else 0.0)
    def q(kind, t, got):
        lines.append('q_brute %s %s %s' % (pre, tt, ltok([ids[a] for a in t])))
        pend.append((dict(info, query=dict(kind=kind, attrs=list(t))), got, float(model.total), tol + (1e-14 * info['max_abs_potential'] if info['max_abs_potential'] <= 1e13 else 0.0)))
    with np.errstate(all='ignore'):
        if hasattr(model, 'marginals'):
            for cl in model.cliques:
                f = model.marginals[cl]
                q('stored clique marginal', list(f.domain.attrs), [float(v) for v in np.asarray(f.values, dtype=float).reshape(-1)])
        for _ in range(3):
            t = c02.rand_tuple(rng, attrs)
            f = model.project(t)
            q('project', list(t), [float(v) for v in np.asarray(f.values, dtype=float).reshape(-1)] if list(f.domain.attrs) == list(t) else ['wrong-order'])
        v = model.datavector()
        q('datavector', list(attrs), [float(x) for x in np.asarray(v, dtype=float).reshape(-1)])


def judge(chk, lines, pend):
    outs = common.run_model(lines, timeout=2400)
    for line, (info, got, total, tol), out in zip(lines, pend, outs):
        nontriv = len(info.get('model_cliques', [])) >= 2
        chk.case(line, nontriv, dict(info, code=got[:8], model=out[:100]) if len(chk.samples) < 2 and nontriv else None)
        try:
            exp = [float(x) for x in parse_qlist(out)]
        except Exception:
            chk.violation(dict(kind='model-error'), 'model runner failed: ' + out[:80], info, found_input=False)
            continue
        bad = None
        if len(got) != len(exp) or any(isinstance(g, str) for g in got):
            bad = 'answer has the wrong shape/order'
        elif any(not math.isfinite(g) for g in got):
            bad = 'answer is not finite'
        elif any(g < -1e-9 * total for g in got):
            bad = 'answer has a negative entry'
        elif abs(sum(got) - total) > (1e-6 + tol) * max(1.0, total):
            bad = 'answer sums to %s, not to the total %s' % (sum(got), total)
        elif any(abs(g - e) > tol * abs(e) + 1e-7 * total for g, e in zip(got, exp)):
            bad = 'answer differs from the marginal implied by the stored parameters'
        if bad:
            chk.violation(dict(kind='coherence', engine=info.get('engine'), potentials_beyond_1e13=(info.get('max_abs_potential', 0) > 1e13)), '%s: %s' % (info['query']['kind'], bad),
                          dict(info, code_answer=got[:40], implied_by_parameters=exp[:40]), found_input=True)


def run_mle_cases(chk, n):
    """GraphicalModel.mle on exact clique marginals of random positive joints: the code's potentials vs the function GENERATED from mle
    (build/genrun mle_src) - the one C08_src_mle_is_factorisation is about; the clique order must be a DFS preorder of the tree
    (hypothesis of that theorem) and belief propagation on the returned parameters must give the marginals back."""
    from mbi import Domain, GraphicalModel, Factor, CliqueVector
    rng = chk.rng
    lines, pend = [], []
    for _ in range(n):
        attrs, sizes, cliques, order, mode = pgmgen.gen_structure(rng, max_attrs=5, max_cells=200)
        ids = pgmgen.ids_of(attrs); cfg = dict(zip(attrs, sizes))
        total = rng.choice([1.0, 10.0, 250.0])
        np.random.seed(rng.randrange(2 ** 31))
        model = GraphicalModel(Domain(attrs, sizes), [tuple(c) for c in cliques], total, elimination_order=order)
        mcl = list(model.cliques); idx = {cl: i for i, cl in enumerate(mcl)}
        pots = [(list(cl), [Fraction(rng.randint(1, 9), rng.randint(1, 9)) for _ in range(math.prod(cfg[a] for a in cl))]) for cl in mcl]
        joint = pgmgen.brute_joint(attrs, sizes, pots)
        marg = {cl: pgmgen.brute_marginal(attrs, sizes, joint, list(cl), Fraction(total))[0] for cl in mcl}
        info = dict(attrs=attrs, sizes=sizes, cliques=[list(c) for c in cliques], elimination_order=order, total=total, model_cliques=[list(c) for c in mcl])
        chk.count('mle.direct'); chk.case(('mle', json.dumps(info, default=str)), len(mcl) >= 2)
        # hypothesis: self.cliques is a DFS preorder of the tree
        tree = model.junction_tree.tree; stack = [mcl[0]]; ok = True
        for v in mcl[1:]:
            while stack and not tree.has_edge(stack[-1], v):
                stack.pop()
            if not stack:
                ok = False; break
            stack.append(v)
        if not ok or len(set(mcl)) != len(mcl):
            chk.violation(dict(kind='mle-order'), 'model.cliques is not a depth-first preorder of the junction tree (mle relies on it)', info, found_input=False)
            continue
        with np.errstate(all='ignore'):
            cv = CliqueVector({cl: Factor(model.domain.project(cl), np.array([float(v) for v in marg[cl]]).reshape([cfg[a] for a in cl])) for cl in mcl})
            pot = model.mle(cv)
            back = model.belief_propagation(pot)
        code = [[math.exp(float(v)) for v in np.asarray(pot[cl].values, dtype=float).reshape(-1)] if list(pot[cl].domain.attrs) == list(cl) else None for cl in mcl]
        parts = [pgmgen.dom_tok(attrs, sizes, ids), str(len(mcl))]
        for cl in mcl:
            nb = sorted(idx[c] for c in model.neighbors[cl])
            parts += [ltok([ids[a] for a in cl]), ltok(nb), ltok([(a, cfg[a]) for a in cl], lambda p: '%d %d' % (ids[p[0]], p[1])), ltok(marg[cl], qtok)]
        lines.append('mle_src ' + ' '.join(parts)); pend.append((info, code, mcl))
        for cl in mcl:
            b = np.asarray(back[cl].values, dtype=float).reshape(-1)
            if list(back[cl].domain.attrs) != list(cl) or not all(abs(x - float(q)) <= 1e-7 * max(1.0, float(q)) for x, q in zip(b, marg[cl])):
                chk.violation(dict(kind='mle-reproduces'), 'belief_propagation(mle(mu)) differs from the consistent clique marginals mu it was fitted to (clique %s)' % ''.join(cl), info, found_input=True)
                break
    outs = common.run_gen(lines)
    for (info, code, mcl), out in zip(pend, outs):
        try:
            tabs = [parse_qlist('[' + t.strip().strip('[]') + ']') for t in out.replace('] [', ']|[').split('|')]
            agree = len(tabs) == len(code) and all(c is not None and len(c) == len(t) and all(abs(x - float(q)) <= 1e-9 * max(abs(float(q)), 1e-300) for x, q in zip(c, t)) for c, t in zip(code, tabs))
        except Exception:
            agree = False
        if not agree:
            chk.violation(dict(kind='translator-validation', what='mle'), 'the definition generated from GraphicalModel.mle disagrees with the running code (or could not be run)',
                          dict(info, generated=out[:300], code=[c[:6] if c else c for c in code], broken='translator validation: translator/py2gallina_bp.py <-> GraphicalModel.mle'), found_input=False)


def main(chk):
    from mbi import Domain, FactoredInference
    chk.prove()
    tok, tmsg = getattr(chk, 'translators', {}).get('bp', (True, ''))
    if not tok:
        chk.violation(dict(kind='translator'), 'GraphicalModel.mle / belief_propagation left the translated subset: C08_src_mle_is_factorisation is not re-checked against the current source',
                      dict(broken='Gen/BP_gen.v (translator/py2gallina_bp.py on src/mbi/graphical_model.py); Props/C08.v C08_src_*', translator_message=tmsg), found_input=False)
    run_mle_cases(chk, 40 if chk.tier == 'quick' else 400)
    rng = chk.rng
    n = 150 if chk.tier == 'quick' else 900
    lines, pend = [], []
    # corpus first: the recorded inputs of the known findings are re-run on every check
    for f in chk.findings:
        if f.get('corpus'):
            c = json.load(open(os.path.join(common.VERIF, f['corpus'])))
            zeros = {tuple(k): [tuple(x) for x in v] for k, v in c['structural_zeros'].items()}
            ms = [(np.array(m['Q']), np.array(m['y']), m['sigma'], tuple(m['proj'])) for m in c['measurements']]
            try:
                with infgen.quiet(), np.errstate(all='ignore'):
                    model = FactoredInference(Domain(c['attrs'], c['sizes']), iters=c['iters'], structural_zeros=zeros).estimate(ms, total=c['total'], engine=c['engine'])
                check_model(chk, model, dict(c, corpus=f['id'], model_cliques=[list(cl) for cl in model.cliques]), rng, lines, pend)
            except Exception as e:
                chk.violation(dict(kind='exception', engine=c['engine'], what=common.exc_kind(e)), 'corpus case raised %s' % common.exc_kind(e), c, found_input=True)
    for it in range(n):
        prob = infgen.gen_problem(rng, allow_empty=True) if it % 9 != 4 else infgen.gen_problem(rng, max_attrs=5, max_cells=400, force_ring=True)   # chordless 5-ring of measured pairs
        engine = ['MD', 'RDA', 'IG'][it % 3]
        iters = rng.choice([1, 2, 50])
        zeros = zero_spec(rng, prob) if rng.random() < (0.4 if prob['ms'] else 0.7) else {}
        known = rng.choice([None, float(prob['N'])])
        if it % 10 == 5 and prob['ms']:
            # near-exact answers of a tiny population: the Armijo line search of mirror descent cannot find an acceptable step within its
            # 25 halvings; whatever the solver then keeps, parameters and marginals must still describe ONE distribution
            engine = 'MD'; iters = rng.choice([1, 1, 3]); known = 1.0
            for m in prob['ms']:
                m['sigma'] = rng.choice([1e-5, 1e-6])
                m['y'] = m['Q'] @ (m['mv'] / max(1e-12, float(np.sum(m['mv']))))
            chk.count('directed.near-exact-answers')
        info = dict(infgen.describe(prob), engine=engine, iters=iters, structural_zeros={''.join(k): v for k, v in zeros.items()}, total=known)
        chk.count('engine.' + engine); chk.count('iters=%d' % iters); chk.count('zeros' if zeros else 'nozeros'); chk.count('measurements=%d' % len(prob['ms']))
        try:
            with infgen.quiet(), np.errstate(all='ignore'):
                eng = FactoredInference(Domain(prob['attrs'], prob['sizes']), iters=iters, structural_zeros=zeros)
                model = eng.estimate(infgen.measurements(prob), total=known, engine=engine)
        except Exception as e:
            chk.violation(dict(kind='exception', engine=engine, what=common.exc_kind(e), empty=(len(prob['ms']) == 0)),
                          'estimate(%s) raised %s: %s' % (engine, common.exc_kind(e), str(e)[:80]), info, found_input=True)
            continue
        info['model_cliques'] = [list(c) for c in model.cliques]
        info['early_exit'] = not hasattr(model, 'marginals')
        if info['early_exit']:
            chk.count('early_exit')
        check_model(chk, model, info, rng, lines, pend)
    judge(chk, lines, pend)
    return chk.finish(rule='random problems (2-4 attributes, 0-5 measurements: overlapping / nested / permuted / cyclic projections, identity/dense/prefix/wide queries, noise .1-10, plus near-exact answers 1e-5..1e-6 of a unit population) x solvers MD/RDA/IG x '
                      'iteration counts {1,2,50} x structural zeros on/off x known/estimated total, incl. empty measurement lists (early exits). For every returned model: stored clique marginals, 3 random '
                      'project answers (any order, in and out of clique) and the data vector vs the exact joint marginals computed by the extracted model from exp(stored potentials); finiteness, sign, sum. '
                      'Non-trivial = model with >=2 cliques.',
                      assumptions=['exp() of the stored float potentials is converted to exact rationals (clique-wise shifted by the largest jointly feasible parameter, which the marginals are invariant to)',
                                   'mle_reproduces is a theorem (C08_mle_reproduces); that mle\'s running separator is the tree separator is what this correspondence observes for RDA/IG'])


def replay(chk, rp):
    print(json.dumps(rp, indent=1)[:4000])
    return 0
