"""C04 — the optimised objective, its gradient and smoothness bound are the stated ones.
Correspondence: Model/Loss.v total_loss on exact rationals vs FactoredInference._setup + _marginal_loss on the same measurement
set and the same candidate marginal vector (not necessarily consistent), for every spelling of the measurements.
Oracle: explicit Python sum over measurements; dense Hessian eigvalsh for the smoothness bound."""
import itertools, json, math
from fractions import Fraction
import numpy as np
from scipy import sparse
from scipy.sparse.linalg import aslinearoperator
import common, pgmgen
from common import ltok, qtok, parse_qlist, parse_q

NAMES = ['a', 'b', 'c', 'd', 'e']


def dy(rng, lo=-6, hi=10, dens=(1, 2, 4)):
    return Fraction(rng.randint(lo, hi), rng.choice(dens))


def gen_case(rng, tier):
    k = rng.randint(2, 4)
    attrs = rng.sample(NAMES, k)
    sizes = [rng.choice([2, 2, 3, 4]) for _ in attrs]
    cfg = dict(zip(attrs, sizes))
    nm = rng.randint(1, 6)
    ms = []
    if k >= 3 and rng.random() < 0.3:
        # directed stream: a projection contained in two cliques of different size, heterogeneous noise
        s_, u_, v_ = rng.sample(attrs, 3)
        for proj, sg in (([s_], Fraction(1)), (rng.sample([s_, u_], 2), Fraction(rng.choice([1, 2, 4]), rng.choice([2, 4, 8]))), (rng.sample([s_, v_], 2), Fraction(rng.choice([1, 2]), 1))):
            p = 1
            for a in proj:
                p *= cfg[a]
            ms.append(dict(proj=proj, Q=[[Fraction(int(i == j)) for j in range(p)] for i in range(p)], y=[dy(rng, -8, 40) for _ in range(p)], sigma=sg, kind='identity', rows=p, p=p))
        nm = rng.randint(0, 2)
    for _ in range(nm):
        if ms and rng.random() < 0.25:
            proj = list(rng.choice(ms)['proj']); rng.shuffle(proj)          # same attribute set, other order / duplicate
        elif ms and rng.random() < 0.25 and len(rng.choice(ms)['proj']) > 1:
            base = rng.choice(ms)['proj']; proj = rng.sample(base, rng.randint(1, len(base)))   # nested
        else:
            proj = rng.sample(attrs, rng.randint(1, min(3, k)))
        p = 1
        for a in proj:
            p *= cfg[a]
        kind = rng.choice(['identity', 'identity', 'dense', 'dense', 'wide', 'tall', 'prefix'])
        if kind == 'identity':
            rows = p; Q = [[Fraction(int(i == j)) for j in range(p)] for i in range(p)]
        elif kind == 'prefix':
            rows = p; Q = [[Fraction(int(j <= i)) for j in range(p)] for i in range(p)]
        else:
            rows = {'dense': p, 'wide': max(1, p // 2), 'tall': p + rng.randint(1, 3)}[kind]
            Q = [[dy(rng, -3, 4, (1, 2)) for _ in range(p)] for _ in range(rows)]
            if all(x == 0 for r in Q for x in r):
                Q[0][rng.randrange(p)] = Fraction(1)      # never an all-zero query matrix: eigsh cannot start on it (outside the generated inputs, as in C03/C08)
        y = [dy(rng, -8, 40) for _ in range(rows)]
        sigma = Fraction(rng.choice([1, 1, 2, 4, 8]), rng.choice([1, 2, 4]))
        ms.append(dict(proj=proj, Q=Q, y=y, sigma=sigma, kind=kind, rows=rows, p=p))
    return attrs, sizes, ms


def spell(rng, m, identity_ok):
    Qd = np.array([[float(x) for x in r] for r in m['Q']])
    s = rng.choice(['dense', 'sparse', 'operator', 'none'] if identity_ok else ['dense', 'sparse', 'operator'])
    Q = {'dense': Qd, 'sparse': sparse.csr_matrix(Qd), 'operator': aslinearoperator(Qd), 'none': None}[s]
    proj = m['proj']
    ps = rng.choice(['tuple', 'list', 'str'] if len(proj) == 1 else ['tuple', 'list'])
    pr = {'tuple': tuple(proj), 'list': list(proj), 'str': proj[0]}[ps]
    return (Q, np.array([float(v) for v in m['y']]), float(m['sigma']), pr), s + '/' + ps


def main(chk):
    from mbi import Domain, FactoredInference, Factor, CliqueVector
    chk.prove()
    rng = chk.rng
    n = 150 if chk.tier == 'quick' else 3000
    lines, pend = [], []
    for it in range(n):
        attrs, sizes, ms = gen_case(rng, chk.tier)
        ids = pgmgen.ids_of(attrs)
        cfg = dict(zip(attrs, sizes))
        metric = 'L1' if rng.random() < 0.25 else 'L2'
        dom = Domain(attrs, sizes)
        spelled, names = [], []
        for m in ms:
            sp, nm = spell(rng, m, m['kind'] == 'identity')
            spelled.append(sp); names.append(nm)
        info = dict(attrs=attrs, sizes=sizes, metric=metric, measurements=[dict(proj=m['proj'], kind=m['kind'], sigma=str(m['sigma']), rows=m['rows'], spelling=nm,
                                                                                     Q=[[str(x) for x in r] for r in m['Q']], y=[str(v) for v in m['y']]) for m, nm in zip(ms, names)])
        try:
            eng = FactoredInference(dom, metric=metric, iters=1, warm_start=rng.random() < 0.3)
            if rng.random() < 0.4:
                # history: an earlier _setup on the same engine with another measurement set must not leak into the objective
                _, _, ms0 = gen_case(rng, chk.tier)
                ms0 = [m for m in ms0 if set(m['proj']) <= set(attrs) and all(cfg[a] == c0 for a, c0 in zip(m['proj'], [cfg[a] for a in m['proj']]))]
                ok0 = []
                for m in ms0:
                    p0 = 1
                    for a in m['proj']:
                        p0 *= cfg[a]
                    if p0 == m['p']:
                        ok0.append(spell(rng, m, m['kind'] == 'identity')[0])
                if ok0:
                    eng._setup(eng.fix_measurements(ok0), 7.0)
                    info['history'] = 'earlier _setup with %d other measurements' % len(ok0)
            fixed = eng.fix_measurements(list(spelled))
            eng._setup(fixed, 10.0)
            cliques = list(eng.model.cliques)
            mu_vals = {}
            mu = {}
            for cl in cliques:
                sz = 1
                for a in cl:
                    sz *= cfg[a]
                vals = [dy(rng, 0, 12) for _ in range(sz)]
                mu_vals[cl] = vals
                mu[cl] = Factor(dom.project(cl), np.array([float(v) for v in vals]))
            loss, grad = eng._marginal_loss(CliqueVector(mu))
            code = (float(loss), {cl: [float(v) for v in np.asarray(grad[cl].values, dtype=float).reshape(-1)] for cl in cliques})
            lip = None
            if metric == 'L2' and all(m['p'] >= 2 for m in ms):
                lip = float(eng._lipschitz(fixed))
            err = None
        except Exception as e:
            err = common.exc_kind(e) + ': ' + str(e)[:120]
            code, lip = None, None
            cliques = []
        if err:
            chk.violation(dict(kind='exception', what=err[:40]), 'loss evaluation raised ' + err, info, found_input=True)
            continue
        info['model_cliques'] = [list(c) for c in cliques]
        info['mu'] = {''.join(cl): [str(v) for v in mu_vals[cl]] for cl in cliques}
        line = 'loss %d %s %s %s %s' % (1 if metric == 'L1' else 0, pgmgen.dom_tok(attrs, sizes, ids),
                                       ltok(cliques, lambda c: ltok([ids[a] for a in c])),
                                       ' '.join('%s %s' % (ltok([(a, cfg[a]) for a in cl], lambda p: '%d %d' % (ids[p[0]], p[1])), ltok(mu_vals[cl], qtok)) for cl in cliques),
                                       ltok(ms, lambda m: '%d %d %s %s %s %s' % (m['rows'], m['p'], ' '.join(qtok(x) for r in m['Q'] for x in r), ' '.join(qtok(v) for v in m['y']),
                                                                                 qtok(1 / m['sigma']), ltok([ids[a] for a in m['proj']]))))
        lines.append(line); pend.append((info, code, lip, ms, cliques, mu_vals, cfg))
        chk.count('metric.' + metric); chk.count('measurements=%d' % len(ms))
        for nm in names:
            chk.count('spelling.' + nm)
    outs = common.run_model(lines, timeout=1800)
    for line, (info, code, lip, ms, cliques, mu_vals, cfg), out in zip(lines, pend, outs):
        nontriv = len(ms) >= 2 and (len(cliques) >= 2 or any(len(m['proj']) >= 2 and m['proj'] != sorted(m['proj']) for m in ms))
        chk.case(line, nontriv, dict(info, code_loss=code[0], model=out[:100]) if len(chk.samples) < 2 and nontriv else None)
        # independent oracle: explicit sum over the supplied measurements
        oloss = Fraction(0)
        ograd = {cl: [Fraction(0)] * len(mu_vals[cl]) for cl in cliques}
        order = sorted(range(len(cliques)), key=lambda i: (math.prod(cfg[a] for a in cliques[i])))
        groups = []
        for m in ms:
            tgt = next((cliques[i] for i in order if set(m['proj']) <= set(cliques[i])), None)
            groups.append(tgt)
            if tgt is None:
                continue
            cells = list(itertools.product(*[range(cfg[a]) for a in tgt]))
            pcells = list(itertools.product(*[range(cfg[a]) for a in m['proj']]))
            pidx = {c: i for i, c in enumerate(pcells)}
            pos = [tgt.index(a) for a in m['proj']]
            x = [Fraction(0)] * len(pcells)
            for ci, c in enumerate(cells):
                x[pidx[tuple(c[p] for p in pos)]] += mu_vals[tgt][ci]
            c_ = 1 / m['sigma']
            diff = [c_ * (sum(q * xv for q, xv in zip(row, x)) - yv) for row, yv in zip(m['Q'], m['y'])]
            if info['metric'] == 'L1':
                oloss += sum(abs(d) for d in diff)
                sgn = [Fraction((d > 0) - (d < 0)) for d in diff]
            else:
                oloss += sum(d * d for d in diff) / 2
                sgn = diff
            g = [c_ * sum(m['Q'][i][j] * sgn[i] for i in range(len(sgn))) for j in range(len(x))]
            for ci, c in enumerate(cells):
                ograd[tgt][ci] += g[pidx[tuple(c[p] for p in pos)]]
        def agree(l, gd):
            if abs(code[0] - float(l)) > 1e-9 * max(1.0, abs(float(l))):
                return False
            for cl in cliques:
                if len(code[1][cl]) != len(gd[cl]) or any(abs(a - float(b)) > 1e-9 * max(1.0, abs(float(b))) for a, b in zip(code[1][cl], gd[cl])):
                    return False
            return True
        try:
            head, rest = out.split(' G ')
            toks = head.split(' ', 1)
            ml = parse_q(toks[0])
            mg = [parse_qlist('[' + t.strip('[] ') + ']') for t in toks[1].replace('] [', ']|[').split('|')] if len(toks) > 1 else []
            mgd = {cl: g for cl, g in zip(cliques, mg)}
            model_ok = agree(ml, mgd) and len(mg) == len(cliques)
        except Exception:
            model_ok = False
        if not model_ok:
            fails = not agree(oloss, ograd)
            chk.violation(dict(kind='loss', metric=info['metric']), 'loss/gradient differ from the sum over the supplied measurements' if fails else 'code agrees with the explicit oracle but not with the model',
                          dict(info, code_loss=code[0], exact_loss=str(oloss), model_output=out[:300]), found_input=fails)
        # smoothness bound vs the dense Hessian of the loss the estimator optimises
        if lip is not None:
            lam = 0.0
            for cl in cliques:
                n_ = len(mu_vals[cl])
                H = np.zeros((n_, n_))
                cells = list(itertools.product(*[range(cfg[a]) for a in cl]))
                for m, tgt in zip(ms, groups):
                    if tgt != cl:
                        continue
                    pcells = list(itertools.product(*[range(cfg[a]) for a in m['proj']]))
                    pidx = {c: i for i, c in enumerate(pcells)}
                    pos = [cl.index(a) for a in m['proj']]
                    P = np.zeros((len(pcells), n_))
                    for ci, c in enumerate(cells):
                        P[pidx[tuple(c[p] for p in pos)], ci] = 1
                    A = np.array([[float(x) for x in r] for r in m['Q']]) @ P / float(m['sigma'])
                    H += A.T @ A
                lam = max(lam, float(np.linalg.eigvalsh(H)[-1]))
            chk.count('lipschitz.checked')
            if lip < lam * (1 - 1e-9) - 1e-12:
                chk.violation(dict(kind='lipschitz'), 'smoothness constant %.6g is below the largest Hessian eigenvalue %.6g' % (lip, lam),
                              dict(info, lipschitz=lip, lambda_max=lam), found_input=True)
    return chk.finish(rule='random domains (2-4 attributes), 1-6 measurements with overlapping / nested / permuted / duplicated projections, queries {identity, prefix, dense, wide, tall} with dyadic '
                      'entries, noise scales in {1/4..8}, L2 and L1 metric, random spellings (dense/sparse/LinearOperator/None, tuple/list/str); candidate marginal vectors with random dyadic entries (not consistent). '
                      'Compared: loss and every gradient entry of every clique (1e-9) with the exact model; smoothness constant vs eigvalsh of the dense Hessian under the loss grouping. '
                      'Non-trivial = >=2 measurements and (>=2 model cliques or a permuted multi-attribute projection).',
                      assumptions=['the smoothness bound is an eigenvalue statement checked numerically per case (partial)', 'float64 evaluation of dyadic inputs vs exact rationals at 1e-9'])


def replay(chk, rp):
    print(json.dumps(rp, indent=1)[:4000])
    return 0
