#!/bin/bash
# usage: seedtest.sh <patch.diff> <prop> [tier]   — apply a seeded change to /repo, run the check, undo it.
patch="$1"; prop="$2"; tier="${3:-quick}"
cd /repo || exit 2
if ! git diff --quiet; then echo "repo not clean"; exit 2; fi
git apply "$patch" || { echo "patch does not apply"; exit 2; }
cp /verif/evidence/$prop.json /tmp/seedtest.$$.ev 2>/dev/null
cd /verif && ./check "$prop" "$tier" > /tmp/seedtest.$$.out 2>&1; rc=$?
[ -f /tmp/seedtest.$$.ev ] && mv /tmp/seedtest.$$.ev /verif/evidence/$prop.json
cd /repo && git checkout -- . 
grep -E "^VIOLATION|^KNOWN|seed=" /tmp/seedtest.$$.out | head -4
echo "exit=$rc"
rm -f /tmp/seedtest.$$.out
