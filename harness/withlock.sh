#!/bin/bash
# run a command while holding the lock the checks take around their Coq builds (build/coq.lock)
mkdir -p /verif/build
exec flock /verif/build/coq.lock "$@"
