"""C02 — every query path answers from one and the same joint distribution.
Correspondence: the exact-rational model (brute-force marginal of the explicit joint = what Props/C02.v proves every modelled
path returns; the elimination path project_ve; krondot) vs the code's query paths under random interleavings that populate the
marginal cache: project (cached/uncached, any attribute order incl. () and the full tuple), calculate_many_marginals, krondot,
datavector, save+load."""
import itertools, json, math, os, tempfile
from fractions import Fraction
import numpy as np
import common, pgmgen, c01
from common import ltok, qtok, parse_qlist


def model_prefix(case):
    ids = case['ids']; mcl = case['mcl']
    idx = {cl: i for i, cl in enumerate(mcl)}
    cfg = dict(zip(case['attrs'], case['sizes']))
    parts = [pgmgen.dom_tok(case['attrs'], case['sizes'], ids), str(len(mcl))]
    for cl in mcl:
        pa, vals = case['pots'][cl]
        parts.append(ltok([ids[a] for a in pa]))
        parts.append(ltok([idx[c] for c in case['nbrs'][cl]]))
        parts.append(ltok([(a, cfg[a]) for a in pa], lambda p: '%d %d' % (ids[p[0]], p[1])))
        parts.append(ltok(vals, qtok))
    return ' '.join(parts)


def close_all(xs, qs, scale):
    if len(xs) != len(qs):
        return False
    return all(abs(x - float(q)) <= 1e-9 * abs(float(q)) + 1e-12 * scale for x, q in zip(xs, qs))


def rand_tuple(rng, attrs):
    r = rng.random()
    if r < 0.08:
        return ()
    if r < 0.16:
        t = list(attrs)
    else:
        t = [a for a in attrs if rng.random() < 0.45] or [rng.choice(attrs)]
    rng.shuffle(t)
    return tuple(t)


def main(chk):
    from mbi import CliqueVector, GraphicalModel
    chk.prove()
    rng = chk.rng
    n = 70 if chk.tier == 'quick' else 1200
    lines, pend = [], []
    tmpdir = tempfile.mkdtemp(prefix='c02_')
    for it in range(n):
        case = c01.build_case(chk, rng, chk.tier, force_ring=(it % 6 == 4))      # every sixth model: a chordless ring of >= 5 cliques
        if case['stream'] in ('huge', 'compensate') and rng.random() < 0.5:
            continue
        attrs, sizes, total = case['attrs'], case['sizes'], case['total']
        joint = pgmgen.brute_joint(attrs, sizes, [case['pots'][cl] for cl in case['mcl']])
        if sum(joint.values()) == 0:
            chk.count('skipped.Z=0'); continue
        m = case['model']
        m.potentials = CliqueVector({cl: case['facs'][cl].copy() for cl in case['mcl']})
        pre = model_prefix(case)
        tt = qtok(Fraction(total))
        ids = case['ids']
        ops = [rng.choice(['project', 'project', 'project', 'many', 'krondot', 'datavector', 'saveload', 'bp_other', 'synth']) for _ in range(rng.randint(4, 8))]
        cached = False
        hist = []
        for op in ops:
            if op == 'krondot' and case['stream'] in ('huge', 'compensate'):
                op = 'project'
            hist.append(op)
            info = dict(c01.jsonable(case), op=op, history=list(hist), cache_populated=cached)
            try:
                with np.errstate(all='ignore'):
                    if op == 'project':
                        t = rand_tuple(rng, attrs)
                        f = m.project(rng.choice([list, tuple])(t))
                        got = (list(f.domain.attrs), [float(v) for v in np.asarray(f.values, dtype=float).reshape(-1)])
                        lines.append('q_brute %s %s %s' % (pre, tt, ltok([ids[a] for a in t])))
                        pend.append((info, dict(kind='project', attrs=list(t)), got, total))
                        if rng.random() < 0.3:
                            lines.append('q_project_ve %s %s %s' % (pre, tt, ltok([ids[a] for a in t])))
                            pend.append((info, dict(kind='project(elimination model)', attrs=list(t)), got, total))
                        if rng.random() < 0.5 and isinstance(f.values, np.ndarray):
                            f.values[...] = f.values * 0.5 + 1.0; hist[-1] = 'project+caller-overwrites-answer'     # an answer belongs to the caller
                    elif op == 'many':
                        projs = list({rand_tuple(rng, attrs) for _ in range(rng.randint(1, 4))})
                        ans = m.calculate_many_marginals(projs)
                        cached = True
                        for t in projs:
                            f = ans[t]
                            got = (list(f.domain.attrs), [float(v) for v in np.asarray(f.values, dtype=float).reshape(-1)])
                            lines.append('q_brute %s %s %s' % (pre, tt, ltok([ids[a] for a in t])))
                            pend.append((info, dict(kind='calculate_many_marginals', attrs=list(t)), got, total))
                            if rng.random() < 0.3 and isinstance(f.values, np.ndarray):
                                f.values[...] = 7.0; hist[-1] = 'many+caller-overwrites-answer'
                    elif op == 'datavector':
                        v = m.datavector(flatten=rng.random() < 0.5)
                        got = (list(attrs), [float(x) for x in np.asarray(v, dtype=float).reshape(-1)])
                        if np.asarray(v).ndim > 1 and list(np.asarray(v).shape) != list(sizes):
                            got = (['wrong-shape'], got[1])
                        lines.append('q_brute %s %s %s' % (pre, tt, ltok([ids[a] for a in attrs])))
                        pend.append((info, dict(kind='datavector', attrs=list(attrs)), got, total))
                    elif op == 'krondot':
                        mats, toks = [], []
                        for a, s in zip(attrs, sizes):
                            rows = rng.randint(1, 3)
                            M = [[Fraction(rng.randint(-4, 8), rng.choice([1, 2, 4])) for _ in range(s)] for _ in range(rows)]
                            mats.append(np.array([[float(x) for x in r] for r in M]))
                            toks.append('%d %s' % (rows, ' '.join(qtok(x) for r in M for x in r)))
                        res = m.krondot(mats)
                        got = (['answer'], [float(x) for x in np.asarray(res, dtype=float).reshape(-1)])
                        if list(np.asarray(res).shape) != [M_.shape[0] for M_ in mats]:
                            got = (['wrong-shape'], got[1])
                        lines.append('q_krondot %s %s %s' % (pre, tt, ' '.join(toks)))
                        pend.append((info, dict(kind='krondot', attrs=['answer']), got, total * 50))
                    elif op == 'bp_other':
                        # inference on OTHER parameters (what the estimators do with candidate iterates) must not change the model's answers
                        other = CliqueVector({cl: case['facs'][cl].copy() * rng.choice([0.0, 0.5, 3.0]) + rng.choice([0.0, 2.0]) for cl in case['mcl']})
                        m.belief_propagation(other)
                    elif op == 'synth':
                        try:
                            m.synthetic_data(rows=rng.choice([1, 7, 60]))       # reads answers and works on them in place; its own result is C11's business
                        except Exception:
                            chk.count('synth-raised(ignored here)')
                    elif op == 'saveload':
                        path = os.path.join(tmpdir, 'm.pkl')
                        GraphicalModel.save(m, path)
                        m = GraphicalModel.load(path)
                        os.remove(path)
            except Exception as e:
                lines.append('q_brute %s %s %s' % (pre, tt, ltok([])))
                pend.append((info, dict(kind=op, attrs=[]), ('EXC ' + common.exc_kind(e) + ': ' + str(e)[:80], []), total))
            chk.count('op.' + op)
    try:
        os.rmdir(tmpdir)
    except OSError:
        pass
    outs = common.run_model(lines, timeout=2400)
    for line, (info, q, got, scale), out in zip(lines, pend, outs):
        nontriv = len(info['model_cliques']) >= 2 and (len(q['attrs']) >= 2 or q['kind'] in ('krondot', 'datavector'))
        chk.case(line, nontriv, dict(query=q, history=info['history'], cache=info['cache_populated'], attrs=info['attrs'], sizes=info['sizes'],
                                     cliques=info['model_cliques'], code=got[1][:8], model=out[:120]) if len(chk.samples) < 3 and nontriv else None)
        ok = False
        exp = None
        if not out.startswith('EXC') and not got[0][:1] == ['E'] and not str(got[0]).startswith('EXC'):
            try:
                exp = parse_qlist(out)
                ok = close_all(got[1], exp, float(scale)) and (q['kind'] in ('krondot',) and got[0] == ['answer'] or got[0] == q['attrs'])
            except Exception:
                ok = False
        if not ok:
            fails = True   # the model value IS the brute-force marginal of the explicit joint (exact); a difference is a property failure
            if out.startswith('EXC'):
                fails = False
            chk.violation(dict(kind='query', path=q['kind'], cache=info['cache_populated']),
                          '%s answer differs from the marginal of the explicit joint (cache populated: %s)' % (q['kind'], info['cache_populated']) if fails else 'model runner failed',
                          dict(info, query=q, code_answer=[got[0], got[1][:40]], exact=[str(x) for x in (exp or [])][:40], model_output=out[:200]), found_input=fails)
    return chk.finish(rule='random models as in C01 (structure, potentials incl. zeros and 2^+-1200, totals) x random interleavings (4-8 operations) of project (random subsets x orderings incl. () and the full '
                      'tuple, list/tuple spelling), calculate_many_marginals (1-4 projections; populates the cache), krondot (1-3 rows per attribute, rational entries incl. negative), datavector '
                      '(flat / shaped), save+load. Every answer is compared entry-wise (1e-9 rel + 1e-12*total) with the exact brute-force marginal of the explicit joint computed by the model in the requested '
                      'attribute order; 30% of the project queries additionally against the model\'s elimination path. Non-trivial = >=2 model cliques and (>=2 requested attributes or krondot/datavector).',
                      assumptions=['pickling (save/load) is runtime behaviour, exercised not modelled', 'calculate_many_marginals chaining is compared against the joint, not proved (partial)',
                                   'krondot exponentiates potentials: not exercised on the 2^+-1200 stream'])


def replay(chk, rp):
    print(json.dumps(rp, indent=1)[:4000])
    return 0
