"""C12 — every constructed junction tree is valid, with a valid message schedule.
Correspondence: (1) the model's maximal elimination cliques (and deterministic greedy order) vs JunctionTree's node set;
(2) the verified checkers (cover, attribute coverage, antichain, spanning tree + recursive running intersection for every
root, schedule validity/completeness) evaluated by the extracted model on the tree and schedule the code produced.
Oracle (failing-input search): an independent Python check of the textbook statement."""
import itertools, json
import numpy as np
import common, pgmgen
from common import ltok


def oracle(attrs, cliques, nodes, tree_edges, sched):
    """textbook junction-tree + schedule conditions, independent of the Coq model; returns list of failures."""
    bad = []
    ns = [set(n) for n in nodes]
    for c in cliques:
        if not any(set(c) <= n for n in ns):
            bad.append('input clique %s not contained in any node' % (c,))
    for a in attrs:
        if not any(a in n for n in ns):
            bad.append('attribute %s appears in no node' % a)
    for i, j in itertools.permutations(range(len(ns)), 2):
        if ns[i] <= ns[j]:
            bad.append('node %s contained in node %s' % (nodes[i], nodes[j]))
    # tree
    n = len(nodes)
    adj = {i: set() for i in range(n)}
    for i, j in tree_edges:
        adj[i].add(j); adj[j].add(i)
    def comp(start, allowed):
        seen, st = {start}, [start]
        while st:
            u = st.pop()
            for v in adj[u]:
                if v in allowed and v not in seen:
                    seen.add(v); st.append(v)
        return seen
    if n and (len(tree_edges) != n - 1 or comp(0, set(range(n))) != set(range(n))):
        bad.append('not a spanning tree (%d nodes, %d edges)' % (n, len(tree_edges)))
    for a in attrs:
        S = {i for i in range(n) if a in ns[i]}
        if S and comp(min(S), S) != S:
            bad.append('nodes containing %s are not connected' % a)
    # schedule
    dirs = [(i, j) for i, j in tree_edges] + [(j, i) for i, j in tree_edges]
    if sorted(sched) != sorted(dirs):
        bad.append('schedule is not each direction of each edge exactly once')
    pos = {e: k for k, e in enumerate(sched)}
    for (i, j) in sched:
        for k in adj.get(i, ()):
            if k != j and pos.get((k, i), 10 ** 9) > pos[(i, j)]:
                bad.append('message %s->%s scheduled before %s->%s' % (i, j, k, i))
    return bad


def one_case(chk, rng, attrs, sizes, cliques, order, mode):
    from mbi import Domain
    from mbi.junction_tree import JunctionTree
    ids = pgmgen.ids_of(attrs)
    dom = Domain(attrs, sizes)
    np.random.seed(rng.randrange(2 ** 31))
    jt = JunctionTree(dom, [tuple(c) for c in cliques], order)
    nodes = jt.maximal_cliques()
    idx = {cl: i for i, cl in enumerate(nodes)}
    nb = jt.neighbors()
    tree_edges = sorted({tuple(sorted((idx[a], idx[b]))) for a in nodes for b in nb[a]})
    sched = [(idx[a], idx[b]) for a, b in jt.mp_order()]
    eo = list(jt.elimination_order)
    dt = pgmgen.dom_tok(attrs, sizes, ids)
    ct = ltok(cliques, lambda c: ltok([ids[a] for a in c]))
    # (1) construction: for a permutation order or the default greedy order the node SET is determined
    l1 = 'jt_build %s %s %s' % (dt, ct, ltok([ids[a] for a in (order if mode == 'perm' else (eo if mode == 'int' else []))]))
    l2 = 'jt_verify %s %s %d %s %s' % (dt, ct, len(nodes), ' '.join('%s %s' % (ltok([ids[a] for a in cl]), ltok(sorted(idx[c] for c in nb[cl]))) for cl in nodes),
                                    ltok(sched, lambda e: '%d %d' % e))
    info = dict(attrs=attrs, sizes=sizes, cliques=[list(c) for c in cliques], order_mode=mode, order=order if mode != 'none' else None,
                elimination_order=eo, nodes=[list(c) for c in nodes], tree_edges=tree_edges, schedule=sched)
    # (3) the graph GENERATED from mp_order's source (messages + dependency edges), on the tree's edges in the code's own orientation:
    # the order the code returns must be a topological order of it (hypothesis of C12_src_every_topological_order_is_a_valid_schedule)
    raw = [(idx[a], idx[b]) for a, b in jt.tree.edges()]
    info['l3'] = 'mp_check %s %s' % (ltok(raw, lambda e: '%d %d' % e), ltok(sched, lambda e: '%d %d' % e))
    info['raw_edges'] = raw
    return l1, l2, info, ids


def judge(chk, l1out, l2out, info, ids):
    nodes_code = sorted(sorted(ids[a] for a in n) for n in info['nodes'])
    fails = oracle(info['attrs'], info['cliques'], info['nodes'], info['tree_edges'], info['schedule'])
    problems = []
    try:
        cl_part, g_part = l1out.rsplit('] [', 1) if '] [' in l1out else (l1out, '')
        body = l1out[1:l1out.index(']]') + 1] if ']]' in l1out else ''
        model_nodes = sorted(sorted(int(t) for t in grp.strip('[] ').split()) for grp in body.replace('] [', ']|[').split('|')) if body else []
        greedy = [int(t) for t in l1out[l1out.rindex('[') + 1:].strip(' ]').split()]
    except Exception:
        model_nodes, greedy = None, None
    if model_nodes != nodes_code:
        problems.append('node set differs from the maximal elimination cliques of the model: %s' % (model_nodes,))
    if info['order_mode'] == 'none' and greedy != [ids[a] for a in info['elimination_order']]:
        problems.append('default elimination order differs from the deterministic greedy order of the model: %s' % (greedy,))
    flags = dict(kv.split('=') for kv in l2out.split()) if '=' in l2out else {}
    for k in ('struct', 'sched', 'complete', 'cover', 'attrs', 'antichain'):
        if flags.get(k) != 'true':
            problems.append('checker %s failed' % k)
    if 'roots' not in flags or set(flags['roots']) - {'1'} or len(flags.get('roots', '')) != len(info['nodes']):
        problems.append('running-intersection / spanning check failed for roots %s' % flags.get('roots'))
    if problems or fails:
        chk.violation(dict(kind='junction-tree', what=(fails or problems)[0][:50]),
                      ('junction tree invalid: ' + '; '.join(fails[:3])) if fails else ('model/checker disagreement: ' + '; '.join(problems[:3])),
                      dict(info, model_build=l1out[:300], model_checks=l2out, oracle_failures=fails[:5], model_problems=problems[:5]), found_input=bool(fails))


def all_graphs(names):
    pairs = list(itertools.combinations(names, 2))
    for mask in range(1 << len(pairs)):
        yield [p for b, p in enumerate(pairs) if mask >> b & 1]


def main(chk):
    chk.prove()
    tok, tmsg = getattr(chk, 'translators', {}).get('mp', (True, ''))
    if not tok:
        chk.violation(dict(kind='translator'), 'JunctionTree.mp_order left the translated subset: C12_src_every_topological_order_is_a_valid_schedule is not re-checked against the current source',
                      dict(broken='Gen/MpOrder_gen.v (translator/py2gallina_mp.py on src/mbi/junction_tree.py)', translator_message=tmsg), found_input=False)
    rng = chk.rng
    cases = []
    # exhaustive: all labelled graphs on <= 4 (quick) / 5 (thorough) attributes x all elimination orders (+ default)
    kmax = 4 if chk.tier == 'quick' else 5
    for k in range(2, kmax + 1):
        names = pgmgen.NAMES[:k]
        for edges in all_graphs(names):
            orders = list(itertools.permutations(names)) if (k <= 4 or chk.tier == 'thorough') else []
            if chk.tier == 'quick' and k == 4:
                orders = rng.sample(orders, 6)
            if chk.tier == 'thorough' and k == 5:
                orders = rng.sample(orders, 12)
            for o in [None] + orders:
                attrs = list(names)
                sizes = [rng.choice([1, 2, 3]) for _ in attrs]
                cl = [tuple(rng.sample(e, 2)) for e in edges] or [(names[0],)]
                cases.append((attrs, sizes, cl, list(o) if o else None, 'perm' if o else 'none'))
            chk.count('exhaustive.k=%d' % k)
    nrand = 250 if chk.tier == 'quick' else 4000
    for _ in range(nrand):
        attrs, sizes, cliques, order, mode = pgmgen.gen_structure(rng, max_attrs=8 if rng.random() < 0.5 else 6, max_cells=10 ** 9, max_cliques=8)
        cases.append((attrs, sizes, cliques, order, mode))
    l1s, l2s, infos = [], [], []
    for attrs, sizes, cliques, order, mode in cases:
        try:
            l1, l2, info, ids = one_case(chk, rng, attrs, sizes, cliques, order, mode)
        except Exception as e:
            chk.violation(dict(kind='exception', what=common.exc_kind(e)), 'JunctionTree construction raised %s' % common.exc_kind(e),
                          dict(attrs=attrs, sizes=sizes, cliques=[list(c) for c in cliques], order=order, error=str(e)[:200]), found_input=True)
            continue
        l1s.append(l1); l2s.append(l2); infos.append((info, ids))
        chk.count('mode.' + mode); chk.count('nodes=%d' % len(info['nodes']))
        chk.case(l1 + l2, len(info['nodes']) >= 2, info if len(chk.samples) < 2 and len(info['nodes']) >= 3 else None)
    outs = common.run_model(l1s + l2s, timeout=2400)
    gouts = common.run_gen([info.pop('l3') for info, _ in infos], timeout=1200)
    for k, (info, ids) in enumerate(infos):
        judge(chk, outs[k], outs[len(l1s) + k], info, ids)
        g = gouts[k]
        want = 'messages=%d ' % (2 * len(info['raw_edges']))
        if not (g.startswith(want) and g.endswith('perm=true topo=true')):
            fails = [f for f in oracle(info['attrs'], info['cliques'], info['nodes'], info['tree_edges'], info['schedule']) if 'schedul' in f or 'message' in f]
            chk.violation(dict(kind='mp-order', what=g[:40]), ('message schedule invalid: ' + '; '.join(fails[:2])) if fails else
                          'mp_order() is not a topological order of the dependency graph generated from its source (or the generated functions could not be run): ' + g[:80],
                          dict(info, generated_check=g, broken='Gen/MpOrder_gen.v (translator/py2gallina_mp.py on JunctionTree.mp_order)'), found_input=bool(fails))
        chk.count('generated-mp-order')
    chk.extra['exhaustive_part'] = 'all labelled graphs on <= %d attributes x %s' % (kmax, 'all elimination orders (5 attributes: 12 sampled orders + default)' if chk.tier == 'thorough' else 'all orders for <=3, 6 sampled orders + default for 4')
    return chk.finish(rule='exhaustive small graphs (pairwise cliques, random attribute sizes incl. 1, random orientation) x elimination orders + default; random clique sets on 2-8 attributes '
                      '(rings, stars, nested, duplicated, any order) with order modes {None, permutation, int}. Compared: node set vs the model\'s maximal elimination cliques, default order vs the '
                      'model\'s greedy order; verified checkers on the code\'s tree and schedule. Non-trivial = tree with >=2 nodes; distinct by case text.',
                      assumptions=['networkx.minimum_spanning_tree / find_cliques / topological_sort / dfs_preorder_nodes are external: their outputs are validated by the verified checkers on every case',
                                   'elimination orders are permutations of the domain (the documented use); partial orders are outside the model'])


def replay(chk, rp):
    print(json.dumps(rp, indent=1)[:4000])
    return 0
