"""C20 — selection and noise primitives are exactly calibrated.
Model (Model/Select.v, generic over the numeric signature): the four selection code paths and the scale helpers.  Theorems on the
reals (Props/C20.v): the computed vector is exp(s_i)/sum exp(s_j) whatever the max / logsumexp shift, hence proportional to
base_i*exp(eps*q_i/(2*sens)); shift invariance; sums to one; exponents <= 0 after the shift; scale formulas.
Correspondence: the float instance of the same model vs the `p=` vector each primitive hands to prng.choice and the `scale=` it
hands to normal/laplace (recorded with a fake prng / patched numpy.random).  Oracle: the definition evaluated with 60-digit decimals."""
import decimal, importlib, json, math
import numpy as np
import common

D = decimal.Decimal
decimal.getcontext().prec = 60


class FakePrng:
    def __init__(self):
        self.calls = []
    def choice(self, n, *a, p=None, **kw):
        self.calls.append(('choice', n, None if p is None else np.array(p, dtype=float)))
        return 0
    def normal(self, loc, scale, size=None):
        self.calls.append(('normal', loc, scale, size))
        return np.zeros(size)
    def laplace(self, loc, scale, size=None):
        self.calls.append(('laplace', loc, scale, size))
        return np.zeros(size)


def oracle(q, c, base=None):
    qs = [D(repr(float(x))) for x in q]
    cd = D(repr(float(c)))
    ex = [cd * x for x in qs]
    m = max(ex)
    w = [(e - m).exp() * (D(repr(float(b))) if base is not None else 1) for e, b in zip(ex, base if base is not None else qs)]
    z = sum(w)
    return [float(x / z) for x in w]


def hx(x):
    return float(x).hex()

def lt(l):
    return '%d %s' % (len(l), ' '.join(hx(x) for x in l))


def close(a, b, tol=1e-11):
    if len(a) != len(b):
        return False
    return all(abs(x - y) <= tol * max(abs(y), 1e-300) + 1e-300 for x, y in zip(a, b))


def main(chk):
    mech = importlib.import_module('mechanism')
    mst = importlib.import_module('mst')
    ag = importlib.import_module('adaptive_grid')
    mw = importlib.import_module('mwem+pgm')
    aim = importlib.import_module('aim')
    chk.prove()
    rng = chk.rng
    n = 400 if chk.tier == 'quick' else 8000
    lines, pend = [], []
    for it in range(n):
        k = rng.randint(1, 8)
        scale = rng.choice([1.0, 10.0, 1e3, 1e6])
        q = [rng.choice([-1, 0, 0.5, 1, 2, 3.25]) * scale if rng.random() < 0.5 else rng.uniform(-1, 1) * scale for _ in range(k)]
        if k > 1 and rng.random() < 0.3:
            q[1] = q[0]                                           # ties
        if rng.random() < 0.2:
            q = [x + 1e6 for x in q]                              # common offset
        eps = rng.choice([1e-3, 0.1, 1.0, 3.7, 50.0])
        sens = rng.choice([0.5, 1.0, 2.0, 7.0])
        prim = rng.choice(['mech.array', 'mech.dict', 'mech.dict.base', 'mst', 'mst.mono', 'adagrid', 'adagrid.mono', 'mwem', 'mwem.bounded', 'aim', 'scales'])
        chk.count('primitive.' + prim)
        info = dict(primitive=prim, qualities=q, eps=eps, sensitivity=sens)
        fp = FakePrng()
        try:
            if prim.startswith('mech'):
                M = mech.Mechanism(1.0, 0, bounded=False, prng=fp)
                if prim == 'mech.array':
                    M.exponential_mechanism(np.array(q), eps, sens)
                    got = fp.calls[-1][2]; line = 'em_mechanism %s %s %s 0' % (lt(q), hx(eps), hx(sens)); exp_ = oracle(q, 0.5 * eps / sens)
                else:
                    keys = ['k%d' % i for i in range(k)]
                    order = list(range(k)); rng.shuffle(order)
                    qd = {keys[i]: q[i] for i in order}
                    base = None
                    if prim == 'mech.dict.base':
                        bv = [rng.choice([0.25, 1.0, 3.0, 10.0]) for _ in range(k)]
                        border = list(range(k)); rng.shuffle(border)
                        base = {keys[i]: bv[i] for i in border}          # other insertion order
                        if rng.random() < 0.3:
                            base['extra'] = 5.0
                        info['base_measure'] = bv
                    M.exponential_mechanism(qd, eps, sens, base_measure=base)
                    got = fp.calls[-1][2]
                    qo = [q[i] for i in order]
                    bo = [bv[i] for i in order] if base is not None else None
                    line = 'em_mechanism %s %s %s %s' % (lt(qo), hx(eps), hx(sens), ('1 ' + lt(bo)) if bo else '0')
                    exp_ = oracle(qo, 0.5 * eps / sens, bo)
            elif prim.startswith('mst') or prim.startswith('adagrid'):
                mono = prim.endswith('mono')
                mod = mst if prim.startswith('mst') else ag
                qq = [abs(x) for x in q] if prim.startswith('mst') and scale * 50 * eps > 1e8 else q
                mod.exponential_mechanism(np.array(qq), eps, sens, prng=fp, monotonic=mono)
                got = fp.calls[-1][2]
                line = '%s %s %s %s %d' % ('em_mst' if mod is mst else 'em_adagrid', lt(qq), hx(eps), hx(sens), 1 if mono else 0)
                exp_ = oracle(qq, (1.0 if mono else 0.5) * eps / sens)
                info['qualities'] = qq
            elif prim.startswith('mwem'):
                bounded = prim.endswith('bounded')
                class Est:
                    class domain:
                        @staticmethod
                        def size(cl): return 0
                    def project(self, cl):
                        class F:
                            def datavector(s): return np.zeros(1)
                        return F()
                cls = [('c%d' % i,) for i in range(k)]
                if k > 2 and rng.random() < 0.3:
                    cls[2] = cls[0]                                  # the same clique listed twice
                wa = {}
                errs = []
                for i, cl in enumerate(cls):
                    if cl not in wa:
                        wa[cl] = np.array([abs(q[i])])
                    errs.append(float(wa[cl][0]))
                old = np.random.choice
                np.random.choice = lambda n_, *a, p=None, **kw: (fp.calls.append(('choice', n_, np.array(p, dtype=float))), 0)[1]
                try:
                    mw.worst_approximated(wa, Est(), cls, eps, penalty=False, bounded=bounded)
                finally:
                    np.random.choice = old
                got = fp.calls[-1][2]
                line = 'em_mwem %s %s %d' % (lt(errs), hx(eps), 1 if bounded else 0)
                exp_ = oracle(errs, 0.5 * eps / (2.0 if bounded else 1.0))
                info['qualities'] = errs
            elif prim == 'aim':
                A = aim.AIM(1.0, 0)
                A.prng = fp
                class Model:
                    class domain:
                        @staticmethod
                        def size(cl): return 1
                    def project(self, cl):
                        class F:
                            def datavector(s): return np.zeros(1)
                        return F()
                cands = {('c%d' % i,): rng.choice([1.0, 1.0, 2.0, 0.5]) for i in range(k)}
                answers = {cl: np.array([abs(q[i])]) for i, cl in enumerate(cands)}
                sigma = rng.choice([0.0, 1.0, 10.0])
                A.worst_approximated(cands, answers, Model(), eps, sigma)
                got = fp.calls[-1][2]
                errs = [cands[cl] * (abs(q[i]) - math.sqrt(2 / math.pi) * sigma) for i, cl in enumerate(cands)]
                ms_ = max(abs(w) for w in cands.values())
                line = 'em_mechanism %s %s %s 0' % (lt(errs), hx(eps), hx(ms_))
                exp_ = oracle(errs, 0.5 * eps / ms_)
                info.update(qualities=errs, sensitivity=ms_)
            else:   # scales and samplers
                # a HISTORY of calls on one Mechanism object: repeated (eps, delta) with different sensitivities, the
                # adjacency flag toggled in between - every call must be calibrated from its own arguments and the current flag
                from autodp import privacy_calibrator
                bounded = rng.random() < 0.5
                M = mech.Mechanism(1.0, 0, bounded=bounded, prng=fp)
                eps_pool = [eps, eps, rng.choice([0.1, 0.5, 1.0, 2.0])]
                for step in range(rng.choice([2, 3, 4, 5])):
                    if step and rng.random() < 0.4:
                        bounded = not bounded; M.bounded = bounded
                    e_ = rng.choice(eps_pool); dl = rng.choice([1e-6, 1e-6, 1e-9])
                    l1 = rng.choice([1.0, 2.0, 0.5, 3.0]); l2 = rng.choice([1.0, 1.5, 0.25])
                    ncalls = len(fp.calls)
                    b = M.laplace_noise_scale(l1, e_)
                    M.laplace_noise(b, 5); M.gaussian_noise(2.5 * b, 3)
                    s1 = privacy_calibrator.ana_gaussian_mech(e_, dl)['sigma']
                    g = M.gaussian_noise_scale(l2, e_, dl)
                    hinfo = dict(info, bounded=bounded, step=step, eps=e_, delta=dl, l1=l1, l2=l2)
                    lines.append('laplace_scale %d %s %s' % (bounded, hx(l1), hx(e_))); pend.append((dict(hinfo, what='laplace scale'), [b], [(2 if bounded else 1) * l1 / e_]))
                    lines.append('gaussian_scale %d %s %s' % (bounded, hx(l2), hx(s1))); pend.append((dict(hinfo, what='gaussian scale'), [g], [(2 if bounded else 1) * l2 * s1]))
                    c0, c1 = fp.calls[ncalls], fp.calls[ncalls + 1]
                    if c0[:3] != ('laplace', 0, b) or c1[:3] != ('normal', 0, 2.5 * b) or c0[3] != 5 or c1[3] != 3:
                        chk.violation(dict(kind='sampler'), 'noise sampler does not draw with the scale/size it is given', dict(hinfo, calls=str(fp.calls[ncalls:])), found_input=True)
                    # best_noise_distribution must draw with the scale computed from ITS arguments (Laplace iff sqrt2*b < sigma)
                    ncalls = len(fp.calls)
                    M.best_noise_distribution(l1, l2, e_, dl)(4)
                    eb, eg = (2 if bounded else 1) * l1 / e_, (2 if bounded else 1) * l2 * s1
                    want = ('laplace', 0, eb) if math.sqrt(2) * eb < eg else ('normal', 0, eg)
                    cb = fp.calls[ncalls]
                    if cb[0] != want[0] or not close([cb[2]], [want[2]], 1e-12) or cb[3] != 4:
                        chk.violation(dict(kind='sampler', what='best_noise_distribution'), 'best_noise_distribution draws %s(scale=%r), calibrated value is %s(scale=%r)' % (cb[0], cb[2], want[0], want[2]),
                                      dict(hinfo, call=str(cb), expected=str(want)), found_input=True)
                continue
        except Exception as e:
            chk.violation(dict(kind='exception', primitive=prim, what=common.exc_kind(e)), 'primitive %s raised %s: %s' % (prim, common.exc_kind(e), str(e)[:80]), info, found_input=True)
            continue
        lines.append(line); pend.append((info, [float(x) for x in got], exp_))
    outs = common.run_num(lines)
    for line, (info, got, exp_), out in zip(lines, pend, outs):
        nontriv = len(got) >= 2
        chk.case(line, nontriv, dict(info, code=got[:6], model=(out if isinstance(out, str) else out[:6])) if len(chk.samples) < 3 and nontriv else None)
        ok_model = (not isinstance(out, str)) and close(got, out)
        if not ok_model:
            fails = not close(got, exp_, 1e-9) or any(not math.isfinite(x) for x in got)
            chk.violation(dict(kind='calibration', primitive=info['primitive']),
                          ('%s: selection probabilities / scale differ from the exponential-mechanism definition' % info['primitive']) if fails else 'code agrees with the 60-digit oracle but not with the float model',
                          dict(info, code=got, exact=exp_, model=out if isinstance(out, str) else list(out)), found_input=fails)
    return chk.finish(rule='random quality vectors (1-8 candidates, magnitudes 1..1e6 (+1e6 offsets), ties, arrays and dicts in shuffled insertion order, dict base measures in another order / with extra keys), '
                      'eps in {1e-3..50}, sensitivities {.5,1,2,7}; primitives: Mechanism.exponential_mechanism (array/dict/base), mst and adaptive_grid exponential_mechanism (monotonic or not), mwem+pgm '
                      'worst_approximated (bounded or not, repeated cliques), AIM.worst_approximated, laplace/gaussian scale helpers and samplers. The p= vector handed to choice and the scale= handed to '
                      'normal/laplace are compared (1e-11) with the float instance of the model; a 60-digit decimal evaluation of the definition decides failures. Non-trivial = >= 2 candidates.',
                      assumptions=['scipy.special.softmax/logsumexp and numpy.exp are external (float libm); compared through the result',
                                   'permute_and_flip and the score transformation of generalized_exponential_mechanism are different mechanisms by definition: not claimed',
                                   'gaussian_noise_scale multiplies the analytic-Gaussian sigma of the (stubbed) autodp package: only the factor is checked'])


def replay(chk, rp):
    print(json.dumps(rp, indent=1)[:4000])
    return 0
