"""C15 — datasets vectorise to their contingency table; projection commutes; domain laws.
Correspondence: extracted model (exact rationals) vs mbi.Dataset / mbi.Domain on the same inputs.
Oracle (failing-input search only): collections.Counter over record tuples."""
import itertools, json, random
from collections import Counter
from fractions import Fraction
import numpy as np, pandas as pd
import common
from common import ltok, qtok, parse_qlist

NAMES = ['a', 'b', 'c', 'd', 'e', 'f', 'zz', 'A1', 'col_x']


def gen_domain(rng, kmax=5):
    k = rng.randint(1, kmax)
    names = rng.sample(NAMES, k)
    sizes = [rng.choice([1, 1, 2, 2, 3, 4, 5]) for _ in names]
    return names, sizes


def dom_tok(names, sizes, ids):
    return ltok([(ids[n], s) for n, s in zip(names, sizes)], lambda p: '%d %d' % p)


def fmt_dom(d, ids):
    return '[' + ' '.join('%d:%d' % (ids[a], n) for a, n in zip(d.attrs, d.shape)) + ']'


def run_domain_cases(chk, n):
    from mbi import Domain
    rng = chk.rng
    lines, expect, meta = [], [], []
    for _ in range(n):
        names, sizes = gen_domain(rng, 6)
        ids = {nm: i for i, nm in enumerate(sorted(NAMES))}
        d = Domain(names, sizes)
        op = rng.choice(['project', 'marginalize', 'invert', 'axes', 'merge', 'contains', 'size', 'size_of', 'canonical',
                         'sort_size', 'sort_name', 'project_bad', 'eq'])
        chk.count('domain.' + op)
        sub = [a for a in names if rng.random() < 0.6]
        rng.shuffle(sub)
        dt = dom_tok(names, sizes, ids)
        try:
            if op == 'project':
                if len(sub) == 1 and rng.random() < 0.5:
                    got = fmt_dom(d.project(sub[0]), ids)  # string spelling
                else:
                    got = fmt_dom(d.project(rng.choice([list, tuple])(sub)), ids)
                line = 'dom_project %s %s' % (dt, ltok([ids[a] for a in sub]))
            elif op == 'project_bad':
                extra = [a for a in NAMES if a not in names]
                sub2 = sub + [rng.choice(extra)]
                rng.shuffle(sub2)
                line = 'dom_project %s %s' % (dt, ltok([ids[a] for a in sub2]))
                got = fmt_dom(d.project(sub2), ids)
            elif op == 'marginalize':
                other = sub + [a for a in NAMES if a not in names and rng.random() < 0.2]
                got = fmt_dom(d.marginalize(other), ids)
                line = 'dom_marginalize %s %s' % (dt, ltok([ids[a] for a in other]))
            elif op == 'invert':
                other = sub + [a for a in NAMES if a not in names and rng.random() < 0.2]
                got = '[' + ' '.join(str(ids[a]) for a in d.invert(other)) + ']'
                line = 'dom_invert %s %s' % (dt, ltok([ids[a] for a in other]))
            elif op == 'axes':
                got = '[' + ' '.join(map(str, d.axes(sub))) + ']'
                line = 'dom_axes %s %s' % (dt, ltok([ids[a] for a in sub]))
            elif op in ('merge', 'contains', 'eq'):
                n2 = [a for a in NAMES if rng.random() < 0.4]
                rng.shuffle(n2)
                cfg = dict(zip(names, sizes))
                s2 = [cfg.get(a, rng.choice([1, 2, 3])) for a in n2]
                if op == 'eq' and rng.random() < 0.5:
                    n2, s2 = list(names), list(sizes)
                o = Domain(n2, s2)
                ot = dom_tok(n2, s2, ids)
                if op == 'merge':
                    got = fmt_dom(d.merge(o), ids); line = 'dom_merge %s %s' % (dt, ot)
                elif op == 'contains':
                    got = 'true' if d.contains(o) else 'false'; line = 'dom_contains %s %s' % (dt, ot)
                else:
                    got = 'true' if d == o else 'false'; line = 'dom_eq %s %s' % (dt, ot)
            elif op == 'size':
                got = str(d.size()); line = 'dom_size %s' % dt
            elif op == 'size_of':
                got = str(d.size(sub)) if sub or True else ''
                line = 'dom_size_of %s %s' % (dt, ltok([ids[a] for a in sub]))
            elif op == 'canonical':
                other = sub + [a for a in NAMES if a not in names and rng.random() < 0.2]
                rng.shuffle(other)
                got = '[' + ' '.join(str(ids[a]) for a in d.canonical(other)) + ']'
                line = 'dom_canonical %s %s' % (dt, ltok([ids[a] for a in other]))
            elif op == 'sort_size':
                got = fmt_dom(d.sort('size'), ids); line = 'dom_sort_size %s' % dt
            elif op == 'sort_name':
                got = fmt_dom(d.sort('name'), ids); line = 'dom_sort_name %s' % dt
        except (KeyError, ValueError) as e:
            got = 'ERR'
        lines.append(line); expect.append(got); meta.append(dict(op=op, attrs=names, shape=sizes, line=line))
    outs = common.run_model(lines)
    gouts = common.run_gen(lines)      # the definitions generated from domain.py by the translator, on the same cases
    for line, got, out, gout, m in zip(lines, expect, outs, gouts, meta):
        chk.case(line, len(m['attrs']) >= 2, dict(kind='domain', **m, code=got, model=out, generated=gout) if chk.rng.random() < 0.01 else None)
        if got != out:
            chk.violation(dict(kind='domain-op', op=m['op']), 'Domain.%s disagrees with the verified model' % m['op'],
                          dict(m, code=got, model=out), found_input=True)
        if gout != got:
            # the translation of the CURRENT source disagrees with the running code: the translator (trusted base) is wrong, not the code
            chk.violation(dict(kind='translator-validation', op=m['op']), 'definition generated from domain.py disagrees with the code it was generated from (Domain.%s)' % m['op'],
                          dict(m, code=got, generated=gout, broken='translator validation: translator/py2gallina_list.py <-> src/mbi/domain.py'), found_input=False)
    run_generated_only_cases(chk, max(60, n // 4))
    run_big_domain_cases(chk, 12)


def run_big_domain_cases(chk, n):
    """Direct check (no model run: the models count in unary): size / product laws on domains whose size exceeds 2**64."""
    from mbi import Domain
    import math
    rng = chk.rng
    for _ in range(n):
        k = rng.choice([40, 64, 70, 90])
        names = ['x%03d' % i for i in range(k)]
        rng.shuffle(names)
        sizes = [rng.choice([2, 2, 3, 4, 7]) for _ in names]
        d = Domain(names, sizes)
        sub = [a for a in names if rng.random() < 0.8]
        chk.count('domain.big')
        got = (d.size(), d.size(sub), d.project(sub).size() * d.marginalize(sub).size())
        exp = (math.prod(sizes), math.prod(s for a, s in zip(names, sizes) if a in sub), math.prod(sizes))
        chk.case(('big', tuple(sizes)), True)
        if got != exp or any(type(x) is not int for x in got):
            chk.violation(dict(kind='domain-op', op='size-big'), 'Domain.size is not the product of the attribute sizes (domain of %d attributes)' % k,
                          dict(attrs=names, shape=sizes, sub=sub, code=[str(x) for x in got], expected=[str(x) for x in exp]), found_input=True)


def run_generated_only_cases(chk, n):
    """Operations and inputs the hand model does not cover but the generated definitions do: the string spelling of one
    attribute, transpose, __contains__/__getitem__/__len__, the constructor's assertion, and REPEATED attribute names
    (dict(zip()) keeps the last size, tuple.index finds the first position)."""
    from mbi import Domain
    rng = chk.rng
    ids = {nm: i for i, nm in enumerate(sorted(NAMES))}
    lines, expect, meta = [], [], []
    for _ in range(n):
        names, sizes = gen_domain(rng, 5)
        names, sizes = list(names), list(sizes)
        if rng.random() < 0.4 and len(names) >= 1:
            k = rng.randrange(len(names)); names.insert(rng.randrange(len(names) + 1), names[k]); sizes.insert(rng.randrange(len(sizes) + 1), rng.choice([1, 2, 3, 4]))
        op = rng.choice(['project_str', 'transpose', 'size_str', 'in', 'getitem', 'len', 'init', 'project', 'axes', 'sort_size', 'sort_name', 'marginalize', 'size'])
        chk.count('domain.generated.' + op)
        dt = dom_tok(names, sizes, ids)
        a = rng.choice(NAMES)
        sub = [x for x in dict.fromkeys(names) if rng.random() < 0.6]
        rng.shuffle(sub)
        try:
            if op == 'init':
                s2 = list(sizes) + ([1] if rng.random() < 0.5 else [])
                line = 'dom_init %s %s' % (ltok([ids[x] for x in names]), ltok(s2))
                try:
                    got = fmt_dom(Domain(names, s2), ids)
                except AssertionError:
                    got = 'ERR'
            else:
                d = Domain(names, sizes)
                if op == 'project_str':
                    line = 'dom_project_str %s %d' % (dt, ids[a]); got = fmt_dom(d.project(a), ids)
                elif op == 'transpose':
                    line = 'dom_transpose %s %s' % (dt, ltok([ids[x] for x in sub])); got = fmt_dom(d.transpose(sub), ids)
                elif op == 'project':
                    line = 'dom_project %s %s' % (dt, ltok([ids[x] for x in sub])); got = fmt_dom(d.project(sub), ids)
                elif op == 'marginalize':
                    line = 'dom_marginalize %s %s' % (dt, ltok([ids[x] for x in sub])); got = fmt_dom(d.marginalize(sub), ids)
                elif op == 'axes':
                    line = 'dom_axes %s %s' % (dt, ltok([ids[x] for x in sub])); got = '[' + ' '.join(map(str, d.axes(sub))) + ']'
                elif op == 'size_str':
                    line = 'dom_size_str %s %d' % (dt, ids[a]); got = str(d.size(a))
                elif op == 'size':
                    line = 'dom_size %s' % dt; got = str(d.size())
                elif op == 'in':
                    line = 'dom_in %s %d' % (dt, ids[a]); got = 'true' if a in d else 'false'
                elif op == 'getitem':
                    line = 'dom_getitem %s %d' % (dt, ids[a]); got = str(d[a])
                elif op == 'len':
                    line = 'dom_len %s' % dt; got = str(len(d))
                elif op == 'sort_size':
                    line = 'dom_sort_size %s' % dt; got = fmt_dom(d.sort('size'), ids)
                elif op == 'sort_name':
                    line = 'dom_sort_name %s' % dt; got = fmt_dom(d.sort('name'), ids)
        except (KeyError, ValueError):
            got = 'ERR'
        lines.append(line); expect.append(got); meta.append(dict(op=op, attrs=names, shape=sizes, line=line))
    gouts = common.run_gen(lines)
    for line, got, gout, m in zip(lines, expect, gouts, meta):
        chk.case(line, len(m['attrs']) >= 2, dict(kind='domain-generated', **m, code=got, generated=gout) if chk.rng.random() < 0.02 else None)
        if gout != got:
            chk.violation(dict(kind='translator-validation', op=m['op']), 'definition generated from domain.py disagrees with the code it was generated from (Domain.%s)' % m['op'],
                          dict(m, code=got, generated=gout, broken='translator validation: translator/py2gallina_list.py <-> src/mbi/domain.py'), found_input=False)


def gen_dataset(rng, tier):
    names, sizes = gen_domain(rng, 4 if tier == 'quick' else 5)
    N = rng.choice([0, 1, 2, 5, 17, 60])
    extra = [a for a in NAMES if a not in names and rng.random() < 0.3]
    cols = names + extra
    rng.shuffle(cols)
    rows = []
    for _ in range(N):
        r = {}
        for a, s in zip(names, sizes):
            r[a] = rng.choice([0, s - 1, rng.randrange(s)])
        for a in extra:
            r[a] = rng.randrange(7)
        rows.append(r)
    if N and rng.random() < 0.5:   # duplicates
        rows += [dict(rows[0])] * rng.randint(1, 3)
    wkind = rng.choice(['none', 'int', 'dyadic', 'zero'])
    if wkind == 'none':
        w = None
    elif wkind == 'int':
        w = [rng.randint(0, 5) for _ in rows]
    elif wkind == 'zero':
        w = [0 for _ in rows]
    else:
        w = [Fraction(rng.randint(-16, 64), 8) for _ in rows]
    return names, sizes, cols, rows, w, wkind


def oracle_vector(names, sizes, rows, w, proj):
    cfg = dict(zip(names, sizes))
    cnt = Counter()
    for i, r in enumerate(rows):
        cnt[tuple(r[a] for a in proj)] += (1 if w is None else w[i])
    return [Fraction(cnt.get(c, 0)) for c in itertools.product(*[range(cfg[a]) for a in proj])]


def run_dataset_cases(chk, n):
    from mbi import Domain, Dataset
    rng = chk.rng
    ids = {nm: i for i, nm in enumerate(sorted(NAMES))}
    lines, codes, meta = [], [], []
    for _ in range(n):
        names, sizes, cols, rows, w, wkind = gen_dataset(rng, chk.tier)
        df = pd.DataFrame([[r[c] for c in cols] for r in rows], columns=cols, dtype=int)
        dom = Domain(names, sizes)
        wt = None if w is None else np.array([float(x) for x in w])
        mode = rng.choice(['vector', 'project', 'project', 'project1', 'project_empty', 'drop', 'project_twice', 'project_again', 'project_again'])
        proj = [a for a in names if rng.random() < 0.6] or [names[0]]
        rng.shuffle(proj)
        if mode == 'project_empty':
            proj = []
        chk.count('dataset.' + mode); chk.count('weights.' + wkind); chk.count('N=%d' % len(rows))
        wl = [Fraction(1)] * len(rows) if w is None else [Fraction(x) for x in w]
        ds_tok = '%s %s %s' % (dom_tok(names, sizes, ids), ltok(rows, lambda r: ltok([r[a] for a in names])), ltok(wl, qtok))
        m = dict(mode=mode, attrs=names, shape=sizes, columns=cols, rows=[[r[c] for c in cols] for r in rows],
                 weights=None if w is None else [str(x) for x in w], proj=proj)
        try:
            D = Dataset(df, dom, wt)
            if mode == 'vector':
                vec = D.datavector(); odom = dom; line = 'ds_datavector ' + ds_tok
                m['proj'] = proj = list(names)
            else:
                if mode == 'project1' and len(proj) >= 1:
                    proj = proj[:1]; m['proj'] = proj
                    P = D.project(proj[0])
                elif mode == 'drop':
                    dropped = [a for a in names if a not in proj]
                    proj = [a for a in names if a in proj]; m['proj'] = proj
                    P = D.drop(dropped)
                elif mode == 'project_again':
                    # earlier projections of the SAME object onto the same attributes in other orders (and onto other lists) must not influence this one
                    for _ in range(rng.randint(1, 3)):
                        other = list(proj) if rng.random() < 0.7 else [a for a in names if rng.random() < 0.5]
                        rng.shuffle(other)
                        D.project(rng.choice([list, tuple])(other)).datavector()
                    P = D.project(rng.choice([list, tuple])(proj))
                elif mode == 'project_twice':
                    mid = proj + [a for a in names if a not in proj and rng.random() < 0.5]
                    rng.shuffle(mid)
                    P = D.project(mid).project(tuple(proj))
                else:
                    P = D.project(rng.choice([list, tuple])(proj))
                vec = P.datavector(); odom = P.domain
                line = 'ds_project_datavector %s %s' % (ds_tok, ltok([ids[a] for a in proj]))
                assert P.weights is wt or (P.weights == wt).all()
            code = (fmt_dom(odom, ids), [Fraction(float(x)) for x in vec])
            if mode != 'vector' and P.df.shape[0] != len(rows):
                code = ('records-changed', [])
        except Exception as e:
            code = ('EXC ' + common.exc_kind(e), [])
            if mode == 'vector':
                line = 'ds_datavector ' + ds_tok
            else:
                line = 'ds_project_datavector %s %s' % (ds_tok, ltok([ids[a] for a in proj]))
        lines.append(line); codes.append(code); meta.append(m)
    outs = common.run_model(lines)
    for line, code, out, m in zip(lines, codes, outs, meta):
        nontriv = len(m['attrs']) >= 2 and len(m['rows']) >= 2 and m['proj'] != m['attrs']
        chk.case(line, nontriv, dict(kind='dataset', **m, code_vector=[str(x) for x in code[1]][:12], model=out[:200]) if chk.rng.random() < 0.02 else None)
        if out.startswith('EXC') or out == 'ERR':
            mv = (out, [])
        elif m['mode'] == 'vector':
            mv = (fmt_dom_ids(m, ids), parse_qlist(out))
        else:
            dpart, vpart = out.split('] [')
            mv = (dpart + ']', parse_qlist('[' + vpart))
        if code != mv:
            # oracle decides whether the property fails on the code
            rows = [dict(zip(m['columns'], r)) for r in m['rows']]
            w = None if m['weights'] is None else [Fraction(x) for x in m['weights']]
            exp = oracle_vector(m['attrs'], m['shape'], rows, w, m['proj'])
            fails = code[1] != exp
            sig = dict(kind='dataset', mode=m['mode'], empty_projection=(len(m['proj']) == 0), code=code[0][:40])
            chk.violation(sig, 'Dataset %s: vector form differs from the contingency table' % m['mode'] if fails else
                          'Dataset %s: code agrees with the Counter oracle but not with the model' % m['mode'],
                          dict(m, code=[code[0], [str(x) for x in code[1]]], model=out, oracle=[str(x) for x in exp]), found_input=fails)


def fmt_dom_ids(m, ids):
    return '[' + ' '.join('%d:%d' % (ids[a], n) for a, n in zip(m['attrs'], m['shape'])) + ']'


def main(chk):
    chk.prove()
    tok, tmsg = getattr(chk, 'translators', {}).get('domain', (True, ''))
    if not tok:
        chk.violation(dict(kind='translator'), 'src/mbi/domain.py left the translated subset: the theorems about the generated definitions are not re-checked against the current source',
                      dict(broken='Gen/Domain_gen.v (translator/py2gallina_list.py on src/mbi/domain.py); Props/C15.v C15_src_*', translator_message=tmsg), found_input=False)
    n = 400 if chk.tier == 'quick' else 6000
    run_domain_cases(chk, n)
    run_dataset_cases(chk, n)
    return chk.finish(rule='random domains (1-6 attributes, sizes 1-5, named attributes in arbitrary order) x 13 Domain operations incl. '
                      'projections onto missing attributes; random datasets (N in {0,1,2,5,17,60}+duplicates, boundary values, extra unused '
                      'columns in shuffled column order, weights none/int/dyadic(neg. allowed)/zero) x {vector, project list/tuple/str, drop, '
                      'project twice, empty projection}; exact rational comparison of every entry and of the result domain. Non-trivial = '
                      '>=2 attributes and (dataset) >=2 records and a projection different from the identity; distinct = by canonical case text.',
                      assumptions=['numpy.histogramdd / pandas column selection are modelled (index-level semantics), tied by this correspondence',
                                   'values are in-domain (out-of-domain values are outside the property statement)'])


def replay(chk, rp):
    print(json.dumps(rp, indent=1)[:4000])
    return 0
