"""Stand-in for autodp.privacy_calibrator: analytic Gaussian mechanism calibration (Balle & Wang 2018)."""
import math
from scipy.special import erfc

def _phi(t):
    return 0.5 * erfc(-t / math.sqrt(2))

def _delta(eps, sigma):
    # exact delta of the Gaussian mechanism with L2 sensitivity 1
    a = 1 / (2 * sigma) - eps * sigma
    b = -1 / (2 * sigma) - eps * sigma
    return _phi(a) - math.exp(eps) * _phi(b)

def ana_gaussian_mech(epsilon, delta, tol=1e-12):
    lo, hi = 1e-6, 1.0
    while _delta(epsilon, hi) > delta:
        hi *= 2
    for _ in range(200):
        mid = (lo + hi) / 2
        if _delta(epsilon, mid) > delta:
            lo = mid
        else:
            hi = mid
    return {'sigma': hi}
