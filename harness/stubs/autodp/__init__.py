# Minimal stand-in for the `autodp` package (not installed in the sandbox): only what mechanisms/mechanism.py imports.
