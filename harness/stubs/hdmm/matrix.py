from scipy import sparse
def Identity(n):
    return sparse.eye(n, format='csr')
