# Minimal stand-in for the `hdmm` package (not installed in the sandbox).
