"""C10 — structural zeros carry no mass in any answer.
Theorems (Props/C10.v): a zero potential entry annihilates its cells in every marginal of the explicit joint covering the zero
clique; multiplicative updates keep zeros; guarded division never produces an undefined value; the mass still sums to the total.
Correspondence: models returned by estimate with structural zeros (on measured cliques, sub-cliques, unmeasured groups; every solver;
second calls with and without warm start) are checked (a) against the exact joint of their stored parameters (as C08) and
(b) directly: every answer covering a zero clique has <= 1e-30*total mass on the declared cells, no NaN, total preserved."""
import itertools, json, math
from fractions import Fraction
import numpy as np
import common, infgen, c08, c02


def gen_zeros(rng, prob):
    attrs, sizes = prob['attrs'], prob['sizes']
    cfg = dict(zip(attrs, sizes))
    out = {}
    for _ in range(rng.randint(1, 2)):
        r = rng.random()
        projs = [m['proj'] for m in prob['ms']]
        if projs and r < 0.4:
            cl = list(rng.choice(projs))                                       # a measured clique (any attribute order)
            rng.shuffle(cl)
        elif projs and r < 0.7:
            b = rng.choice(projs); cl = rng.sample(list(b), rng.randint(1, len(b)))  # a sub-clique
        else:
            cl = rng.sample(attrs, rng.randint(1, min(2, len(attrs))))          # possibly unmeasured attribute group
        cl = tuple(cl)
        n = math.prod(cfg[a] for a in cl)
        cells = set()
        for _ in range(rng.randint(1, max(1, min(3, n - 1)))):
            cells.add(tuple(rng.randrange(cfg[a]) for a in cl))
        if len(cells) < n:
            out[cl] = sorted(cells)
    def feasible(o):
        for cell in itertools.product(*[range(s) for s in sizes]):
            x = dict(zip(attrs, cell))
            if all(tuple(x[a] for a in cl) not in set(zs) for cl, zs in o.items()):
                return True
        return False
    while out and not feasible(out):
        out.pop(next(iter(out)))
    return out


def direct_checks(chk, model, zeros, info, rng):
    attrs = list(model.domain.attrs)
    cfg = dict(zip(attrs, model.domain.shape))
    total = float(model.total)
    mags = [float(np.abs(v[np.isfinite(v)]).max()) if np.isfinite(v).any() else 0.0 for v in (np.asarray(model.potentials[cl].values, dtype=float) for cl in model.cliques)]
    mag = max(mags) if mags else 0.0
    slack = 1e-6 + (1e-14 * mag if mag <= 1e13 else 0.0)     # log-space float64 resolution grows with the magnitude of the parameters
    queries = [tuple(attrs)]
    for cl in zeros:
        queries.append(tuple(cl))
        extra = [a for a in attrs if a not in cl and rng.random() < 0.5]
        q = list(cl) + extra
        rng.shuffle(q)
        queries.append(tuple(q))
    with np.errstate(all='ignore'):
        answers = []
        for q in queries:
            f = model.project(q)
            answers.append(('project', q, np.asarray(f.values, dtype=float).reshape([cfg[a] for a in q])))
        answers.append(('datavector', tuple(attrs), np.asarray(model.datavector(flatten=False), dtype=float)))
        if rng.random() < 0.5:
            ans = model.calculate_many_marginals(queries[1:])
            for q in queries[1:]:
                answers.append(('calculate_many_marginals', q, np.asarray(ans[q].values, dtype=float).reshape([cfg[a] for a in q])))
        # synthetic records: none may fall into a declared-impossible cell
        if rng.random() < 0.7:
            method = rng.choice(['round', 'sample']); rows = rng.choice([None, 60, 300]) if total >= 1 else 60
            np.random.seed(rng.randrange(2 ** 31))
            chk.count('direct.synthetic_data.' + method)
            try:
                df = model.synthetic_data(rows=rows, method=method).df
            except Exception as e:
                chk.violation(dict(kind='zeros', engine=info['engine'], what='synthetic_data raised'), 'synthetic_data(%s) raised %s: %s' % (method, common.exc_kind(e), str(e)[:80]), info, found_input=True)
                df = None
            if df is not None:
                for cl, cells in zeros.items():
                    sub = [tuple(int(v) for v in r) for r in df[list(cl)].values]
                    hit = [c for c in sub if c in set(map(tuple, cells))]
                    if hit:
                        chk.violation(dict(kind='zeros', engine=info['engine'], what='synthetic record in an impossible cell'),
                                      'synthetic_data(%s): %d of %d records lie in the declared-impossible cell %s of %s' % (method, len(hit), len(sub), list(hit[0]), ''.join(cl)), dict(info, method=method, rows=rows), found_input=True)
                        break
    for kind, q, arr in answers:
        chk.case(('direct', info['id'], kind, q), True)
        chk.count('direct.' + kind)
        bad = None
        if not np.all(np.isfinite(arr)):
            bad = 'answer contains NaN/inf'
        elif abs(float(arr.sum()) - total) > slack * max(1.0, total):
            bad = 'mass %s does not sum to the total %s' % (float(arr.sum()), total)
        else:
            for cl, cells in zeros.items():
                if set(cl) <= set(q):
                    pos = [q.index(a) for a in cl]
                    for idx in itertools.product(*[range(cfg[a]) for a in q]):
                        if tuple(idx[p] for p in pos) in set(cells) and arr[idx] > 1e-30 * total:
                            bad = 'declared-impossible cell %s of %s carries mass %.3g' % (dict(zip(q, idx)), ''.join(cl), arr[idx])
                            break
                if bad:
                    break
        if bad:
            chk.violation(dict(kind='zeros', engine=info['engine'], potentials_beyond_1e13=(mag > 1e13)), '%s %s: %s' % (kind, list(q), bad),
                          dict(info, query=dict(kind=kind, attrs=list(q)), answer=arr.reshape(-1).tolist()[:60]), found_input=True)


def main(chk):
    from mbi import Domain, FactoredInference
    chk.prove()
    rng = chk.rng
    n = 60 if chk.tier == 'quick' else 900
    lines, pend = [], []
    for it in range(n):
        prob = infgen.gen_problem(rng)
        zeros = gen_zeros(rng, prob)
        if it % 6 == 0:
            # directed: independent blocks - the measurements cover one group of attributes, a zero set lives on a pair of attributes that is
            # not linked to them (several connected components in the model graph)
            prob2 = infgen.gen_problem(rng, max_attrs=4)
            at = list(prob2['attrs'])
            if len(at) >= 4:
                rng.shuffle(at)
                blocks = [tuple(at[:2]), tuple(at[2:4])]
                cfgp = dict(zip(prob2['attrs'], prob2['sizes']))
                keep = [m for m in prob2['ms'] if set(m['proj']) <= set(blocks[0])]
                p0 = cfgp[blocks[0][0]] * cfgp[blocks[0][1]]
                mv = np.array([rng.random() + 0.1 for _ in range(p0)]); mv = mv * prob2['N'] / mv.sum()
                keep.append(dict(proj=blocks[0], Q=np.eye(p0), y=mv + np.array([rng.gauss(0, 1.0) for _ in range(p0)]), sigma=1.0, kind='identity', spelling='dense', mv=mv))
                prob2['ms'] = keep
                z2 = {}
                for bl in blocks:      # one zero set per block: whichever block is generated second must still respect its own
                    cells = {tuple(rng.randrange(cfgp[a]) for a in bl) for _ in range(rng.randint(1, 3))}
                    if len(cells) < cfgp[bl[0]] * cfgp[bl[1]] - 1:
                        z2[bl] = sorted(cells)
                if len(z2) == 2:
                    prob, zeros = prob2, z2
                    chk.count('directed.zero-sets-on-independent-blocks')
        if not zeros:
            continue
        engine = ['MD', 'RDA', 'IG'][it % 3]
        warm = rng.random() < 0.5
        iters = rng.choice([1, 30, 150])
        base = dict(infgen.describe(prob), engine=engine, iters=iters, warm_start=warm, structural_zeros={''.join(k): [list(c) for c in v] for k, v in zeros.items()}, id=it)
        chk.count('engine.' + engine); chk.count('warm' if warm else 'cold')
        try:
            with infgen.quiet(), np.errstate(all='ignore'):
                eng = FactoredInference(Domain(prob['attrs'], prob['sizes']), iters=iters, structural_zeros=zeros, warm_start=warm)
                ms = infgen.measurements(prob)
                calls = [ms]
                if rng.random() < 0.6:
                    prob2 = infgen.gen_problem(rng)
                    extra = [m for m in prob2['ms'] if set(m['proj']) <= set(prob['attrs'])]
                    cfg = dict(zip(prob['attrs'], prob['sizes']))
                    extra = [m for m in extra if np.asarray(m['Q']).shape[1] == math.prod(cfg[a] for a in m['proj'])]
                    second = ([infgen.spelled(m) for m in extra] + (ms if rng.random() < 0.6 else ms[:1])) or ms
                    calls.append(second)
                for ci, mlist in enumerate(calls):
                    model = eng.estimate(list(mlist), total=float(prob['N']), engine=engine)
                    info = dict(base, call=ci, model_cliques=[list(c) for c in model.cliques])
                    direct_checks(chk, model, zeros, info, rng)
                    c08.check_model(chk, model, info, rng, lines, pend)
        except Exception as e:
            chk.violation(dict(kind='exception', engine=engine, what=common.exc_kind(e)), 'estimate(%s) with structural zeros raised %s: %s' % (engine, common.exc_kind(e), str(e)[:80]), base, found_input=True)
    c08.judge(chk, lines, pend)
    return chk.finish(rule='random problems as in C08 with 1-2 zero sets (on a measured clique in any attribute order, a sub-clique, or an unmeasured attribute group; 1-3 forbidden cells, support never empty) x '
                      'solvers MD/RDA/IG x iterations {1,30,150} x warm start on/off x a second estimate call on the same engine (changed measurement list). Direct: project on the zero clique, on a random '
                      'superset in random order, the full data vector, calculate_many_marginals: mass on declared cells <= 1e-30*total, finite, sums to total; synthetic_data (round/sample): no record in a declared cell. Plus the exact comparison against the joint of the '
                      'stored parameters (as C08). All cases non-trivial.',
                      assumptions=['IG/RDA return parameters through Factor.log (+1e-100): zero cells legitimately carry ~1e-100*total, hence the 1e-30 threshold',
                                   'synthetic records: membership in declared cells is checked here, their distribution by C11'])


def replay(chk, rp):
    print(json.dumps(rp, indent=1)[:4000])
    return 0
