"""Shared problem generator / runners for the estimation properties (C03, C08, C10, C13)."""
import contextlib, io, itertools, math
from fractions import Fraction
import numpy as np
from scipy import sparse
from scipy.sparse.linalg import aslinearoperator
import pgmgen
from common import ltok, qtok

NAMES = ['a', 'b', 'c', 'd', 'e']


def gen_problem(rng, max_attrs=4, max_cells=200, allow_empty=False, min_size=2, force_ring=False):
    while True:
        k = rng.randint(2, max_attrs) if not force_ring else max_attrs
        attrs = rng.sample(NAMES[:max(4, max_attrs)], k)
        sizes = [rng.choice([min_size, 2, 3, 3, 4]) if k < 5 else 2 for _ in attrs]
        if math.prod(sizes) <= max_cells:
            break
    cfg = dict(zip(attrs, sizes))
    N = rng.choice([10, 50, 200, 1000])
    # true data
    cells = list(itertools.product(*[range(s) for s in sizes]))
    w = [rng.random() ** 2 for _ in cells]
    tot = sum(w)
    x = {c: N * wi / tot for c, wi in zip(cells, w)}
    nm = 0 if (allow_empty and rng.random() < 0.12) else rng.randint(1, 5)
    shape_kind = rng.random() if not force_ring else 0.0
    projs = []
    if nm == 0:
        projs = []
    elif shape_kind < 0.2 and k >= 3:
        ring = rng.sample(attrs, k)
        projs = [tuple(rng.sample([ring[i], ring[(i + 1) % k]], 2)) for i in range(k)]     # cyclic
    elif shape_kind < 0.4 and k >= 3:
        chain = rng.sample(attrs, k)
        projs = [tuple(rng.sample([chain[i], chain[i + 1]], 2)) for i in range(k - 1)]      # chain of pairs in a random attribute order
        rng.shuffle(projs)
    else:
        for _ in range(nm):
            r = rng.random()
            if projs and r < 0.2:
                p = list(rng.choice(projs)); rng.shuffle(p); projs.append(tuple(p))
            elif projs and r < 0.4 and len(rng.choice(projs)) > 1:
                b = rng.choice(projs); projs.append(tuple(rng.sample(b, rng.randint(1, len(b)))))
            else:
                projs.append(tuple(rng.sample(attrs, rng.randint(1, min(3, k)))))
    ms = []
    for proj in projs:
        pos = [attrs.index(a) for a in proj]
        pcells = list(itertools.product(*[range(cfg[a]) for a in proj]))
        marg = {c: 0.0 for c in pcells}
        for c, v in x.items():
            marg[tuple(c[p] for p in pos)] += v
        mv = np.array([marg[c] for c in pcells])
        p = len(pcells)
        kind = rng.choice(['identity', 'identity', 'identity', 'dense', 'prefix', 'wide'])
        if kind == 'identity':
            Q = np.eye(p)
        elif kind == 'prefix':
            Q = np.tril(np.ones((p, p)))
        elif kind == 'dense':
            Q = np.array([[rng.randint(-2, 3) for _ in range(p)] for _ in range(p)], dtype=float) + np.eye(p)
        else:
            Q = np.array([[rng.randint(0, 2) for _ in range(p)] for _ in range(max(1, p // 2))], dtype=float)
            Q[0, rng.randrange(p)] = 1.0     # never an all-zero query matrix (eigsh cannot start on it: outside the generated inputs)
        sigma = rng.choice([0.1, 0.5, 1.0, 1.0, 3.0, 10.0])
        y = Q @ mv + np.array([rng.gauss(0, sigma) for _ in range(Q.shape[0])])
        sp = rng.choice(['dense', 'sparse', 'operator', 'none'] if kind == 'identity' else ['dense', 'sparse', 'operator'])
        ms.append(dict(proj=proj, Q=Q, y=y, sigma=sigma, kind=kind, spelling=sp, mv=mv))
    return dict(attrs=attrs, sizes=sizes, N=N, ms=ms)


def spelled(m, rng=None):
    Q = {'dense': m['Q'], 'sparse': sparse.csr_matrix(m['Q']), 'operator': aslinearoperator(m['Q']), 'none': None}[m['spelling']]
    return (Q, np.array(m['y'], dtype=float), float(m['sigma']), tuple(m['proj']))


def measurements(prob):
    return [spelled(m) for m in prob['ms']]


def describe(prob):
    return dict(attrs=prob['attrs'], sizes=prob['sizes'], N=prob['N'],
                measurements=[dict(proj=list(m['proj']), kind=m['kind'], sigma=m['sigma'], spelling=m['spelling'], Q=np.asarray(m['Q']).tolist(), y=[float(v) for v in m['y']]) for m in prob['ms']])


def quiet():
    return contextlib.redirect_stdout(io.StringIO())


def model_to_case(model):
    """GraphicalModel with potentials -> the `case` dict c02.model_prefix understands (potentials as exact rationals of exp(theta - max))."""
    attrs, sizes = list(model.domain.attrs), list(model.domain.shape)
    mcl = list(model.cliques)
    idx = {cl: i for i, cl in enumerate(mcl)}
    # exact rationals of exp(theta - shift), one shift per clique.  The shift is the largest parameter over the JOINTLY feasible cells
    # (a clique's own maximum may sit in a cell another clique forbids; shifting by it would underflow every allowed cell - an artefact
    # of this conversion, the code itself works in log space), exp of very negative numbers is taken as an exact power, and a parameter
    # above the shift (a cell no full assignment can reach: some other clique forbids it) is capped at the shift - it never carries mass.
    logj = np.zeros(sizes)
    tabs = {}
    for cl in mcl:
        f = model.potentials[cl]
        fa = list(f.domain.attrs)
        v = np.asarray(f.values, dtype=float).reshape([sizes[attrs.index(a)] for a in fa])
        ax = [attrs.index(a) for a in fa]
        v2 = np.transpose(v, np.argsort(ax)).reshape([sizes[i] if i in ax else 1 for i in range(len(attrs))])
        tabs[cl] = v2
        with np.errstate(all='ignore'):
            logj = logj + v2
    feas = np.isfinite(logj) | (logj == np.inf)
    def exact_exp(x):
        if x >= -700.0:
            return Fraction(float(math.exp(x)))
        if x < -2100.0:
            return Fraction(0)
        k = int(math.ceil(-x / 700.0))
        return Fraction(float(math.exp(x / k))) ** k
    spread = max([float(np.abs(t[np.isfinite(t)]).max()) if np.isfinite(t).any() else 0.0 for t in tabs.values()] or [0.0])
    if spread > 600.0 and feas.any() and np.isfinite(logj[feas]).any():
        # parameters of very different magnitudes: a per-clique shift cannot represent cells that are jointly likely but individually far below
        # their clique's maximum (every factor would underflow although the product is O(1)).  The distribution implied by the stored
        # parameters is the normalised exp of their SUM: hand the exact model that table as one factor over the whole domain.
        top = float(logj[feas][np.isfinite(logj[feas])].max())
        whole = tuple(attrs)
        vals = [Fraction(0) if (not math.isfinite(t) and t < 0) else exact_exp(min(t - top, 0.0)) for t in np.asarray(logj, dtype=float).reshape(-1)]
        return dict(attrs=attrs, sizes=sizes, mcl=[whole], pots={whole: (list(attrs), vals)}, nbrs={whole: []}, ids=pgmgen.ids_of(attrs), total=float(model.total))
    pots = {}
    for cl in mcl:
        f = model.potentials[cl]
        v = np.asarray(f.values, dtype=float).reshape(-1)
        fin = v[np.isfinite(v)]
        shift = float(fin.max()) if fin.size else 0.0
        if feas.any():
            b = np.broadcast_to(tabs[cl], logj.shape)[feas]
            b = b[np.isfinite(b)]
            if b.size:
                shift = float(b.max())
        vals = [Fraction(0) if (not math.isfinite(t) and t < 0) else exact_exp(min(t - shift, 0.0)) for t in v]
        pots[cl] = (list(f.domain.attrs), vals)
    nbrs = {cl: sorted(model.neighbors[cl], key=lambda c: idx[c]) for cl in mcl}
    return dict(attrs=attrs, sizes=sizes, mcl=mcl, pots=pots, nbrs=nbrs, ids=pgmgen.ids_of(attrs), total=float(model.total))


def loss_of_answers(prob, answer):
    """squared-error objective evaluated from answers: answer(proj) -> flat vector in proj order."""
    L = 0.0
    for m in prob['ms']:
        x = np.asarray(answer(tuple(m['proj'])), dtype=float).reshape(-1)
        d = (m['Q'] @ x - m['y']) / m['sigma']
        L += 0.5 * float(d @ d)
    return L


def full_table_gradient(prob, P):
    """gradient of the objective w.r.t. the full joint table P (array of domain shape)."""
    attrs, sizes = prob['attrs'], prob['sizes']
    g = np.zeros(sizes)
    for m in prob['ms']:
        ax = tuple(i for i, a in enumerate(attrs) if a not in m['proj'])
        marg = P.sum(axis=ax) if ax else P
        kept = [a for a in attrs if a in m['proj']]
        marg = np.transpose(marg, [kept.index(a) for a in m['proj']])
        x = marg.reshape(-1)
        r = (m['Q'] @ x - m['y']) / m['sigma'] ** 2
        gm = (m['Q'].T @ r).reshape([sizes[attrs.index(a)] for a in m['proj']])
        gm = np.transpose(gm, [list(m['proj']).index(a) for a in kept])
        shape = [sizes[i] if attrs[i] in m['proj'] else 1 for i in range(len(attrs))]
        g += gm.reshape(shape)
    return g
