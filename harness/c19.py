"""C19 — public-data reweighting yields valid weights and never a worse fit.
Model (Model/Public.v): entropic_mirror_descent as written (stale P in the acceptance test), with loss_and_grad as an oracle (its
results in call order).  Theorems (Props/C19.v): every iterate is a positive weight vector summing to the total and is the normalised
exponential tilt of its predecessor; an accepted step decreases L + KL(P0||.)/2, hence the fit is never worse than at the start, for
any loss.  Correspondence: the float instance of the model replays the recorded oracle answers and must reproduce every query point and
the returned weights.  Direct checks with an independent loss: one finite non-negative weight per public record, sum = total,
records unchanged, loss(reweighted) <= loss(uniformly weighted public data with the same total)."""
import itertools, json, math
import numpy as np
import pandas as pd
import common


def gen_case(rng):
    from mbi import Dataset, Domain
    k = rng.randint(1, 3)
    names = rng.sample(['a', 'b', 'c', 'd'], k)
    sizes = [rng.choice([2, 3, 4]) for _ in names]
    npub = rng.choice([1, 3, 8, 25])
    # public records: some cells of the domain are missing from the public support
    support = [tuple(rng.randrange(s) for s in sizes) for _ in range(rng.randint(1, 5))]
    pub_rows = [list(rng.choice(support)) for _ in range(npub)]
    pub = Dataset(pd.DataFrame(pub_rows, columns=names), Domain(names, sizes))
    # private data (may put mass where the public data has none)
    N = rng.choice([5, 40, 300])
    priv_rows = [[rng.randrange(s) for s in sizes] for _ in range(N)]
    priv = Dataset(pd.DataFrame(priv_rows, columns=names), Domain(names, sizes))
    ms = []
    for _ in range(rng.randint(1, 4)):
        r = rng.random()
        if ms and r < 0.3:
            cl = ms[rng.randrange(len(ms))][3]                       # the same clique measured again (other noise)
        else:
            cl = tuple(rng.sample(names, rng.randint(1, k)))
        x = priv.project(cl).datavector()
        sigma = rng.choice([0.5, 1.0, 2.0, 10.0, 50.0])
        kind = rng.choice(['identity', 'identity', 'prefix'])
        Q = np.eye(x.size) if kind == 'identity' else np.tril(np.ones((x.size, x.size)))
        y = Q @ x + np.array([rng.gauss(0, sigma) for _ in range(x.size)])
        ms.append((Q, y, sigma, cl))
    total = rng.choice([None, None, float(N), 1.0, 0.4])
    if rng.random() < 0.15:
        # directed stream: noise dominates the signal, the unbiased estimate of the total is below 1 (or negative): the floor at 1 applies
        ident = [(Q, y - rng.choice([1.0, 3.0]) * (abs(float(np.sum(y))) + 5.0) / len(y), s, cl) for Q, y, s, cl in ms if Q.shape[0] == Q.shape[1] and np.allclose(Q, np.eye(Q.shape[0]))]
        ms = ident or [(np.eye(sizes[0]), np.array([-4.0] + [1.5] * (sizes[0] - 1)), 2.0, (names[0],))]
        total = None
    if rng.random() < 0.3 and k >= 2:
        # directed stream: two perfectly correlated public attributes; a precise measurement the uniform weights already fit, and a
        # noisy, skewed measurement on the correlated attribute (the two conflict through the public data)
        s0 = min(sizes[0], sizes[1]); npub = rng.choice([4, 8, 12])
        pub_rows = [[i % s0, i % s0] + [0] * (k - 2) for i in range(npub)]
        pub = Dataset(pd.DataFrame(pub_rows, columns=names), Domain(names, sizes))
        total = float(rng.choice([20, 100]))
        uni = Dataset(pub.df, pub.domain, np.ones(npub) * total / npub)
        x1 = uni.project((names[0],)).datavector()
        x2 = uni.project((names[1],)).datavector()
        skew = np.zeros_like(x2); skew[0] = total
        ms = [(np.eye(x1.size), x1.copy(), rng.choice([0.1, 0.5]), (names[0],)), (np.eye(x2.size), skew, rng.choice([5.0, 20.0]), (names[1],))]
        rng.shuffle(ms)
    return pub, priv, ms, total, dict(attrs=names, sizes=sizes, public_records=pub_rows, N=N, total=total,
                                       measurements=[dict(proj=list(cl), sigma=s, Q=Q.tolist(), y=[float(v) for v in y]) for Q, y, s, cl in ms])


def expected_total(ms):
    """Independent oracle for the estimated total: minimum-norm unbiased linear estimate per measurement whose query can express
    the count (dense least squares), inverse-variance combination, at least 1."""
    ests, vars_ = [], []
    for Q, y, sigma, cl in ms:
        Qd = np.asarray(Q, dtype=float); o = np.ones(Qd.shape[1])
        v = np.linalg.lstsq(Qd.T, o, rcond=None)[0]
        if np.allclose(Qd.T @ v, o):
            ests.append(float(v @ np.asarray(y))); vars_.append(sigma ** 2 * float(v @ v))
    if not ests:
        return 1.0
    return max(1.0, sum(e / v for e, v in zip(ests, vars_)) / sum(1 / v for v in vars_))


def indep_loss(pub, weights, ms):
    names = list(pub.domain.attrs); cfg = dict(zip(names, pub.domain.shape))
    rows = pub.df.values
    L = 0.0
    for Q, y, sigma, cl in ms:
        idx = [names.index(a) for a in cl]
        cells = list(itertools.product(*[range(cfg[a]) for a in cl])); pos = {c: i for i, c in enumerate(cells)}
        x = np.zeros(len(cells))
        for r, w in zip(rows, weights):
            x[pos[tuple(int(r[i]) for i in idx)]] += w
        d = (np.asarray(Q) @ x - np.asarray(y)) / sigma
        L += 0.5 * float(d @ d)
    return L


def main(chk):
    import mbi.public_inference as pm
    chk.prove()
    rng = chk.rng
    n = 60 if chk.tier == 'quick' else 1500
    lines, pend = [], []
    real_emd = pm.entropic_mirror_descent
    for it in range(n):
        pub, priv, ms, total, info = gen_case(rng)
        calls = []
        def emd_rec(loss_and_grad, x0, total_, iters=250):
            def lg(w):
                l, g = loss_and_grad(w)
                calls.append((np.array(w, dtype=float).copy(), float(l), np.array(g, dtype=float).copy()))
                return l, g
            calls.append(('args', np.array(x0, dtype=float).copy(), float(total_), iters))
            return real_emd(lg, x0, total_, iters)
        pm.entropic_mirror_descent = emd_rec
        before = pub.df.values.copy()
        try:
            with np.errstate(all='ignore'):
                eng = pm.PublicInference(pub)
                history = None
                if rng.random() < 0.3:
                    # an EARLIER call on the same object (other answers, fewer measurements, another total): this call's total must
                    # still be the one given / estimated from THIS call's measurements
                    prev = [(Q, y * 2.0 + 3.0, s, cl) for Q, y, s, cl in ms][:rng.randint(1, len(ms))]
                    ptotal = rng.choice([None, None, 7.0])
                    eng.estimate(prev, total=ptotal)
                    history = dict(earlier_call_measurements=len(prev), earlier_total=ptotal)
                    del calls[:]
                info['history'] = history
                out = eng.estimate([(Q, y, s, cl) for Q, y, s, cl in ms], total=total)
                second = None
                if rng.random() < 0.25:
                    ncall = len(calls)
                    second = eng.estimate([(Q, y + 1.0, s, cl) for Q, y, s, cl in ms], total=total)      # a second call starts from the previous weights (outside the 'uniform start' clause)
                    del calls[ncall:]
        except Exception as e:
            chk.violation(dict(kind='exception', what=common.exc_kind(e)), 'PublicInference.estimate raised %s: %s' % (common.exc_kind(e), str(e)[:100]), info, found_input=True)
            continue
        finally:
            pm.entropic_mirror_descent = real_emd
        w = np.asarray(out.weights, dtype=float)
        args = calls[0]; qs = calls[1:]
        T = args[2]
        info['used_total'] = T
        chk.count('total.' + ('given' if total is not None else 'estimated')); chk.count('public=%d' % len(info['public_records']))
        nontriv = len(info['public_records']) >= 3 and len(ms) >= 2
        chk.case(('pub', json.dumps(info, default=str)), nontriv, dict(info, weights=w[:8].tolist()) if len(chk.samples) < 2 and nontriv else None)
        bad = None
        if w.shape != (pub.df.shape[0],):
            bad = 'one weight per public record expected, got shape %s' % (w.shape,)
        elif not np.all(np.isfinite(w)) or w.min() < 0:
            bad = 'weights are not finite and non-negative'
        elif abs(w.sum() - T) > 1e-6 * max(1.0, abs(T)):
            bad = 'weights sum to %.9g, not to the total %.9g' % (w.sum(), T)
        elif total is not None and T != total:
            bad = 'the total given by the caller (%s) is not the one used (%s)' % (total, T)
        elif total is None and abs(T - expected_total(ms)) > 1e-6 * max(1.0, abs(T)):
            bad = 'the total used (%.9g) is not the inverse-variance estimate from the supplied measurements (%.9g)' % (T, expected_total(ms))
        elif not np.array_equal(out.df.values, before) or not np.array_equal(pub.df.values, before) or list(out.domain.attrs) != info['attrs']:
            bad = 'the public records were changed'
        else:
            Lw = indep_loss(pub, w, ms)
            # the start of the call: uniform weights on a fresh object; after an earlier call, that call's weights rescaled to the total
            x0 = np.asarray(args[1], dtype=float)
            Lu = indep_loss(pub, (np.ones(len(w)) * T / len(w)) if info.get('history') is None else x0 * T / x0.sum(), ms)
            info.update(loss_reweighted=Lw, loss_uniform=Lu)
            if Lw > Lu * (1 + 1e-9) + 1e-9:
                bad = 'the reweighted data fits worse (%.9g) than the %s with the same total (%.9g)' % (Lw, 'uniformly weighted public data' if info.get('history') is None else 'weights the call started from', Lu)
        if bad:
            chk.violation(dict(kind='public'), bad, dict(info, weights=w.tolist()[:40]), found_input=True)
        # the oracle the optimiser descends on must be the fit to the supplied measurements (independent evaluation at every query point)
        for wq, lq, _ in qs[:6]:
            li = indep_loss(pub, wq, ms)
            if abs(li - lq) > 1e-8 * max(1.0, abs(li)):
                chk.violation(dict(kind='objective'), 'the objective evaluated by the optimiser (%.9g) is not the noise-weighted squared error of the supplied measurements (%.9g)' % (lq, li),
                              dict(info, weights=wq.tolist()[:20]), found_input=False)
                break
        # correspondence: replay the oracle answers through the float instance of the model
        hx = lambda v: float(v).hex()
        x0 = args[1]
        if len(qs) >= 1 and np.all(x0 > 0):
            eta = float(np.nextafter(0, 1))
            line = 'emd %s %s %d %s %d %s' % (hx(eta), hx(T), len(x0), ' '.join(hx(v) for v in x0), len(qs), ' '.join('%s %s' % (hx(l), ' '.join(hx(v) for v in g)) for _, l, g in qs))
            lines.append(line); pend.append((info, w, [q[0] for q in qs]))
    outs = common.run_num(lines, timeout=1800)
    for line, (info, w, points), out in zip(lines, pend, outs):
        chk.case(line[:400], True); chk.count('replayed')
        if isinstance(out, str):
            chk.violation(dict(kind='model-error'), 'model failed: ' + out[:80], info, found_input=False); continue
        nrec = len(w)
        mw = np.array(out[:nrec]); trace = np.array(out[nrec:]).reshape(-1, nrec) if len(out) > nrec else np.zeros((0, nrec))
        ok = np.allclose(mw, w, rtol=1e-9, atol=1e-12 * max(1.0, abs(info['used_total'])))
        # the first recorded call is at the start (P0), the rest at the query points
        cp = np.array(points[1:]) if len(points) > 1 else np.zeros((0, nrec))
        ok = ok and trace.shape == cp.shape and np.allclose(trace, cp, rtol=1e-9, atol=1e-12 * max(1.0, abs(info['used_total'])))
        if not ok:
            chk.violation(dict(kind='emd-correspondence'), 'the sequence of query points / returned weights differs from the verified model of entropic_mirror_descent',
                          dict(info, code_weights=w.tolist()[:20], model_weights=mw.tolist()[:20]), found_input=False)
    return chk.finish(rule='random public datasets (1-25 records over 1-3 attributes, support smaller than the domain), private datasets with mass outside the public support, 1-4 measurements (identity/prefix '
                      'queries, repeated cliques, noise .5-50), totals given (N, 1, 0.4) or estimated; optional second estimate call. Direct checks with an independent loss; replay of the recorded '
                      'loss/gradient oracle through the float model (every query point and the returned weights, 1e-9). Non-trivial = >= 3 public records and >= 2 measurements.',
                      assumptions=['loss_and_grad is an oracle of the model (its answers are recorded from the run); its correctness as a loss is covered by the direct check with an independent loss',
                                   'the never-worse guarantee is relative to the start of the call; a second estimate on the same object starts from the previous weights (outside the statement)'])


def replay(chk, rp):
    print(json.dumps(rp, indent=1, default=str)[:4000])
    return 0
