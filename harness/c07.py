"""C07 — zCDP <-> (eps, delta) conversions.
The model is GENERATED from /repo/mechanisms/cdp2adp.py on every run (translator/py2gallina.py) and the
theorems of Props/C07.v are re-checked against it.  This harness
  (a) validates the translator: the extracted generated functions on OCaml floats vs the real functions,
  (b) when a proof / the translator / (a) breaks, and as thorough-tier support, searches the CODE for an input
      on which the property fails (soundness vs own test, exact Gaussian delta via erfc, tightness vs a direct
      minimisation of the published bound, monotonicity, round trips)."""
import json, math, os, subprocess, sys, types
import common

def load_code():
    for m in ('matplotlib', 'matplotlib.pyplot'):
        if m not in sys.modules:
            try:
                __import__(m)
            except Exception:
                sys.modules[m] = types.ModuleType(m)
    import importlib
    if 'cdp2adp' in sys.modules:
        del sys.modules['cdp2adp']
    return importlib.import_module('cdp2adp')


def cdprun(lines):
    p = subprocess.run([os.path.join(common.BUILD, 'cdprun')], input='\n'.join(lines) + '\n', text=True, capture_output=True, timeout=3000)
    return [float.fromhex(x) if x.strip() not in ('nan', '-nan') else float('nan') for x in p.stdout.split()]


def close(a, b, rel=1e-12):
    if a == b:
        return True
    if math.isnan(a) or math.isnan(b):
        return False
    return abs(a - b) <= rel * max(abs(a), abs(b)) + 1e-300


# ---------- independent reference for the property oracle ----------
def logB(alpha, rho, eps):
    return (alpha - 1) * (alpha * rho - eps) + alpha * math.log1p(-1 / alpha) - math.log(alpha - 1)

def best_bound(rho, eps):
    """min over alpha >= 1.01 of the published bound, by golden-section on the convex log-bound (independent of the code's bisection)."""
    lo, hi = 1.01, (eps + 1) / (2 * rho) + 2 + 10
    gr = (math.sqrt(5) - 1) / 2
    c, d = hi - gr * (hi - lo), lo + gr * (hi - lo)
    fc, fd = logB(c, rho, eps), logB(d, rho, eps)
    for _ in range(200):
        if fc < fd:
            hi, d, fd = d, c, fc
            c = hi - gr * (hi - lo); fc = logB(c, rho, eps)
        else:
            lo, c, fc = c, d, fd
            d = lo + gr * (hi - lo); fd = logB(d, rho, eps)
    v = min(fc, fd, logB(1.01, rho, eps))
    return min(1.0, math.exp(v)) if v < 700 else 1.0

def exact_gauss_delta(rho, eps):
    from scipy.special import log_ndtr
    sigma = math.sqrt(1 / (2 * rho))
    a = 1 / (2 * sigma) - eps * sigma
    b = -1 / (2 * sigma) - eps * sigma
    t1 = math.exp(log_ndtr(a))
    lt2 = eps + log_ndtr(b)
    t2 = math.exp(lt2) if lt2 < 700 else float('inf')
    return max(0.0, t1 - t2)


def logu(rng, lo, hi):
    return math.exp(rng.uniform(math.log(lo), math.log(hi)))


def oracle_point(code, kind, x, y):
    """returns None or (what, details) when the property fails on the code at this point."""
    try:
        if kind == 'delta':
            rho, eps = x, y
            d = code.cdp_delta(rho, eps)
            if not (0 <= d <= 1):
                return 'delta outside [0,1]', dict(rho=rho, eps=eps, delta=d)
            ex = exact_gauss_delta(rho, eps)
            if d * (1 + 1e-9) + 1e-300 < ex:
                return 'implied delta below the exact Gaussian delta', dict(rho=rho, eps=eps, delta=d, exact=ex)
            bb = best_bound(rho, eps)
            if d > bb * (1 + 1e-6) + 1e-300:
                return 'implied delta looser than the optimum of the Renyi-order bound', dict(rho=rho, eps=eps, delta=d, optimum=bb)
            # monotone: increasing in rho, decreasing in eps
            d2 = code.cdp_delta(rho * 1.25, eps)
            d3 = code.cdp_delta(rho, eps * 1.25)
            if d2 < d * (1 - 1e-9) or d3 > d * (1 + 1e-9):
                return 'cdp_delta not monotone', dict(rho=rho, eps=eps, delta=d, delta_rho_up=d2, delta_eps_up=d3)
        elif kind == 'rho':
            eps, delta = x, y
            r = code.cdp_rho(eps, delta)
            if r < 0:
                return 'negative budget', dict(eps=eps, delta=delta, rho=r)
            d = code.cdp_delta(r, eps)
            if d > delta * (1 + 1e-9):
                return 'budget unsound: implied delta exceeds the target', dict(eps=eps, delta=delta, rho=r, implied=d)
            ex = exact_gauss_delta(r, eps) if r > 0 else 0.0
            if ex > delta * (1 + 1e-9):
                return 'budget unsound: exact Gaussian delta exceeds the target', dict(eps=eps, delta=delta, rho=r, exact=ex)
            # tight: a slightly larger budget must fail the optimal bound
            r2 = r * (1 + 1e-6) + 1e-12
            if best_bound(r2, eps) <= delta * (1 - 1e-6):
                return 'budget not tight: a larger budget still meets the target', dict(eps=eps, delta=delta, rho=r, rho_larger=r2, bound=best_bound(r2, eps))
            e2 = code.cdp_eps(r, delta)
            if r > 0 and not (abs(e2 - eps) <= 1e-6 * max(1, eps)):
                return 'cdp_eps does not invert cdp_rho', dict(eps=eps, delta=delta, rho=r, eps_back=e2)
            r3 = code.cdp_rho(eps * 1.25, delta); r4 = code.cdp_rho(eps, min(0.9, delta * 2))
            if r3 < r * (1 - 1e-9) or r4 < r * (1 - 1e-9):
                return 'cdp_rho not monotone', dict(eps=eps, delta=delta, rho=r, rho_eps_up=r3, rho_delta_up=r4)
        elif kind == 'eps':
            rho, delta = x, y
            e = code.cdp_eps(rho, delta)
            d = code.cdp_delta(rho, e)
            if d > delta * (1 + 1e-9):
                return 'eps unsound: implied delta exceeds the target', dict(rho=rho, delta=delta, eps=e, implied=d)
            if best_bound(rho, 0.0) <= delta * (1 - 1e-6):
                # the target is already met at eps = 0 (large delta): the smallest eps is 0 and the bisection returns its last upper end (~1e-300)
                if e > 1e-6:
                    return 'eps not tight', dict(rho=rho, delta=delta, eps=e, note='eps = 0 already meets the target')
            elif e > 0 and best_bound(rho, e * (1 - 1e-6)) <= delta * (1 - 1e-6):
                return 'eps not tight', dict(rho=rho, delta=delta, eps=e)
            r2 = code.cdp_rho(e, delta)
            slack = best_bound(rho, 0.0) <= delta * (1 - 1e-6)
            if slack:
                # eps is clamped at 0 and the constraint is not tight: cdp_rho returns the LARGEST budget meeting the target at that eps, at least rho
                if r2 < rho * (1 - 1e-6):
                    return 'cdp_rho does not invert cdp_eps', dict(rho=rho, delta=delta, eps=e, rho_back=r2, note='target already met at eps = 0: the largest admissible budget cannot be below rho')
            elif not (abs(r2 - rho) <= 1e-6 * max(rho, 1e-9)):
                return 'cdp_rho does not invert cdp_eps', dict(rho=rho, delta=delta, eps=e, rho_back=r2)
            e3 = code.cdp_eps(rho * 1.25, delta); e4 = code.cdp_eps(rho, min(0.9, delta * 2))
            if e3 < e * (1 - 1e-9) or e4 > e * (1 + 1e-9):
                return 'cdp_eps not monotone', dict(rho=rho, delta=delta, eps=e, eps_rho_up=e3, eps_delta_up=e4)
    except Exception as ex:
        return 'exception %s' % common.exc_kind(ex), dict(kind=kind, x=x, y=y, msg=str(ex))
    return None


def gen_points(chk, n):
    rng = chk.rng
    pts = []
    grid_r = [1e-6, 1e-4, 1e-2, 0.1, 0.5, 1, 10, 100]
    grid_e = [1e-3, 1e-2, 0.1, 0.5, 1, 3, 10, 100]
    grid_d = [1e-15, 1e-9, 1e-6, 1e-3, 0.1, 0.5]
    for i in range(n):
        kind = ['delta', 'rho', 'eps'][i % 3]
        if i < n // 2:
            x = rng.choice(grid_r if kind != 'rho' else grid_e)
            y = rng.choice(grid_e if kind == 'delta' else grid_d)
        else:
            x = logu(rng, 1e-6, 1e2) if kind != 'rho' else logu(rng, 1e-3, 1e2)
            y = logu(rng, 1e-3, 1e2) if kind == 'delta' else logu(rng, 1e-15, 0.5)
        pts.append((kind, x, y))
    return pts


def main(chk):
    proof_ok = chk.prove()
    tok, tmsg = chk.translator
    code = load_code()
    quick = chk.tier == 'quick'
    # (a) translator validation: generated functions on floats vs the real ones
    npts = 90 if quick else 600
    pts = gen_points(chk, npts)
    mismatch = []
    if tok and os.path.exists(os.path.join(common.BUILD, 'cdprun')):
        outs = cdprun(['%s %s %s' % (k, float(x).hex(), float(y).hex()) for k, x, y in pts])
        for (k, x, y), m in zip(pts, outs):
            try:
                c = getattr(code, 'cdp_' + k)(x, y)
            except Exception as ex:
                c = float('nan')
            chk.case((k, x, y), True, dict(fn='cdp_' + k, args=[x, y], code=c, generated_model=m) if len(chk.samples) < 3 else None)
            chk.count('translator-validation.cdp_' + k)
            if not close(c, m):
                mismatch.append(dict(fn='cdp_' + k, args=[x, y], code=c, generated_model=m))
    else:
        mismatch.append(dict(translator_error=tmsg or 'generated model runner missing'))
    # (b) property oracle on the code: always a sweep; it decides failing inputs when something above broke
    nor = 45 if quick else 900
    if mismatch or not proof_ok:
        nor *= 4
    opts = gen_points(chk, nor)
    # region-targeted points (small budgets, large budgets, eps<rho regime)
    rng = chk.rng
    for _ in range(nor // 3):
        opts.append(('rho', logu(rng, 1e-3, 1e-2), logu(rng, 1e-15, 1e-9)))
        opts.append(('eps', logu(rng, 0.5, 100), logu(rng, 1e-9, 0.5)))
        opts.append(('delta', logu(rng, 1e-6, 0.1), logu(rng, 1e-3, 0.5)))
    nfail = 0
    for k, x, y in opts:
        chk.count('oracle.' + k)
        chk.case(('o', k, x, y), True)
        r = oracle_point(code, k, x, y)
        if r is not None:
            nfail += 1
            if nfail <= 3:
                chk.violation(dict(kind='oracle', what=r[0]), 'cdp2adp: ' + r[0], dict(function='cdp_' + k, **r[1]), found_input=True)
    if (mismatch or not tok) and nfail == 0:
        chk.violation(dict(kind='translator-validation'), 'generated model and code disagree (or the source left the translated subset); no input violating the property found',
                      dict(broken='correspondence cdp2adp.py <-> Gen/Cdp2adp_gen.v', translator_message=tmsg, first_mismatches=mismatch[:5]), found_input=False)
    chk.extra['translator'] = dict(ok=tok, message=tmsg, validated_points=len(pts), mismatches=len(mismatch))
    return chk.finish(rule='translator validation: %d points (grids rho in [1e-6,1e2], eps in [1e-3,1e2], delta in [1e-15,0.5] + log-uniform random) comparing '
                      'cdp_delta/cdp_eps/cdp_rho of the code with the extracted generated definitions on floats (1e-12 rel); property oracle on the code at %d points '
                      '(own-test soundness, exact Gaussian delta via log_ndtr, tightness vs golden-section minimum of the published bound, monotonicity, round trips). '
                      'Every point is non-trivial (1000x1000 nested bisections); distinct by argument values.' % (len(pts), len(opts)),
                      assumptions=['Prop. 12 of Canonne-Kamath-Steinke (Bound(alpha) >= exact Gaussian delta for all alpha>1) is taken as published; checked numerically on the grid only',
                                   'float arithmetic vs real arithmetic: the R theorems describe the real-number semantics of the translated term; the generic theorems hold for floats too',
                                   'translator/py2gallina.py is trusted to preserve the meaning of the supported subset; validated on every run against the running code'])


def replay(chk, rp):
    code = load_code()
    c = rp.get('case', {})
    print(json.dumps(rp, indent=1)[:3000])
    if 'function' in c:
        k = c['function'].replace('cdp_', '')
        args = {'delta': ('rho', 'eps'), 'rho': ('eps', 'delta'), 'eps': ('rho', 'delta')}[k]
        r = oracle_point(code, k, c[args[0]], c[args[1]])
        print('replay:', r)
        return 1 if r else 0
    return 0
