"""C09 — known totals are honoured; unknown totals are the best linear estimate.
Model (Model/Loss.v): est_of / var_of / ivw over exact rationals, with the lsmr output v as an oracle input and the code's
accept decisions; theorems: unbiasedness under Q^T v = 1, inverse-variance combination of equal estimates is that estimate
(noise-free => N), result >= 1.  Correspondence: the four copies of the total estimation vs the model given the recorded v.
Oracle: dense lstsq decides which measurements CAN express the count; noise-free data must give N."""
import ast, contextlib, io, json, math, types
from fractions import Fraction
import numpy as np
from scipy import sparse
from scipy.sparse.linalg import aslinearoperator
import scipy.sparse.linalg as sla
import common
from common import qtok, parse_q

REAL_LSMR = sla.lsmr


def gen_Q(rng, n, kind):
    if kind == 'identity':
        return np.eye(n)
    if kind == 'scaled':
        return np.diag([rng.choice([0.125, 0.25, 0.5, 1, 2, 4, 8]) for _ in range(n)])
    if kind == 'prefix':
        return np.tril(np.ones((n, n)))
    if kind == 'random_square':
        while True:
            M = np.array([[rng.randint(-3, 4) for _ in range(n)] for _ in range(n)], dtype=float)
            if abs(np.linalg.det(M)) > 0.5:
                return M
    if kind == 'random_tall':
        while True:
            M = np.array([[rng.randint(-3, 4) for _ in range(n)] for _ in range(n + rng.randint(1, 3))], dtype=float)
            if np.linalg.matrix_rank(M) == n:
                return M
    if kind == 'deficient':   # rank-deficient, ones vector NOT in the row space
        M = np.eye(n)
        M[rng.randrange(n)] = 0
        if n > 2 and rng.random() < 0.5:
            M = M[[i for i in range(n) if M[i].any()]]
        return M
    if kind == 'deficient_with_ones':   # rank-deficient but the count is expressible
        M = np.ones((1, n))
        if n > 1 and rng.random() < 0.5:
            M = np.vstack([M, np.eye(n)[0:1]])
        return M
    raise KeyError(kind)


def can_express(Q):
    o = np.ones(Q.shape[1])
    v = np.linalg.lstsq(Q.T, o, rcond=None)[0]
    return bool(np.allclose(Q.T @ v, o, atol=1e-9))


def load_mixture_estimate_total():
    src = open(common.REPO + '/src/mbi/mixture_inference.py').read()
    tree = ast.parse(src)
    fn = [n for n in tree.body if isinstance(n, ast.FunctionDef) and n.name == 'estimate_total']
    if not fn:
        return None
    mod = types.ModuleType('mixture_estimate_total')
    mod.np = np
    mod.lsmr = None
    code = compile(ast.Module(body=fn, type_ignores=[]), 'mixture_inference.estimate_total', 'exec')
    exec(code, mod.__dict__)
    return mod


def main(chk):
    from mbi import Domain, FactoredInference
    import mbi.inference as inf_mod, mbi.local_inference as loc_mod, mbi.public_inference as pub_mod
    mix_mod = load_mixture_estimate_total()
    chk.prove()
    rng = chk.rng
    n = 160 if chk.tier == 'quick' else 3000
    recorded = []
    def lsmr_rec(A, b, **kw):
        out = REAL_LSMR(A, b, **kw)
        recorded.append(np.array(out[0], dtype=float))
        return out
    lines, pend = [], []
    copies = ['factored', 'local', 'public'] + (['mixture'] if mix_mod else [])
    for it in range(n):
        nmeas = rng.randint(1, 3)
        usizes = [rng.choice([1, 2, 3, 4, 5, 8] if chk.tier == 'quick' else [1, 2, 3, 5, 8, 13, 21, 34, 64]) for _ in range(nmeas)]
        uattrs = ['a', 'b', 'c'][:nmeas]
        dom = Domain(uattrs, usizes)
        if nmeas >= 2 and rng.random() < 0.4:
            # the same marginal measured more than once (each measurement is its own estimate of the total)
            attrs = [rng.choice(uattrs) for _ in range(nmeas)]
            chk.count('repeated-projection')
        else:
            attrs = list(uattrs)
        sizes = [usizes[uattrs.index(a)] for a in attrs]
        N = rng.choice([1, 2, 7, 50, 1000])
        noise_free = rng.random() < 0.6
        ms, meta = [], []
        for a, sz in zip(attrs, sizes):
            kind = rng.choice(['identity', 'scaled', 'prefix', 'random_square', 'random_tall', 'deficient', 'deficient_with_ones'])
            if sz == 1 and kind in ('deficient',):
                kind = 'identity'
            Q = gen_Q(rng, sz, kind)
            # a data vector with N records
            x = np.zeros(sz)
            for _ in range(min(N, 200)):
                x[rng.randrange(sz)] += 1
            x *= N / max(1, x.sum())
            sigma = rng.choice([0.5, 1.0, 2.0, 10.0])
            y = Q @ x
            if not noise_free:
                y = y + np.array([rng.choice([-2, -1, -0.5, 0, 0.5, 1, 3]) for _ in range(len(y))])
                if rng.random() < 0.15:
                    y = y - rng.choice([1.0, 2.0]) * (N + 3.0)      # noise dominates: the unbiased estimate is below 1 / negative, the floor at 1 applies
            spelling = rng.choice(['dense', 'sparse', 'operator'])
            Qs = {'dense': Q, 'sparse': sparse.csr_matrix(Q), 'operator': aslinearoperator(Q)}[spelling]
            ms.append((Qs, y, sigma, (a,)))
            meta.append(dict(kind=kind, size=sz, sigma=sigma, spelling=spelling, Q=Q.tolist(), y=[float(v) for v in y], expressible=can_express(Q)))
        copy = copies[it % len(copies)]
        info = dict(copy=copy, N=N, noise_free=noise_free, measurements=meta)
        del recorded[:]
        try:
            if copy == 'factored':
                inf_mod.lsmr = lsmr_rec
                engine = rng.choice(['MD', 'MD', 'RDA', 'IG']) if min(sizes) >= 2 else 'MD'
                warm = rng.random() < 0.4
                eng = FactoredInference(dom, iters=1, warm_start=warm)
                known = rng.choice([None, None, None, 3.5, 77.0])
                with contextlib.redirect_stdout(io.StringIO()):
                    if rng.random() < 0.5:
                        # history: an earlier estimate on the same engine (other data / another total) must not change this call's total
                        ms_prev = [(Q, y * 3.0 + 1.0, sg, pr) for Q, y, sg, pr in ms]
                        eng.estimate(ms_prev, total=rng.choice([None, 5.0]), engine=engine)
                        info['history'] = 'earlier estimate call (warm_start=%s)' % warm
                        del recorded[:]
                    m_ = eng.estimate(ms, total=known, engine=engine)
                total = m_.total
                info['known_total'] = known; info['engine'] = engine
            elif copy == 'local':
                loc_mod.lsmr = lsmr_rec
                eng = loc_mod.LocalInference(dom, iters=1, warm_start=rng.random() < 0.4)
                known = rng.choice([None, None, 12.0])
                with contextlib.redirect_stdout(io.StringIO()):
                    if rng.random() < 0.5:
                        eng._setup([(Q, y * 3.0 + 1.0, sg, pr) for Q, y, sg, pr in ms], rng.choice([None, 5.0]))
                        info['history'] = 'earlier _setup call'
                        del recorded[:]
                    eng._setup(ms, known)
                total = eng.model.total
                info['known_total'] = known
            elif copy == 'public':
                pub_mod.lsmr = lsmr_rec
                known = None
                if rng.random() < 0.5:
                    total = pub_mod.estimate_total(ms)
                else:
                    # through PublicInference.estimate on one object, after an earlier call with other measurements / another total:
                    # the total handed to the optimiser must be this call's estimate (or exactly the supplied total)
                    import pandas as pd
                    from mbi import Dataset
                    used = []
                    orig_emd = pub_mod.entropic_mirror_descent
                    pub_mod.entropic_mirror_descent = lambda lg, x0, total, iters=250: (used.append(total), x0)[1]
                    try:
                        pub = Dataset(pd.DataFrame({a: [rng.randrange(sz) for _ in range(6)] for a, sz in zip(uattrs, usizes)}), dom)
                        eng = pub_mod.PublicInference(pub)
                        known = rng.choice([None, None, None, 41.0])
                        if rng.random() < 0.7:
                            eng.estimate([(Q, y * 3.0 + 1.0, sg, pr) for Q, y, sg, pr in ms], total=rng.choice([None, 5.0]))
                            info['history'] = 'earlier PublicInference.estimate call'
                            del recorded[:]
                        eng.estimate(ms, total=known)
                        total = used[-1]
                        info['known_total'] = known; info['via'] = 'PublicInference.estimate'
                    finally:
                        pub_mod.entropic_mirror_descent = orig_emd
            else:
                mix_mod.lsmr = lsmr_rec
                known = None
                total = mix_mod.estimate_total(ms)
        except Exception as e:
            chk.violation(dict(kind='exception', copy=copy), 'total estimation (%s) raised %s' % (copy, common.exc_kind(e)), dict(info, error=str(e)[:200]), found_input=True)
            continue
        finally:
            inf_mod.lsmr = REAL_LSMR; loc_mod.lsmr = REAL_LSMR; pub_mod.lsmr = REAL_LSMR
        total = float(total)
        chk.count('copy.' + copy); chk.count('noise_free' if noise_free else 'noisy')
        for m in meta:
            chk.count('Q.' + m['kind'])
        nontriv = any(m['kind'] not in ('identity',) and m['size'] >= 2 for m in meta)
        if known is not None:
            chk.case(('known', it, copy), nontriv)
            if total != known:
                chk.violation(dict(kind='known-total', copy=copy), 'a total supplied by the caller (%s) is not used exactly (%s)' % (known, total), info, found_input=True)
            continue
        vs = list(recorded)
        # independent oracle: min-norm least squares per expressible measurement, inverse-variance combination, at least 1
        ests, vars_ = [], []
        for m in meta:
            if m['expressible']:
                Qd = np.array(m['Q']); v0 = np.linalg.lstsq(Qd.T, np.ones(Qd.shape[1]), rcond=None)[0]
                ests.append(float(v0 @ np.array(m['y']))); vars_.append(m['sigma'] ** 2 * float(v0 @ v0))
        expected = 1.0 if not ests else max(1.0, sum(e / v for e, v in zip(ests, vars_)) / sum(1 / v for v in vars_))
        info['oracle_total'] = expected
        if len(vs) != len(ms):
            fails = abs(total - expected) > 1e-6 * max(1.0, expected)
            chk.violation(dict(kind='lsmr-calls', copy=copy), ('total %s differs from the best linear estimate %s' % (total, expected)) if fails else 'unexpected number of least-squares solves',
                          dict(info, code_total=total), found_input=fails)
            continue
        accepts = []
        toks = []
        for (Q, y, sigma, _), m, v in zip(ms, meta, vs):
            Qd = np.array(m['Q'])
            acc = bool(np.allclose(Qd.T @ v, np.ones(Qd.shape[1])))
            accepts.append(acc)
            toks.append('%d %d %s %s %s %s %d' % (Qd.shape[0], Qd.shape[1], ' '.join(qtok(Fraction(float(q))) for q in Qd.reshape(-1)),
                                                  ' '.join(qtok(Fraction(float(t))) for t in v), ' '.join(qtok(Fraction(float(t))) for t in m['y']),
                                                  qtok(Fraction(float(m['sigma']))), 1 if acc else 0))
        info['accepted'] = accepts
        info['code_total'] = total
        lines.append('total %d %s' % (len(ms), ' '.join(toks)))
        pend.append((info, total, nontriv))
        # property oracle, independent of the model
        expressible = [m['expressible'] for m in meta]
        if accepts != expressible:
            bad = [i for i, (a, e) in enumerate(zip(accepts, expressible)) if a != e]
            chk.violation(dict(kind='selection', copy=copy, qkind=meta[bad[0]]['kind']),
                          'measurement %d (%s, size %d) %s although its query %s express the count' % (bad[0], meta[bad[0]]['kind'], meta[bad[0]]['size'],
                           'is skipped' if expressible[bad[0]] else 'is used', 'can' if expressible[bad[0]] else 'cannot'), info, found_input=True)
        elif noise_free and any(expressible) and N >= 1 and abs(total - N) > 1e-6 * N:
            chk.violation(dict(kind='noise-free', copy=copy), 'noise-free measurements of %d records give total %s' % (N, total), info, found_input=True)
        elif not any(expressible) and total != 1:
            chk.violation(dict(kind='no-estimate', copy=copy), 'no measurement can express the count but the total is %s (expected 1)' % total, info, found_input=True)
        elif total < 1:
            chk.violation(dict(kind='below-one', copy=copy), 'total %s is below 1' % total, info, found_input=True)
    outs = common.run_model(lines)
    for line, (info, total, nontriv), out in zip(lines, pend, outs):
        chk.case(line, nontriv, dict(info, model=out[:80]) if len(chk.samples) < 2 and nontriv else None)
        try:
            mt = float(parse_q(out.split(' ', 1)[0]))
            ok = abs(mt - total) <= 1e-9 * max(1.0, abs(mt))
        except Exception:
            ok = False
        if not ok:
            chk.violation(dict(kind='ivw', copy=info['copy']), 'total %s differs from the inverse-variance combination %s of the accepted estimates' % (total, out.split(' ', 1)[0]),
                          dict(info, model_output=out[:200]), found_input=True)
    return chk.finish(rule='1-3 measurements over query matrices {identity, scaled diagonal, prefix, random full-rank square/tall, rank-deficient without the ones vector, rank-deficient with it} as dense/sparse/'
                      'LinearOperator, sizes %s, noise scales {.5,1,2,10}, noise-free (60%%) or perturbed answers of N in {1,2,7,50,1000} records; the four copies of the estimation (FactoredInference._setup, '
                      'LocalInference._setup, public_inference.estimate_total, mixture_inference.estimate_total exec\'d from source) in rotation; known totals in a third of the engine cases. The lsmr output is '
                      'recorded and given to the exact model. Non-trivial = some non-identity query of size >= 2.' % ('1-8' if chk.tier == 'quick' else '1-64'),
                      assumptions=['scipy lsmr is an oracle: its output v is recorded and handed to the model; that v is the MINIMUM-norm solution (BLUE) is not proved',
                                   'mixture_inference cannot be imported (jax missing): its estimate_total function is exec\'d from the source text'])


def replay(chk, rp):
    print(json.dumps(rp, indent=1)[:4000])
    return 0
