"""C13 — estimation is history-free; returned models are immutable snapshots.
Theorem (Props/C13.v): in the state-machine model of the estimator, without warm start the k-th output equals the output of a fresh
estimator for the same arguments, for every history.  Correspondence (the model says the ONLY state read is the previous model, and
only under warm start): random call sequences on one estimator vs a fresh estimator per call; answers of every earlier model
re-queried after every later call; deep copies of the caller's measurement lists / arrays / zero specification compared afterwards;
with warm start, the final fit vs a cold start on the final measurement list."""
import copy, json, math
import numpy as np
import common, infgen, c08, c03


def answers(model, prob_attrs, rng_queries):
    out = []
    with np.errstate(all='ignore'):
        for q in rng_queries:
            out.append(np.asarray(model.project(q).values, dtype=float).copy())
        out.append(np.asarray(model.datavector(), dtype=float).copy())
        out.append(np.float64(model.total))
    return out


def same(a, b, exact):
    for x, y in zip(a, b):
        x, y = np.asarray(x), np.asarray(y)
        if x.shape != y.shape:
            return False
        if exact:
            if not np.array_equal(x, y, equal_nan=True):
                return False
        elif not np.allclose(x, y, rtol=1e-9, atol=1e-9 * (1 + abs(float(np.sum(np.abs(y))))), equal_nan=True):
            return False
    return True


def respell(t, m):
    """the caller may give a projection as a tuple, a list or (one attribute) a bare string: all documented short-hands"""
    Q, y, s, p = t
    ps = m.get('pspell', 'tuple')
    p2 = list(p) if ps == 'list' else (p[0] if ps == 'str' and len(p) == 1 else p)
    return (Q, y, s, p2)


def snapshot_inputs(ms, zeros):
    def arr(Q):
        if Q is None:
            return None
        if hasattr(Q, 'toarray'):
            return Q.toarray().copy()
        if isinstance(Q, np.ndarray):
            return Q.copy()
        return 'operator'
    return ([(arr(Q), np.array(y, copy=True), float(s), copy.deepcopy(p), t) for t in ms for Q, y, s, p in [t]], copy.deepcopy(zeros))


def inputs_equal(snap, ms, zeros):
    s_ms, s_z = snap
    if len(s_ms) != len(ms) or s_z != zeros:
        return False
    for (Q0, y0, s0, p0, t0), t in zip(s_ms, ms):
        if t is not t0:
            return False                      # the caller's list must still hold the caller's own entries
        Q, y, s, p = t
        if type(p) is not type(p0) or p != p0 or float(s) != s0 or not np.array_equal(np.asarray(y), y0):
            return False
        if (Q0 is None) != (Q is None):
            return False
        if isinstance(Q0, np.ndarray):
            Qn = Q.toarray() if hasattr(Q, 'toarray') else Q
            if not np.array_equal(np.asarray(Qn), Q0):
                return False
    return True


def main(chk):
    from mbi import Domain, FactoredInference
    chk.prove()
    rng = chk.rng
    nhist = 14 if chk.tier == 'quick' else 250
    for h in range(nhist):
        base = infgen.gen_problem(rng, max_attrs=4, max_cells=120)
        attrs, sizes = base['attrs'], base['sizes']
        cfg = dict(zip(attrs, sizes))
        dom = Domain(attrs, sizes)
        for m in base['ms']:
            m['pspell'] = rng.choice(['tuple', 'tuple', 'list'] + (['str'] if len(m['proj']) == 1 else []))
        zeros = c08.zero_spec(rng, base) if rng.random() < 0.3 else {}
        warm = rng.random() < 0.3
        iters = rng.choice([1, 5, 30])
        if warm:
            # the warm-start clause is about the optimum reached, not about speed: well-conditioned stream as in C03 (0/1 queries, noise >= 0.5)
            for m in base['ms']:
                if m['kind'] in ('dense', 'wide'):
                    p = m['Q'].shape[1]
                    m['Q'] = np.eye(p); m['kind'] = 'identity'
                m['sigma'] = max(m['sigma'], 0.5)
                m['y'] = m['Q'] @ m['mv'] + np.array([rng.gauss(0, m['sigma']) for _ in range(m['Q'].shape[0])])
        ncalls = rng.randint(3, 5)
        queries = [c for c in [tuple(rng.sample(attrs, rng.randint(1, min(2, len(attrs))))) for _ in range(3)]]
        calls = []
        for k in range(ncalls):
            p2 = infgen.gen_problem(rng, max_attrs=4, max_cells=10 ** 9)
            # measurements over THIS domain: reuse base projections with fresh matrices/answers, vary the list from call to call
            ms = [m for m in base['ms'] if rng.random() < 0.7] or base['ms'][:1]
            ms = [dict(m, y=m['y'] + rng.choice([0.0, 0.0, 1.5]) * np.ones_like(m['y']), Q=(m['Q'] * rng.choice([1.0, 1.0, 2.0]) if rng.random() < 0.3 and m['spelling'] != 'none' else m['Q'])) for m in ms]
            rng.shuffle(ms)
            engine = rng.choice(['MD', 'MD', 'RDA', 'IG'])
            total = rng.choice([None, float(base['N']), round(1.1 * base['N'], 1)])
            calls.append((ms, engine, total))
        if h % 7 == 0 and len(attrs) >= 3:
            # directed history: warm start + structural zeros + a list that SHRINKS, so that the maximal clique which hosted the zero
            # clique in the previous model disappears (the zeros must then come from the specification again, not from the old parameters)
            big = tuple(rng.sample(attrs, 3)); small = tuple(rng.sample(list(big), 2))
            def mk(proj):
                p = math.prod(cfg[a] for a in proj); mv = np.array([rng.random() + 0.2 for _ in range(p)]); mv = mv * base['N'] / mv.sum()
                return dict(proj=proj, Q=np.eye(p), y=mv + np.array([rng.gauss(0, 1.0) for _ in range(p)]), sigma=1.0, kind='identity', spelling='dense', mv=mv, pspell='tuple')
            mb, msm = mk(big), mk(small)
            zc = tuple(rng.sample(list(small), rng.randint(1, 2)))
            zeros = {zc: [tuple(rng.randrange(cfg[a]) for a in zc)]}
            warm = True; iters = 30
            calls = [([mb], rng.choice(['MD', 'RDA', 'IG']), float(base['N'])), ([msm], 'MD', float(base['N']))]
            ncalls = 2; chk.count('directed.shrinking-list-with-zeros')
        info = dict(attrs=attrs, sizes=sizes, warm_start=warm, iters=iters, structural_zeros={''.join(k): v for k, v in zeros.items()},
                    calls=[dict(engine=e, total=t, measurements=[dict(proj=list(m['proj']), kind=m['kind'], sigma=m['sigma']) for m in ms]) for ms, e, t in calls])
        chk.count('warm' if warm else 'cold'); chk.count('calls=%d' % ncalls)
        try:
            with infgen.quiet(), np.errstate(all='ignore'):
                eng = FactoredInference(dom, iters=iters, structural_zeros=copy.deepcopy(zeros), warm_start=warm)
                held = []      # (model, answers at return time, exact?)
                for k, (ms, engine, total) in enumerate(calls):
                    mlist = [respell(infgen.spelled(m), m) for m in ms]
                    snap = snapshot_inputs(mlist, zeros)
                    model = eng.estimate(mlist, total=total, engine=engine)
                    now = answers(model, attrs, queries)
                    exact = engine == 'MD'
                    chk.case((h, k), k >= 1, dict(info, call=k) if len(chk.samples) < 2 and k == 2 else None)
                    chk.count('engine.' + engine)
                    if not inputs_equal(snap, mlist, zeros):
                        chk.violation(dict(kind='caller-inputs-modified', engine=engine), 'estimate modified the caller\'s measurement list / arrays / zero specification', dict(info, call=k), found_input=True)
                    if not warm:
                        fresh = FactoredInference(dom, iters=iters, structural_zeros=copy.deepcopy(zeros), warm_start=False)
                        ref = answers(fresh.estimate([respell(infgen.spelled(m), m) for m in ms], total=total, engine=engine), attrs, queries)
                        if not same(now, ref, exact):
                            chk.violation(dict(kind='history-dependence', engine=engine), 'call %d (%s) on a used estimator differs from a fresh estimator with the same arguments' % (k, engine),
                                          dict(info, call=k, used=[x.tolist() for x in now][:2], fresh=[x.tolist() for x in ref][:2]), found_input=True)
                    # earlier models must not have changed
                    for j, (mj, aj) in enumerate(held):
                        if not same(answers(mj, attrs, queries), aj, True):
                            chk.violation(dict(kind='snapshot-changed', engine=engine), 'the model returned by call %d changed its answers after call %d' % (j, k), dict(info, call=k, earlier=j), found_input=True)
                    held.append((model, now))
                if warm:
                    # warm start over a changed list still reaches the optimum of the FINAL list (compared with a cold start, enough iterations)
                    ms, engine, total = calls[-1]
                    prob = dict(base, ms=[m for m in ms])
                    total_f = total if rng.random() < 0.5 else None      # omitted total: must be re-estimated from the final list, not inherited
                    eng.iters = 2500
                    mw = eng.estimate([infgen.spelled(m) for m in ms], total=total_f, engine='MD')
                    mc = FactoredInference(dom, iters=2500, structural_zeros=copy.deepcopy(zeros)).estimate([infgen.spelled(m) for m in ms], total=total_f, engine='MD')
                    Lw = infgen.loss_of_answers(prob, lambda pr: mw.project(pr).datavector())
                    Lc = infgen.loss_of_answers(prob, lambda pr: mc.project(pr).datavector())
                    chk.case((h, 'warm-final'), True); chk.count('warm.final')
                    leaked = None
                    for zcl, zcells in zeros.items():
                        tz = np.asarray(mw.project(tuple(zcl)).values, dtype=float)
                        for cell in zcells:
                            if float(tz[tuple(cell)]) > 1e-12 * float(mw.total):
                                leaked = (zcl, cell, float(tz[tuple(cell)]))
                    if leaked:
                        chk.violation(dict(kind='warm-start-optimum', zeros='lost'), 'warm-started estimation puts mass %.4g on the structurally impossible cell %s=%s (the cold start has none): a different feasible set, hence a different optimum' % (leaked[2], ''.join(leaked[0]), list(leaked[1])),
                                      dict(info, loss_warm=Lw, loss_cold=Lc), found_input=True)
                    if Lw > Lc + 5e-2 * max(1.0, Lc):
                        chk.violation(dict(kind='warm-start-optimum'), 'warm-started estimation reaches loss %.6g, a cold start on the same final list %.6g' % (Lw, Lc), dict(info, loss_warm=Lw, loss_cold=Lc), found_input=True)
        except Exception as e:
            chk.violation(dict(kind='exception', what=common.exc_kind(e)), 'call sequence raised %s: %s' % (common.exc_kind(e), str(e)[:100]), info, found_input=True)
    return chk.finish(rule='random sequences of 3-5 estimate calls on one FactoredInference (varying measurement subsets/order/answers/matrices, totals None/N/1.1N, solvers MD/RDA/IG, 1-30 iterations, structural zeros in 30%, '
                      'warm start in 30%). Cold: every call vs a fresh estimator (bitwise for MD; 1e-9 for RDA/IG because eigsh starts from OS entropy); every earlier model re-queried after every later call (bitwise); '
                      'caller inputs vs deep copies. Warm: final fit vs cold start on the final list (2e-2). Non-trivial = call index >= 1.',
                      assumptions=['aliasing / mutation is observed, not proved (partial)', 'scipy eigsh is seeded from OS entropy: RDA/IG are compared at 1e-9 instead of bitwise'])


def replay(chk, rp):
    print(json.dumps(rp, indent=1)[:4000])
    return 0
