"""C06 — private data reaches mechanism output only through the DP primitives.
Theorem (Props/C06.v): a mechanism that is an interaction tree over the primitives (continuations see only released values) performs,
on any two datasets forced to the same observations, the same primitives with the same descriptors and returns the same output.
Per run: the two forced executions of harness/dprec.py on neighbouring datasets must show identical sequences of releases (kinds,
noise scales, sizes, candidate counts, call sites), identical returned synthetic data, and output conforming to the input's ORIGINAL
domain (attributes, column order, value ranges)."""
import json, math
import numpy as np
import pandas as pd
import common, dprec


def conforms(synth, data):
    try:
        if list(synth.domain.attrs) != list(data.domain.attrs) or list(synth.domain.shape) != list(data.domain.shape):
            return 'domain of the result %s differs from the input domain %s' % (synth.domain, data.domain)
        df = synth.df
        if list(df.columns) != list(data.domain.attrs):
            return 'columns %s differ from the domain attributes %s' % (list(df.columns), list(data.domain.attrs))
        for a, s in zip(data.domain.attrs, data.domain.shape):
            v = df[a].values
            if len(v) and (not np.all(np.isfinite(v.astype(float))) or v.min() < 0 or v.max() >= s or not np.all(v == np.floor(v))):
                return 'column %s holds values outside 0..%d' % (a, s - 1)
    except Exception as e:
        return 'result is not a dataset over the input domain (%s)' % type(e).__name__
    return None


def main(chk):
    chk.prove()
    rng = chk.rng
    reps = 3 if chk.tier == 'quick' else 30
    for r in range(reps):
        for name in ('mst', 'aim', 'mwem', 'adagrid'):
            data, names, sizes = dprec.make_data(rng, with_size1=(rng.random() < 0.3))
            params = dprec.gen_params(rng, name, names)
            if r % 3 == 1:
                params['epsilon'] = 30.0           # low-noise regime: one record is comparable to the noise (data-dependent branches show up here)
            if name == 'mst' and r % 3 == 2:
                # noise-dominated regime: the noisy estimate of the total collapses (the engine clamps it at 1); whatever the mechanism does
                # then must still not depend on the private record count
                params['epsilon'] = rng.choice([0.001, 0.003])
                data, names, sizes = dprec.make_data(rng, with_size1=False)
                from mbi import Dataset
                data = Dataset(data.df.iloc[:rng.choice([4, 9])].reset_index(drop=True), data.domain)
            if name == 'mwem':
                combos = [('laplace', True), ('gaussian', False), ('gaussian', True), ('laplace', False)]
                params['noise'], params['bounded'] = combos[r % len(combos)]      # every noise kind x adjacency in turn (add/remove neighbours change the record count)
            if name == 'aim' and r % 3 == 0:
                # a workload whose downward closure does not touch every attribute: the untouched attributes must still be in the output
                import itertools
                while len(names) < 3:
                    data, names, sizes = dprec.make_data(rng, with_size1=False)
                params = dprec.gen_params(rng, name, names)
                keep = names[:-1] if rng.random() < 0.5 else names[1:]
                params['workload'] = [tuple(c) for c in itertools.combinations(keep, 2)]
                params['partial_workload'] = True
            if name == 'aim' and r % 3 == 2:
                params['explicit_prng'] = True      # the constructor's third positional parameter is not the generator everywhere
            if name == 'adagrid' and r % 2 == 0 and len(names) >= 3:
                params['targets'] = [names[-1]]
            info = dict(mechanism=name, params={k: (v if not isinstance(v, list) else [(list(x) if isinstance(x, (list, tuple)) else x) for x in v]) for k, v in params.items()}, attrs=names, sizes=sizes, records=int(data.df.shape[0]))
            res = dprec.pair_of_runs(rng, name, params, data, seed=rng.randrange(2 ** 31))
            info['neighbour'] = res['neighbour']
            chk.count('mechanism.' + name); chk.count('adjacency.' + ('replace' if res['bounded'] else 'add/remove'))
            chk.case((name, json.dumps(info, default=str)), True, dict(info, events=dprec.describe_events(res['rec1'], 10)) if len(chk.samples) < 3 else None)
            if 'error1' in res or 'error2' in res:
                chk.violation(dict(kind='exception', mechanism=name, what=(res.get('error1') or res.get('error2'))[:40]), '%s raised %s' % (name, res.get('error1') or res.get('error2')), info, found_input=True)
                continue
            e1, e2 = res['rec1'].events, res['rec2'].events
            bad = None
            if res['rec2'].diverged:
                bad = 'the run on the neighbour diverges: ' + res['rec2'].diverged
            elif len(e1) != len(e2):
                bad = '%d releases/selections on D, %d on the neighbour' % (len(e1), len(e2))
            else:
                for i, (a, b) in enumerate(zip(e1, e2)):
                    if a['kind'] != b['kind'] or a['site'] != b['site']:
                        bad = 'event %d: %s at %s vs %s at %s' % (i, a['kind'], a['site'], b['kind'], b['site']); break
                    if a['kind'] == 'select':
                        if a['n'] != b['n']:
                            bad = 'event %d: selection among %d candidates vs %d' % (i, a['n'], b['n']); break
                    elif a['size'] != b['size'] or not (abs(a['scale'] - b['scale']) <= 1e-12 * abs(a['scale'])) or (a['operand'] is None) != (b['operand'] is None):
                        bad = 'event %d: %s noise of scale %.9g size %d vs scale %.9g size %d' % (i, a['kind'], a['scale'], a['size'], b['scale'], b['size']); break
            if bad:
                chk.violation(dict(kind='release-sequence', mechanism=name), '%s: %s' % (name, bad),
                              dict(info, events=dprec.describe_events(res['rec1']), events_neighbour=dprec.describe_events(res['rec2'])), found_input=True)
                continue
            # non-interference proper: ANY dataset of the same shape, forced to the same observations, must lead to the same primitives with the
            # same descriptors and to the same output (a single changed record flips a data-dependent branch only near its threshold)
            rec3, err3 = dprec.forced_run(name, params, dprec.far_dataset(rng, data), res['rec1'].seed, res['rec1'], res['bounded'])
            chk.count('far-dataset-forced-run')
            if err3 is None:
                e3 = rec3.events
                d3 = rec3.diverged or (None if len(e3) == len(e1) else '%d releases/selections on D, %d on the other dataset' % (len(e1), len(e3)))
                if d3 is None:
                    for i, (a, b) in enumerate(zip(e1, e3)):
                        if a['kind'] != b['kind'] or a['site'] != b['site'] or (a['kind'] == 'select' and a['n'] != b['n']) or \
                           (a['kind'] != 'select' and (a['size'] != b['size'] or not (abs(a['scale'] - b['scale']) <= 1e-12 * abs(a['scale'])))):
                            d3 = 'event %d differs (%s scale %s vs %s scale %s)' % (i, a['kind'], a.get('scale'), b['kind'], b.get('scale')); break
                if d3:
                    chk.violation(dict(kind='release-sequence', mechanism=name, other='far-dataset'), '%s: forced to the same released values and selections, an unrelated dataset of the same shape performs different primitives: %s' % (name, d3),
                                  dict(info, events=dprec.describe_events(res['rec1']), events_other=dprec.describe_events(rec3)), found_input=True)
                    continue
            s1, s2 = res['synth1'], res['synth2']
            try:
                same = s1.df.shape == s2.df.shape and list(s1.df.columns) == list(s2.df.columns) and np.array_equal(s1.df.values, s2.df.values)
            except Exception:
                same = False
            if not same:
                chk.violation(dict(kind='output-differs', mechanism=name), '%s: identical released values and selections, but the returned synthetic data differ (%s rows vs %s rows)' %
                              (name, getattr(getattr(s1, 'df', None), 'shape', '?'), getattr(getattr(s2, 'df', None), 'shape', '?')), info, found_input=True)
            c = conforms(s1, data)
            if c:
                chk.violation(dict(kind='output-domain', mechanism=name), '%s: %s' % (name, c), info, found_input=True)
    return chk.finish(rule='per mechanism (MST, AIM incl. explicit prng / growing candidate sets, MWEM+PGM gaussian/laplace bounded/unbounded, Adaptive Grid with/without targets): random small datasets '
                      '(2-4 attributes, sizes 1-4 incl. single-valued attributes, 20-120 records), eps in {.5,1,3,30} (every third repetition eps=30: low-noise regime), one neighbour (remove / replace one record) and one unrelated dataset of the same shape, both forced to the observations of the first run; '
                      'run on D recording released values and selections, run on D\' forced to them; compared: event kinds, call sites, noise scales, sizes, candidate counts, returned data frames; result vs the '
                      'ORIGINAL input domain. Every pair is non-trivial.',
                      assumptions=['post-processing randomness comes from the global numpy generator re-seeded identically; the primitives draw from a separate stream',
                                   'inference iterations are capped from outside (identically in both runs)',
                                   'refinement of the Python code to the interaction-tree model is established per pair of runs, not proved (partial)'])


def replay(chk, rp):
    print(json.dumps(rp, indent=1, default=str)[:4000])
    return 0
