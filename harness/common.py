"""Shared machinery of the checks: Coq build, Print Assumptions parsing, grep gate, model runner,
evidence, known findings, violation reporting.  Run under /venv/bin/python."""
import fcntl, hashlib, json, os, random, re, subprocess, sys, time, traceback

VERIF = os.path.dirname(os.path.dirname(os.path.abspath(__file__)))
REPO = os.environ.get('VERIF_REPO', '/repo')
COQ = os.path.join(VERIF, 'coq')
BUILD = os.path.join(VERIF, 'build')
MODELRUN = os.path.join(BUILD, 'modelrun')
NUM_PROPS = ('C05', 'C06', 'C16', 'C17', 'C18', 'C19', 'C20')
GEN_PROPS = ('C15', 'C01', 'C08', 'C12')
GATE_RE = re.compile(r'\b(Admitted|admit|Axiom|Axioms|Parameter|Parameters|Conjecture|Hypothesis|Variable)\b|Unset\s+Guard|bypass_check|type-in-type|impredicative-set|Admit\s+Obligations')


def sh(cmd, timeout=600, cwd=None, env=None, inp=None):
    try:
        p = subprocess.run(cmd, shell=isinstance(cmd, str), cwd=cwd, env=env, input=inp, text=True,
                           stdout=subprocess.PIPE, stderr=subprocess.STDOUT, timeout=timeout)
        return p.returncode, p.stdout
    except subprocess.TimeoutExpired as e:
        so = e.stdout or ''
        if isinstance(so, bytes):
            so = so.decode('utf-8', 'replace')
        return 124, so + '\nTIMEOUT'


class Lock:
    def __init__(self, name):
        self.path = os.path.join(BUILD, name + '.lock')
    def __enter__(self):
        os.makedirs(BUILD, exist_ok=True)
        self.f = open(self.path, 'w')
        fcntl.flock(self.f, fcntl.LOCK_EX)
    def __exit__(self, *a):
        fcntl.flock(self.f, fcntl.LOCK_UN)
        self.f.close()


TRANSLATIONS = {
    # name: (translator script, source relative to /repo, generated file, extra arguments)
    'cdp': ('py2gallina.py', 'mechanisms/cdp2adp.py', 'Cdp2adp_gen.v', ['cdp_delta_standard', 'cdp_delta', 'cdp_eps', 'cdp_rho']),
    'domain': ('py2gallina_list.py', 'src/mbi/domain.py', 'Domain_gen.v', ['domain']),
    'budget': ('py2gallina_budget.py', 'mechanisms', 'Budget_gen.v', []),
    'bp': ('py2gallina_bp.py', 'src/mbi/graphical_model.py', 'BP_gen.v', []),
    'mp': ('py2gallina_mp.py', 'src/mbi/junction_tree.py', 'MpOrder_gen.v', []),
}


def run_translator(name='cdp'):
    """Regenerate Gen/<file> from the source in /repo's working tree (only rewritten when the text changes).
    Returns (ok, message). On failure the previous file is left in place (other properties are unaffected)."""
    script, src, gen, extra = TRANSLATIONS[name]
    dst = os.path.join(COQ, 'Gen', gen)
    os.makedirs(os.path.dirname(dst), exist_ok=True)
    tmp = dst + '.new'
    rc, out = sh([sys.executable, os.path.join(VERIF, 'translator', script), os.path.join(REPO, src), tmp] + extra)
    if rc != 0:
        if os.path.exists(tmp):
            os.remove(tmp)
        return False, out.strip()
    new = open(tmp).read()
    if not os.path.exists(dst) or open(dst).read() != new:
        os.replace(tmp, dst)
    else:
        os.remove(tmp)
    return True, ''


def _newest(dirs, exts):
    t = 0
    for d in dirs:
        for r, _, fs in os.walk(os.path.join(VERIF, d)):
            for f in fs:
                if f.endswith(exts):
                    t = max(t, os.path.getmtime(os.path.join(r, f)))
    return t


def coq_make(prop):
    """Regenerate the translated file, full .vo build of the development (a no-op when fresh), rebuild the
    extracted model runners when stale.  Returns dict(ok, log, translator_ok, translator_msg): ok refers to
    Props/<prop>.vo and everything it depends on."""
    with Lock('coq'):
        tok, tmsg = run_translator('cdp')
        trs = {'cdp': (tok, tmsg)}
        for nm in TRANSLATIONS:
            if nm != 'cdp':
                trs[nm] = run_translator(nm)
        mkf, prj = os.path.join(COQ, 'Makefile'), os.path.join(COQ, '_CoqProject')
        if not os.path.exists(mkf) or os.path.getmtime(mkf) < os.path.getmtime(prj):
            sh('coq_makefile -f _CoqProject -o Makefile', cwd=COQ)
        jobs = os.environ.get('VERIF_JOBS', '16')
        rc, out = sh('timeout 2400 make -k -j%s 2>&1' % jobs, timeout=2500, cwd=COQ)
        rc1, out1 = sh('timeout 2400 make -j%s Props/%s.vo 2>&1' % (jobs, prop), timeout=2500, cwd=COQ)
        ok = rc1 == 0
        log = out if rc != 0 else ''
        log += out1 if rc1 != 0 else ''
        for f in ('model.ml', 'model.mli', 'cdp_model.ml', 'cdp_model.mli', 'num_model.ml', 'num_model.mli', 'gen_model.ml', 'gen_model.mli'):
            if os.path.exists(os.path.join(COQ, f)):
                os.remove(os.path.join(COQ, f))
        wants = ['cdp'] if prop == 'C07' else (['num'] if prop in NUM_PROPS else ['main'])
        if prop in ('C05', 'C06'):
            wants = ['num', 'cdp']
        if prop in GEN_PROPS:
            wants = wants + ['gen']
        for want in wants:
            binp = os.path.join(BUILD, {'cdp': 'cdprun', 'main': 'modelrun', 'num': 'numrun', 'gen': 'genrun'}[want])
            src_t = _newest(['coq/Gen', 'coq/Base', 'ocaml/cdp', 'coq/Extract'], ('.v', '.ml')) if want == 'cdp' else \
                _newest(['coq/Gen', 'coq/Base', 'ocaml/gen', 'coq/Extract'], ('.v', '.ml')) if want == 'gen' else \
                _newest(['coq/Model', 'coq/Base', 'coq/Extract', 'ocaml'], ('.v', '.ml'))
            if not os.path.exists(binp) or os.path.getmtime(binp) < src_t:
                rc2, out2 = sh([os.path.join(VERIF, 'harness', 'build_model.sh'), want], timeout=2000)
                if rc2 != 0:
                    log += out2
                    ok = False
        return dict(ok=ok, log=log, translator_ok=tok, translator_msg=tmsg, translators=trs)


def gate():
    """Reject declared axioms / admits / switched-off checks anywhere in the development."""
    bad = []
    for r, _, fs in os.walk(COQ):
        for f in fs:
            if not f.endswith('.v'):
                continue
            txt = open(os.path.join(r, f)).read()
            # strip comments (non-nested is enough for our files; nested handled by loop)
            prev = None
            while prev != txt:
                prev = txt
                txt = re.sub(r'\(\*[^*(]*(?:\*(?!\))[^*(]*|\((?!\*)[^*(]*)*\*\)', ' ', txt)
            insec = 0
            for i, line in enumerate(txt.split('\n')):
                if re.match(r'\s*Section\b', line):
                    insec += 1
                if re.match(r'\s*End\b', line) and insec:
                    insec -= 1
                m = GATE_RE.search(line)
                if m:
                    w = m.group(0)
                    # Variable/Hypothesis/Context are allowed inside a Section (they become premises)
                    if w in ('Variable', 'Hypothesis') and insec:
                        continue
                    bad.append('%s:%d: %s' % (os.path.relpath(os.path.join(r, f), VERIF), i + 1, line.strip()[:100]))
    return bad


def compile_props(prop):
    """Compile Props/<prop>.v on its own, capture Print Assumptions output.
    Returns dict(ok, theorems=[(name, [axioms])], log)."""
    src = os.path.join(COQ, 'Props', prop + '.v')
    if not os.path.exists(src):
        return dict(ok=False, theorems=[], log='missing ' + src)
    with Lock('coq'):
        rc, out = sh('timeout 900 coqc -Q . PGM Props/%s.v 2>&1' % prop, timeout=1000, cwd=COQ)
    text = open(src).read()
    names = re.findall(r'^\s*(?:Theorem|Corollary|Lemma|Example)\s+([A-Za-z0-9_\']+)', text, re.M)
    # parse Print Assumptions blocks in order
    blocks = []
    cur = None
    for line in out.split('\n'):
        if line.startswith('Closed under the global context'):
            blocks.append([])
            cur = None
        elif line.startswith('Axioms:'):
            cur = []
            blocks.append(cur)
        elif cur is not None:
            # an axiom is printed as `name : type` or, for long types, `name` alone with the type on the following indented lines
            m = re.match(r'^([A-Za-z_][A-Za-z0-9_.\']*)\s*(:|$)', line)
            if m and m.group(1) not in ('Warning', 'File'):
                cur.append(m.group(1))
    pa = re.findall(r'Print Assumptions\s+([A-Za-z0-9_.\']+)', text)
    thms = []
    for i, n in enumerate(pa):
        thms.append((n, blocks[i] if i < len(blocks) else None))
    return dict(ok=(rc == 0), theorems=thms, declared=names, log=out)


def lemma_count(prop):
    """Number of lemmas/theorems in the Proofs files Props/<prop>.v imports (all compiled by make)."""
    src = os.path.join(COQ, 'Props', prop + '.v')
    n = 0
    files = []
    if os.path.exists(src):
        for m in re.finditer(r'PGM\.((?:Proofs|Base|Gen)\.[A-Za-z0-9_]+)', open(src).read()):
            files.append(m.group(1).replace('.', '/') + '.v')
    for f in sorted(set(files)):
        p = os.path.join(COQ, f)
        if os.path.exists(p):
            n += len(re.findall(r'^\s*(?:Theorem|Corollary|Lemma|Example|Fact|Proposition)\s', open(p).read(), re.M))
    return n, sorted(set(files))


def _run_model_chunk(args):
    lines, timeout = args
    rc, out = sh('ulimit -s unlimited 2>/dev/null; exec %s' % MODELRUN, timeout=timeout, inp='\n'.join(lines) + '\n')
    res = out.split('\n')
    if res and res[-1] == '':
        res.pop()
    if len(res) != len(lines):
        res += ['EXC model-runner-died rc=%s' % rc] * (len(lines) - len(res))
    return res[:len(lines)]


def run_model(lines, timeout=600, jobs=None):
    """Run the extracted model on the given command lines (split over several processes); returns the output lines."""
    if not lines:
        return []
    jobs = jobs or int(os.environ.get('VERIF_JOBS', '16'))
    if len(lines) < 8 or jobs <= 1:
        return _run_model_chunk((lines, timeout))
    from concurrent.futures import ThreadPoolExecutor
    k = min(jobs, len(lines))
    chunks = [lines[i::k] for i in range(k)]
    with ThreadPoolExecutor(k) as ex:
        outs = list(ex.map(_run_model_chunk, [(c, timeout) for c in chunks]))
    res = [None] * len(lines)
    for i, o in enumerate(outs):
        res[i::k] = o
    return res


def _run_gen_chunk(args):
    lines, timeout = args
    binp = os.path.join(BUILD, 'genrun')
    rc, out = sh('ulimit -s unlimited 2>/dev/null; exec %s' % binp, timeout=timeout, inp='\n'.join(lines) + '\n')
    res = out.split('\n')
    if res and res[-1] == '':
        res.pop()
    res += ['EXC gen-runner-died rc=%s' % rc] * (len(lines) - len(res))
    return res[:len(lines)]


def run_gen(lines, timeout=600, jobs=None):
    """Run the functions GENERATED from the Python source (build/genrun), split over several processes; one output line per input line."""
    if not lines:
        return []
    if not os.path.exists(os.path.join(BUILD, 'genrun')):
        return ['EXC genrun-not-built'] * len(lines)
    jobs = jobs or int(os.environ.get('VERIF_JOBS', '16'))
    if len(lines) < 8 or jobs <= 1:
        return _run_gen_chunk((lines, timeout))
    from concurrent.futures import ThreadPoolExecutor
    k = min(jobs, len(lines))
    chunks = [lines[i::k] for i in range(k)]
    with ThreadPoolExecutor(k) as ex:
        outs = list(ex.map(_run_gen_chunk, [(c, timeout) for c in chunks]))
    res = [None] * len(lines)
    for i, o in enumerate(outs):
        res[i::k] = o
    return res


def run_num(lines, timeout=600):
    """Run the float-instance numeric models (build/numrun); returns one list of floats (or an 'EXC ...' string) per line."""
    if not lines:
        return []
    rc, out = sh([os.path.join(BUILD, 'numrun')], timeout=timeout, inp='\n'.join(lines) + '\n')
    res = []
    for l in out.split('\n')[:len(lines)]:
        if l.startswith('EXC'):
            res.append(l)
        else:
            try:
                res.append([float.fromhex(t) if t not in ('nan', '-nan', 'inf', '-inf') else float(t) for t in l.split()])
            except ValueError:
                res.append('EXC unparsable: ' + l[:60])
    res += ['EXC runner died'] * (len(lines) - len(res))
    return res


def hexz(n):
    n = int(n)
    return ('-' if n < 0 else '') + format(abs(n), 'x')

def unhexz(s):
    return -int(s[1:], 16) if s.startswith('-') else int(s, 16)

def qtok(fr):
    from fractions import Fraction
    fr = Fraction(fr)
    return '%s %s' % (hexz(fr.numerator), hexz(fr.denominator))

def parse_q(s):
    from fractions import Fraction
    a, b = s.split('/')
    return Fraction(unhexz(a), unhexz(b))

def parse_qlist(s):
    s = s.strip()
    assert s.startswith('[') and s.endswith(']'), s
    body = s[1:-1].split()
    return [parse_q(x) for x in body]

def ltok(l, f=str):
    l = list(l)
    return ' '.join([str(len(l))] + [f(x) for x in l])


def load_findings():
    p = os.path.join(VERIF, 'known_findings.json')
    if os.path.exists(p):
        return json.load(open(p))
    return {'findings': [], 'fixed': []}


class Check:
    """One run of one property's check."""
    def __init__(self, prop, tier, seed):
        self.prop, self.tier, self.seed = prop, tier, seed
        self.t0 = time.time()
        self.rng = random.Random('%s-%s-%s' % (prop, tier, seed))
        self.violations = []      # dicts: signature, text, replay payload, found_input
        self.known = []
        self.evaluations = 0
        self.nontrivial = set()
        self.samples = []
        self.dist = {}
        self.notes = []
        self.extra = {}
        self.proof = None
        self.findings = [f for f in load_findings().get('findings', []) if f['property'] == prop]

    # ---- proof side ----
    def prove(self):
        mk = coq_make(self.prop)
        ok, log = mk['ok'], mk['log']
        self.translator = (mk['translator_ok'], mk['translator_msg'])
        self.translators = mk['translators']
        g = gate()
        pr = compile_props(self.prop) if ok else dict(ok=False, theorems=[], declared=[], log=log[-3000:])
        nl, files = lemma_count(self.prop)
        self.proof = dict(make_ok=ok, gate=g, props_ok=pr['ok'], theorems=pr['theorems'], lemma_files=files,
                          lemmas=nl, log=(log[-3000:] if not ok else '') + (pr['log'][-3000:] if not pr['ok'] else ''))
        return ok and pr['ok'] and not g

    # ---- bookkeeping ----
    def count(self, key, n=1):
        self.dist[key] = self.dist.get(key, 0) + n
    def case(self, canon, nontrivial, sample=None):
        self.evaluations += 1
        if nontrivial:
            self.nontrivial.add(hashlib.sha1(repr(canon).encode()).hexdigest())
        if sample is not None and len(self.samples) < 3:
            self.samples.append(sample)

    def violation(self, signature, text, payload, found_input=True):
        """signature: flat dict used to match known findings."""
        for f in self.findings:
            if all(str(signature.get(k)) == str(v) for k, v in f['match'].items()):
                if f['id'] not in [k['id'] for k in self.known]:
                    self.known.append(dict(id=f['id'], text=f['text']))
                return 'known'
        self.violations.append(dict(signature=signature, text=text, payload=payload, found_input=found_input))
        return 'new'

    def finish(self, rule, level_text_extra=None, assumptions=None):
        proof = self.proof or dict(make_ok=False, gate=[], props_ok=False, theorems=[], lemmas=0, lemma_files=[], log='prove() not run')
        proof_ok = proof['make_ok'] and proof['props_ok'] and not proof['gate']
        os.makedirs(os.path.join(VERIF, 'replays'), exist_ok=True)
        os.makedirs(os.path.join(VERIF, 'evidence'), exist_ok=True)
        out_lines = []
        for k in self.known:
            out_lines.append('KNOWN-FINDING: property=%s %s' % (self.prop, k['text']))
        nviol = 0
        # at most a few violation lines
        shown = sorted(self.violations, key=lambda v: not v['found_input'])[:5]
        if not proof_ok and not any(v['found_input'] for v in self.violations):
            shown = [dict(signature={'kind': 'proof-break'}, text='proof obligations no longer check',
                          payload=dict(broken='Props/%s.v or its dependencies' % self.prop, gate=proof['gate'], log=proof['log']),
                          found_input=False)] + shown
        for i, v in enumerate(shown):
            path = os.path.join(VERIF, 'replays', '%s-%s-%d-%d.json' % (self.prop, self.tier, self.seed, i))
            json.dump(dict(property=self.prop, seed=self.seed, tier=self.tier, what=v['text'], signature=v['signature'],
                           found_failing_input=v['found_input'], case=v['payload']), open(path, 'w'), indent=1, default=str)
            out_lines.append('VIOLATION property=%s replay=%s%s' % (self.prop, path, '' if v['found_input'] else ' no-failing-input-found'))
            nviol += 1
        axioms = sorted({a for _, ax in proof['theorems'] if ax for a in ax})
        nthm = len(proof['theorems'])
        obligations = max(1, nthm + proof['lemmas'])
        discharged = obligations if proof_ok else 0
        tb = ['Coq 8.16.1 kernel (coqc full .vo build; vm_compute only inside Example/refuted witnesses)',
              'axioms reported by Print Assumptions under the property theorems: ' + (', '.join(axioms) if axioms else 'none (closed under the global context)'),
              'extraction (ExtrOcamlBasic only) + ocaml/*.ml driver for the executable model',
              'correspondence harness harness/%s.py, CPython/numpy/scipy/networkx/pandas as installed' % self.prop.lower()]
        used = {'C07': ['cdp'], 'C15': ['domain'], 'C05': ['budget'], 'C01': ['bp'], 'C08': ['bp'], 'C12': ['mp']}.get(self.prop, [])
        for nm in used:
            script, src, gen, _ = TRANSLATIONS[nm]
            okt, msg = getattr(self, 'translators', {}).get(nm, (None, ''))
            tb.append('translator translator/%s: coq/Gen/%s regenerated from %s on this run (%s)' % (script, gen, src, 'ok' if okt else ('FAILED: ' + str(msg)[:120]) if okt is not None else 'not run'))
        ev = dict(property_id=self.prop, tier=self.tier, seed=self.seed, level='proof',
                  coverage=dict(obligations=obligations, discharged=discharged,
                                checker_cmd='make -C /verif/coq && coqc -Q . PGM Props/%s.v (Print Assumptions under every theorem); grep gate for Admitted/admit/Axiom/Parameter' % self.prop,
                                trusted_base=tb,
                                theorems=[dict(name=n, axioms=('closed under the global context' if ax == [] else ax)) for n, ax in proof['theorems']],
                                lemma_files=proof['lemma_files'],
                                evaluations=self.evaluations, distinct_nontrivial=len(self.nontrivial), rule=rule,
                                samples=self.samples or ['(no case generated)'], input_distribution=self.dist,
                                known_findings=[k['id'] for k in self.known], notes=self.notes, **self.extra),
                  assumptions=assumptions or [], wall_s=round(time.time() - self.t0, 2), violations=nviol)
        json.dump(ev, open(os.path.join(VERIF, 'evidence', self.prop + '.json'), 'w'), indent=1, default=str)
        for l in out_lines:
            print(l)
        print('%s %s seed=%d: %d cases (%d distinct non-trivial), %d theorems + %d lemmas %s, %d violations, %d known findings, %.1fs'
              % (self.prop, self.tier, self.seed, self.evaluations, len(self.nontrivial), nthm, proof['lemmas'],
                 'checked' if proof_ok else 'BROKEN', nviol, len(self.known), time.time() - self.t0))
        return 1 if nviol else 0


def setup_repo_path():
    """Import the code under test from /repo's working tree."""
    for p in (os.path.join(VERIF, 'harness', 'stubs'), os.path.join(REPO, 'mechanisms'), REPO, os.path.join(REPO, 'src')):
        if p in sys.path:
            sys.path.remove(p)
        sys.path.insert(0, p)
    import warnings
    warnings.filterwarnings('ignore')


def exc_kind(e):
    return type(e).__name__
