"""C14 — Factor algebra is addressed by attribute name, never by position.
Correspondence: extracted Factor model on exact rationals (+ -inf) vs mbi.Factor / mbi.CliqueVector.
Values are integers/dyadics (float arithmetic exact => equality); log-space operations are fed log(q) of
rationals q and compared after exp() with 1e-9 relative tolerance.
Oracle (failing-input search only): explicit Python loops over joint assignments, by name."""
import itertools, json, math
from fractions import Fraction
import numpy as np
import common
from common import ltok, hexz, unhexz

NAMES = ['a', 'b', 'c', 'd', 'e', 'zz']
IDS = {n: i for i, n in enumerate(sorted(NAMES))}
NINF = None


def vtok(v):
    return 'N' if v is None else '%s %s' % (hexz(Fraction(v).numerator), hexz(Fraction(v).denominator))

def ftok(f):
    attrs, shape, vals = f
    return '%s %s' % (ltok(list(zip(attrs, shape)), lambda p: '%d %d' % (IDS[p[0]], p[1])), ltok(vals, vtok))

def parse_factor(s):
    # "[0:2 1:3] [b/1 N ...]"
    m = s.strip()
    d, v = m.split('] [')
    d = d.strip()[1:].split()
    dom = [(int(x.split(':')[0]), int(x.split(':')[1])) for x in d]
    vals = []
    for t in v.rstrip(']').split():
        if t == 'N':
            vals.append(None)
        else:
            a, b = t.split('/')
            vals.append(Fraction(unhexz(a), unhexz(b)))
    return dom, vals


def gen_factor(rng, names=None, kind='int', maxk=3, sizes=None):
    if names is None:
        k = rng.randint(0 if rng.random() < 0.05 else 1, maxk)
        names = rng.sample(NAMES, k)
    shape = [sizes[n] for n in names]
    n = 1
    for s in shape:
        n *= s
    vals = []
    for _ in range(n):
        if kind == 'int':
            vals.append(Fraction(rng.randint(-5, 9)))
        elif kind == 'intinf':
            vals.append(None if rng.random() < 0.25 else Fraction(rng.randint(-5, 9)))
        elif kind == 'div':
            vals.append(Fraction(rng.choice([-2, 0, 1, 2, 4, 8])))
        elif kind == 'pos':     # linear-space values whose log the code receives
            vals.append(Fraction(rng.choice([0, 1, 1, 2, 3, 5, 8, 13]), rng.choice([1, 2, 4, 8])))
        elif kind == 'distinct':
            vals.append(Fraction(len(vals) * 3 + 1))
    return (list(names), shape, vals)


def to_np(f, log=False):
    from mbi import Domain, Factor
    attrs, shape, vals = f
    if log:
        arr = np.array([(-np.inf if v == 0 else math.log(v)) for v in vals], dtype=float)
    else:
        arr = np.array([(-np.inf if v is None else float(v)) for v in vals], dtype=float)
    return Factor(Domain(attrs, shape), arr.reshape(shape) if shape else arr.reshape(()))


def from_np(F, unlog=False):
    attrs = list(F.domain.attrs)
    shape = list(F.domain.shape)
    vals = np.asarray(F.values, dtype=float).reshape(-1)
    return attrs, shape, [float(v) for v in vals]


def same(code, model_dom, model_vals, approx):
    attrs, shape, vals = code
    if [(IDS[a], s) for a, s in zip(attrs, shape)] != model_dom:
        return False
    if len(vals) != len(model_vals):
        return False
    for x, m in zip(vals, model_vals):
        if m is None:
            if approx:
                if not (x == 0.0):
                    return False
            elif not (x == -np.inf):
                return False
        elif approx:
            if not (abs(x - float(m)) <= 1e-9 * abs(float(m)) + 1e-12):
                return False
        else:
            if not (math.isfinite(x) and Fraction(x) == m):
                return False
    return True


# ---------------- by-name oracle (independent of the Coq model) ----------------
def val(f, x):
    attrs, shape, vals = f
    idx = 0
    for a, s in zip(attrs, shape):
        idx = idx * s + x[a]
    return vals[idx]

def tab(attrs, sizes, fn):
    shape = [sizes[a] for a in attrs]
    return (list(attrs), shape, [fn(dict(zip(attrs, c))) for c in itertools.product(*[range(s) for s in shape])])

def s_add(a, b): return None if a is None or b is None else a + b
def s_sub(a, b): return a if b is None else (None if a is None else a - b)
def s_mul(a, b): return None if a is None or b is None else a * b
def s_div(a, b):
    if b is None or b <= 0: return Fraction(0)
    return None if a is None else a / b
def s_max(a, b): return b if a is None else (a if b is None else max(a, b))
SOPS = {'add': s_add, 'sub': s_sub, 'mul': s_mul, 'div': s_div, 'max': s_max}

def oracle(case, sizes):
    k = case['kind']
    f = case['f']
    if k in ('bin', 'ibin'):
        g = case['g']
        attrs = f[0] + [a for a in g[0] if a not in f[0]] if k == 'bin' else f[0]
        return tab(attrs, sizes, lambda x: SOPS[case['op']](val(f, x), val(g, x)))
    if k == 'scalar':
        return (f[0], f[1], [SOPS[case['op']](v, case['c']) for v in f[2]])
    if k in ('agg', 'project'):
        keep = [a for a in f[0] if a not in case['attrs']] if k == 'agg' else list(case['attrs'])
        drop = [a for a in f[0] if a not in keep]
        unit = Fraction(0) if case['op'] == 'add' else None
        def fn(x):
            acc = unit
            for c in itertools.product(*[range(sizes[a]) for a in drop]):
                y = dict(x); y.update(zip(drop, c))
                acc = SOPS[case['op']](acc, val(f, y)) if case['op'] == 'add' else s_max(acc, val(f, y))
            return acc
        return tab(keep, sizes, fn)
    if k == 'condition':
        ev = case['ev']
        keep = [a for a in f[0] if a not in ev]
        return tab(keep, sizes, lambda x: val(f, {**x, **{a: v for a, v in ev.items() if a in f[0]}}))
    if k == 'expand':
        return tab(case['dom'], sizes, lambda x: val(f, x))
    if k == 'transpose':
        return tab(case['attrs'], sizes, lambda x: val(f, x))
    if k in ('id',):
        return f
    raise KeyError(k)


def run_cases(chk, n):
    from mbi import Domain, Factor, CliqueVector
    rng = chk.rng
    lines, codes, metas = [], [], []
    for _ in range(n):
        sizes = {a: rng.choice([1, 2, 2, 3, 3, 4]) for a in NAMES}
        kind = rng.choice(['bin', 'bin', 'bin', 'ibin', 'scalar', 'agg', 'agg', 'project', 'project', 'condition', 'expand', 'transpose',
                           'unary', 'total', 'cvec'])
        approx = False
        case = dict(kind=kind)
        try:
            if kind in ('bin', 'ibin'):
                op = rng.choice(['add', 'sub', 'mul', 'div', 'logaddexp'] if kind == 'bin' else ['add', 'mul'])
                vk = {'add': 'intinf', 'sub': 'intinf', 'mul': 'int', 'div': 'int', 'logaddexp': 'pos'}[op]
                f = gen_factor(rng, kind=vk, sizes=sizes)
                if kind == 'ibin' or op == 'div':
                    sub = [a for a in f[0] if rng.random() < 0.6]
                    rng.shuffle(sub)
                    g = gen_factor(rng, names=sub, kind=('div' if op == 'div' else vk), sizes=sizes)
                else:
                    g = gen_factor(rng, kind=('div' if op == 'div' else vk), sizes=sizes)
                    if rng.random() < 0.3:   # same attribute set, permuted
                        p = list(f[0]); rng.shuffle(p)
                        g = gen_factor(rng, names=p, kind=('div' if op == 'div' else vk), sizes=sizes)
                case.update(op=op, f=f, g=g)
                mop = 'add' if op == 'logaddexp' else op
                case['op'] = mop
                if op == 'div':
                    case['kind'] = 'ibin'
                line = 'f_%s %s %s %s' % (case['kind'], mop, ftok(f), ftok(g))
                if op == 'logaddexp':
                    approx = True
                    res = to_np(f, True).logaddexp(to_np(g, True)); res = Factor(res.domain, np.exp(res.values))
                else:
                    F, G = to_np(f), to_np(g)
                    if kind == 'bin':
                        res = {'add': lambda: F + G, 'sub': lambda: F - G, 'mul': lambda: F * G, 'div': lambda: F / G}[op]()
                    else:
                        F0 = F
                        if op == 'add': F += G
                        else: F *= G
                        res = F
                        assert res is F0
            elif kind == 'scalar':
                op = rng.choice(['add', 'sub', 'mul', 'div', 'radd', 'rmul'])
                f = gen_factor(rng, kind='intinf' if op in ('add', 'sub', 'radd') else 'int', sizes=sizes)
                c = Fraction(rng.choice([-2, 1, 2, 4, 3])) if op != 'div' else Fraction(rng.choice([2, 4, -2, 8]))
                mop = {'radd': 'add', 'rmul': 'mul'}.get(op, op)
                c0 = c
                if mop == 'div':
                    mop, c = 'mul', 1 / c
                case.update(op=mop, f=f, c=c)
                line = 'f_scalar %s %s %s' % (mop, ftok(f), vtok(c))
                F = to_np(f)
                res = {'add': lambda: F + float(c0), 'radd': lambda: float(c0) + F, 'sub': lambda: F - float(c0),
                       'mul': lambda: F * float(c0), 'rmul': lambda: float(c0) * F, 'div': lambda: F / float(c0)}[op]()
            elif kind in ('agg', 'project'):
                op = rng.choice(['sum', 'max', 'logsumexp'] if kind == 'agg' else ['sum', 'logsumexp'])
                f = gen_factor(rng, kind={'sum': 'intinf' if rng.random() < 0.3 else 'int', 'max': 'intinf', 'logsumexp': 'pos'}[op], sizes=sizes, maxk=4)
                sub = [a for a in f[0] if rng.random() < 0.5]
                rng.shuffle(sub)
                mop = 'max' if op == 'max' else 'add'
                case.update(op=mop, f=f, attrs=sub)
                line = 'f_%s %s %s %s' % (kind, mop, ftok(f), ltok([IDS[a] for a in sub]))
                F = to_np(f, op == 'logsumexp')
                if kind == 'agg':
                    res = getattr(F, op)(rng.choice([list, tuple])(sub))
                else:
                    res = F.project(rng.choice([list, tuple])(sub), agg=op)
                if op == 'logsumexp':
                    approx = True; res = Factor(res.domain, np.exp(res.values))
            elif kind == 'total':
                op = rng.choice(['sum', 'max', 'logsumexp'])
                f = gen_factor(rng, kind={'sum': 'int', 'max': 'intinf', 'logsumexp': 'pos'}[op], sizes=sizes)
                mop = 'max' if op == 'max' else 'add'
                case.update(kind='agg', op=mop, f=f, attrs=list(f[0]))
                line = 'f_agg %s %s %s' % (mop, ftok(f), ltok([IDS[a] for a in f[0]]))
                F = to_np(f, op == 'logsumexp')
                r = getattr(F, op)()
                if op == 'logsumexp':
                    approx = True; r = math.exp(r)
                res = Factor(Domain([], []), np.array(float(r)))
            elif kind == 'condition':
                f = gen_factor(rng, kind='distinct', sizes=sizes, maxk=4)
                ev = {a: rng.randrange(sizes[a]) for a in NAMES if rng.random() < 0.35}
                evl = list(ev.items()); rng.shuffle(evl); ev = dict(evl)
                case.update(f=f, ev=ev)
                line = 'f_condition %s %s' % (ftok(f), ltok(evl, lambda p: '%d %d' % (IDS[p[0]], p[1])))
                res = to_np(f).condition(ev)
            elif kind == 'expand':
                f = gen_factor(rng, kind='distinct', sizes=sizes)
                extra = [a for a in NAMES if a not in f[0] and rng.random() < 0.4]
                d = f[0] + extra; rng.shuffle(d)
                if rng.random() < 0.1 and f[0]:
                    d = [a for a in d if a != f[0][0]]     # not a superset: must be rejected
                case.update(f=f, dom=d)
                line = 'f_expand %s %s' % (ftok(f), ltok(d, lambda a: '%d %d' % (IDS[a], sizes[a])))
                res = to_np(f).expand(Domain(d, [sizes[a] for a in d]))
            elif kind == 'transpose':
                f = gen_factor(rng, kind='distinct', sizes=sizes, maxk=4)
                p = list(f[0]); rng.shuffle(p)
                if rng.random() < 0.1 and p:
                    p = p[1:]
                case.update(f=f, attrs=p)
                line = 'f_transpose %s %s' % (ftok(f), ltok([IDS[a] for a in p]))
                res = to_np(f).transpose(rng.choice([list, tuple])(p))
            elif kind == 'unary':
                op = rng.choice(['exp', 'log', 'copy', 'copy_out', 'exp_out', 'datavector'])
                f = gen_factor(rng, kind='pos', sizes=sizes)
                case.update(kind='id', f=f, op=op)
                line = 'f_scalar add %s 0 1' % ftok(f)
                if op in ('exp', 'exp_out'):
                    F = to_np(f, True)
                    res = F.exp() if op == 'exp' else F.exp(out=to_np(gen_factor(rng, names=f[0], kind='int', sizes=sizes)))
                    approx = True
                elif op == 'log':
                    res = to_np(f).log(); res = Factor(res.domain, np.exp(res.values)); approx = True
                elif op == 'copy':
                    F = to_np(f); res = F.copy(); assert res.values is not F.values
                elif op == 'copy_out':
                    out = to_np(gen_factor(rng, names=f[0], kind='int', sizes=sizes)); res = to_np(f).copy(out=out); assert res is out
                else:
                    F = to_np(f); res = Factor(F.domain, F.datavector())
                line = 'f_scalar add %s 0 1' % ftok(f)
            elif kind == 'cvec':
                op = rng.choice(['add', 'sub', 'mulc', 'combine', 'combine'])
                ncl = rng.randint(1, 3)
                cls = []
                while len(cls) < ncl:
                    c = tuple(rng.sample(NAMES, rng.randint(1, 3)))
                    if c not in cls: cls.append(c)
                v = [(cl, gen_factor(rng, names=list(cl), kind='int', sizes=sizes)) for cl in cls]
                if op == 'combine':
                    ocl = []
                    for _ in range(rng.randint(1, 3)):
                        base = rng.choice(cls) if rng.random() < 0.8 else tuple(rng.sample(NAMES, 2))
                        sub = [a for a in base if rng.random() < 0.7] or [base[0]]
                        rng.shuffle(sub)
                        if tuple(sub) not in ocl: ocl.append(tuple(sub))
                    w = [(cl, gen_factor(rng, names=list(cl), kind='intinf', sizes=sizes)) for cl in ocl]
                else:
                    wcl = list(cls); rng.shuffle(wcl)
                    w = [(cl, gen_factor(rng, names=list(rng.sample(cl, len(cl))) if False else list(cl), kind='int', sizes=sizes)) for cl in wcl]
                cvt = lambda vv: ltok(vv, lambda p: '%s %s' % (ltok([IDS[a] for a in p[0]]), ftok(p[1])))
                if op == 'mulc':
                    w2 = [(cl, (f[0], f[1], [Fraction(2) * x for x in f[2]])) for cl, f in v]
                    line = 'cv_bin add %s %s' % (cvt(v), cvt(w2))
                elif op == 'combine':
                    line = 'cv_combine add %s %s' % (cvt(v), cvt(w))
                else:
                    line = 'cv_bin %s %s %s' % (op, cvt(v), cvt(w))
                case.update(op=op, v=v, w=w)
                V = CliqueVector({cl: to_np(f) for cl, f in v}); W = CliqueVector({cl: to_np(f) for cl, f in w})
                if op == 'add': R = V + W
                elif op == 'sub': R = V - W
                elif op == 'mulc': R = 3 * V
                else:
                    V.combine(W); R = V
                res = [(cl, from_np(R[cl])) for cl in R]
                code = ('cvec', res)
            if kind != 'cvec':
                code = ('factor', from_np(res))
        except Exception as e:
            code = ('ERR', common.exc_kind(e))
            if 'line' not in locals():
                raise
        chk.count(case['kind'] + ('.' + str(case.get('op')) if case.get('op') else ''))
        lines.append(line); codes.append((code, approx)); metas.append(case)
        del line
    outs = common.run_model(lines)
    for line, (code, approx), out, case in zip(lines, codes, outs, metas):
        f = case.get('f')
        nontriv = (f is not None and len(f[0]) >= 2 and f[0] != sorted(f[0])) or case['kind'] == 'cvec'
        chk.case(line, nontriv, dict(case=jsonable(case), model=out[:160]) if chk.rng.random() < 0.004 else None)
        ok = False
        try:
            if out == 'ERR' or out.startswith('EXC'):
                ok = code[0] == 'ERR' and out == 'ERR'
            elif code[0] == 'factor':
                md, mv = parse_factor(out)
                ok = same(code[1], md, mv, approx)
            elif code[0] == 'cvec':
                parts = [p.strip() for p in out.split(' ; ')] if out.strip() else []
                ok = len(parts) == len(code[1])
                for p, (cl, fc) in zip(parts, code[1]):
                    clm, rest = p.split('] ', 1)
                    clm = [int(t) for t in clm.strip()[1:].split()]
                    md, mv = parse_factor(rest)
                    ok = ok and clm == [IDS[a] for a in cl] and same(fc, md, mv, False)
        except Exception as e:
            ok = False
        if not ok:
            # does the property itself fail on the code?  (by-name oracle)
            fails = True
            exp = None
            if code[0] == 'factor' and case['kind'] != 'cvec':
                try:
                    sizes = {}
                    for ff in (case.get('f'), case.get('g')):
                        if ff: sizes.update(dict(zip(ff[0], ff[1])))
                    if case['kind'] == 'expand':
                        sizes.update({a: s for a, s in zip(code[1][0], code[1][1])})
                    exp = oracle(case, sizes)
                    fails = not same(code[1], [(IDS[a], s) for a, s in zip(exp[0], exp[1])], exp[2], approx)
                except Exception:
                    fails = True
            chk.violation(dict(kind=case['kind'], op=str(case.get('op'))),
                          'Factor operation %s/%s is not the by-name pointwise operation' % (case['kind'], case.get('op')) if fails else
                          'code agrees with the by-name oracle but not with the model (%s)' % case['kind'],
                          dict(case=jsonable(case), code=jsonable(code), model=out, oracle=jsonable(exp)), found_input=fails)


def jsonable(o):
    if isinstance(o, Fraction):
        return str(o)
    if isinstance(o, dict):
        return {str(k): jsonable(v) for k, v in o.items()}
    if isinstance(o, (list, tuple)):
        return [jsonable(x) for x in o]
    if isinstance(o, float) and not math.isfinite(o):
        return str(o)
    return o


def main(chk):
    chk.prove()
    run_cases(chk, 1500 if chk.tier == 'quick' else 30000)
    return chk.finish(rule='random factors over ordered attribute subsets of 6 names (sizes 1-4, rank 0-4, arbitrary order, overlapping) x '
                      '{+,-,*,/ (factor and scalar), logaddexp, +=, *=, sum/max/logsumexp (subset or all), project(sum|logsumexp), condition, '
                      'expand, transpose, exp, log, copy, copy(out=), datavector, CliqueVector +,-,*c, combine}; integer/dyadic values (exact), '
                      '-inf entries for + - max sum; log-space ops fed log(q) and compared after exp with 1e-9 rel. Non-trivial = first operand '
                      'has >=2 attributes not in sorted order, or a CliqueVector case; distinct by case text.',
                      assumptions=['numpy reshape/moveaxis/broadcast_to/sum(axis)/indexing are modelled by name-addressed tabulation, tied by this correspondence',
                                   'scalar * and / go through nan_to_num in the code: only finite operands are generated for them'])


def replay(chk, rp):
    print(json.dumps(rp, indent=1)[:4000])
    return 0
