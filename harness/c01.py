"""C01 — exact inference returns the true marginals of the product distribution.
Correspondence: the extracted BP model (non-negative rationals, exact; the theorem bp_exact is about this very term)
vs GraphicalModel.belief_propagation on the tree the code built, over a RANDOM valid schedule, with log(q) potentials.
The model also evaluates the verified junction-tree conditions jt_okb on the code's tree.
Oracle (failing-input search): brute force over the explicit joint with Fractions."""
import itertools, json, math
from fractions import Fraction
import numpy as np
import common, pgmgen
from common import ltok, qtok, parse_qlist, parse_q


def build_case(chk, rng, tier, force_ring=False):
    from mbi import Domain, GraphicalModel, Factor, CliqueVector
    attrs, sizes, cliques, order, mode = pgmgen.gen_structure(rng, max_attrs=6,
                                                              max_cells=300 if tier == 'quick' else 1200, force_ring=force_ring)
    ids = pgmgen.ids_of(attrs)
    dom = Domain(attrs, sizes)
    np.random.seed(rng.randrange(2 ** 31))
    total = rng.choice([1.0, 10.0, 0.3, 1234.5])
    model = GraphicalModel(dom, [rng.choice([list, tuple])(c) for c in cliques], total, elimination_order=order)
    mcl = list(model.cliques)
    stream = rng.choice(['small', 'small', 'zeros', 'zeros', 'huge', 'unit', 'compensate', 'compensate'])
    cfg = dict(zip(attrs, sizes))
    pots = {}
    facs = {}
    for cl in mcl:
        pa = list(cl)
        if rng.random() < 0.4:
            rng.shuffle(pa)                      # potentials stored with a permuted internal attribute order
        n = 1
        for a in pa:
            n *= cfg[a]
        vals = pgmgen.gen_potential(rng, n, 'small' if stream == 'compensate' else stream)
        pots[cl] = (pa, vals)
        facs[cl] = Factor(dom.project(pa), np.array([pgmgen.flog(v) for v in vals]))
    if stream == 'compensate':
        # two neighbouring cliques carry huge offsets that cancel along their separator: theta_1 + f(b), theta_2 - f(b) with |f| far beyond the
        # range of exp(); the joint is moderate, every slice of every message has its own magnitude
        pairs = [(c1, c2) for c1 in mcl for c2 in model.neighbors[c1] if set(c1) & set(c2)]
        if pairs:
            c1, c2 = rng.choice(pairs)
            b = rng.choice(sorted(set(c1) & set(c2)))
            ks = [rng.choice([0, 1200, -1200, 600, -600]) for _ in range(cfg[b])]
            import itertools as _it2
            for cl, sign in ((c1, 1), (c2, -1)):
                pa, vals = pots[cl]
                new = [v * Fraction(2) ** (sign * ks[cell[pa.index(b)]]) for cell, v in zip(_it2.product(*[range(cfg[a]) for a in pa]), vals)]
                pots[cl] = (pa, new)
                facs[cl] = Factor(dom.project(pa), np.array([pgmgen.flog(v) for v in new]))
    folded = None
    if rng.random() < 0.35 and stream not in ('huge', 'compensate'):
        # a potential on a nested clique (preferably inside a separator, so that several maximal cliques contain it), folded into the
        # maximal-clique vector by the library's own CliqueVector.combine - as estimation does with structural zeros / warm starts.
        # The model receives the exact product folded into ONE containing clique: the joint is the product of all potentials, each once.
        seps = [tuple(a for a in c1 if a in c2) for c1 in mcl for c2 in mcl if c1 != c2 and set(c1) & set(c2)]
        base = rng.choice(seps) if seps and rng.random() < 0.7 else rng.choice(mcl)
        S = [a for a in base if rng.random() < 0.6] or [base[0]]
        rng.shuffle(S)
        nS = 1
        for a in S:
            nS *= cfg[a]
        evals = pgmgen.gen_potential(rng, nS, rng.choice(['small', 'zeros']))
        extra = Factor(dom.project(S), np.array([pgmgen.flog(v) for v in evals]).reshape([cfg[a] for a in S]))
        vec = CliqueVector({cl: facs[cl].copy() for cl in mcl})
        vec.combine(CliqueVector({tuple(S): extra}))
        facs = {cl: vec[cl] for cl in mcl}
        host = next(cl for cl in mcl if set(S) <= set(cl))
        pa, vals = pots[host]
        import itertools as _it
        new = []
        for cell, v in zip(_it.product(*[range(cfg[a]) for a in pa]), vals):
            sub = [cell[pa.index(a)] for a in S]
            k = 0
            for a, x in zip(S, sub):
                k = k * cfg[a] + x
            new.append(v * evals[k])
        pots[host] = (pa, new)
        folded = dict(clique=list(S), values=[str(v) for v in evals], contained_in=[''.join(cl) for cl in mcl if set(S) <= set(cl)])
    idx = {cl: i for i, cl in enumerate(mcl)}
    nbrs = {cl: sorted(model.neighbors[cl], key=lambda c: idx[c]) for cl in mcl}
    edges = [(i, j) for i in mcl for j in nbrs[i]]
    sched = pgmgen.random_schedule(rng, edges, nbrs)
    return dict(folded=folded, attrs=attrs, sizes=sizes, cliques=[list(c) for c in cliques], order=order, mode=mode, total=total, stream=stream,
                model=model, mcl=mcl, pots=pots, facs=facs, nbrs=nbrs, sched=sched, ids=ids, code_sched=list(model.message_order))


def model_line(case, sched):
    ids = case['ids']; mcl = case['mcl']
    idx = {cl: i for i, cl in enumerate(mcl)}
    cfg = dict(zip(case['attrs'], case['sizes']))
    parts = [pgmgen.dom_tok(case['attrs'], case['sizes'], ids), str(len(mcl))]
    for cl in mcl:
        pa, vals = case['pots'][cl]
        parts.append(ltok([ids[a] for a in pa]))
        parts.append(ltok([idx[c] for c in case['nbrs'][cl]]))
        parts.append(ltok([(a, cfg[a]) for a in pa], lambda p: '%d %d' % (ids[p[0]], p[1])))
        parts.append(ltok(vals, qtok))
    parts.append(ltok(sched, lambda e: '%d %d' % (idx[e[0]], idx[e[1]])))
    parts.append(qtok(Fraction(case['total'])))
    parts.append('0')
    return 'bp ' + ' '.join(parts)


def close(x, q, scale):
    q = float(q) if abs(q) < Fraction(10) ** 300 else float('inf')
    return abs(x - q) <= 1e-9 * abs(q) + 1e-12 * scale


def run_code(case, sched):
    from mbi import CliqueVector
    m = case['model']
    m.message_order = list(sched)
    pot = CliqueVector({cl: case['facs'][cl].copy() for cl in case['mcl']})
    with np.errstate(all='ignore'):
        logZ = m.belief_propagation(pot, logZ=True)
        marg = m.belief_propagation(pot)
    out = {}
    for cl in case['mcl']:
        f = marg[cl]
        pa = case['pots'][cl][0]
        out[cl] = (list(f.domain.attrs), [float(v) for v in np.asarray(f.values, dtype=float).reshape(-1)])
    return float(logZ), out


def run_history(case, sched, rng):
    """A second pair of calls on the SAME model with the SAME parameter object after an in-place update of one clique potential:
    the result must be the marginals of the updated parameters (nothing may be remembered from the first call)."""
    from mbi import CliqueVector, Factor
    m = case['model']
    m.message_order = list(sched)
    pot = CliqueVector({cl: case['facs'][cl].copy() for cl in case['mcl']})
    with np.errstate(all='ignore'):
        m.belief_propagation(pot, logZ=True); m.belief_propagation(pot)      # the call right before the update has the same arguments as the one right after it
        cl0 = rng.choice(case['mcl'])
        pa, vals = case['pots'][cl0]
        extra = [Fraction(rng.randint(1, 9), rng.randint(1, 9)) for _ in vals]
        f0 = pot[cl0]
        upd = Factor(f0.domain.project(pa), np.array([pgmgen.flog(e) for e in extra]).reshape([f0.domain[a] for a in pa]))
        pot[cl0] += upd
        marg = m.belief_propagation(pot)
        logZ = m.belief_propagation(pot, logZ=True)
    case2 = dict(case); case2['pots'] = dict(case['pots']); case2['pots'][cl0] = (pa, [v * e for v, e in zip(vals, extra)])
    out = {}
    for cl in case['mcl']:
        f = marg[cl]
        out[cl] = (list(f.domain.attrs), [float(v) for v in np.asarray(f.values, dtype=float).reshape(-1)])
    return case2, (float(logZ), out)


def jsonable(case, sched=None):
    return dict(attrs=case['attrs'], sizes=case['sizes'], cliques=case['cliques'], elimination_order=case['order'], total=case['total'], nested_potential_folded_by_combine=case.get('folded'),
                potential_stream=case['stream'], model_cliques=[list(c) for c in case['mcl']],
                potentials={''.join(cl): [case['pots'][cl][0], [str(v) if abs(v) < 10 ** 12 and (v == 0 or abs(v) > Fraction(1, 10 ** 12)) else '2^%d-ish' % round(math.log2(float(abs(v.numerator)) / 1.0) - math.log2(v.denominator) if False else (v.numerator.bit_length() - v.denominator.bit_length())) for v in case['pots'][cl][1]]] for cl in case['mcl']},
                tree_neighbours={''.join(cl): [''.join(c) for c in case['nbrs'][cl]] for cl in case['mcl']},
                schedule=[[''.join(e[0]), ''.join(e[1])] for e in (sched or case['sched'])])


def check_case(chk, case, sched, tag):
    """runs the code on (case, schedule); the model line is evaluated later in one batch."""
    line = model_line(case, sched)
    try:
        logZ, marg = run_code(case, sched)
        err = None
    except Exception as e:
        err = common.exc_kind(e) + ': ' + str(e)[:100]
    return line, (None if err else (logZ, marg)), err


def judge(chk, case, sched, code, err, out, tag):
    attrs, sizes, total = case['attrs'], case['sizes'], Fraction(case['total'])
    jt = out.split(' ', 1)[0]
    joint = pgmgen.brute_joint(attrs, sizes, [case['pots'][cl] for cl in case['mcl']])
    Zb = sum(joint.values())
    if Zb == 0:
        chk.count('skipped.Z=0')
        return
    bad = None
    if err:
        bad = ('exception in belief_propagation: ' + err, True)
    else:
        logZ, marg = code
        # model vs code
        toks = out.split(' ', 2)
        if out.startswith('EXC') or len(toks) < 3:
            chk.violation(dict(kind='model-error'), 'model runner failed: ' + out[:100], jsonable(case, sched), found_input=False)
            return
        zq = parse_q(toks[1])
        tabs = [parse_qlist('[' + t.strip().strip('[]') + ']') for t in toks[2].replace('] [', ']|[').split('|')]
        agree = abs(logZ - (math.log(zq.numerator) - math.log(zq.denominator))) <= 1e-9 * max(1.0, abs(logZ)) if zq > 0 else False
        for cl, tab in zip(case['mcl'], tabs):
            cattrs, cvals = marg[cl]
            if cattrs != case['pots'][cl][0] or len(cvals) != len(tab) or not all(close(x, q, float(total)) for x, q in zip(cvals, tab)):
                agree = False
        if jt != 'jt_ok':
            agree = False
        if not agree:
            # oracle: does the property fail on the code?
            fails = abs(logZ - (math.log(Zb.numerator) - math.log(Zb.denominator))) > 1e-9 * max(1.0, abs(logZ))
            worst = None
            for cl in case['mcl']:
                cattrs, cvals = marg[cl]
                exp, _ = pgmgen.brute_marginal(attrs, sizes, joint, cattrs, total)
                for x, q in zip(cvals, exp):
                    if not close(x, q, float(total)):
                        fails = True
                        worst = dict(clique=''.join(cl), code=x, exact=str(q) if q.denominator < 10 ** 9 else float(q))
                if len(cvals) != len(exp):
                    fails = True
            bad = ('belief_propagation marginals differ from the brute-force marginals of the product distribution (%s)' % tag if fails else
                   ('junction-tree conditions jt_okb are false on the tree the code built' if jt != 'jt_ok' else
                    'code agrees with the brute-force oracle but not with the model'), fails, worst)
    if bad:
        chk.violation(dict(kind='bp', what=bad[0][:60], stream=case['stream']), bad[0],
                      dict(jsonable(case, sched), jt_check=jt, detail=(bad[2] if len(bad) > 2 else None), model_output=out[:300]), found_input=bad[1])


def main(chk):
    chk.prove()
    tok, tmsg = getattr(chk, 'translators', {}).get('bp', (True, ''))
    if not tok:
        chk.violation(dict(kind='translator'), 'GraphicalModel.belief_propagation left the translated subset: C01_src_exact is not re-checked against the current source',
                      dict(broken='Gen/BP_gen.v (translator/py2gallina_bp.py on src/mbi/graphical_model.py); Props/C01.v C01_src_*', translator_message=tmsg), found_input=False)
    rng = chk.rng
    n = 200 if chk.tier == 'quick' else 2500
    pending = []
    for it in range(n):
        case = build_case(chk, rng, chk.tier, force_ring=(it % 10 == 7))      # every tenth case: a chordless ring of >= 5 cliques
        if case['sched'] is None:
            chk.violation(dict(kind='no-schedule'), 'no dependency-respecting schedule exists for the tree the code built', jsonable(case, case['code_sched']), found_input=True)
            continue
        for tag, sched in (('random linear extension', case['sched']), ('code schedule', case['code_sched'])):
            if tag == 'code schedule' and it % 3:
                continue
            line, code, err = check_case(chk, case, sched, tag)
            nontriv = (len(case['mcl']) >= 3 or any(len(c) >= 3 for c in case['mcl'])) and (case['attrs'] != sorted(case['attrs']) or case['stream'] in ('zeros', 'huge', 'compensate'))
            chk.case(line, nontriv, jsonable(case, sched) if len(chk.samples) < 2 else None)
            chk.count('stream.' + case['stream']); chk.count('order.' + case['mode']); chk.count('ncliques=%d' % len(case['mcl'])); chk.count('schedule.' + tag.split()[0])
            pending.append((case, sched, code, err, line, tag))
        if it % 3 == 1 and case['stream'] in ('small', 'zeros', 'unit'):
            try:
                case2, code2 = run_history(case, case['sched'], rng)
                chk.count('history.in-place-update'); chk.case(model_line(case2, case['sched']) + ' history', True)
                pending.append((case2, case['sched'], code2, None, model_line(case2, case['sched']), 'second call after an in-place update of the same parameter object'))
            except Exception as e:
                chk.violation(dict(kind='bp', what='exception after in-place update'), 'belief_propagation raised %s after an in-place update of its parameter object' % common.exc_kind(e), jsonable(case, case['sched']), found_input=True)
    outs = common.run_model([p[4] for p in pending], timeout=2400)
    # the definition GENERATED from GraphicalModel.belief_propagation by translator/py2gallina_bp.py, on the same cases
    # (the 2^+-1200 stream is left to the hand model: big-rational arithmetic dominates; the logZ branch is exercised on every third case)
    gsel = [k for k, p in enumerate(pending) if p[0]['stream'] not in ('huge', 'compensate') and (chk.tier == 'quick' or k % 4 == 0)]
    glines = ['bp_src' + pending[k][4][2:].rsplit(' ', 1)[0] + (' 1' if k % 3 == 0 else ' 0') for k in gsel]
    gmap = dict(zip(gsel, common.run_gen(glines, timeout=2400)))
    for k, ((case, sched, code, err, line, tag), out) in enumerate(zip(pending, outs)):
        judge(chk, case, sched, code, err, out, tag)
        if k not in gmap:
            continue
        gout = gmap[k]
        chk.count('generated-bp')
        hand = out.split(' ', 1)[1] if ' ' in out and not out.startswith('EXC') else out
        if gout.startswith('- ') and ' ' in hand:
            hand = '- ' + hand.split(' ', 1)[1]
        if gout != hand:
            chk.violation(dict(kind='translator-validation', what='bp'), 'the definition generated from belief_propagation disagrees with the hand-written model it is proved equal to (or could not be run)',
                          dict(jsonable(case, sched), generated=gout[:300], model=hand[:300], broken='translator validation: translator/py2gallina_bp.py <-> src/mbi/graphical_model.py'), found_input=False)
        # hypothesis sep_ok of C01_src_exact: self.sep_axes[(i,j)] lists exactly the attributes shared by the two cliques
        m = case['model']
        for (i, j) in sched:
            sa = m.sep_axes.get((i, j))
            if sa is None or set(sa) != set(i) & set(j) or len(sa) != len(set(sa)):
                chk.violation(dict(kind='sep-axes'), 'sep_axes[(%s,%s)] = %s is not the set of shared attributes' % (''.join(i), ''.join(j), sa), jsonable(case, sched), found_input=True)
                break
    return chk.finish(rule='random domains (2-6 attributes in arbitrary order, sizes 1-4), 1-6 input cliques (cyclic, disconnected, nested, duplicated, any attribute order), '
                      'elimination order in {None, random permutation, int k}, totals {1,10,0.3,1234.5}, potentials on the maximal cliques from four streams '
                      '(small rationals / 40% zeros=-inf / 2^+-1200 magnitudes / unit) with permuted internal attribute order; message_order replaced by a random linear extension '
                      'of the dependency order (and the code\'s own schedule every third case). Compared: every clique marginal entry and logZ (1e-9 rel + 1e-12*total), plus the '
                      'verified junction-tree/schedule conditions jt_okb evaluated on the code\'s tree. Non-trivial = (>=3 tree nodes or a 3-attribute clique) and (non-sorted attribute order or zeros/huge stream).',
                      assumptions=['float64 log-space arithmetic of the code vs exact non-negative rationals of the model: compared at 1e-9 relative',
                                   'the junction tree itself comes from the code (networkx MST); its validity is checked per case by the verified checker jt_okb (C12 covers the construction)'])


def replay(chk, rp):
    print(json.dumps(rp, indent=1)[:4000])
    return 0
