"""C03 — estimation attains the global optimum over all distributions.
Theorem (Props/C03.v): the Frank-Wolfe gap  <g, Phat> - N * min_cell g  bounds loss(Phat) - min_P loss(P) over ALL non-negative
tables with the same total (g = gradient of the objective w.r.t. the full table).  Per run: estimate with each solver, take the
table the model answers from (datavector), evaluate objective and gradient INDEPENDENTLY of the estimator (numpy), and require
  * loss from the marginal answers == loss of that table (never below the optimum: the answers come from a real table),
  * gap <= tol * max(1, loss) (re-run once with 4x iterations before alarming),  * loss <= loss(uniform start).
A float-side evaluation of the proved certificate; the loss formula itself is tied to the code by C04's correspondence."""
import itertools, json, math
import numpy as np
import common, infgen

TOL = {'MD': 2e-2, 'RDA': 5e-2, 'IG': 5e-2}
ITERS = {'MD': 1000, 'RDA': 2000, 'IG': 2000}


def table_marginal(P, attrs, proj):
    ax = tuple(i for i, a in enumerate(attrs) if a not in proj)
    marg = P.sum(axis=ax) if ax else P
    kept = [a for a in attrs if a in proj]
    return np.transpose(marg, [kept.index(a) for a in proj]).reshape(-1)


def evaluate(prob, model):
    attrs = prob['attrs']
    with np.errstate(all='ignore'):
        P = np.asarray(model.datavector(flatten=False), dtype=float)
        L_marg = infgen.loss_of_answers(prob, lambda pr: model.project(pr).datavector())
    L_tab = infgen.loss_of_answers(prob, lambda pr: table_marginal(P, attrs, pr))
    g = infgen.full_table_gradient(prob, P)
    gap = float((g * P).sum() - P.sum() * g.min())
    U = np.full(prob['sizes'], float(P.sum()) / np.prod(prob['sizes']))
    L_uni = infgen.loss_of_answers(prob, lambda pr: table_marginal(U, attrs, pr))
    return P, L_marg, L_tab, gap, L_uni


def stack(prob):
    """the objective as 1/2 |A P - b|^2 over the flattened full table P (independent of the estimator)."""
    attrs, sizes = prob['attrs'], prob['sizes']
    cells = list(itertools.product(*[range(s) for s in sizes]))
    rows, b = [], []
    for m in prob['ms']:
        pc = list(itertools.product(*[range(sizes[attrs.index(a)]) for a in m['proj']]))
        pidx = {c: i for i, c in enumerate(pc)}
        pos = [attrs.index(a) for a in m['proj']]
        Pm = np.zeros((len(pc), len(cells)))
        for j, c in enumerate(cells):
            Pm[pidx[tuple(c[p] for p in pos)], j] = 1
        rows.append(m['Q'] @ Pm / m['sigma']); b.append(np.asarray(m['y'], dtype=float) / m['sigma'])
    return np.vstack(rows), np.concatenate(b)


def reference(A, b, N):
    """an independent near-optimal table: non-negative least squares with the total as a heavily weighted row."""
    from scipy.optimize import nnls
    w = 1e3 * max(1.0, float(np.abs(A).max()))
    P, _ = nnls(np.vstack([A, w * np.ones((1, A.shape[1]))]), np.concatenate([b, [w * N]]), maxiter=50000)
    if P.sum() > 0:
        P = P * N / P.sum()
    return P


def main(chk):
    from mbi import Domain, FactoredInference
    chk.prove()
    rng = chk.rng
    n = 6 if chk.tier == 'quick' else 100
    TOLR = 2e-2
    # structural pre-pass (cheap): chordless rings and random structures, few iterations - the answers must be the marginals of ONE valid table
    for it in range(16 if chk.tier == 'quick' else 200):
        prob = infgen.gen_problem(rng, max_attrs=5, max_cells=80, force_ring=(it % 4 != 3))
        engine = ['MD', 'RDA', 'IG'][it % 3]
        info = dict(infgen.describe(prob), engine=engine, total='known', stage='structural pre-pass (60 iterations)')
        try:
            with infgen.quiet(), np.errstate(all='ignore'):
                model = FactoredInference(Domain(prob['attrs'], prob['sizes']), iters=60).estimate(infgen.measurements(prob), total=float(prob['N']), engine=engine)
            P, L_marg, L_tab, gap, L_uni = evaluate(prob, model)
        except Exception as e:
            chk.violation(dict(kind='exception', engine=engine, what=common.exc_kind(e)), 'estimate(%s) raised %s: %s' % (engine, common.exc_kind(e), str(e)[:80]), info, found_input=True)
            continue
        chk.case(('pre', it, engine), True); chk.count('prepass.' + engine)
        total = float(model.total)
        if not np.all(np.isfinite(P)) or P.min() < -1e-9 * total or abs(P.sum() - total) > 1e-6 * max(1.0, total):
            chk.violation(dict(kind='optimum', engine=engine), '%s: the table the model answers from is not a non-negative table with the model total' % engine, info, found_input=True)
        elif abs(L_marg - L_tab) > 1e-6 * max(1.0, L_tab):
            chk.violation(dict(kind='optimum', engine=engine), '%s: loss computed from the marginal answers (%.6g) differs from the loss of the model\'s own table (%.6g): the answers are not the marginals of one table (reported fit can lie below the optimum)' % (engine, L_marg, L_tab),
                          dict(info, loss_from_answers=L_marg, loss_of_table=L_tab), found_input=True)
    for it in range(n):
        prob = infgen.gen_problem(rng, max_attrs=5, max_cells=80, force_ring=(it % 4 == 1))     # every 4th problem: a chordless 5-ring of pairwise measurements
        # well-conditioned stream (the property is about the optimum, not the speed on ill-conditioned queries): 0/1 queries, noise >= 0.5
        for m in prob['ms']:
            if m['kind'] in ('dense', 'wide'):
                p = m['Q'].shape[1]
                m['Q'] = np.tril(np.ones((p, p))) if rng.random() < 0.5 else np.eye(p)
                m['kind'] = 'prefix/identity'
            m['sigma'] = max(m['sigma'], 0.5)
            m['y'] = m['Q'] @ (m['mv'] * min(1.0, 200.0 / max(1.0, float(np.sum(m['mv']))))) + np.array([rng.gauss(0, m['sigma']) for _ in range(m['Q'].shape[0])])
        prob['N'] = min(prob['N'], 200)
        known = rng.random() < 0.6
        A, b = stack(prob)
        results = {}
        def run_engine(engine, mult, info):
            with infgen.quiet(), np.errstate(all='ignore'):
                eng = FactoredInference(Domain(prob['attrs'], prob['sizes']), iters=ITERS[engine] * mult)
                if len(prob['ms']) >= 1 and it % 2 == 0:
                    # select-measure-estimate style use: an earlier estimate on the same engine with older, different answers
                    eng.iters = 20
                    older = [(Q0, 2.0 * y0 + 10.0 * s0, s0, p0) for Q0, y0, s0, p0 in infgen.measurements(prob)]
                    eng.estimate(older if it % 4 == 0 else older[:1], total=(float(prob['N']) if known else None), engine=engine)
                    eng.iters = ITERS[engine] * mult
                    info['history'] = 'earlier estimate call on the same engine with older, different answers for the same projections'
                return eng.estimate(infgen.measurements(prob), total=(float(prob['N']) if known else None), engine=engine)
        for engine in ('MD', 'RDA', 'IG'):
            info = dict(infgen.describe(prob), engine=engine, total=('known' if known else 'estimated'))
            chk.count('engine.' + engine); chk.count('total.' + info['total'])
            try:
                model = run_engine(engine, 1, info)
                results[engine] = (model, evaluate(prob, model), info, ITERS[engine])
            except Exception as e:
                chk.violation(dict(kind='exception', engine=engine, what=common.exc_kind(e)), 'estimate(%s) raised %s: %s' % (engine, common.exc_kind(e), str(e)[:80]), info, found_input=True)
        if not results:
            continue
        total = float(next(iter(results.values()))[0].total)
        Pref = reference(A, b, total)
        L_nnls = 0.5 * float(((A @ Pref - b) ** 2).sum())
        gref = A.T @ (A @ Pref - b)
        gap_ref = float(gref @ Pref - total * gref.min())
        for engine in list(results):
            model, (P, L_marg, L_tab, gap, L_uni), info, iters = results[engine]
            L_best = min([L_nnls] + [r[1][2] for e2, r in results.items() if e2 != engine])
            if L_tab > L_best + TOLR * max(1.0, L_best):
                # give the solver 4x the iterations once before alarming
                try:
                    model = run_engine(engine, 4, info)
                    P, L_marg, L_tab, gap, L_uni = evaluate(prob, model); iters = 4 * ITERS[engine]
                except Exception:
                    pass
            chk.case((it, engine), len(prob['ms']) >= 2, dict(info, loss=L_tab, reference_loss=L_nnls, certified_lower_bound=L_nnls - gap_ref, loss_uniform=L_uni, iterations=iters) if len(chk.samples) < 3 else None)
            info.update(loss_from_answers=L_marg, loss_of_table=L_tab, reference_loss=L_nnls, best_other_loss=L_best, certified_lower_bound_of_optimum=L_nnls - gap_ref,
                        fw_gap_of_model=gap, loss_uniform=L_uni, iterations=iters, model_total=float(model.total))
            bad = None
            if not np.all(np.isfinite(P)) or P.min() < -1e-9 * total or abs(P.sum() - float(model.total)) > 1e-6 * max(1.0, total):
                bad = 'the table the model answers from is not a non-negative table with the model total'
            elif abs(L_marg - L_tab) > 1e-6 * max(1.0, L_tab):
                bad = 'loss computed from the marginal answers (%.6g) differs from the loss of the model\'s own table (%.6g): the answers are not the marginals of one table, so the reported fit can lie below the optimum' % (L_marg, L_tab)
            elif L_tab > L_best + TOLR * max(1.0, L_best):
                bad = 'loss %.6g is above the minimum achievable: a non-negative table with the same total reaches %.6g (after %d iterations)' % (L_tab, L_best, iters)
            elif L_tab > L_uni * (1 + 1e-9) + 1e-9:
                bad = 'fit %.6g is worse than the uniform start %.6g' % (L_tab, L_uni)
            if bad:
                chk.violation(dict(kind='optimum', engine=engine), '%s: %s' % (engine, bad), info, found_input=True)
    return chk.finish(rule='random problems (2-4 attributes, <= 80 cells, 1-5 measurements incl. overlapping / nested / permuted / cyclic projections; identity / prefix queries as dense/sparse/operator/None, '
                      'noise scales 0.5-10, N <= 200, known or estimated total) x solvers MD (%d it), RDA, IG (%d it; x4 once before alarming). Per model: the table it answers from is a valid table; loss(answers) = '
                      'loss(table); loss <= min(loss of an independent NNLS table, loss of the other solvers\' tables) + 2e-2*max(1,.); loss <= loss(uniform). The Frank-Wolfe gap of the reference (proved certificate) is '
                      'recorded as the certified lower bound of the optimum. Non-trivial = >= 2 measurements.' % (ITERS['MD'], ITERS['RDA']),
                      assumptions=['objective and reference are evaluated in float64 (numpy/scipy nnls), independently of the estimator; the loss formula is tied to the code by C04',
                                   'ill-conditioned (random dense) queries and noise < 0.5 need more iterations than the check runs and are outside the generated stream',
                                   'convergence of MD/RDA/IG is observed, not proved (partial)'])


def replay(chk, rp):
    print(json.dumps(rp, indent=1)[:4000])
    return 0
