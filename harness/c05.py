"""C05 — mechanisms never spend more privacy than the (epsilon, delta) budget.
Theorems (Props/C05.v): the budget skeletons (Model/Ledger.v) of MST, MWEM+PGM (Gaussian), Adaptive Grid spend exactly rho; AIM stays
<= rho for every annealing sequence when 0.9 d < rounds (and overspends otherwise).
Per run (also the failing-input search): each mechanism is run on a dataset D and on a neighbour D' forced to observe the same released
values and selections (harness/dprec.py); every event is charged by the ACTUAL change of the operand (Gaussian: |d|_2^2/(2 s^2); Laplace:
|d|_1/b) or of the selection probabilities (range of the log-ratio: r^2/8 under zCDP, max |log ratio| under pure DP) and the sum must not
exceed the budget.  Correspondence: the sequence of noise scales of the run vs the float instance of the skeleton."""
import importlib, json, math
import numpy as np
import common, dprec


def rho_of(eps, delta):
    return importlib.import_module('cdp2adp').cdp_rho(eps, delta)


def charge(rec1, rec2, pure):
    costs, detail = [], []
    for i, (e1, e2) in enumerate(zip(rec1.events, rec2.events)):
        if e1['kind'] != e2['kind']:
            return None, 'event %d differs in kind (%s vs %s)' % (i, e1['kind'], e2['kind'])
        if e1['kind'] == 'select':
            p1, p2 = e1['p'], e2['p']
            if len(p1) != len(p2):
                return None, 'event %d: candidate sets differ (%d vs %d)' % (i, len(p1), len(p2))
            with np.errstate(all='ignore'):
                lr = np.log(p1) - np.log(p2)
            lr = lr[np.isfinite(lr)] if np.any(np.isfinite(lr)) else np.array([0.0])
            if np.any((p1 == 0) != (p2 == 0)):
                c = float('inf')
            else:
                c = float(np.max(np.abs(lr))) if pure else float((lr.max() - lr.min()) ** 2 / 8)
            costs.append(c); detail.append(('select', c))
        else:
            if e1['operand'] is None or e2['operand'] is None:
                return None, 'event %d: a noise draw was not added to a statistic' % i
            if e1['operand'].shape != e2['operand'].shape:
                return None, 'event %d: released vectors differ in size' % i
            d = e1['operand'] - e2['operand']
            s = min(e1['scale'], e2['scale'])
            if e1['kind'] == 'normal':
                c = float(d @ d) / (2 * s * s) if not pure else (0.0 if not d.any() else float('inf'))
            else:
                c = float(np.abs(d).sum()) / s if pure else float('inf') if d.any() else 0.0
            if not (s > 0) or not math.isfinite(s):
                c = float('inf') if d.any() else 0.0
            costs.append(c); detail.append((e1['kind'], c))
    return costs, detail


def skeleton_line(name, params, rec, rho, d_attrs):
    ev = rec.events
    kinds = [e['kind'] for e in ev]
    if name == 'mst':
        k1 = next((i for i, k in enumerate(kinds) if k == 'select'), len(kinds))
        rm1 = sum(1 for k in kinds if k == 'select')
        k2 = len(kinds) - k1 - rm1
        return 'mst_events %s %d %d %d' % (float(rho).hex(), k1, rm1, k2)
    if name == 'mwem' and params['noise'] != 'laplace':
        return 'mwem_events %s %s %d %d 1' % (float(rho).hex(), (0.9).hex(), params['rounds'], 1 if params['bounded'] else 0)
    if name == 'mwem':
        return 'mwem_lap_events %s %s %d %d' % (float(rho).hex(), (0.9).hex(), params['rounds'], 1 if params['bounded'] else 0)     # rho = epsilon here (pure accounting)
    if name == 'adagrid':
        n1 = next((i for i, k in enumerate(kinds) if k == 'select'), len(kinds))
        rm1 = sum(1 for k in kinds if k == 'select')
        n3 = len(kinds) - n1 - rm1
        sp = params.get('split') or [1, 1, 1]
        r1, r2, r3 = [float(rho) * float(x) / float(sum(sp)) for x in sp]      # fractions of the budget: the split normalised to sum one
        return 'adagrid_events %s %s %s %d %d %d' % (r1.hex(), r2.hex(), r3.hex(), n1, rm1, n3)
    if name == 'aim':
        rounds = params.get('rounds') or 16 * d_attrs
        d = next((i for i, k in enumerate(kinds) if k == 'select'), len(kinds))
        sig = [e['scale'] for e in ev[d:] if e['kind'] == 'normal']
        dec = [1 if (i + 1 < len(sig) and abs(sig[i + 1] - sig[i] / 2) <= 1e-12 * sig[i]) else 0 for i in range(len(sig))]
        alts = []
        for last_dec in (0, 1):
            dd = list(dec)
            if len(dd) >= 2:
                dd[-2] = last_dec            # the annealing decision taken just before the terminating round is not observable from the scales
            alts.append('aim_events %s %d %d %d %s' % (float(rho).hex(), rounds, d, len(dd), ' '.join(map(str, dd))))
        return alts
    return None


def main(chk):
    chk.prove()
    tok, tmsg = getattr(chk, 'translators', {}).get('budget', (True, ''))
    if not tok:
        chk.violation(dict(kind='translator'), 'the budget arithmetic of mechanisms/*.py left the translated subset: the ledger theorems about the generated formulas are not re-checked against the current source',
                      dict(broken='Gen/Budget_gen.v (translator/py2gallina_budget.py on mechanisms/{aim,mst,mwem+pgm,adaptive_grid}.py); Props/C05.v C05_src_*', translator_message=tmsg), found_input=False)
    rng = chk.rng
    plan = []
    reps = 4 if chk.tier == 'quick' else 30
    for r in range(reps):
        for name in ('mst', 'aim', 'mwem', 'mwem', 'adagrid'):
            plan.append((name, None))
    # corpus: recorded inputs of the known findings are re-run first
    for f in chk.findings:
        if f.get('corpus'):
            plan.insert(0, ('corpus', json.load(open(common.VERIF + '/' + f['corpus']))))
    lines, pend = [], []
    for name, corpus in plan:
        if name == 'corpus':
            name, params = corpus['mechanism'], corpus['params']
            data, names, sizes = dprec.make_data(rng)
            while len(names) != corpus['attributes']:
                data, names, sizes = dprec.make_data(rng)
            import itertools
            params = dict(params, workload=[tuple(c) for c in itertools.combinations(names, 2)])
        else:
            data, names, sizes = dprec.make_data(rng, with_size1=(rng.random() < 0.15))
            directed_targets = (name == 'adagrid' and len(pend) % 2 == 0)
            while directed_targets and len(names) < 3:
                data, names, sizes = dprec.make_data(rng)
            params = dprec.gen_params(rng, name, names)
            if name == 'mwem':
                # every combination of noise kind (incl. the capitalised spelling) and adjacency is covered in turn, not left to chance
                combos = [('laplace', True), ('gaussian', True), ('laplace', False), ('gaussian', False), ('Laplace', True), ('gaussian', True), ('laplace', True), ('gaussian', False)]
                params['noise'], params['bounded'] = combos[chk.dist.get('mechanism.mwem', 0) % len(combos)]
            if directed_targets:
                params['targets'] = [names[-1]]            # with targets step 1 measures a downward closure that is larger than the list it starts from
                if chk.dist.get('adagrid.targets', 0) % 2 == 0:
                    params['split'] = None                 # default split: no step is so cheap that an uncharged (zero actual change) selection could hide an overspend elsewhere
                chk.count('adagrid.targets')
        info = dict(mechanism=name, params={k: (v if not isinstance(v, list) else [(list(x) if isinstance(x, (list, tuple)) else x) for x in v]) for k, v in params.items()}, attrs=names, sizes=sizes, records=int(data.df.shape[0]))
        res = dprec.pair_of_runs(rng, name, params, data, seed=rng.randrange(2 ** 31))
        info['neighbour'] = res['neighbour']
        chk.count('mechanism.' + name); chk.count('adjacency.' + ('replace' if res['bounded'] else 'add/remove'))
        chk.case((name, json.dumps(info, default=str)), True, dict(info, events=dprec.describe_events(res['rec1'], 12)) if len(chk.samples) < 3 else None)
        if 'error1' in res or 'error2' in res:
            chk.violation(dict(kind='exception', mechanism=name, what=(res.get('error1') or res.get('error2'))[:40]), '%s raised %s' % (name, res.get('error1') or res.get('error2')), info, found_input=True)
            continue
        pure = (name == 'mwem' and params['noise'] == 'laplace')
        budget = params['epsilon'] if pure else rho_of(params['epsilon'], params['delta'])
        info['budget'] = budget; info['accounting'] = 'pure epsilon' if pure else 'zCDP rho'
        costs, detail = charge(res['rec1'], res['rec2'], pure)
        if costs is None or len(res['rec1'].events) != len(res['rec2'].events) or res['rec2'].diverged:
            chk.violation(dict(kind='diverged', mechanism=name), '%s: the run on the neighbour does not perform the same releases (%s)' % (name, detail if costs is None else (res['rec2'].diverged or 'different number of events')),
                          dict(info, events=dprec.describe_events(res['rec1']), events_neighbour=dprec.describe_events(res['rec2'])), found_input=True)
            continue
        # the noise scales are part of what is released: given identical earlier releases they must not depend on the dataset
        sc1 = [e['scale'] for e in res['rec1'].events if e['kind'] != 'select']; sc2 = [e['scale'] for e in res['rec2'].events if e['kind'] != 'select']
        if any(abs(a - b) > 1e-9 * abs(a) for a, b in zip(sc1, sc2)):
            chk.violation(dict(kind='scale-depends-on-data', mechanism=name), '%s: with identical earlier releases the noise scale of a later release differs between the two neighbouring datasets (an uncharged data-dependent decision)' % name,
                          dict(info, scales=sc1[:40], scales_neighbour=sc2[:40]), found_input=True)
            continue
        if name == 'aim' and rng.random() < 0.7:
            # the same must hold for ANY dataset of the same shape (the budget schedule is a function of the releases alone): a far dataset makes a
            # data-dependent decision visible that a single changed record only flips near its threshold
            rec3, err3 = dprec.forced_run(name, params, dprec.far_dataset(rng, data), res['rec1'].seed, res['rec1'], res['bounded'])
            chk.count('aim.far-dataset-forced-run')
            sc3 = [e['scale'] for e in rec3.events if e['kind'] != 'select']
            if err3 is None and (len(sc3) != len(sc1) or any(abs(a - b) > 1e-9 * abs(a) for a, b in zip(sc1, sc3))):
                chk.violation(dict(kind='scale-depends-on-data', mechanism=name), 'aim: forced to the same releases and selections, another dataset of the same shape gets a different sequence of noise scales / number of rounds: the budget schedule depends on the private data directly',
                              dict(info, scales=sc1[:40], scales_other_dataset=sc3[:40]), found_input=True)
                continue
        spent = float(sum(costs))
        info['spent'] = spent; info['events'] = [[k, c] for k, c in detail][:80]
        misuse = [e.get('misuse') for e in res['rec1'].events if e.get('misuse')]
        if misuse:
            chk.violation(dict(kind='noise-misuse', mechanism=name), '%s: %s' % (name, misuse[0]), info, found_input=False)
        # every selection must be told the sensitivity its scores really have under this adjacency notion (else eps is not the eps it is charged)
        nsel = sum(1 for e in res['rec1'].events if e['kind'] == 'select')
        if len(res['rec1'].sel_args) == nsel:
            for j, a in enumerate(res['rec1'].sel_args):
                if a['sens_given'] < a['sens_true'] * (1 - 1e-12):
                    chk.violation(dict(kind='selection-sensitivity', mechanism=name), '%s: selection %d (%s) is run with sensitivity %.3g but its scores move by %.3g between neighbours: it costs (%.3g)^2 times its share' %
                                  (name, j, a['where'], a['sens_given'], a['sens_true'], a['sens_true'] / a['sens_given']), dict(info, selection=a), found_input=True)
                    break
        rounds_lt = (name == 'aim' and (params.get('rounds') or 10 ** 9) < 0.9 * len(names))
        if not (spent <= budget * (1 + 1e-9) + 1e-15):
            chk.violation(dict(kind='overspend', mechanism=name, aim_rounds_below_0_9_d=rounds_lt),
                          '%s spends %.6g of a budget of %.6g (%s) on this pair of neighbours' % (name, spent, budget, info['accounting']), info, found_input=True)
        line = skeleton_line(name, params, res['rec1'], budget, len(names))
        if line:
            alts = line if isinstance(line, list) else [line]
            pend.append((info, [e['scale'] for e in res['rec1'].events if e['kind'] != 'select'], [e['kind'] for e in res['rec1'].events], len(lines), len(alts), (name, params, data, pure, budget)))
            lines.extend(alts)
    outs = common.run_num(lines)
    for (info, scales, kinds, start, nalt, ctx) in pend:
        ok = False
        for out in outs[start:start + nalt]:
            if isinstance(out, str):
                ms, mk = [out], []
                continue
            ev = [(out[i], out[i + 1], out[i + 2]) for i in range(0, len(out), 3)]
            mk = [{1.0: 'select', 0.0: 'normal', 2.0: 'laplace'}[k] for k, _, _ in ev]
            ms = [s for k, s, _ in ev if k != 1.0]
            if mk == kinds and len(ms) == len(scales) and all(abs(a - b) <= 1e-9 * abs(b) for a, b in zip(scales, ms)):
                ok = True
                break
        if not ok and not (info['mechanism'] == 'aim' and (info['params'].get('rounds') or 10 ** 9) < 0.9 * len(info['attrs'])):
            # the code no longer follows the verified skeleton: search other neighbours of the same dataset for one on which the budget is exceeded
            name_, params_, data_, pure_, budget_ = ctx
            found = None
            import random as _random
            for t in range(8 if chk.tier == 'quick' else 40):
                try:
                    r2 = dprec.pair_of_runs(_random.Random('%s-search-%d-%d' % (name_, chk.seed, t)), name_, params_, data_, seed=1000 + t)
                    if 'error1' in r2 or 'error2' in r2 or r2['rec2'].diverged or len(r2['rec1'].events) != len(r2['rec2'].events):
                        continue
                    c2, _ = charge(r2['rec1'], r2['rec2'], pure_)
                    if c2 is not None and float(sum(c2)) > budget_ * (1 + 1e-9) + 1e-15:
                        found = dict(neighbour=r2['neighbour'], spent=float(sum(c2)), budget=budget_, run_seed=1000 + t)
                        break
                except Exception:
                    continue
            chk.count('skeleton-break.neighbour-search')
            if found:
                chk.violation(dict(kind='overspend', mechanism=info['mechanism'], aim_rounds_below_0_9_d=False),
                              '%s spends %.6g of a budget of %.6g on the neighbour "%s" (found after the release sequence left the verified skeleton)' % (info['mechanism'], found['spent'], found['budget'], found['neighbour']),
                              dict(info, search=found, code_scales=scales[:40], model_scales=ms[:40]), found_input=True)
            else:
                chk.violation(dict(kind='skeleton', mechanism=info['mechanism']), '%s: sequence of releases / noise scales differs from the verified budget skeleton' % info['mechanism'],
                              dict(info, code_scales=scales[:40], model_scales=ms[:40], code_kinds=kinds[:60], model_kinds=mk[:60]), found_input=False)
    return chk.finish(rule='per mechanism (MST, AIM, MWEM+PGM gaussian/laplace x bounded/unbounded, Adaptive Grid with/without targets): random small datasets (2-4 attributes, sizes 1-4, 20-120 records), '
                      'eps in {.5,1,3,30}, delta in {1e-6,1e-9}, rounds / workload / max_model_size / threshold variations, one neighbour (remove one record; replace one under bounded adjacency); '
                      'run on D, then on D\' forced to the same released values and selections; every event charged by the actual change; sum vs budget; scale sequence vs the float skeleton. '
                      'Every pair is a non-trivial case; distinct by parameters+data.',
                      assumptions=['inference iterations are capped from outside (post-processing; the accounting does not depend on them)',
                                   'published facts used as the charging rule: Gaussian zCDP cost D^2/(2 s^2), bounded-range selection r^2/8, additivity, rho = cdp_rho(eps, delta) (C07)',
                                   'one neighbour per run is sampled; the sensitivity bound for ALL neighbours is not proved (partial)'])


def replay(chk, rp):
    print(json.dumps(rp, indent=1, default=str)[:4000])
    return 0
