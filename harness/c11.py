"""C11 — synthetic records faithfully realise the model.
Model (Model/Synth.v): the rounding column over exact rationals with the random subset as an oracle argument.  Theorems (Props/C11.v):
for every admissible subset the column has exactly n rows, every value's count is within 1 of its expected count (independent of n), and a
value of zero probability is never drawn.  Correspondence: for every (parent cell, column) group of the code's output the per-value
counts are compared with round_col on the conditional the code uses (model.project), with the subset read off the output and its
admissibility checked by the verified valid_idx.  Direct checks: row count, value ranges, no record in a zero-probability cell of the
exact joint, clique-count error bounded independently of N (rounding), 6-sigma agreement (sampling)."""
import itertools, json, math
from fractions import Fraction
import numpy as np
import common, pgmgen, c01
from common import ltok, hexz


def generation_plan(model):
    """replicates the column order / parent sets of GraphicalModel.synthetic_data (they are part of the observable contract: the
    conditional used for column `col` given its parents)."""
    cliques = [set(cl) for cl in model.cliques]
    order = list(model.elimination_order)[::-1]
    plan = [(order[0], [])]
    used = {order[0]}
    for col in order[1:]:
        rel = [cl for cl in cliques if col in cl]
        parents = sorted(used.intersection(set.union(*rel)))
        used.add(col)
        plan.append((col, parents))
    return plan


def main(chk):
    from mbi import CliqueVector
    chk.prove()
    rng = chk.rng
    n = 40 if chk.tier == 'quick' else 500
    lines, pend = [], []
    for it in range(n):
        case = c01.build_case(chk, rng, chk.tier)
        if case['stream'] == 'huge':
            continue
        attrs, sizes = case['attrs'], case['sizes']
        joint = pgmgen.brute_joint(attrs, sizes, [case['pots'][cl] for cl in case['mcl']])
        Z = sum(joint.values())
        if Z == 0:
            continue
        m = case['model']
        m.total = rng.choice([1.0, 7.6, 100.0, 12345.5] + ([1e6] if chk.tier == 'thorough' else []))
        m.potentials = CliqueVector({cl: case['facs'][cl].copy() for cl in case['mcl']})
        rows = rng.choice([None, None, 1, 17, 1000] + ([100000] if chk.tier == 'thorough' else [20000]))
        method = rng.choice(['round', 'round', 'sample'])
        if rng.random() < 0.3:
            m.calculate_many_marginals([tuple(attrs[:2])])          # cached marginals present (second draws must not be affected by the first)
            cached = True
        else:
            cached = False
        ndraws = 2 if rng.random() < (0.8 if cached else 0.3) else 1
        info = dict(c01.jsonable(case), total=m.total, rows=rows, method=method, cached_marginals=cached)
        seed = rng.randrange(2 ** 31)
        rows_first = rows
        for draw in range(ndraws):
            np.random.seed(seed + draw)
            rows = rows_first if draw == 0 else rng.choice([None, 1000, 20000])      # a later draw with another row count must still follow the model
            try:
                with np.errstate(all='ignore'):
                    synth = m.synthetic_data(rows=rows, method=method)
            except Exception as e:
                chk.violation(dict(kind='exception', method=method, what=common.exc_kind(e)), 'synthetic_data raised %s: %s' % (common.exc_kind(e), str(e)[:100]), dict(info, draw=draw), found_input=True)
                break
            N = int(m.total) if rows is None else rows
            df = synth.df
            chk.count('method.' + method); chk.count('rows=%s' % rows); chk.count('draw%d' % draw)
            nontriv = len(case['mcl']) >= 2 and N >= 17
            chk.case(('synth', it, draw), nontriv, dict(info, draw=draw, head=df.head(3).values.tolist()) if len(chk.samples) < 2 and nontriv else None)
            inf = dict(info, draw=draw, N=N)
            if df.shape[0] != N:
                chk.violation(dict(kind='rows', method=method), 'asked for %d rows, got %d' % (N, df.shape[0]), inf, found_input=True); continue
            if list(df.columns) != list(attrs) or list(synth.domain.attrs) != list(attrs):
                chk.violation(dict(kind='columns', method=method), 'columns %s differ from the domain attributes' % list(df.columns), inf, found_input=True); continue
            vals = df.values
            if N and (vals.min() < 0 or (vals >= np.array(sizes)[None, :]).any() or not np.all(np.isfinite(vals.astype(float)))):
                chk.violation(dict(kind='range', method=method), 'a value lies outside its attribute\'s domain', inf, found_input=True); continue
            if N == 0:
                continue
            cnt = {}
            for r in map(tuple, vals.astype(int)):
                cnt[r] = cnt.get(r, 0) + 1
            zero = [c for c in cnt if joint[c] == 0]
            if zero:
                chk.violation(dict(kind='zero-cell', method=method), '%d record(s) in the zero-probability cell %s' % (cnt[zero[0]], dict(zip(attrs, zero[0]))), inf, found_input=True); continue
            # clique counts vs expected counts
            cfg0 = dict(zip(attrs, sizes))
            B = 2 + sum(math.prod(cfg0[a] for a in parents) for _, parents in generation_plan(m))      # one unit of rounding error per (parent cell, column) group: independent of N
            worst = 0.0
            for cl in case['mcl']:
                pos = [attrs.index(a) for a in cl]
                cc = {}
                for c, k in cnt.items():
                    key = tuple(c[p] for p in pos); cc[key] = cc.get(key, 0) + k
                exp, _ = pgmgen.brute_marginal(attrs, sizes, joint, list(cl), Fraction(N))
                for key, e in zip(itertools.product(*[range(sizes[p]) for p in pos]), exp):
                    got = cc.get(key, 0); e = float(e)
                    if method == 'round':
                        worst = max(worst, abs(got - e))
                        if abs(got - e) > B:
                            chk.violation(dict(kind='clique-error', method=method), 'rounding mode: clique %s cell %s has %d records, expected %.2f (N-independent bound %d)' % (''.join(cl), key, got, e, B), inf, found_input=True); break
                    else:
                        p = e / N
                        if abs(got - e) > 6.5 * math.sqrt(max(N * p * (1 - p), 0)) + 6:
                            chk.violation(dict(kind='sampling', method=method), 'sampling mode: clique %s cell %s has %d records, expected %.2f (beyond 6.5 sigma)' % (''.join(cl), key, got, e), inf, found_input=True); break
            chk.extra['worst_rounding_error'] = max(chk.extra.get('worst_rounding_error', 0.0), worst)
            # group-level correspondence with the verified rounding model
            if method == 'round' and N <= 20000:
                cfg = dict(zip(attrs, sizes))
                for col, parents in generation_plan(m):
                    with np.errstate(all='ignore'):
                        marg = np.asarray(m.project(tuple(parents) + (col,)).datavector(flatten=False), dtype=float)
                    groups = {}
                    pidx = [attrs.index(a) for a in parents]; ci = attrs.index(col)
                    for c, k in cnt.items():
                        g = tuple(c[p] for p in pidx)
                        groups.setdefault(g, [0] * cfg[col])[c[ci]] += k
                    for g, counts_out in list(groups.items())[:6]:
                        cond = marg[g] if parents else marg
                        cq = [Fraction(float(x)) for x in cond]
                        tot = sum(cq)
                        if tot <= 0:
                            continue
                        ng = sum(counts_out)
                        sc = [c * ng / tot for c in cq]
                        if any(abs(x - round(x)) < Fraction(1, 10 ** 7) and x != 0 for x in sc):
                            chk.count('group.skipped-near-integer'); continue
                        idx = [v for v, (k, x) in enumerate(zip(counts_out, sc)) if k > math.floor(x)]
                        lines.append('round_col %s %s %s' % (ltok(cq, lambda q: '%s %s' % (hexz(q.numerator), hexz(q.denominator))), hexz(ng), ltok(idx)))
                        pend.append((dict(inf, column=col, parents=parents, parent_cell=list(g), conditional=[float(x) for x in cond], group_size=ng), counts_out))
    outs = common.run_model(lines)
    for line, (info, counts_out), out in zip(lines, pend, outs):
        chk.case(line, True); chk.count('group.checked')
        ok = out.startswith('valid [') and [common.unhexz(t) for t in out[out.index('[') + 1:-1].split()] == counts_out
        if not ok:
            chk.violation(dict(kind='rounding-group'), 'column %s given %s=%s: value counts %s are not a rounding of the conditional (model: %s)' % (info['column'], info['parents'], info['parent_cell'], counts_out, out[:80]),
                          dict(info, counts=counts_out, model=out), found_input=True)
    return chk.finish(rule='random models as in C01 (structures incl. rings/stars/disconnected, potentials incl. zero cells), totals {1,7.6,100,12345.5(,1e6)}, rows {default,1,17,1000,2e4(,1e5)}, methods round/sample, '
                      'with/without cached marginals, one or two consecutive draws. Checks: row count, columns/ranges, zero-probability cells of the exact joint, clique counts vs N*p (rounding: N-independent bound; '
                      'sampling: 6.5 sigma), and for rounding every sampled (parent cell, column) group against round_col/valid_idx of the verified model. Non-trivial = >= 2 model cliques and >= 17 rows.',
                      assumptions=['the chain rule (product of the conditionals used = model joint) is not proved (chain_rule_is_joint_partial): it is what the clique-count and zero-cell checks observe',
                                   'numpy.random.choice / shuffle and pandas group-by are external; sampling mode is checked statistically (6.5 sigma), not proved',
                                   'float64 scaling vs exact rationals: groups whose expected counts are within 1e-7 of an integer are skipped in the exact comparison'])


def replay(chk, rp):
    print(json.dumps(rp, indent=1, default=str)[:4000])
    return 0
