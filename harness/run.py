import importlib, json, os, sys, time, traceback
sys.path.insert(0, os.path.dirname(os.path.abspath(__file__)))
import common

def main():
    args = sys.argv[1:]
    prop = args[0]
    tier = 'quick'
    replay = None
    i = 1
    while i < len(args):
        if args[i] in ('quick', 'thorough'):
            tier = args[i]
        elif args[i] == '--replay':
            replay = args[i + 1]; i += 1
        i += 1
    tier = os.environ.get('VERIF_TIER', tier) if len(args) < 2 else tier
    seed = int(os.environ.get('VERIF_SEED', '0'))
    common.setup_repo_path()
    mod = importlib.import_module(prop.lower())
    chk = common.Check(prop, tier, seed)
    if replay:
        rp = json.load(open(replay))
        rc = mod.replay(chk, rp)
        sys.exit(rc)
    try:
        rc = mod.main(chk)
    except Exception:
        traceback.print_exc()
        # the harness itself failed: report, never silently pass
        path = os.path.join(common.VERIF, 'replays', '%s-%s-harness-exception.json' % (prop, tier))
        os.makedirs(os.path.dirname(path), exist_ok=True)
        json.dump(dict(property=prop, what='harness exception', trace=traceback.format_exc(), found_failing_input=False), open(path, 'w'), indent=1)
        print('VIOLATION property=%s replay=%s no-failing-input-found' % (prop, path))
        rc = 1
    sys.exit(rc)

main()
