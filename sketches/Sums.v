From Coq Require Import List Arith Lia Bool.
Import ListNotations.
Set Implicit Arguments.

Section SR.
Variable K : Type.
Variables (zero one : K) (add mul : K -> K -> K).
Hypothesis add_comm : forall a b, add a b = add b a.
Hypothesis add_assoc : forall a b c, add a (add b c) = add (add a b) c.
Hypothesis add_0_l : forall a, add zero a = a.
Hypothesis mul_comm : forall a b, mul a b = mul b a.
Hypothesis mul_assoc : forall a b c, mul a (mul b c) = mul (mul a b) c.
Hypothesis mul_1_l : forall a, mul one a = a.
Hypothesis mul_0_l : forall a, mul zero a = zero.
Hypothesis distr_l : forall a b c, mul a (add b c) = add (mul a b) (mul a c).

Definition asg := nat -> nat.
Definition upd (x : asg) (a v : nat) : asg := fun b => if Nat.eqb b a then v else x b.
Definition tbl := asg -> K.

Fixpoint sumn (n : nat) (f : nat -> K) : K :=
  match n with O => zero | S m => add (sumn m f) (f m) end.

Variable shape : nat -> nat.
Definition sum_var (a : nat) (f : tbl) : tbl := fun x => sumn (shape a) (fun v => f (upd x a v)).
Definition dep_not (a : nat) (f : tbl) := forall x v, f (upd x a v) = f x.

Lemma sumn_ext n f g : (forall i, i < n -> f i = g i) -> sumn n f = sumn n g.
Proof. induction n; simpl; intros H; [reflexivity|]. rewrite IHn, H; auto. Qed.

Lemma sumn_add n f g : sumn n (fun i => add (f i) (g i)) = add (sumn n f) (sumn n g).
Proof. induction n; simpl. now rewrite add_0_l.
  rewrite IHn. rewrite !add_assoc. f_equal. rewrite <- !add_assoc. f_equal. apply add_comm. Qed.

Lemma sumn_mul_l n c f : sumn n (fun i => mul c (f i)) = mul c (sumn n f).
Proof. induction n; simpl. now rewrite mul_comm, mul_0_l. now rewrite IHn, distr_l. Qed.

Lemma sumn_zero m : sumn m (fun _ => zero) = zero.
Proof. induction m; simpl; auto. now rewrite IHm, add_0_l. Qed.

Lemma sumn_exch n m (f : nat -> nat -> K) :
  sumn n (fun i => sumn m (fun j => f i j)) = sumn m (fun j => sumn n (fun i => f i j)).
Proof. induction n; simpl.
  - now rewrite sumn_zero.
  - rewrite IHn. now rewrite sumn_add. Qed.

Lemma upd_comm x a b v w : a <> b -> forall c, upd (upd x a v) b w c = upd (upd x b w) a v c.
Proof. intros H c. unfold upd. destruct (Nat.eqb_spec c b), (Nat.eqb_spec c a); subst; congruence. Qed.

Definition ext (f : tbl) := forall x y, (forall c, x c = y c) -> f x = f y.

Lemma sum_var_exch a b f : ext f -> a <> b -> forall x, sum_var a (sum_var b f) x = sum_var b (sum_var a f) x.
Proof. intros Hf Hab x. unfold sum_var. rewrite sumn_exch. apply sumn_ext; intros j _.
  apply sumn_ext; intros i _. apply Hf. intro c. first [ now apply upd_comm | now apply upd_comm; auto | symmetry; now apply upd_comm; auto ]. Qed.

Lemma sum_var_mul_indep a f g : dep_not a f -> forall x, sum_var a (fun y => mul (f y) (g y)) x = mul (f x) (sum_var a g x).
Proof. intros Hf x. unfold sum_var. rewrite <- sumn_mul_l. apply sumn_ext; intros; now rewrite Hf. Qed.
End SR.
