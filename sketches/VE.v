From Coq Require Import List Arith Lia Bool.
Import ListNotations.
Require Import Sums.
Set Implicit Arguments.

Section VE.
Variable K : Type.
Variables (zero one : K) (add mul : K -> K -> K).
Hypothesis add_comm : forall a b, add a b = add b a.
Hypothesis add_assoc : forall a b c, add a (add b c) = add (add a b) c.
Hypothesis add_0_l : forall a, add zero a = a.
Hypothesis mul_comm : forall a b, mul a b = mul b a.
Hypothesis mul_assoc : forall a b c, mul a (mul b c) = mul (mul a b) c.
Hypothesis mul_1_l : forall a, mul one a = a.
Hypothesis mul_0_l : forall a, mul zero a = zero.
Hypothesis distr_l : forall a b c, mul a (add b c) = add (mul a b) (mul a c).
Variable shape : nat -> nat.

Notation tbl := (tbl K).
Notation sum_var := (sum_var zero add shape).

Definition factor := (list nat * tbl)%type.
Definition mentions (z : nat) (f : factor) := existsb (Nat.eqb z) (fst f).
Definition prodl (l : list factor) : tbl := fun x => fold_right (fun f acc => mul (snd f x) acc) one l.
(* a factor depends only on its declared variables *)
Definition wf (f : factor) := forall x y, (forall a, In a (fst f) -> x a = y a) -> snd f x = snd f y.

Definition ve_step (z : nat) (l : list factor) : list factor :=
  let yes := filter (mentions z) l in
  let no := filter (fun f => negb (mentions z f)) l in
  no ++ [ (filter (fun a => negb (Nat.eqb a z)) (flat_map fst yes), sum_var z (prodl yes)) ].
Fixpoint ve (elim : list nat) (l : list factor) : tbl :=
  match elim with [] => prodl l | z :: r => ve r (ve_step z l) end.
Fixpoint sum_vars_l (elim : list nat) (f : tbl) : tbl :=
  match elim with [] => f | z :: r => sum_vars_l r (sum_var z f) end.

Lemma prodl_app l1 l2 x : prodl (l1 ++ l2) x = mul (prodl l1 x) (prodl l2 x).
Proof. unfold prodl. induction l1; simpl. now rewrite mul_1_l. now rewrite IHl1, mul_assoc. Qed.

Lemma prodl_partition p l x : prodl l x = mul (prodl (filter (fun f => negb (p f)) l) x) (prodl (filter p l) x).
Proof. unfold prodl. induction l as [|f l IH]; simpl. now rewrite mul_1_l.
  destruct (p f); simpl; rewrite IH.
  - rewrite !mul_assoc. f_equal. apply mul_comm.
  - now rewrite mul_assoc. Qed.

Lemma wf_nomention z f : wf f -> mentions z f = false -> forall x v, snd f (upd x z v) = snd f x.
Proof. intros W M x v. apply W. intros a Ha. unfold upd.
  destruct (Nat.eqb_spec a z); auto. subst. exfalso.
  unfold mentions in M. assert (existsb (Nat.eqb z) (fst f) = true) by (apply existsb_exists; exists z; split; auto; apply Nat.eqb_refl). congruence. Qed.

Lemma prodl_indep z l : Forall wf l -> (forall f, In f l -> mentions z f = false) -> dep_not z (prodl l).
Proof. intros W M x v. unfold prodl. induction l as [|f l IH]; simpl; auto.
  inversion W; subst. rewrite IH; auto. 2:{ intros; apply M; now right. }
  f_equal. apply wf_nomention; auto. apply M; now left. Qed.

Lemma ve_step_prod z l : Forall wf l -> forall x, prodl (ve_step z l) x = sum_var z (prodl l) x.
Proof. intros W x. unfold ve_step. rewrite prodl_app.
  assert (E : forall y, prodl l y = mul (prodl (filter (fun f => negb (mentions z f)) l) y) (prodl (filter (mentions z) l) y))
    by (intro; apply prodl_partition).
  transitivity (sum_var z (fun y => mul (prodl (filter (fun f => negb (mentions z f)) l) y) (prodl (filter (mentions z) l) y)) x).
  2:{ unfold Sums.sum_var. apply sumn_ext. intros; now rewrite E. }
  rewrite (@sum_var_mul_indep K zero add mul mul_comm mul_0_l distr_l shape).
  - f_equal. unfold prodl at 1. simpl. rewrite mul_comm. apply mul_1_l.
  - apply prodl_indep.
    + apply Forall_forall. intros f Hf. apply filter_In in Hf. rewrite Forall_forall in W. apply W, Hf.
    + intros f Hf. apply filter_In in Hf. destruct Hf as [_ H]. now apply negb_true_iff in H.
Qed.

Lemma prodl_wf_vars l : Forall wf l -> forall x y, (forall a, In a (flat_map fst l) -> x a = y a) -> prodl l x = prodl l y.
Proof. intros W x y H. unfold prodl. induction l as [|f l IH]; simpl; auto.
  inversion W; subst. rewrite IH; auto.
  - f_equal. apply H2. intros a Ha. apply H. simpl. apply in_or_app; now left.
  - intros a Ha. apply H. simpl. apply in_or_app; now right. Qed.

Lemma ve_step_wf z l : Forall wf l -> Forall wf (ve_step z l).
Proof. intros W. unfold ve_step. apply Forall_app. split.
  - apply Forall_forall. intros f Hf. apply filter_In in Hf. rewrite Forall_forall in W. apply W, Hf.
  - constructor; [|constructor]. unfold wf. simpl. intros x y H.
    unfold Sums.sum_var. apply sumn_ext. intros v _.
    apply prodl_wf_vars.
    + apply Forall_forall. intros f Hf. apply filter_In in Hf. rewrite Forall_forall in W. apply W, Hf.
    + intros a Ha. unfold upd. destruct (Nat.eqb_spec a z); auto.
      apply H. apply filter_In. split; auto. apply negb_true_iff. now apply Nat.eqb_neq.
Qed.

Lemma sum_vars_l_ext elim f g : (forall x, f x = g x) -> forall x, sum_vars_l elim f x = sum_vars_l elim g x.
Proof. revert f g. induction elim as [|z r IH]; simpl; intros f g H x; auto.
  apply IH. intro y. unfold Sums.sum_var. apply sumn_ext. intros; apply H. Qed.

Theorem ve_correct elim : forall l, Forall wf l -> forall x, ve elim l x = sum_vars_l elim (prodl l) x.
Proof. induction elim as [|z r IH]; simpl; intros l W x; auto.
  rewrite IH by (now apply ve_step_wf). apply sum_vars_l_ext. intro y. now apply ve_step_prod. Qed.
End VE.
Print Assumptions ve_correct.

