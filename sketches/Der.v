From Coq Require Import Reals Lra.
From Coquelicot Require Import Coquelicot.
Open Scope R_scope.
Lemma logB_derivative rho eps a : 1 < a ->
  is_derive (fun a => (a-1)*(a*rho-eps) + a*ln(1 + - 1/a) - ln (a-1)) a ((2*a-1)*rho - eps + ln(1 + - 1/a)).
Proof.
  intros Ha. auto_derive.
  - assert (1 / a < 1). { apply (Rmult_lt_reg_r a); try lra. unfold Rdiv. rewrite Rmult_assoc, Rinv_l; lra. }
    repeat split; try lra.
  - unfold Rdiv. replace (-1 * / a) with (- / a) by lra. replace (1 + -1 * / a) with (1 + - / a) by lra.
    generalize (ln (1 + - / a)). intros L. field. split; lra.
Qed.
Print Assumptions logB_derivative.

