(* prototype: the division-based run of GraphicalModel.belief_propagation, for every valid schedule,
   produces beliefs psi_c * prod_k M(k,c) where M are the true (Shafer-Shenoy) messages — including zeros *)
From Coq Require Import List Arith Lia Bool FunctionalExtensionality.
Import ListNotations.

Section Run.
Variable K : Type.
Variables (zero one : K) (add mul div : K -> K -> K) (eqz : K -> bool).
Hypothesis add_comm : forall a b, add a b = add b a.
Hypothesis add_assoc : forall a b c, add a (add b c) = add (add a b) c.
Hypothesis add_0_l : forall a, add zero a = a.
Hypothesis mul_comm : forall a b, mul a b = mul b a.
Hypothesis mul_assoc : forall a b c, mul a (mul b c) = mul (mul a b) c.
Hypothesis mul_1_l : forall a, mul one a = a.
Hypothesis mul_0_l : forall a, mul zero a = zero.
Hypothesis distr_l : forall a b c, mul a (add b c) = add (mul a b) (mul a c).
(* the two facts about non-negative numbers the zero case needs, and guarded division *)
Hypothesis zero_sum_free : forall a b, add a b = zero -> a = zero /\ b = zero.
Hypothesis no_zero_div : forall a b, mul a b = zero -> a = zero \/ b = zero.
Hypothesis eqz_spec : forall a, eqz a = true <-> a = zero.
Hypothesis div_mul : forall a b, b <> zero -> div (mul a b) b = a.
Variable shape : nat -> nat.

Definition asg := nat -> nat.
Definition upd (x : asg) (a v : nat) : asg := fun b => if Nat.eqb b a then v else x b.
Definition tbl := asg -> K.
Fixpoint sumn (n : nat) (f : nat -> K) : K := match n with O => zero | S m => add (sumn m f) (f m) end.
Definition sum_var (a : nat) (f : tbl) : tbl := fun x => sumn (shape a) (fun v => f (upd x a v)).
Fixpoint sum_vars (l : list nat) (f : tbl) : tbl := match l with [] => f | z :: r => sum_vars r (sum_var z f) end.
Definition sdiv (a b : K) := if eqz b then a else div a b.

Lemma mul_0_r a : mul a zero = zero. Proof. now rewrite mul_comm, mul_0_l. Qed.
Lemma mul_1_r a : mul a one = a. Proof. now rewrite mul_comm, mul_1_l. Qed.

(* y is one of the points the sum over l ranges over, starting from x *)
Definition agree_out (l : list nat) (x y : asg) := forall a, ~ In a l -> y a = x a.
Definition inrange (l : list nat) (y : asg) := forall a, In a l -> y a < shape a.

Lemma sumn_ext n f g : (forall i, i < n -> f i = g i) -> sumn n f = sumn n g.
Proof. induction n; simpl; intros H; [reflexivity|]. rewrite IHn, H; auto. Qed.
Lemma sumn_zero_all n f : sumn n f = zero -> forall i, i < n -> f i = zero.
Proof. induction n; simpl; intros H i Hi; [lia|]. apply zero_sum_free in H. destruct H as [H1 H2].
  destruct (Nat.eq_dec i n) as [->|N]; auto. apply IHn; auto; lia. Qed.
Lemma sumn_all_zero n f : (forall i, i < n -> f i = zero) -> sumn n f = zero.
Proof. induction n; simpl; intros H; auto. rewrite IHn, H; auto. Qed.

Lemma sum_vars_ext_on l : forall f g x, (forall y, agree_out l x y -> inrange l y -> f y = g y) -> sum_vars l f x = sum_vars l g x.
Proof. induction l as [|z r IH]; simpl; intros f g x H.
  - apply H; [intros a _; reflexivity | intros a []].
  - apply IH. intros y Hy Ry. unfold sum_var. apply sumn_ext. intros v Hv. apply H.
    + intros a Ha. unfold upd. destruct (Nat.eqb_spec a z) as [->|N].
      * exfalso. apply Ha. now left.
      * apply Hy. intro. apply Ha. now right.
    + intros a [<-|Ha]. unfold upd. now rewrite Nat.eqb_refl.
      unfold upd. destruct (Nat.eqb_spec a z) as [->|N]; auto.
Qed.

Lemma upd_same (y : asg) a : upd y a (y a) = y.
Proof. extensionality b. unfold upd. destruct (Nat.eqb_spec b a); subst; auto. Qed.

Lemma sum_vars_zero_all l : forall f x, sum_vars l f x = zero ->
  forall y, agree_out l x y -> inrange l y -> f y = zero.
Proof. induction l as [|z r IH]; simpl; intros f x H y Hy Ry.
  - assert (y = x) as -> by (extensionality a; apply Hy; intros []). exact H.
  - (* y differs from x on z::r; let y' := y with z reset *)
    specialize (IH (sum_var z f) x H).
    destruct (in_dec Nat.eq_dec z r) as [Zr|Zr].
    + assert (E : sum_var z f y = zero).
      { apply IH. intros a Ha. apply Hy. simpl. intros [<-|H']; auto. intros a Ha. apply Ry. now right. }
      unfold sum_var in E. pose proof (sumn_zero_all _ _ E (y z) (Ry z (or_introl eq_refl))) as E'.
      simpl in E'. now rewrite upd_same in E'.
    + set (y' := upd y z (x z)).
      assert (E : sum_var z f y' = zero).
      { apply IH.
        - intros a Ha. unfold y', upd. destruct (Nat.eqb_spec a z) as [->|N]; auto. apply Hy. simpl. intros [E0|H']; auto.
        - intros a Ha. unfold y', upd. destruct (Nat.eqb_spec a z) as [->|N]. contradiction. apply Ry. now right. }
      unfold sum_var in E. pose proof (sumn_zero_all _ _ E (y z) (Ry z (or_introl eq_refl))) as E'.
      simpl in E'. replace (upd y' z (y z)) with y in E'; auto.
      extensionality b. unfold y', upd. destruct (Nat.eqb_spec b z); subst; auto.
Qed.

Lemma sum_vars_all_zero l : forall f x, (forall y, agree_out l x y -> inrange l y -> f y = zero) -> sum_vars l f x = zero.
Proof. induction l as [|z r IH]; simpl; intros f x H.
  - apply H; [intros a _; reflexivity | intros a []].
  - apply IH. intros y Hy Ry. unfold sum_var. apply sumn_all_zero. intros v Hv. apply H.
    + intros a Ha. unfold upd. destruct (Nat.eqb_spec a z) as [->|N].
      * exfalso. apply Ha. now left.
      * apply Hy. intro. apply Ha. now right.
    + intros a [<-|Ha]. unfold upd. now rewrite Nat.eqb_refl.
      unfold upd. destruct (Nat.eqb_spec a z) as [->|N]; auto.
Qed.

(* ------------------------------------------------------------------ *)
Hypothesis one_neq_zero : one <> zero.
Variable scope : nat -> list nat.
Variable psi : nat -> tbl.
Variable nbrs : nat -> list nat.
Hypothesis nbrs_nodup : forall c, NoDup (nbrs c).
Hypothesis nbrs_sym : forall i j, In j (nbrs i) -> In i (nbrs j).

Definition valid (x : asg) := forall a, x a < shape a.
Definition prodl (l : list K) : K := fold_right mul one l.
Definition diff (l p : list nat) := filter (fun a => negb (existsb (Nat.eqb a) p)) l.
Definition elimv i j := diff (scope i) (scope j).
Definition others (j : nat) (l : list nat) := filter (fun k => negb (Nat.eqb k j)) l.

(* true (Shafer-Shenoy) messages: any family satisfying the recursion *)
Variable M : nat -> nat -> tbl.
Definition F (i j : nat) : tbl := fun y => mul (psi i y) (prodl (map (fun k => M k i y) (others j (nbrs i)))).
Hypothesis M_rec : forall i j, In j (nbrs i) -> forall x, M i j x = sum_vars (elimv i j) (F i j) x.

Lemma prodl_zero l : prodl l = zero -> exists a, In a l /\ a = zero.
Proof. induction l as [|a l IH]; simpl; intros H. now contradiction one_neq_zero.
  apply no_zero_div in H. destruct H as [H|H]. exists a; auto. destruct (IH H) as [b [Hb Eb]]. exists b; auto. Qed.
Lemma prodl_has_zero l a : In a l -> a = zero -> prodl l = zero.
Proof. induction l as [|b l IH]; simpl; intros H E; [contradiction|]. destruct H as [->|H]; subst. apply mul_0_l. rewrite IH; auto. apply mul_0_r. Qed.

Lemma others_in j l k : In k (others j l) <-> In k l /\ k <> j.
Proof. unfold others. rewrite filter_In. rewrite negb_true_iff, Nat.eqb_neq. tauto. Qed.

Lemma prodl_split (g : nat -> K) j l : NoDup l -> In j l ->
  prodl (map g l) = mul (g j) (prodl (map g (others j l))).
Proof. induction l as [|a l IH]; simpl; intros ND Hj. contradiction.
  inversion ND; subst. destruct Hj as [->|Hj].
  - rewrite Nat.eqb_refl. simpl. f_equal. f_equal. f_equal.
    unfold others. symmetry. rewrite <- (filter_ext_in (fun _ => true)).
    2:{ intros k Hk. symmetry. apply negb_true_iff, Nat.eqb_neq. intros ->. contradiction. }
    clear. induction l; simpl; auto. now f_equal.
  - destruct (Nat.eqb_spec a j) as [->|N]. contradiction. simpl.
    rewrite (IH H2 Hj). rewrite !mul_assoc. f_equal. apply mul_comm. Qed.

(* ---- the run ---- *)
Record st := { bel : nat -> tbl; sent : list ((nat*nat) * tbl) }.
Fixpoint getm (e : nat*nat) (l : list ((nat*nat)*tbl)) : option tbl :=
  match l with [] => None | (e', m) :: r => if (Nat.eqb (fst e') (fst e) && Nat.eqb (snd e') (snd e))%bool then Some m else getm e r end.
Definition msg_of (s : st) (k c : nat) : tbl := match getm (k,c) (sent s) with Some m => m | None => fun _ => one end.
Definition step (s : st) (e : nat*nat) : st :=
  let (i,j) := e in
  let tau := match getm (j,i) (sent s) with Some m => fun x => sdiv (bel s i x) (m x) | None => bel s i end in
  let m := sum_vars (elimv i j) tau in
  {| bel := fun c => if Nat.eqb c j then (fun x => mul (bel s j x) (m x)) else bel s c;
     sent := ((i,j), m) :: sent s |}.
Definition init : st := {| bel := psi; sent := [] |}.

Record Inv (s : st) (done : list (nat*nat)) : Prop := {
  I0 : forall e, getm e (sent s) = None <-> ~ In e done;
  I1 : forall c x, bel s c x = mul (psi c x) (prodl (map (fun k => msg_of s k c x) (nbrs c)));
  H1 : forall i j m, getm (i,j) (sent s) = Some m -> forall x, valid x -> M i j x = zero -> m x = zero;
  H2 : forall i j m, getm (i,j) (sent s) = Some m -> forall x, valid x -> M j i x <> zero -> m x = M i j x }.

Definition vstep (done : list (nat*nat)) (e : nat*nat) :=
  In (snd e) (nbrs (fst e)) /\ ~ In e done /\ forall k, In k (nbrs (fst e)) -> k <> snd e -> In (k, fst e) done.

Lemma init_inv : Inv init [].
Proof. constructor; simpl; intros.
  - tauto.
  - unfold msg_of. simpl. assert (E : forall l, prodl (map (fun _ : nat => one) l) = one).
    { induction l; simpl; auto. now rewrite IHl, mul_1_l. } now rewrite E, mul_1_r.
  - discriminate.
  - discriminate. Qed.

(* locality of the true messages, per variable (what `up` gives directly) *)
Definition indep (a : nat) (f : tbl) := forall x v, f (upd x a v) = f x.
Hypothesis M_indep : forall i j a, ~ In a (scope i) -> indep a (M i j).

Lemma indep_agree l : forall (f : tbl) x y, (forall a, In a l -> indep a f) -> agree_out l x y -> f y = f x.
Proof. induction l as [|a r IH]; intros f x y HI A.
  - f_equal. extensionality b. apply A. intros [].
  - set (y1 := upd y a (x a)).
    assert (A1 : agree_out r x y1).
    { intros b Hb. unfold y1, upd. destruct (Nat.eqb_spec b a) as [->|N]; auto. apply A. intros [E|E]; auto. }
    rewrite <- (IH f x y1 (fun b Hb => HI b (or_intror Hb)) A1).
    replace y with (upd y1 a (y a)). apply (HI a (or_introl eq_refl)).
    extensionality b. unfold y1, upd. destruct (Nat.eqb_spec b a); subst; auto. Qed.

Lemma valid_fibre l x y : valid x -> agree_out l x y -> inrange l y -> valid y.
Proof. intros V A R a. destruct (in_dec Nat.eq_dec a l) as [I|I]. now apply R. rewrite (A a I). apply V. Qed.
Lemma self_fibre l y : valid y -> agree_out l y y /\ inrange l y.
Proof. intros V. split; intros a _; auto. Qed.

Lemma M_zero_F i j y : In j (nbrs i) -> valid y -> M i j y = zero -> F i j y = zero.
Proof. intros Hj V E. rewrite M_rec in E by assumption.
  destruct (self_fibre (elimv i j) y V) as [A R]. exact (sum_vars_zero_all (elimv i j) (F i j) y E y A R). Qed.

Lemma getm_eq e l m : getm e ((e, m) :: l) = Some m.
Proof. simpl. now rewrite !Nat.eqb_refl. Qed.
Lemma getm_neq e e' l m : e' <> e -> getm e ((e', m) :: l) = getm e l.
Proof. intros N. simpl. destruct e as [a b], e' as [a' b']. simpl.
  destruct (Nat.eqb_spec a' a), (Nat.eqb_spec b' b); subst; simpl; auto. now contradiction N. Qed.

Section Step.
Variables (s : st) (done : list (nat*nat)) (i j : nat).
Hypothesis INV : Inv s done.
Hypothesis Hj : In j (nbrs i).
Hypothesis Hnew : ~ In (i,j) done.
Hypothesis Hdeps : forall k, In k (nbrs i) -> k <> j -> In (k,i) done.

Let G : tbl := fun y => mul (psi i y) (prodl (map (fun k => msg_of s k i y) (others j (nbrs i)))).
Let tau : tbl := match getm (j,i) (sent s) with Some m => fun x => sdiv (bel s i x) (m x) | None => bel s i end.

Lemma sent_dep k : In k (others j (nbrs i)) -> exists mk, getm (k,i) (sent s) = Some mk.
Proof. intros Hk. apply others_in in Hk. destruct Hk as [Hk N].
  destruct (getm (k,i) (sent s)) eqn:E. eauto. apply (I0 _ _ INV) in E. exfalso. apply E. now apply Hdeps. Qed.

Lemma bel_i y : bel s i y = mul (msg_of s j i y) (G y).
Proof. rewrite (I1 _ _ INV). rewrite (prodl_split (fun k => msg_of s k i y) j (nbrs i) (nbrs_nodup i) Hj).
  unfold G. rewrite !mul_assoc. f_equal. apply mul_comm. Qed.

Lemma tau_cases y : tau y = G y \/ tau y = zero.
Proof. unfold tau. pose proof (bel_i y) as B. unfold msg_of in B. destruct (getm (j,i) (sent s)) as [m|].
  - unfold sdiv. destruct (eqz (m y)) eqn:E.
    + right. apply eqz_spec in E. rewrite B, E. apply mul_0_l.
    + left. rewrite B. rewrite (mul_comm (m y)). apply div_mul. intro Z. apply eqz_spec in Z. congruence.
  - left. rewrite B. apply mul_1_l. Qed.

Lemma tau_nz y : (forall m, getm (j,i) (sent s) = Some m -> m y <> zero) -> tau y = G y.
Proof. intros H. unfold tau. pose proof (bel_i y) as B. unfold msg_of in B. destruct (getm (j,i) (sent s)) as [m|].
  - unfold sdiv. destruct (eqz (m y)) eqn:E.
    + apply eqz_spec in E. exfalso. now apply (H m).
    + rewrite B. rewrite (mul_comm (m y)). apply div_mul. intro Z. apply eqz_spec in Z. congruence.
  - rewrite B. apply mul_1_l. Qed.

(* Claim A: support containment *)
Lemma claimA y : valid y -> F i j y = zero -> G y = zero.
Proof. intros V E. unfold F in E. apply no_zero_div in E. destruct E as [E|E].
  - unfold G. rewrite E. apply mul_0_l.
  - apply prodl_zero in E. destruct E as [a [Ha Ea]]. apply in_map_iff in Ha. destruct Ha as [k [<- Hk]].
    destruct (sent_dep k Hk) as [mk Emk]. pose proof (H1 _ _ INV _ _ _ Emk _ V Ea) as Z.
    unfold G. rewrite (prodl_has_zero _ (msg_of s k i y)). apply mul_0_r.
    + apply in_map_iff. exists k. split; auto.
    + unfold msg_of. now rewrite Emk. Qed.

(* Claim B: exactness where the reverse true message is non-zero *)
Lemma claimB y : valid y -> M j i y <> zero -> tau y = F i j y.
Proof. intros V NZ.
  destruct (eqz (F i j y)) eqn:EF.
  - apply eqz_spec in EF. rewrite EF. destruct (tau_cases y) as [T|T]; rewrite T; auto. now apply claimA.
  - assert (FNZ : F i j y <> zero) by (intro Z; apply eqz_spec in Z; congruence).
    (* every dependency message is exact at y *)
    assert (EX : forall k, In k (others j (nbrs i)) -> msg_of s k i y = M k i y).
    { intros k Hk. destruct (sent_dep k Hk) as [mk Emk]. unfold msg_of. rewrite Emk.
      apply (H2 _ _ INV _ _ _ Emk _ V). intro Z.
      apply others_in in Hk. destruct Hk as [Hk N].
      pose proof (M_zero_F _ _ _ Hk V Z) as FZ. unfold F in FZ.
      apply FNZ. unfold F. apply no_zero_div in FZ. destruct FZ as [FZ|FZ].
      - rewrite FZ. apply mul_0_l.
      - apply prodl_zero in FZ. destruct FZ as [a [Ha Ea]]. apply in_map_iff in Ha. destruct Ha as [k' [<- Hk']].
        apply others_in in Hk'. destruct Hk' as [Hk' N'].
        destruct (Nat.eq_dec k' j) as [->|NJ]. contradiction.
        rewrite (prodl_has_zero _ (M k' i y)). apply mul_0_r.
        + apply in_map_iff. exists k'. split; auto. apply others_in. auto.
        + exact Ea. }
    assert (GF : G y = F i j y).
    { unfold G, F. f_equal. f_equal. apply map_ext_in. exact EX. }
    rewrite <- GF. apply tau_nz. intros m Em.
    assert (MNZ : M i j y <> zero). { intro Z. apply FNZ. now apply M_zero_F. }
    rewrite (H2 _ _ INV _ _ _ Em _ V MNZ). exact NZ. Qed.

Definition m_new : tbl := sum_vars (elimv i j) tau.

Lemma new_H1 x : valid x -> M i j x = zero -> m_new x = zero.
Proof. intros V E. unfold m_new. apply sum_vars_all_zero. intros y A R.
  pose proof (valid_fibre _ _ _ V A R) as Vy.
  rewrite M_rec in E by assumption. pose proof (sum_vars_zero_all (elimv i j) (F i j) x E y A R) as FZ.
  destruct (tau_cases y) as [T|T]; rewrite T; auto. now apply claimA. Qed.

Lemma elimv_notin a : In a (elimv i j) -> ~ In a (scope j).
Proof. unfold elimv, diff. rewrite filter_In. intros [_ H] I. apply negb_true_iff in H.
  assert (existsb (Nat.eqb a) (scope j) = true) by (apply existsb_exists; exists a; split; auto; apply Nat.eqb_refl). congruence. Qed.

Lemma new_H2 x : valid x -> M j i x <> zero -> m_new x = M i j x.
Proof. intros V NZ. unfold m_new. rewrite M_rec by assumption. apply sum_vars_ext_on. intros y A R.
  apply claimB. exact (valid_fibre _ _ _ V A R).
  rewrite (indep_agree (elimv i j) (M j i) x y); auto. intros a Ha. apply M_indep. now apply elimv_notin. Qed.
End Step.

Lemma edge_dec (e e' : nat*nat) : {e = e'} + {e <> e'}.
Proof. decide equality; apply Nat.eq_dec. Qed.

Lemma step_sent s i j : sent (step s (i,j)) = ((i,j), m_new s i j) :: sent s.
Proof. reflexivity. Qed.
Lemma step_bel s i j c x : bel (step s (i,j)) c x = if Nat.eqb c j then mul (bel s j x) (m_new s i j x) else bel s c x.
Proof. simpl. destruct (Nat.eqb c j); reflexivity. Qed.

Lemma msg_of_step_other s i j k c : (k,c) <> (i,j) -> msg_of (step s (i,j)) k c = msg_of s k c.
Proof. intros N. unfold msg_of. rewrite step_sent. rewrite getm_neq; auto. Qed.
Lemma msg_of_step_same s i j : msg_of (step s (i,j)) i j = m_new s i j.
Proof. unfold msg_of. rewrite step_sent. now rewrite getm_eq. Qed.

Lemma step_inv s done i j : Inv s done -> vstep done (i,j) -> Inv (step s (i,j)) ((i,j) :: done).
Proof. intros INV [Hj [Hnew Hdeps]]. simpl in Hj, Hnew, Hdeps. constructor.
  - (* I0 *) intros e. rewrite step_sent. destruct (edge_dec (i,j) e) as [<-|N].
    + rewrite getm_eq. split. discriminate. intros H. exfalso. apply H. now left.
    + rewrite getm_neq by assumption. rewrite (I0 _ _ INV). simpl. tauto.
  - (* I1 *) intros c x. rewrite step_bel. destruct (Nat.eqb_spec c j) as [->|N].
    + rewrite (I1 _ _ INV). pose proof (nbrs_sym _ _ Hj) as Hi.
      rewrite (prodl_split (fun k => msg_of s k j x) i (nbrs j) (nbrs_nodup j) Hi).
      rewrite (prodl_split (fun k => msg_of (step s (i,j)) k j x) i (nbrs j) (nbrs_nodup j) Hi).
      rewrite msg_of_step_same.
      assert (E1 : msg_of s i j x = one).
      { unfold msg_of. destruct (getm (i,j) (sent s)) eqn:E; auto. exfalso.
        assert (getm (i,j) (sent s) <> None) by congruence. apply H. apply (I0 _ _ INV). exact Hnew. }
      rewrite E1, mul_1_l.
      assert (E2 : map (fun k => msg_of (step s (i,j)) k j x) (others i (nbrs j)) = map (fun k => msg_of s k j x) (others i (nbrs j))).
      { apply map_ext_in. intros k Hk. apply others_in in Hk. rewrite msg_of_step_other; auto. intros E. injection E as ->. now destruct Hk. }
      rewrite E2. rewrite <- !mul_assoc. f_equal. apply mul_comm.
    + rewrite (I1 _ _ INV). f_equal. f_equal. apply map_ext_in. intros k Hk. rewrite msg_of_step_other; auto.
      intros E. injection E as -> ->. now apply N.
  - (* H1 *) intros i0 j0 m Em x V Z. rewrite step_sent in Em. destruct (edge_dec (i,j) (i0,j0)) as [E|N].
    + injection E as <- <-. rewrite getm_eq in Em. injection Em as <-. now apply (new_H1 s done i j INV Hj Hdeps).
    + rewrite getm_neq in Em by assumption. exact (H1 _ _ INV _ _ _ Em _ V Z).
  - (* H2 *) intros i0 j0 m Em x V Z. rewrite step_sent in Em. destruct (edge_dec (i,j) (i0,j0)) as [E|N].
    + injection E as <- <-. rewrite getm_eq in Em. injection Em as <-. now apply (new_H2 s done i j INV Hj Hdeps).
    + rewrite getm_neq in Em by assumption. exact (H2 _ _ INV _ _ _ Em _ V Z).
Qed.

(* a valid schedule: every step is enabled given the steps before it *)
Fixpoint valid_sched (done : list (nat*nat)) (sch : list (nat*nat)) : Prop :=
  match sch with [] => True | e :: r => vstep done e /\ valid_sched (e :: done) r end.
Definition run (sch : list (nat*nat)) (s : st) : st := fold_left step sch s.

Lemma run_inv sch : forall s done, Inv s done -> valid_sched done sch -> Inv (run sch s) (rev sch ++ done).
Proof. induction sch as [|[i j] r IH]; simpl; intros s done INV V. exact INV.
  destruct V as [V1 V2]. rewrite <- app_assoc. simpl. apply IH; auto. now apply step_inv. Qed.

(* final beliefs: if every directed edge has been sent, the belief of each node is psi * product of the TRUE messages *)
Theorem run_beliefs sch : valid_sched [] sch ->
  (forall c k, In k (nbrs c) -> In (k,c) sch) ->
  forall c x, valid x ->
  bel (run sch init) c x = mul (psi c x) (prodl (map (fun k => M k c x) (nbrs c))).
Proof. intros V ALL c x Vx. pose proof (run_inv sch init [] init_inv V) as INV. rewrite app_nil_r in INV.
  set (s := run sch init) in *. rewrite (I1 _ _ INV).
  assert (SENT : forall k, In k (nbrs c) -> exists m, getm (k,c) (sent s) = Some m).
  { intros k Hk. destruct (getm (k,c) (sent s)) eqn:E; eauto. apply (I0 _ _ INV) in E. exfalso. apply E. apply in_rev. rewrite rev_involutive. now apply ALL. }
  (* either every reverse true message is non-zero at x, or some is zero and both sides vanish *)
  destruct (eqz (mul (psi c x) (prodl (map (fun k => M k c x) (nbrs c))))) eqn:EB.
  - apply eqz_spec in EB. rewrite EB. apply no_zero_div in EB. destruct EB as [EB|EB].
    + rewrite EB. apply mul_0_l.
    + apply prodl_zero in EB. destruct EB as [a [Ha Ea]]. apply in_map_iff in Ha. destruct Ha as [k [<- Hk]].
      destruct (SENT k Hk) as [m Em]. rewrite (prodl_has_zero _ (msg_of s k c x)). apply mul_0_r.
      apply in_map_iff. exists k; auto. unfold msg_of. rewrite Em. exact (H1 _ _ INV _ _ _ Em _ Vx Ea).
  - assert (BNZ : mul (psi c x) (prodl (map (fun k => M k c x) (nbrs c))) <> zero) by (intro Z; apply eqz_spec in Z; congruence).
    f_equal. f_equal. apply map_ext_in. intros k Hk. destruct (SENT k Hk) as [m Em]. unfold msg_of. rewrite Em.
    apply (H2 _ _ INV _ _ _ Em _ Vx). intro Z. apply BNZ.
    (* M c k x = 0  ->  F c k x = 0  ->  the full product is 0 *)
    pose proof (M_zero_F c k x Hk Vx Z) as FZ. unfold F in FZ.
    rewrite (prodl_split (fun k0 => M k0 c x) k (nbrs c) (nbrs_nodup c) Hk).
    rewrite (mul_comm (M k c x)), mul_assoc, FZ. apply mul_0_l. Qed.
End Run.
Print Assumptions run_beliefs.
