From Coq Require Import List Extraction ExtrOcamlBasic.
Import ListNotations.
Record NumOps (T : Type) := { n_zero : T; n_add : T -> T -> T; n_mul : T -> T -> T; n_exp : T -> T; n_ln : T -> T; n_leb : T -> T -> bool }.
Arguments n_zero {T}. Arguments n_add {T}. Arguments n_mul {T}. Arguments n_exp {T}. Arguments n_ln {T}. Arguments n_leb {T}.
Section M.
Context {T : Type} (O : NumOps T).
Definition maxl (l : list T) (d : T) := fold_left (fun m x => if n_leb O m x then x else m) l d.
Definition logsumexp (l : list T) : T :=
  match l with [] => n_ln O (n_zero O) | x :: r =>
    let m := maxl r x in
    n_add O m (n_ln O (fold_left (fun s y => n_add O s (n_exp O (n_add O y (n_mul O m m)))) l (n_zero O))) end.
End M.
Extraction "ex.ml" logsumexp.
