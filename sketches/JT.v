From Coq Require Import List Arith Lia Bool FunctionalExtensionality.
Import ListNotations.
Set Implicit Arguments.

Section JT.
Variable K : Type.
Variables (zero one : K) (add mul : K -> K -> K).
Hypothesis add_comm : forall a b, add a b = add b a.
Hypothesis add_assoc : forall a b c, add a (add b c) = add (add a b) c.
Hypothesis add_0_l : forall a, add zero a = a.
Hypothesis mul_comm : forall a b, mul a b = mul b a.
Hypothesis mul_assoc : forall a b c, mul a (mul b c) = mul (mul a b) c.
Hypothesis mul_1_l : forall a, mul one a = a.
Hypothesis mul_0_l : forall a, mul zero a = zero.
Hypothesis distr_l : forall a b c, mul a (add b c) = add (mul a b) (mul a c).
Variable shape : nat -> nat.

Definition asg := nat -> nat.
Definition upd (x : asg) (a v : nat) : asg := fun b => if Nat.eqb b a then v else x b.
Definition tbl := asg -> K.
Fixpoint sumn (n : nat) (f : nat -> K) : K := match n with O => zero | S m => add (sumn m f) (f m) end.
Definition sum_var (a : nat) (f : tbl) : tbl := fun x => sumn (shape a) (fun v => f (upd x a v)).
Fixpoint sum_vars (l : list nat) (f : tbl) : tbl := match l with [] => f | z :: r => sum_vars r (sum_var z f) end.
Definition indep (a : nat) (f : tbl) := forall x v, f (upd x a v) = f x.
Definition indep_l (l : list nat) (f : tbl) := forall a, In a l -> indep a f.
Definition tmul (f g : tbl) : tbl := fun x => mul (f x) (g x).

Lemma mul_1_r a : mul a one = a. Proof. now rewrite mul_comm, mul_1_l. Qed.
Lemma sumn_ext n f g : (forall i, i < n -> f i = g i) -> sumn n f = sumn n g.
Proof. induction n; simpl; intros H; [reflexivity|]. rewrite IHn, H; auto. Qed.
Lemma sumn_mul_l n c f : sumn n (fun i => mul c (f i)) = mul c (sumn n f).
Proof. induction n; simpl. now rewrite mul_comm, mul_0_l. now rewrite IHn, distr_l. Qed.
Lemma sumn_add n f g : sumn n (fun i => add (f i) (g i)) = add (sumn n f) (sumn n g).
Proof. induction n; simpl. now rewrite add_0_l.
  rewrite IHn. rewrite !add_assoc. f_equal. rewrite <- !add_assoc. f_equal. apply add_comm. Qed.
Lemma sumn_zero m : sumn m (fun _ => zero) = zero.
Proof. induction m; simpl; auto. now rewrite IHm, add_0_l. Qed.
Lemma sumn_exch n m (f : nat -> nat -> K) :
  sumn n (fun i => sumn m (fun j => f i j)) = sumn m (fun j => sumn n (fun i => f i j)).
Proof. induction n; simpl. now rewrite sumn_zero. rewrite IHn. now rewrite sumn_add. Qed.

Lemma upd_comm x a b v w : a <> b -> upd (upd x a v) b w = upd (upd x b w) a v.
Proof. intros H. extensionality c. unfold upd. destruct (Nat.eqb_spec c b), (Nat.eqb_spec c a); subst; congruence. Qed.
Lemma upd_upd x a v w : upd (upd x a v) a w = upd x a w.
Proof. extensionality c. unfold upd. destruct (Nat.eqb_spec c a); auto. Qed.

Lemma sum_var_mul a f g : indep a f -> sum_var a (tmul f g) = tmul f (sum_var a g).
Proof. intros H. extensionality x. unfold sum_var, tmul. rewrite <- sumn_mul_l. apply sumn_ext; intros; now rewrite H. Qed.
Lemma sum_var_indep_self a f : indep a (sum_var a f).
Proof. intros x v. unfold sum_var. apply sumn_ext; intros. now rewrite upd_upd. Qed.
Lemma sum_var_indep a b f : indep a f -> indep a (sum_var b f).
Proof. intros H. destruct (Nat.eq_dec a b) as [->|N]. apply sum_var_indep_self.
  intros x v. unfold sum_var. apply sumn_ext; intros. rewrite upd_comm by auto. apply H. Qed.
Lemma sum_var_exch a b f : sum_var a (sum_var b f) = sum_var b (sum_var a f).
Proof. destruct (Nat.eq_dec a b) as [->|N]; auto. extensionality x. unfold sum_var. rewrite sumn_exch.
  apply sumn_ext; intros j _. apply sumn_ext; intros i _. now rewrite upd_comm. Qed.
Lemma sum_vars_sum_var l a f : sum_vars l (sum_var a f) = sum_var a (sum_vars l f).
Proof. revert f. induction l as [|z r IH]; simpl; intros; auto. rewrite <- IH. f_equal. apply sum_var_exch. Qed.
Lemma sum_vars_app l1 l2 f : sum_vars (l1 ++ l2) f = sum_vars l2 (sum_vars l1 f).
Proof. revert f. induction l1; simpl; intros; auto. Qed.
Lemma sum_vars_mul l f g : indep_l l f -> sum_vars l (tmul f g) = tmul f (sum_vars l g).
Proof. revert g. induction l as [|z r IH]; simpl; intros g H; auto.
  rewrite sum_var_mul by (apply H; now left). apply IH. intros a Ha. apply H. now right. Qed.
Lemma sum_vars_indep l a f : indep a f -> indep a (sum_vars l f).
Proof. revert f. induction l; simpl; intros; auto. apply IHl. now apply sum_var_indep. Qed.
Lemma tmul_indep a f g : indep a f -> indep a g -> indep a (tmul f g).
Proof. intros Hf Hg x v. unfold tmul. now rewrite Hf, Hg. Qed.
Lemma tmul_comm f g : tmul f g = tmul g f. Proof. extensionality x. apply mul_comm. Qed.
Lemma tmul_assoc f g h : tmul f (tmul g h) = tmul (tmul f g) h. Proof. extensionality x. apply mul_assoc. Qed.

(* ---------- rooted junction trees ---------- *)
Variable scope : nat -> list nat.
Variable psi : nat -> tbl.
Hypothesis psi_wf : forall c a, ~ In a (scope c) -> indep a (psi c).

Inductive rt := Node : nat -> list rt -> rt.
Definition tone : tbl := fun _ => one.
Definition prodt (l : list tbl) : tbl := fold_right tmul tone l.
Definition diff (l p : list nat) := filter (fun a => negb (existsb (Nat.eqb a) p)) l.

Fixpoint nodes (t : rt) : list nat := match t with Node c ks => c :: flat_map nodes ks end.
Definition vars (t : rt) := flat_map scope (nodes t).
Fixpoint up (p : list nat) (t : rt) : tbl :=
  match t with Node c ks => sum_vars (diff (scope c) p) (tmul (psi c) (prodt (map (up (scope c)) ks))) end.
Fixpoint elimv (p : list nat) (t : rt) : list nat :=
  match t with Node c ks => flat_map (elimv (scope c)) ks ++ diff (scope c) p end.
Definition jointt (t : rt) : tbl := prodt (map psi (nodes t)).

(* running-intersection, recursive form *)
Fixpoint good (t : rt) : Prop :=
  match t with Node c ks =>
    (fix gk (l : list rt) : Prop :=
       match l with
       | [] => True
       | k :: r => good k
                   /\ (forall a, In a (elimv (scope c) k) -> ~ In a (scope c) /\ forall k', In k' r -> ~ In a (vars k'))
                   /\ (forall k' a, In k' r -> In a (elimv (scope c) k') -> ~ In a (vars k))
                   /\ gk r
       end) ks
  end.

Lemma sum_vars_comm l1 l2 f : sum_vars l1 (sum_vars l2 f) = sum_vars l2 (sum_vars l1 f).
Proof. revert f. induction l1 as [|z r IH]; simpl; intros; auto. rewrite <- IH. f_equal. symmetry. apply sum_vars_sum_var. Qed.

Lemma prodt_app l1 l2 : prodt (l1 ++ l2) = tmul (prodt l1) (prodt l2).
Proof. unfold prodt. induction l1; simpl.
  - extensionality x. unfold tmul, tone. now rewrite mul_1_l.
  - rewrite IHl1. apply tmul_assoc. Qed.

Lemma prodt_indep a l : (forall f, In f l -> indep a f) -> indep a (prodt l).
Proof. unfold prodt. induction l; simpl; intros H. intros x v; reflexivity.
  apply tmul_indep. apply H; now left. apply IHl. intros; apply H; now right. Qed.

Lemma jointt_indep a t : ~ In a (vars t) -> indep a (jointt t).
Proof. intros H. unfold jointt. apply prodt_indep. intros f Hf. apply in_map_iff in Hf. destruct Hf as [c [<- Hc]].
  apply psi_wf. intro Ha. apply H. unfold vars. apply in_flat_map. exists c; auto. Qed.

Lemma jointt_node c ks : jointt (Node c ks) = tmul (psi c) (prodt (map jointt ks)).
Proof. unfold jointt. simpl. f_equal. induction ks as [|k r IH]; simpl; auto.
  rewrite map_app, prodt_app. f_equal. apply IH. Qed.

(* pulling the children's sums out of the product *)
Fixpoint kids_ok (E : rt -> list nat) (g : tbl) (ks : list rt) : Prop :=
  match ks with
  | [] => True
  | k :: r => (forall a, In a (E k) -> indep a g /\ forall k', In k' r -> ~ In a (vars k'))
              /\ (forall k' a, In k' r -> In a (E k') -> ~ In a (vars k))
              /\ kids_ok E g r
  end.

Lemma kids_ok_weaken E g g' ks :
  (forall a k, In k ks -> In a (E k) -> indep a g -> indep a g') -> kids_ok E g ks -> kids_ok E g' ks.
Proof. induction ks as [|k r IH]; simpl; auto. intros W [A [B C]]. split; [|split]; auto.
  - intros a Ha. destruct (A a Ha) as [A1 A2]. split; auto. apply (W a k); auto.
  - apply IH; auto. intros a k' Hk'. apply W. now right. Qed.

Lemma tmul_swap f g h : tmul (tmul f g) h = tmul (tmul f h) g.
Proof. rewrite <- !tmul_assoc. f_equal. apply tmul_comm. Qed.

Lemma pull_sums (E : rt -> list nat) (ks : list rt) : forall g, kids_ok E g ks ->
  tmul g (prodt (map (fun k => sum_vars (E k) (jointt k)) ks)) =
  sum_vars (flat_map E ks) (tmul g (prodt (map jointt ks))).
Proof. induction ks as [|k r IH]; intros g H; simpl; auto.
  destruct H as [H1 [H2 H3]].
  set (S := prodt (map (fun k0 => sum_vars (E k0) (jointt k0)) r)).
  set (PJ := prodt (map jointt r)).
  assert (HS : indep_l (E k) S).
  { intros a Ha. apply prodt_indep. intros f Hf. apply in_map_iff in Hf. destruct Hf as [k' [<- Hk']].
    apply sum_vars_indep. apply jointt_indep. now apply H1. }
  assert (Hg : indep_l (E k) g) by (intros a Ha; now apply H1).
  (* LHS = sum_vars (E k) ((g*S) * Jk) *)
  replace (tmul g (tmul (sum_vars (E k) (jointt k)) S)) with (tmul (tmul g S) (sum_vars (E k) (jointt k))).
  2:{ rewrite <- !tmul_assoc. f_equal. apply tmul_comm. }
  rewrite <- sum_vars_mul.
  2:{ intros a Ha. apply tmul_indep. now apply Hg. now apply HS. }
  rewrite (tmul_swap g S (jointt k)).
  unfold S. rewrite (IH (tmul g (jointt k))).
  - rewrite sum_vars_comm, <- sum_vars_app. fold PJ. now rewrite <- tmul_assoc.
  - eapply kids_ok_weaken; [|exact H3]. intros a k' Hk' Ha Hi. apply tmul_indep; auto.
    apply jointt_indep. now apply (H2 k' a).
Qed.

Lemma good_kids c ks : good (Node c ks) ->
  kids_ok (elimv (scope c)) (psi c) ks /\ Forall good ks.
Proof. simpl. induction ks as [|k r IH]; simpl; intros H. split; auto.
  destruct H as [G [A [B C]]]. destruct (IH C) as [I1 I2]. split; [|constructor; auto].
  split; [|split]; auto. intros a Ha. destruct (A a Ha) as [A1 A2]. split; auto. Qed.

(* nested induction principle *)
Lemma rt_ind' (P : rt -> Prop) : (forall c ks, Forall P ks -> P (Node c ks)) -> forall t, P t.
Proof. intros H. fix IH 1. intros [c ks]. apply H. induction ks; constructor; auto. Qed.

Theorem up_is_subtree_sum : forall t, good t -> forall p, up p t = sum_vars (elimv p t) (jointt t).
Proof. induction t as [c ks IH] using rt_ind'. intros G p.
  destruct (good_kids _ _ G) as [KO GK]. simpl up. simpl elimv.
  assert (E1 : map (up (scope c)) ks = map (fun k => sum_vars (elimv (scope c) k) (jointt k)) ks).
  { apply map_ext_in. intros k Hk. rewrite Forall_forall in IH, GK. apply IH; auto. }
  rewrite E1. rewrite pull_sums by exact KO. rewrite sum_vars_app. now rewrite jointt_node. Qed.

(* belief at the root: psi_r * prod of incoming messages = sum over everything outside scope r *)
Corollary root_belief c ks : good (Node c ks) ->
  tmul (psi c) (prodt (map (up (scope c)) ks)) = sum_vars (flat_map (elimv (scope c)) ks) (jointt (Node c ks)).
Proof. intros G. destruct (good_kids _ _ G) as [KO GK].
  assert (E1 : map (up (scope c)) ks = map (fun k => sum_vars (elimv (scope c) k) (jointt k)) ks).
  { apply map_ext_in. intros k Hk. rewrite Forall_forall in GK. apply up_is_subtree_sum; auto. }
  rewrite E1, pull_sums by exact KO. now rewrite jointt_node. Qed.
End JT.
Print Assumptions root_belief.
