From Coq Require Import List Arith Lia Bool.
Import ListNotations.
Set Implicit Arguments.

Section BP.
Variable K : Type.
Variables (zero one : K) (add mul div : K -> K -> K) (eqz : K -> bool).
Variable shape : nat -> nat.
Definition asg := nat -> nat.
Definition upd (x : asg) (a v : nat) : asg := fun b => if Nat.eqb b a then v else x b.
Definition tbl := asg -> K.
Fixpoint sumn (n : nat) (f : nat -> K) : K := match n with O => zero | Datatypes.S m => add (sumn m f) (f m) end.
Definition sum_var (a : nat) (f : tbl) : tbl := fun x => sumn (shape a) (fun v => f (upd x a v)).
Definition sum_vars (l : list nat) (f : tbl) : tbl := fold_right sum_var f l.

(* memoisation: tabulate f over assignments of vars S *)
Fixpoint enum (S : list nat) : list (list nat) :=
  match S with [] => [[]] | a :: r => flat_map (fun v => map (cons v) (enum r)) (seq 0 (shape a)) end.
Fixpoint asg_of (S : list nat) (vals : list nat) (x : asg) : asg :=
  match S, vals with a :: r, v :: vs => upd (asg_of r vs x) a v | _, _ => x end.
Fixpoint assoc (k : list nat) (t : list (list nat * K)) : K :=
  match t with [] => zero | (k', v) :: r => if list_eq_dec Nat.eq_dec k k' then v else assoc k r end.
Definition memo (S : list nat) (f : tbl) : tbl :=
  let t := map (fun k => (k, f (asg_of S k (fun _ => O)))) (enum S) in
  fun x => assoc (map x S) t.

Variable scope : nat -> list nat.
Definition mem a l := existsb (Nat.eqb a) l.
Definition sepv i j := filter (fun a => mem a (scope j)) (scope i).
Definition elimv i j := filter (fun a => negb (mem a (scope j))) (scope i).

Record st := { bel : nat -> tbl; msgs : list ((nat*nat) * tbl) }.
Fixpoint getm (e : nat*nat) (l : list ((nat*nat)*tbl)) : option tbl :=
  match l with [] => None | ((a,b),m) :: r => if (Nat.eqb a (fst e) && Nat.eqb b (snd e))%bool then Some m else getm e r end.
Definition sdiv a b := if eqz b then a else div a b.
Definition step (s : st) (e : nat*nat) : st :=
  let (i,j) := e in
  let tau := match getm (j,i) (msgs s) with Some m => fun x => sdiv (bel s i x) (m x) | None => bel s i end in
  let m := memo (sepv i j) (sum_vars (elimv i j) tau) in
  {| bel := fun c => if Nat.eqb c j then memo (scope j) (fun x => mul (bel s j x) (m x)) else bel s c;
     msgs := ((i,j), m) :: msgs s |}.
Definition run (psi : nat -> tbl) (sched : list (nat*nat)) : st :=
  fold_left step sched {| bel := fun c => memo (scope c) (psi c); msgs := [] |}.
Definition marg (psi : nat -> tbl) sched (total : K) (c0 c : nat) : list K :=
  let s := run psi sched in
  let Z := sum_vars (scope c0) (bel s c0) (fun _ => O) in
  map (fun k => mul (bel s c (asg_of (scope c) k (fun _ => O))) (sdiv total Z)) (enum (scope c)).
End BP.

From Coq Require Import QArith Qcanon.
Close Scope Qc_scope. Close Scope Q_scope.
(* example: chain a-b-c-d, shapes 2,3,4,5; cliques 0=(0,1) 1=(1,2) 2=(2,3) *)
Definition shp (a : nat) := match a with 0 => 2 | 1 => 3 | 2 => 4 | _ => 5 end.
Definition scp (c : nat) := match c with 0 => [0;1] | 1 => [1;2] | _ => [2;3] end.
Definition psiQ (c : nat) : (nat -> nat) -> Qc := fun x =>
  Q2Qc (Qmake (Z.of_nat (1 + x 0 + 2 * x 1 + 3 * x 2 + x 3 * c)) (Pos.of_nat (1 + c + x 1))).
Definition qeqz (q : Qc) := Qeq_bool q (Qmake 0 1).
Time Eval vm_compute in
  map (fun q : Qc => this q) (marg (Q2Qc 0) Qcplus Qcmult Qcdiv qeqz shp scp psiQ [(0,1);(1,2);(2,1);(1,0)] (Q2Qc (Qmake 10 1)) 0 2).
