(* what the translator is expected to emit for cdp_rho / cdp_eps, and the generic soundness proofs *)
From Coq Require Import Bool Arith.
Set Implicit Arguments.
Section Cdp.
Variable T : Type.
Variables (zero one two : T) (add div : T -> T -> T) (leb : T -> T -> bool).
Variable cdp_delta : T -> T -> T.     (* translated separately; any function here *)

(* def cdp_rho(eps,delta): rhomin=0.0; rhomax=eps+1
     for i in range(1000): rho=(rhomin+rhomax)/2
        if cdp_delta(rho,eps)<=delta: rhomin=rho  else: rhomax=rho
     return rhomin *)
Definition rho_body (eps delta : T) (st : T * T) : T * T :=
  let (rhomin, rhomax) := st in
  let rho := div (add rhomin rhomax) two in
  if leb (cdp_delta rho eps) delta then (rho, rhomax) else (rhomin, rho).
Definition cdp_rho (eps delta : T) : T := fst (Nat.iter 1000 (rho_body eps delta) (zero, add eps one)).

Definition ok (eps delta r : T) := leb (cdp_delta r eps) delta = true.

Lemma rho_inv eps delta n st : ok eps delta (fst st) -> ok eps delta (fst (Nat.iter n (rho_body eps delta) st)).
Proof. intros H. induction n; simpl; auto. destruct (Nat.iter n (rho_body eps delta) st) as [a b]. simpl in *.
  unfold rho_body. destruct (leb (cdp_delta (div (add a b) two) eps) delta) eqn:E; simpl; auto. Qed.

(* holds for every number type, every cdp_delta: in particular for the float run itself *)
Theorem cdp_rho_sound eps delta : ok eps delta zero -> ok eps delta (cdp_rho eps delta).
Proof. intros H. unfold cdp_rho. now apply rho_inv. Qed.
End Cdp.
Print Assumptions cdp_rho_sound.
