let ops = { Ex.n_zero = 0.0; n_add = (+.); n_mul = ( *. ); n_exp = exp; n_ln = log; n_leb = (fun a b -> a <= b) }
let () = Printf.printf "%h\n" (Ex.logsumexp ops [1.0; 2.0; 3.0])
