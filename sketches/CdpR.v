(* prototype of the C07 real-analysis layer: the alpha search of cdp_delta on R *)
From Coq Require Import Reals Lra Lia.
Open Scope R_scope.

Section Delta.
Variables rho eps : R.
Hypothesis Hrho : 0 < rho.
Hypothesis Heps : 0 <= eps.

Definition g (a : R) := (2*a - 1)*rho - eps + ln (1 + - 1 / a).      (* derivative = ... + log1p(-1.0/alpha) *)
Definition amax0 := (eps + 1) / (2*rho) + 2.

(* loop body as the translator emits it: state = (amin, amax, alpha) *)
Definition body (st : R * R * R) : R * R * R :=
  let '(amin, amax, _) := st in
  let alpha := (amin + amax) / 2 in
  if Rlt_dec (g alpha) 0 then (alpha, amax, alpha) else (amin, alpha, alpha).
Definition st0 : R * R * R := (101/100, amax0, 0).
Definition stn (n : nat) := Nat.iter n body st0.
Definition amin_n n := fst (fst (stn n)).
Definition amax_n n := snd (fst (stn n)).
Definition alpha_n n := snd (stn n).

Lemma amax0_ge2 : 2 <= amax0.
Proof. unfold amax0. assert (0 <= (eps + 1) / (2 * rho)). { apply Rlt_le, Rdiv_lt_0_compat; lra. } lra. Qed.

Lemma range_inv n : 101/100 <= amin_n n /\ amin_n n <= amax_n n /\ amax_n n <= amax0.
Proof. unfold amin_n, amax_n, stn. induction n; simpl.
  - pose proof amax0_ge2. lra.
  - destruct (Nat.iter n body st0) as [[a b] c]. simpl in *. unfold body.
    destruct (Rlt_dec (g ((a + b) / 2)) 0); simpl; lra. Qed.

Lemma alpha_in_range n : 101/100 <= alpha_n (S n) <= amax0.
Proof. pose proof (range_inv n) as H. unfold alpha_n, amin_n, amax_n, stn in *. simpl.
  destruct (Nat.iter n body st0) as [[a b] c]. simpl in *. unfold body.
  destruct (Rlt_dec (g ((a + b) / 2)) 0); simpl; lra. Qed.

Lemma width n : amax_n n - amin_n n = (amax0 - 101/100) / 2 ^ n.
Proof. unfold amin_n, amax_n, stn. induction n; simpl.
  - lra.
  - destruct (Nat.iter n body st0) as [[a b] c]. simpl in *. unfold body.
    assert (2 ^ n <> 0) by (apply pow_nonzero; lra).
    destruct (Rlt_dec (g ((a + b) / 2)) 0); simpl.
    + replace (b - (a + b) / 2) with ((b - a) / 2) by lra. rewrite IHn. field. assumption.
    + replace ((a + b) / 2 - a) with ((b - a) / 2) by lra. rewrite IHn. field. assumption. Qed.

(* g is strictly increasing on (1, oo): the log-bound is convex, its stationary point is the optimum *)
Lemma g_increasing a b : 1 < a -> a < b -> g a < g b.
Proof. intros Ha Hab. unfold g.
  assert (0 < 1 + - 1 / a). { assert (1 / a < 1). { apply (Rmult_lt_reg_r a); try lra. unfold Rdiv. rewrite Rmult_assoc, Rinv_l; lra. } lra. }
  assert (1 + - 1 / a < 1 + - 1 / b).
  { assert (/ b < / a) by (apply Rinv_lt_contravar; [apply Rmult_lt_0_compat|]; lra). unfold Rdiv. lra. }
  assert (ln (1 + - 1 / a) < ln (1 + - 1 / b)) by (apply ln_increasing; lra).
  assert ((2 * a - 1) * rho < (2 * b - 1) * rho) by (apply Rmult_lt_compat_r; lra). lra. Qed.

Lemma ln2_lt_1 : ln 2 < 1.
Proof. rewrite <- (ln_exp 1). apply ln_increasing. lra. pose proof (exp_ineq1 1). lra. Qed.

Lemma g_amax0_pos : 0 < g amax0.
Proof. unfold g. pose proof amax0_ge2 as A.
  replace ((2 * amax0 - 1) * rho - eps) with (1 + 3 * rho). 2:{ unfold amax0. field. apply Rgt_not_eq. lra. }
  assert (/ 2 <= 1 + - 1 / amax0).
  { assert (/ amax0 <= / 2) by (apply Rinv_le_contravar; lra). unfold Rdiv. lra. }
  assert (ln (/ 2) <= ln (1 + - 1 / amax0)).
  { destruct H as [H|H]. apply Rlt_le, ln_increasing; lra. rewrite <- H. lra. }
  rewrite ln_Rinv in H0 by lra. pose proof ln2_lt_1. lra. Qed.

(* the bisection keeps the sign change of g inside the bracket *)
Lemma bracket n : (g (amin_n n) < 0 \/ amin_n n = 101/100) /\ 0 <= g (amax_n n).
Proof. unfold amin_n, amax_n, stn. induction n; simpl.
  - split. now right. apply Rlt_le, g_amax0_pos.
  - destruct (Nat.iter n body st0) as [[a b] c]. simpl in *. unfold body.
    destruct IHn as [I1 I2].
    destruct (Rlt_dec (g ((a + b) / 2)) 0) as [L|L]; simpl; split.
    + now left.
    + exact I2.
    + exact I1.
    + lra. Qed.

(* every point where the derivative is negative lies left of amax_n, every point where it is
   non-negative lies right of amin_n (unless clamped at 1.01): the optimum of the Renyi bound is bracketed *)
Theorem optimum_bracketed n a : 101/100 <= a ->
  (g a < 0 -> a < amax_n n) /\ (0 <= g a -> amin_n n <= a).
Proof. intros Ha. pose proof (bracket n) as [B1 B2]. pose proof (range_inv n) as [R1 [R2 R3]]. split; intros G.
  - destruct (Rlt_dec a (amax_n n)); auto. exfalso.
    destruct (Req_dec a (amax_n n)) as [->|N]. lra.
    assert (g (amax_n n) < g a) by (apply g_increasing; lra). lra.
  - destruct B1 as [B1|B1]; [|lra].
    destruct (Rle_dec (amin_n n) a); auto. exfalso.
    assert (g a < g (amin_n n)) by (apply g_increasing; lra). lra. Qed.
End Delta.
Print Assumptions optimum_bracketed.
