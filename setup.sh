#!/bin/bash
# Full clean build of the Coq development, extraction, and the OCaml model runner. Offline.
set -e
cd "$(dirname "$0")"
export LC_ALL=C
mkdir -p build evidence replays coq/Gen
/venv/bin/python translator/py2gallina.py /repo/mechanisms/cdp2adp.py coq/Gen/Cdp2adp_gen.v cdp_delta_standard cdp_delta cdp_eps cdp_rho || echo "translator failed (C07 will report it)"
/venv/bin/python translator/py2gallina_list.py /repo/src/mbi/domain.py coq/Gen/Domain_gen.v domain || echo "domain translator failed (C15 will report it)"
/venv/bin/python translator/py2gallina_budget.py /repo/mechanisms coq/Gen/Budget_gen.v || echo "budget translator failed (C05 will report it)"
/venv/bin/python translator/py2gallina_bp.py /repo/src/mbi/graphical_model.py coq/Gen/BP_gen.v || echo "belief_propagation translator failed (C01 will report it)"
/venv/bin/python translator/py2gallina_mp.py /repo/src/mbi/junction_tree.py coq/Gen/MpOrder_gen.v || echo "mp_order translator failed (C12 will report it)"
( cd coq && coq_makefile -f _CoqProject -o Makefile >/dev/null && timeout 3000 make -k -j"${VERIF_JOBS:-16}" || true; rm -f model.ml model.mli cdp_model.ml cdp_model.mli num_model.ml num_model.mli gen_model.ml gen_model.mli )
./harness/build_model.sh main
./harness/build_model.sh num
./harness/build_model.sh cdp || echo "cdp runner not built (C07 will report it)"
./harness/build_model.sh gen || echo "gen runner not built (C15 / C01 will report it)"
echo "setup ok"
