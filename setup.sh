#!/bin/bash
# Full clean build of the Coq development, extraction, and the OCaml model runner. Offline.
set -e
cd "$(dirname "$0")"
export LC_ALL=C
mkdir -p build evidence replays
( cd coq && coq_makefile -f _CoqProject -o Makefile >/dev/null && timeout 3000 make -j"${VERIF_JOBS:-16}" )
./harness/build_model.sh
echo "setup ok"
