(* Extraction of the numeric (float-executed) hand-written models: selection primitives (C20), ledgers (C05), reweighting (C19),
   region-graph sweeps (C16-C18).  The float operations are a record argument supplied by ocaml/num/num_main.ml. *)
From Coq Require Import ZArith List.
From Coq Require Import extraction.ExtrOcamlBasic.
Require Import PGM.Base.Num PGM.Model.Select PGM.Model.Ledger PGM.Model.Public PGM.Model.Region.
Extraction Language OCaml.
Extraction "num_model.ml" Select.em_mechanism Select.em_mst Select.em_adagrid Select.em_mwem Select.laplace_scale Select.gaussian_scale Select.softmax Select.lse_probs
  Ledger.mst_events Ledger.mwem_events Ledger.adagrid_events Ledger.aim_events Ledger.mwem_lap_events Ledger.total Ledger.cost
  Public.emd_run
  Region.hps_run Region.gbp_run Region.lbp_run.
