(* Extraction of the executable models (ExtrOcamlBasic only; Z/positive/Q stay Coq datatypes). *)
From Coq Require Import List Arith ZArith QArith Qcanon.
From Coq Require Import extraction.ExtrOcamlBasic.
Require Import PGM.Base.Alg PGM.Base.Sums PGM.Base.Qnn PGM.Model.Domain PGM.Model.Dataset PGM.Model.Factor PGM.Model.XQ PGM.Model.BP PGM.Model.JTree PGM.Model.LBP PGM.Model.Query PGM.Model.Loss PGM.Model.Synth.
Extraction Language OCaml.
Extraction "model.ml"
  QcSR QnnSF Qc_of Qnn_of Qc_num Qc_den qv
  Domain.project Domain.marginalize Domain.invert Domain.axes Domain.merge Domain.contains Domain.size
  Domain.size_of Domain.canonical Domain.sort_size Domain.sort_name Domain.dom_eqb
  Dataset.datavector Dataset.dproject
  Factor.expand Factor.transpose Factor.fmap Factor.fbin Factor.fibin Factor.fagg Factor.fproject Factor.condition
  Factor.cv_bin Factor.cv_combine Factor.cv_get Factor.tabulate Factor.tbl_of
  xadd xsub xmul xdiv xmax xzero xninf
  BP.marginal_table BP.jt_okb BP.structb BP.vschedb BP.completeb BP.rootokb BP.brute BP.root_tree
  LBP.lbp_tables
  JTree.jt_cliques JTree.greedy_order JTree.coverb JTree.attrs_coverb JTree.antichainb JTree.eliminate
  Query.ve Query.project_ve Query.project_cached Query.table_of Query.krondot Query.qfactor Query.pots
  Loss.total_loss Loss.group_of Loss.lip_group_of Loss.ivw Loss.est_of Loss.var_of Loss.loss_m Loss.grad_m Loss.tmatvec
  Synth.round_col Synth.valid_idx Synth.scaled.
