(* Extraction of the GENERATED cdp2adp functions (polymorphic in the number type; the float operations are an
   ordinary record argument supplied by ocaml/cdp/cdp_main.ml — no Extract Constant, no Parameter). *)
From Coq Require Import ZArith.
From Coq Require Import extraction.ExtrOcamlBasic.
Require Import PGM.Base.Num PGM.Gen.Cdp2adp_gen.
Extraction Language OCaml.
Extraction "cdp_model.ml" cdp_delta_standard cdp_delta cdp_eps cdp_rho cdp_delta_pre cdp_eps_pre cdp_rho_pre.
