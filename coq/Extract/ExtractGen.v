(* Extraction of the definitions GENERATED from the Python source (Gen/Domain_gen.v from src/mbi/domain.py, Gen/BP_gen.v from
   GraphicalModel.belief_propagation) together with the few model functions the driver needs to read inputs / print tables.
   ExtrOcamlBasic only; the module is called Model so that ocaml/io.ml can be shared with the main runner. *)
From Coq Require Import List Arith ZArith QArith Qcanon.
From Coq Require Import extraction.ExtrOcamlBasic.
Require Import PGM.Base.Alg PGM.Base.Sums PGM.Base.Qnn PGM.Base.PyList PGM.Base.PyFactor PGM.Model.Domain PGM.Model.Dataset PGM.Model.Factor PGM.Model.BP.
Require Import PGM.Gen.Domain_gen PGM.Gen.BP_gen PGM.Gen.MpOrder_gen.
Extraction Language OCaml.
Extraction "model.ml"
  QcSR QnnSF Qc_of Qnn_of Qc_num Qc_den qv
  Domain.lookup Domain.attrs Factor.tbl_of Factor.asg_of Dataset.cells BP.mat BP.lk
  DomainGen.init DomainGen.project DomainGen.marginalize DomainGen.axes DomainGen.transpose DomainGen.invert DomainGen.merge
  DomainGen.contains DomainGen.size DomainGen.sort DomainGen.canonical DomainGen.dunder_contains DomainGen.dunder_getitem
  DomainGen.dunder_len DomainGen.dunder_eq
  BP_gen.belief_propagation BP_gen.mle
  MpOrder_gen.mp_order_messages MpOrder_gen.mp_order_edges.
