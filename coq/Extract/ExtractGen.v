(* Extraction of the definitions GENERATED from src/mbi/domain.py (Gen/Domain_gen.v); ExtrOcamlBasic only. *)
From Coq Require Import List Arith.
From Coq Require Import extraction.ExtrOcamlBasic.
Require Import PGM.Base.PyList PGM.Gen.Domain_gen.
Extraction Language OCaml.
Extraction "gen_model.ml"
  DomainGen.init DomainGen.project DomainGen.marginalize DomainGen.axes DomainGen.transpose DomainGen.invert DomainGen.merge
  DomainGen.contains DomainGen.size DomainGen.sort DomainGen.canonical DomainGen.dunder_contains DomainGen.dunder_getitem
  DomainGen.dunder_len DomainGen.dunder_eq.
