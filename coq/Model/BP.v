(* Model of GraphicalModel.belief_propagation (src/mbi/graphical_model.py:148-176), line by line, over an
   abstract zero-sum-free semifield (log-space + / - / logsumexp of the code = * / guarded-division / sum here,
   with a - (-inf) := a i.e. x / 0 := x, factor.py:161-165).  Arrays are materialised as tries over the
   attributes of the domain.  Also: rooted junction trees derived from the message schedule, the boolean
   junction-tree / schedule checkers, and the brute-force reference.  Definitions only. *)
From Coq Require Import List Arith Bool.
Import ListNotations.
Require Import PGM.Base.Alg PGM.Base.Sums PGM.Model.Domain PGM.Model.Dataset PGM.Model.Factor.
Set Implicit Arguments.

Definition others (j : nat) (l : list nat) := filter (fun k => negb (Nat.eqb k j)) l.
Definition edge_eqb (e e' : nat * nat) := (Nat.eqb (fst e) (fst e') && Nat.eqb (snd e) (snd e'))%bool.
Definition memE (e : nat * nat) (l : list (nat * nat)) := existsb (edge_eqb e) l.
Fixpoint nodupb (l : list nat) : bool := match l with [] => true | a :: r => (negb (memb a r) && nodupb r)%bool end.
Definition count (a : nat) (l : list nat) := length (filter (Nat.eqb a) l).
Definition permb (l1 l2 : list nat) : bool := forallb (fun a => Nat.eqb (count a l1) (count a l2)) (l1 ++ l2).

(* rooted trees of clique indices *)
Inductive rt := Node : nat -> list rt -> rt.
Fixpoint nodes (t : rt) : list nat := match t with Node c ks => c :: flat_map nodes ks end.

Section BP.
Variable R : SF.
Notation K := (car R).
Notation zero := (zero R). Notation one := (one R). Notation add := (add R). Notation mul := (mul R).
Variable shape : nat -> nat.
Variable D : list nat.                (* the attributes of the domain *)
Variable ncl : nat.                   (* cliques are 0 .. ncl-1 *)
Variable scope : nat -> list nat.
Variable nbrs : nat -> list nat.
Variable psi : nat -> tbl R.

(* ---- materialised tables ---- *)
Inductive trie := Leaf (v : K) | Br (l : list trie).
Definition base0 : asg := fun _ => 0.
Fixpoint build (Dl : list nat) (f : tbl R) (base : asg) : trie :=
  match Dl with
  | [] => Leaf (f base)
  | a :: r => Br (map (fun v => build r f (upd base a v)) (seq 0 (shape a)))
  end.
Fixpoint look (Dl : list nat) (t : trie) (x : asg) : K :=
  match Dl, t with
  | [], Leaf v => v
  | a :: r, Br l => match nth_error l (x a) with Some t' => look r t' x | None => zero end
  | _, _ => zero
  end.
Definition mat (f : tbl R) : trie := build D f base0.
Definition lk (t : trie) : tbl R := look D t.

(* ---- the run ---- *)
Definition sdiv (a b : K) := if eqz R b then a else div R a b.
Definition elimv (i j : nat) := diff (scope i) (scope j).
Record st := { belt : list trie; sent : list ((nat * nat) * trie) }.
Fixpoint getm (e : nat * nat) (l : list ((nat * nat) * trie)) : option trie :=
  match l with [] => None | (e', m) :: r => if edge_eqb e' e then Some m else getm e r end.
Definition bel (s : st) (c : nat) : tbl R := lk (nth c (belt s) (Leaf zero)).
Fixpoint replace (A : Type) (n : nat) (x : A) (l : list A) : list A :=
  match l, n with [], _ => [] | _ :: r, O => x :: r | y :: r, S m => y :: replace m x r end.
(* for i,j in message_order:  tau = beliefs[i] - messages[(j,i)] if (j,i) sent else beliefs[i];
   messages[(i,j)] = tau.logsumexp(scope i \ scope j);  beliefs[j] += messages[(i,j)] *)
Definition step (s : st) (e : nat * nat) : st :=
  let (i, j) := e in
  let tau : tbl R := match getm (j, i) (sent s) with
                     | Some m => fun x => sdiv (bel s i x) (lk m x)
                     | None => bel s i end in
  let m := mat (@sum_vars R shape (elimv i j) tau) in
  {| belt := replace j (mat (fun x => mul (bel s j x) (lk m x))) (belt s);
     sent := ((i, j), m) :: sent s |}.
Definition init : st := {| belt := map (fun c => mat (psi c)) (seq 0 ncl); sent := [] |}.
Definition run (sch : list (nat * nat)) (s : st) : st := fold_left step sch s.
(* logZ = logsumexp(beliefs[cliques[0]]); beliefs[cl] += log(total) - logZ; exp *)
Definition Zof (s : st) (c0 : nat) : K := @sum_vars R shape (scope c0) (bel s c0) base0.
Definition marginal (sch : list (nat * nat)) (total : K) (c0 c : nat) : tbl R :=
  let s := run sch init in fun x => mul (bel s c x) (div R total (Zof s c0)).

(* all clique marginals at once (what the driver prints): one run, every cell of every clique in row-major scope order *)
Definition marginal_table (sch : list (nat * nat)) (total : K) (c0 : nat) : K * list (list K) :=
  let s := run sch init in
  let z := Zof s c0 in
  (z, map (fun c => map (fun cell => mul (bel s c (asg_of (scope c) cell)) (div R total z)) (cells (map shape (scope c)))) (seq 0 ncl)).

(* ---- brute-force reference: the explicit joint ---- *)
Definition joint : tbl R := @prodt R (map psi (seq 0 ncl)).
Definition brute (total : K) (S : list nat) : tbl R :=
  fun x => mul (@sum_vars R shape (diff D S) joint x) (div R total (@sum_vars R shape D joint base0)).

(* ---- rooted trees read off the schedule ---- *)
Fixpoint gett (e : nat * nat) (l : list ((nat * nat) * rt)) : option rt :=
  match l with [] => None | (e', t) :: r => if edge_eqb e' e then Some t else gett e r end.
Definition tree_of (ts : list ((nat * nat) * rt)) (k i : nat) : rt :=
  match gett (k, i) ts with Some t => t | None => Node k [] end.
Definition tstep (ts : list ((nat * nat) * rt)) (e : nat * nat) : list ((nat * nat) * rt) :=
  let (i, j) := e in ((i, j), Node i (map (fun k => tree_of ts k i) (others j (nbrs i)))) :: ts.
Definition trees (sch : list (nat * nat)) := fold_left tstep sch [].
Definition root_tree (sch : list (nat * nat)) (c : nat) : rt := Node c (map (fun k => tree_of (trees sch) k c) (nbrs c)).

Definition vars (t : rt) := flat_map scope (nodes t).
Fixpoint elimt (p : list nat) (t : rt) : list nat :=
  match t with Node c ks => flat_map (elimt (scope c)) ks ++ diff (scope c) p end.
(* running intersection, recursive form (boolean) *)
Definition disjb (l1 l2 : list nat) : bool := forallb (fun a => negb (memb a l2)) l1.
Fixpoint goodb (t : rt) : bool :=
  match t with Node c ks =>
    (fix gk (l : list rt) : bool :=
       match l with
       | [] => true
       | k :: r => (goodb k && disjb (elimt (scope c) k) (scope c)
                    && forallb (fun k' => disjb (elimt (scope c) k) (vars k')) r
                    && forallb (fun k' => disjb (elimt (scope c) k') (vars k)) r
                    && gk r)%bool
       end) ks
  end.

(* ---- schedule / structure checkers ---- *)
Definition vstepb (done : list (nat * nat)) (e : nat * nat) : bool :=
  (memb (snd e) (nbrs (fst e)) && negb (memE e done)
   && forallb (fun k => Nat.eqb k (snd e) || memE (k, fst e) done) (nbrs (fst e)))%bool.
Fixpoint vschedb (done sch : list (nat * nat)) : bool :=
  match sch with [] => true | e :: r => (vstepb done e && vschedb (e :: done) r)%bool end.
Definition completeb (sch : list (nat * nat)) : bool :=
  forallb (fun c => forallb (fun k => memE (k, c) sch) (nbrs c)) (seq 0 ncl).
Definition structb : bool :=
  (nodupb D && forallb (fun c => nodupb (nbrs c) && forallb (fun k => Nat.ltb k ncl && memb c (nbrs k)) (nbrs c)
                                && nodupb (scope c) && subsetb (scope c) D)%bool (seq 0 ncl))%bool.
Definition rootokb (sch : list (nat * nat)) (c : nat) : bool :=
  let t := root_tree sch c in
  (goodb t && permb (nodes t) (seq 0 ncl) && permb (flat_map (elimt (scope c)) (match t with Node _ ks => ks end)) (diff D (scope c)))%bool.
Definition jt_okb (sch : list (nat * nat)) : bool :=
  (structb && vschedb [] sch && completeb sch && forallb (rootokb sch) (seq 0 ncl) && Nat.ltb 0 ncl)%bool.
End BP.
