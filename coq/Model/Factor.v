(* Model of src/mbi/factor.py and clique_vector.py.
   A factor is a domain plus its values in row-major order (what numpy stores).  Every operation is
   "materialise (tabulate) over the result domain the table obtained from the operands' tables
   addressed by attribute NAME" — the semantics that reshape/moveaxis/broadcast_to, sum(axis=...),
   fancy indexing are used to implement in the code.  numpy itself is modelled, not verified: the
   correspondence run ties these definitions to the code on every run.  Generic in the value type. *)
From Coq Require Import List Arith Bool.
Import ListNotations.
Require Import PGM.Base.Sums PGM.Model.Domain PGM.Model.Dataset.
Set Implicit Arguments.

Section Factor.
Variable K : Type.
Variable dflt : K.

Record factor := mkF { fdom : dom; fvals : list K }.

Definition cell_of (l : list nat) (x : asg) : list nat := map x l.
Definition asg_of (l : list nat) (c : list nat) : asg :=
  fun a => match index_of a l with Some i => nth i c 0 | None => 0 end.
(* the table of a factor, addressed by attribute name *)
Definition tbl_of (f : factor) : asg -> K :=
  fun x => nth (ravel (dshape (fdom f)) (cell_of (attrs (fdom f)) x)) (fvals f) dflt.
Definition tabulate (d : dom) (t : asg -> K) : factor :=
  {| fdom := d; fvals := map (fun c => t (asg_of (attrs d) c)) (cells (dshape d)) |}.

(* ---- unary structure ---- *)
Definition expand (f : factor) (d' : dom) : option factor :=
  if contains d' (fdom f) then Some (tabulate d' (tbl_of f)) else None.
Definition seteqb (l m : list nat) := (subsetb l m && subsetb m l)%bool.
Definition transpose (f : factor) (l : list nat) : option factor :=
  if seteqb l (attrs (fdom f)) then
    match project (fdom f) l with Some d' => Some (tabulate d' (tbl_of f)) | None => None end
  else None.
Definition fmap (g : K -> K) (f : factor) : factor := {| fdom := fdom f; fvals := map g (fvals f) |}.

(* ---- binary operations through the merged domain ---- *)
Definition fbin (op : K -> K -> K) (f g : factor) : option factor :=
  match merge (fdom f) (fdom g) with
  | Some d => Some (tabulate d (fun x => op (tbl_of f x) (tbl_of g x)))
  | None => None end.
(* in-place variants: the other operand is expanded to self's domain *)
Definition fibin (op : K -> K -> K) (f g : factor) : option factor :=
  if contains (fdom f) (fdom g) then Some (tabulate (fdom f) (fun x => op (tbl_of f x) (tbl_of g x))) else None.

(* ---- aggregation over a list of attributes (sum / max / logsumexp) ---- *)
Fixpoint foldn (op : K -> K -> K) (u : K) (n : nat) (h : nat -> K) : K :=
  match n with O => u | S m => op (foldn op u m h) (h m) end.
Definition fold_var (op : K -> K -> K) (u : K) (shape : nat -> nat) (a : nat) (t : asg -> K) : asg -> K :=
  fun x => foldn op u (shape a) (fun v => t (upd x a v)).
Fixpoint fold_vars (op : K -> K -> K) (u : K) (shape : nat -> nat) (l : list nat) (t : asg -> K) : asg -> K :=
  match l with [] => t | a :: r => fold_vars op u shape r (fold_var op u shape a t) end.
Definition fagg (op : K -> K -> K) (u : K) (f : factor) (l : list nat) : option factor :=
  match axes (fdom f) l, marginalize (fdom f) l with
  | Some _, Some d' => Some (tabulate d' (fold_vars op u (key_size (fdom f)) l (tbl_of f)))
  | _, _ => None end.
(* Factor.project: aggregate the other attributes, then transpose to the requested order *)
Definition fproject (op : K -> K -> K) (u : K) (f : factor) (l : list nat) : option factor :=
  match fagg op u f (invert (fdom f) l) with
  | Some g => transpose g l
  | None => None end.

(* ---- conditioning on evidence (attribute, value) ---- *)
Fixpoint override (ev : list (nat * nat)) (x : asg) : asg :=
  match ev with [] => x | (a, v) :: r => upd (override r x) a v end.
Definition evidence_ok (d : dom) (ev : list (nat * nat)) : bool :=
  forallb (fun p => match lookup d (fst p) with Some n => Nat.ltb (snd p) n | None => true end) ev.
Definition condition (f : factor) (ev : list (nat * nat)) : option factor :=
  if evidence_ok (fdom f) ev then
    match marginalize (fdom f) (map fst ev) with
    | Some d' => Some (tabulate d' (fun x => tbl_of f (override ev x)))
    | None => None end
  else None.

(* ---- collections of factors (CliqueVector) ---- *)
Definition cvec := list (list nat * factor).
Definition cv_map (g : factor -> factor) (v : cvec) : cvec := map (fun p => (fst p, g (snd p))) v.
Fixpoint cv_get (cl : list nat) (v : cvec) : option factor :=
  match v with [] => None | (c, f) :: r => if list_eqb c cl then Some f else cv_get cl r end.
(* CliqueVector.__add__/__sub__...: clique by clique, keyed by self's cliques *)
Definition cv_bin (op : K -> K -> K) (v w : cvec) : option cvec :=
  fold_right (fun p acc => match acc, cv_get (fst p) w with
                           | Some r, Some g => match fbin op (snd p) g with Some h => Some ((fst p, h) :: r) | None => None end
                           | _, _ => None end) (Some []) v.
(* CliqueVector.combine: each factor of `other` is added (in place) into the FIRST clique of self containing it; others are ignored *)
Fixpoint add_into (op : K -> K -> K) (cl : list nat) (g : factor) (v : cvec) : cvec :=
  match v with
  | [] => []
  | (c, f) :: r => if subsetb cl c then
                     match fibin op f g with Some h => (c, h) :: r | None => (c, f) :: r end
                   else (c, f) :: add_into op cl g r
  end.
Definition cv_combine (op : K -> K -> K) (v other : cvec) : cvec :=
  fold_left (fun acc p => add_into op (fst p) (snd p) acc) other v.
End Factor.
