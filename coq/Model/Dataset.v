(* Model of src/mbi/dataset.py: records are lists of values in the column order of the domain,
   with one weight per record (weights=None is the all-ones vector).
   datavector accumulates each record's weight at the row-major index of its cell
   (numpy.histogramdd with unit bins followed by flatten). *)
From Coq Require Import List Arith Bool.
Import ListNotations.
Require Import PGM.Base.Alg PGM.Base.Sums PGM.Model.Domain.
Set Implicit Arguments.

(* all cells of a shape in row-major (C) order *)
Fixpoint cells (shape : list nat) : list (list nat) :=
  match shape with [] => [[]] | n :: ns => flat_map (fun v => map (cons v) (cells ns)) (seq 0 n) end.
Fixpoint list_eqb (a b : list nat) : bool :=
  match a, b with [], [] => true | x :: a', y :: b' => Nat.eqb x y && list_eqb a' b' | _, _ => false end.
(* row-major (C order) flat index of a cell *)
Fixpoint ravel (shape cell : list nat) : nat :=
  match shape, cell with
  | n :: ns, v :: vs => v * prodn ns + ravel ns vs
  | _, _ => 0
  end.

Section Dataset.
Variable R : SR.
Notation K := (car R).

Record dataset := { ddom : dom; rows : list (list nat); weights : list K }.

Fixpoint hist (shape : list nat) (rs : list (list nat)) (ws : list K) : nat -> K :=
  match rs, ws with
  | r :: rs', w :: ws' => let h := hist shape rs' ws' in let i := ravel shape r in
                          fun j => if Nat.eqb j i then add R (h j) w else h j
  | _, _ => fun _ => zero R
  end.
Definition datavector (D : dataset) : list K :=
  map (hist (dshape (ddom D)) (rows D) (weights D)) (seq 0 (size (ddom D))).

(* Dataset.project: select the columns `cols` (in that order), keep the weights *)
Definition select (ax : list nat) (r : list nat) : list nat := map (fun i => nth i r 0) ax.
Definition dproject (D : dataset) (cols : list nat) : option dataset :=
  match project (ddom D) cols, axes (ddom D) cols with
  | Some d', Some ax => Some {| ddom := d'; rows := map (select ax) (rows D); weights := weights D |}
  | _, _ => None
  end.
End Dataset.
