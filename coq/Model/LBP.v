(* Executable model of FactorGraph.loopy_belief_propagation (src/mbi/factor_graph.py:86-119, 160-168) over a semifield, on the bipartite
   graph whose nodes are the factors and the variables: node scopes, neighbour lists and potentials are inputs (a variable node has scope
   [v] and potential one).  Messages are materialised tables (tries of Model/BP.v); a missing message is the constant one (the code
   starts from log-messages 0).  One step recomputes a LIST of directed edges from the current messages (all of them from the same old
   state, as the code's loops do) and optionally rescales each new message by 1/its total mass (`-= logsumexp`).
   A sweep of the code = step over all factor->variable edges with rescaling, then step over all variable->factor edges without. *)
From Coq Require Import List Arith Bool.
Import ListNotations.
Require Import PGM.Base.Alg PGM.Base.Sums PGM.Model.BP.
Set Implicit Arguments.

Section LBP.
Variable R : SF.
Notation K := (car R).
Variable shape : nat -> nat.
Variable D : list nat.
Variable scope : nat -> list nat.
Variable nbrs : nat -> list nat.
Variable psi : nat -> tbl R.
Notation trie := (@trie R).
Notation lk := (@lk R D).
Notation mat := (@mat R shape D).

Definition msgs := list ((nat * nat) * trie).
Definition getmsg (m : msgs) (i j : nat) : tbl R := match getm (i, j) m with Some t => lk t | None => fun _ => one R end.
Definition prodK (l : list K) : K := fold_right (mul R) (one R) l.
(* the recomputed message i -> j as a function of the current messages (division-free form) *)
Definition flood_of (M : nat -> nat -> tbl R) (i j : nat) : tbl R :=
  @sum_vars R shape (elimv scope i j) (fun y => mul R (psi i y) (prodK (map (fun k => M k i y) (others j (nbrs i))))).
(* 1 / total mass of a message over its separator (guarded: mass 0 leaves the message as it is) *)
Definition norm_of (normalise : bool) (f : tbl R) (sep : list nat) : K :=
  if normalise then (let s := @sum_vars R shape sep f base0 in if eqz R s then one R else div R (one R) s) else one R.
Definition sep (i j : nat) : list nat := inter (scope i) (scope j).
Definition new_msg (normalise : bool) (M : nat -> nat -> tbl R) (i j : nat) : tbl R :=
  let f := flood_of M i j in let c := norm_of normalise f (sep i j) in fun x => mul R c (f x).
(* (the scalar is computed once per message, outside the table: extraction keeps the lets in front of the function) *)
Definition mstep (es : list (nat * nat)) (normalise : bool) (m : msgs) : msgs :=
  map (fun e => let f := flood_of (getmsg m) (fst e) (snd e) in let c := norm_of normalise f (sep (fst e) (snd e)) in
                (e, mat (fun x => mul R c (f x)))) es ++ m.
(* one sweep of the code: factor -> variable (rescaled), then variable -> factor *)
Definition lbp_sweep (fv vf : list (nat * nat)) (m : msgs) : msgs := mstep vf false (mstep fv true m).
Definition lbp_run (fv vf : list (nat * nat)) (sweeps : nat) : msgs := Nat.iter sweeps (lbp_sweep fv vf) [].
(* clique_marginals: belief of node c = psi_c * product of the incoming messages, normalised by its own mass to the total *)
Definition belief (m : msgs) (c : nat) : tbl R := fun x => mul R (psi c x) (prodK (map (fun k => getmsg m k c x) (nbrs c))).
Definition lbp_marginal (fv vf : list (nat * nat)) (sweeps : nat) (total : K) (c : nat) : tbl R :=
  let m := lbp_run fv vf sweeps in
  fun x => mul R (belief m c x) (div R total (@sum_vars R shape (scope c) (belief m c) base0)).
(* all factor tables at once (what the driver prints): one run, one normaliser per factor; cellsof c = the assignments to print for node c *)
Definition lbp_tables (fv vf : list (nat * nat)) (sweeps : nat) (total : K) (nf : nat) (cellsof : nat -> list asg) : list (list K) :=
  let m := lbp_run fv vf sweeps in
  map (fun c => let k := div R total (@sum_vars R shape (scope c) (belief m c) base0) in map (fun x => mul R (belief m c x) k) (cellsof c)) (seq 0 nf).
End LBP.
