(* Model of FactoredInference._marginal_loss / _setup grouping / total estimation (src/mbi/inference.py), over the
   rationals (exact).  Vectors and matrices are functions on indices with explicit dimensions.
   A measurement is (Q : m x p, y : m, noise sigma given as c = 1/sigma, proj).  *)
From Coq Require Import List Arith Bool QArith Qcanon.
Import ListNotations.
Require Import PGM.Base.Alg PGM.Base.Sums PGM.Base.Qnn PGM.Model.Domain.
Local Open Scope Qc_scope.

Definition vec := nat -> Qc.
Definition qmat := nat -> nat -> Qc.
Definition qsum (n : nat) (f : nat -> Qc) : Qc := @sumn QcSR n f.
Definition dot (n : nat) (u v : vec) : Qc := qsum n (fun i => u i * v i).
Definition matvec (Q : qmat) (p : nat) (x : vec) : vec := fun i => dot p (Q i) x.
Definition tmatvec (Q : qmat) (m : nat) (r : vec) : vec := fun j => qsum m (fun i => Q i j * r i).
Definition half : Qc := / (1 + 1).

(* diff = c*(Q @ x - y);  loss += 0.5*(diff @ diff);  grad = c*(Q.T @ diff) *)
Definition resid (Q : qmat) (m p : nat) (y : vec) (c : Qc) (x : vec) : vec := fun i => c * (matvec Q p x i - y i).
Definition loss_m (Q : qmat) (m p : nat) (y : vec) (c : Qc) (x : vec) : Qc := half * dot m (resid Q m p y c x) (resid Q m p y c x).
Definition grad_m (Q : qmat) (m p : nat) (y : vec) (c : Qc) (x : vec) : vec := fun j => c * tmatvec Q m (resid Q m p y c x) j.
(* L1 metric *)
Definition qabs (q : Qc) : Qc := if Qclt_le_dec q 0 then - q else q.
Definition qsign (q : Qc) : Qc := if Qclt_le_dec q 0 then - (1) else if Qc_eq_dec q 0 then 0 else 1.
Definition loss1_m (Q : qmat) (m p : nat) (y : vec) (c : Qc) (x : vec) : Qc := qsum m (fun i => qabs (resid Q m p y c x i)).
Definition grad1_m (Q : qmat) (m p : nat) (y : vec) (c : Qc) (x : vec) : vec := fun j => c * tmatvec Q m (fun i => qsign (resid Q m p y c x i)) j.

(* _setup: each measurement goes to the FIRST clique, in sorted(cliques, key=size) (stable), that contains its projection *)
Fixpoint first_containing (proj : list nat) (cands : list (nat * list nat)) : option nat :=
  match cands with [] => None | (i, cl) :: r => if subsetb proj cl then Some i else first_containing proj r end.
Fixpoint insert_by_size (size : list nat -> nat) (c : nat * list nat) (l : list (nat * list nat)) : list (nat * list nat) :=
  match l with [] => [c] | d :: r => if Nat.leb (size (snd c)) (size (snd d)) then c :: l else d :: insert_by_size size c r end.
Definition sorted_cliques (size : list nat -> nat) (cliques : list (list nat)) : list (nat * list nat) :=
  fold_right (insert_by_size size) [] (combine (seq 0 (length cliques)) cliques).
Definition group_of (size : list nat -> nat) (cliques : list (list nat)) (proj : list nat) : option nat :=
  first_containing proj (sorted_cliques size cliques).
(* _lipschitz uses model.cliques in their own order *)
Definition lip_group_of (cliques : list (list nat)) (proj : list nat) : option nat :=
  first_containing proj (combine (seq 0 (length cliques)) cliques).

(* total estimation (_setup / estimate_total): v is the lsmr output (an oracle input); accepted iff Q^T v = 1 *)
Definition est_of (m : nat) (v y : vec) : Qc := dot m v y.
Definition var_of (m : nat) (v : vec) (sigma : Qc) : Qc := sigma * sigma * dot m v v.
(* inverse-variance weighted combination of (estimate, variance) pairs, at least 1 *)
Definition ivw (l : list (Qc * Qc)) : Qc :=
  match l with
  | [] => 1
  | _ => let w := fold_right (fun p acc => / snd p + acc) 0 l in
         let s := fold_right (fun p acc => fst p / snd p + acc) 0 l in
         let e := (/ w) * s in if Qclt_le_dec e 1 then 1 else e
  end.

(* ---- the whole objective: sum over the supplied measurements, each evaluated on the marginal of ITS clique ---- *)
Require Import PGM.Model.Dataset PGM.Model.Factor PGM.Model.BP.
Record meas := mkMeas { mQ : qmat; mrows : nat; my : vec; mc : Qc; mproj : list nat }.
Definition qfactor := factor Qc.
Definition fvec (f : qfactor) : vec := fun j => nth j (fvals f) 0.
(* contribution of one measurement: (loss, gradient as a factor over the clique's domain) *)
Definition contrib (l1 : bool) (mu : qfactor) (m : meas) : option (Qc * qfactor) :=
  match fproject 0 Qcplus 0 mu (mproj m) with
  | Some mu2 =>
    let p := length (fvals mu2) in
    let x := fvec mu2 in
    let l := if l1 then loss1_m (mQ m) (mrows m) p (my m) (mc m) x else loss_m (mQ m) (mrows m) p (my m) (mc m) x in
    let g := if l1 then grad1_m (mQ m) (mrows m) p (my m) (mc m) x else grad_m (mQ m) (mrows m) p (my m) (mc m) x in
    match expand 0 {| fdom := fdom mu2; fvals := map g (seq 0 p) |} (fdom mu) with
    | Some ge => Some (l, ge)
    | None => None end
  | None => None end.
Definition zero_like (mu : qfactor) : qfactor := {| fdom := fdom mu; fvals := map (fun _ => 0) (fvals mu) |}.
Definition fadd (f g : qfactor) : qfactor := {| fdom := fdom f; fvals := map (fun p => fst p + snd p) (combine (fvals f) (fvals g)) |}.
Fixpoint total_loss (l1 : bool) (size : list nat -> nat) (cliques : list (list nat)) (mus : list qfactor) (ms : list meas)
  : Qc * list qfactor :=
  match ms with
  | [] => (0, map zero_like mus)
  | m :: r =>
    let (l, gs) := total_loss l1 size cliques mus r in
    match group_of size cliques (mproj m) with
    | Some i => match contrib l1 (nth i mus {| fdom := []; fvals := [] |}) m with
                | Some (lm, gm) => (l + lm, BP.replace i (fadd (nth i gs {| fdom := []; fvals := [] |}) gm) gs)
                | None => (l, gs) end
    | None => (l, gs)
    end
  end.
