(* Model of the query paths of src/mbi/graphical_model.py:
   variable_elimination(_logspace) for ANY elimination order, project (uncached: eliminate the other attributes and
   normalise; cached: sum the cached clique marginal), krondot (elimination over potentials plus query factors),
   datavector.  Factors are (scope, table) pairs; tables are functions on assignments (Base/Sums.v). *)
From Coq Require Import List Arith Bool.
Import ListNotations.
Require Import PGM.Base.Alg PGM.Base.Sums PGM.Model.Domain PGM.Model.Dataset PGM.Model.Factor PGM.Model.BP.
Set Implicit Arguments.

Section VE.
Variable R : SR.
Notation K := (car R).
Variable shape : nat -> nat.
Definition vfactor := (list nat * tbl R)%type.
Definition mentions (z : nat) (f : vfactor) := memb z (fst f).
Definition prodf (l : list vfactor) : tbl R := fun x => fold_right (fun f acc => mul R (snd f x) acc) (one R) l.
(* for z in elim: pop the factors mentioning z, multiply them, sum z out, push the result back *)
Definition ve_step (z : nat) (l : list vfactor) : list vfactor :=
  let yes := filter (mentions z) l in
  let no := filter (fun f => negb (mentions z f)) l in
  no ++ [ (filter (fun a => negb (Nat.eqb a z)) (flat_map fst yes), @sum_var R shape z (prodf yes)) ].
Fixpoint ve (elim : list nat) (l : list vfactor) : tbl R :=
  match elim with [] => prodf l | z :: r => ve r (ve_step z l) end.
(* sums nested in elimination order *)
Fixpoint sum_vars_l (elim : list nat) (f : tbl R) : tbl R :=
  match elim with [] => f | z :: r => sum_vars_l r (@sum_var R shape z f) end.
End VE.

Section Query.
Variable R : SF.
Notation K := (car R).
Variable shape : nat -> nat.
Variable D : list nat.
Variable ncl : nat.
Variable scope : nat -> list nat.
Variable psi : nat -> tbl R.
Definition pots : list (vfactor R) := map (fun c => (scope c, psi c)) (seq 0 ncl).
(* GraphicalModel.project without cached marginals: eliminate everything else (any order), normalise to total *)
Definition project_ve (elim attrs : list nat) (total : K) : tbl R :=
  let ans := ve shape elim pots in
  fun x => mul R (ans x) (div R total (@sum_vars R shape attrs ans base0)).
(* GraphicalModel.project with cached marginals: sum the clique marginal over the attributes not requested *)
Definition project_cached (marg : tbl R) (cl attrs : list nat) : tbl R := @sum_vars R shape (diff cl attrs) marg.
(* a requested marginal laid out in the requested attribute order (row-major) *)
Definition table_of (attrs : list nat) (t : tbl R) : list K := map (fun cell => t (asg_of attrs cell)) (cells (map shape attrs)).
End Query.

Section Kron.
Variable R : SR.
Variable shape : nat -> nat.
(* query factor for attribute a: Q(r, v) with the answer index stored at attribute id (ans a) *)
Definition qfactor (a ansa : nat) (Q : nat -> nat -> car R) : vfactor R := ([ansa; a], fun x => Q (x ansa) (x a)).
(* krondot: eliminate every domain attribute from potentials ++ query factors *)
Definition krondot (D : list nat) (potsl : list (vfactor R)) (qs : list (vfactor R)) : tbl R := ve shape D (potsl ++ qs).
End Kron.
