(* Budget skeletons of the four mechanisms (mechanisms/mst.py, aim.py, mwem+pgm.py, adaptive_grid.py): the sequence of noisy
   releases and private selections with their scales, as a function of the parameters and of the decisions the code takes from
   random outcomes.  Generic over the numeric signature (floats for execution, reals for the theorems).
   zCDP charging rule (fixed by the property): Gaussian release with L2 change D and scale s costs D^2/(2 s^2); a selection run with
   parameter eps on scores whose true sensitivity is sf times the sensitivity it was given costs (eps*sf)^2/8. *)
From Coq Require Import List ZArith Bool.
Import ListNotations.
Require Import PGM.Base.Num.
Set Implicit Arguments.

Section Ledger.
Variable T : Type.
Variable Ops : NumOps T.
Notation "x + y" := (nadd Ops x y). Notation "x * y" := (nmul Ops x y). Notation "x / y" := (ndiv Ops x y). Notation "x - y" := (nsub Ops x y).
Notation L n d := (lit Ops n d).
Inductive event := Gauss (sigma sens : T) | Select (eps sf : T).
Definition cost (e : event) : T :=
  match e with
  | Gauss s d => (d * d) / (L 2 1 * (s * s))
  | Select e f => ((e * f) * (e * f)) / L 8 1
  end.
Definition total (l : list event) : T := fold_right (fun e acc => cost e + acc) (L 0 1) l.
Fixpoint of_nat (n : nat) : T := match n with O => L 0 1 | S m => of_nat m + L 1 1 end.
Fixpoint repeat_ev (n : nat) (e : event) : list event := match n with O => [] | S m => e :: repeat_ev m e end.

(* MST: sigma = sqrt(3/(2 rho)); k1 one-way marginals at scale sigma*sqrt(k1); r-1 selections with eps = sqrt(8 (rho/3)/(r-1));
   k2 two-way marginals at scale sigma*sqrt(k2) *)
Definition mst_events (rho : T) (k1 rm1 k2 : nat) : list event :=
  let sigma := nsqrt Ops (L 3 1 / (L 2 1 * rho)) in
  let eps := nsqrt Ops ((L 8 1 * (rho / L 3 1)) / of_nat rm1) in
  repeat_ev k1 (Gauss (sigma * nsqrt Ops (of_nat k1)) (L 1 1)) ++ repeat_ev rm1 (Select eps (L 1 1)) ++ repeat_ev k2 (Gauss (sigma * nsqrt Ops (of_nat k2)) (L 1 1)).

(* MWEM+PGM, Gaussian mode: per round rho/T split alpha : 1-alpha; bounded => marginal L2 change sqrt 2 at scale sqrt2*sigma, scores change by 2 *)
Definition mwem_events (rho alpha : T) (rounds : nat) (bounded fwd : bool) : list event :=
  let rpr := rho / of_nat rounds in
  let sigma := nsqrt Ops (L 1 2 / (alpha * rpr)) in
  let eps := nsqrt Ops (L 8 1 * ((L 1 1 - alpha) * rpr)) in
  let ms := if bounded then nsqrt Ops (L 2 1) else L 1 1 in
  (* fwd = the bounded flag reaches the selection (it then divides the scores by 2, so the effective factor is 1) *)
  let sf := if bounded then (if fwd then L 1 1 else L 2 1) else L 1 1 in
  flat_map (fun _ => [Select eps sf; Gauss (ms * sigma) ms]) (seq 0 rounds).

(* MWEM+PGM, Laplace mode (pure DP): per round eps/T split alpha : 1-alpha; Laplace scale = ms/(alpha eps/T) with ms the L1 change of a
   marginal (2 if bounded else 1); selection with parameter (1-alpha) eps/T.  Pure-DP charging rule: a Laplace release of L1 change D at
   scale b costs D/b; a selection run with parameter eps on scores moving sf times the sensitivity it was given costs eps*sf. *)
Inductive pevent := Lap (scale sens : T) | PSelect (eps sf : T).
Definition pcost (e : pevent) : T := match e with Lap b d => d / b | PSelect e f => e * f end.
Definition ptotal (l : list pevent) : T := fold_right (fun e acc => pcost e + acc) (L 0 1) l.
Definition mwem_lap_events (eps alpha : T) (rounds : nat) (bounded : bool) : list pevent :=
  let epr := eps / of_nat rounds in
  let sigma := L 1 1 / (alpha * epr) in
  let ms := if bounded then L 2 1 else L 1 1 in
  flat_map (fun _ => [PSelect ((L 1 1 - alpha) * epr) (L 1 1); Lap (ms * sigma) ms]) (seq 0 rounds).

(* Adaptive grid: n1 releases in step 1 (scale sqrt(.5/rho1)*sqrt n1), r-1 selections with eps = sqrt(8 rho2/(r-1)), n3 releases in step 3 *)
Definition adagrid_events (rho1 rho2 rho3 : T) (n1 rm1 n3 : nat) : list event :=
  repeat_ev n1 (Gauss (nsqrt Ops (L 1 2 / rho1) * nsqrt Ops (of_nat n1)) (L 1 1)) ++
  repeat_ev rm1 (Select (nsqrt Ops ((L 8 1 * rho2) / of_nat rm1)) (L 1 1)) ++
  repeat_ev n3 (Gauss (nsqrt Ops (of_nat n3) * nsqrt Ops (L 1 2 / rho3)) (L 1 1)).

(* AIM: state (sigma, eps, rho_used); one round given the annealing decision the code takes from the data-independent comparison *)
Record aim_st := { a_sigma : T; a_eps : T; a_used : T; a_done : bool }.
Definition aim_init (rho : T) (rounds d : nat) : aim_st :=
  let sigma := nsqrt Ops (of_nat rounds / (L 2 1 * (L 9 10 * rho))) in
  let eps := nsqrt Ops ((L 8 1 * (L 1 10 * rho)) / of_nat rounds) in
  {| a_sigma := sigma; a_eps := eps; a_used := (of_nat d * L 1 2) / (sigma * sigma); a_done := false |}.
Definition round_cost (sigma eps : T) : T := (L 1 8 * (eps * eps)) + (L 1 2 / (sigma * sigma)).
Definition aim_round (rho : T) (s : aim_st) (anneal : bool) : aim_st * list event :=
  if a_done s then (s, []) else
  let last := nltb Ops (rho - a_used s) (L 2 1 * round_cost (a_sigma s) (a_eps s)) in
  let sigma := if last then nsqrt Ops (L 1 1 / (L 2 1 * (L 9 10 * (rho - a_used s)))) else a_sigma s in
  let eps := if last then nsqrt Ops (L 8 1 * (L 1 10 * (rho - a_used s))) else a_eps s in
  let used := a_used s + round_cost sigma eps in
  let ev := [Select eps (L 1 1); Gauss sigma (L 1 1)] in
  if last then ({| a_sigma := sigma; a_eps := eps; a_used := used; a_done := true |}, ev)
  else if anneal then ({| a_sigma := sigma / L 2 1; a_eps := eps * L 2 1; a_used := used; a_done := false |}, ev)
  else ({| a_sigma := sigma; a_eps := eps; a_used := used; a_done := false |}, ev).
Fixpoint aim_run (rho : T) (s : aim_st) (decisions : list bool) : aim_st * list event :=
  match decisions with
  | [] => (s, [])
  | b :: r => let (s1, e1) := aim_round rho s b in let (s2, e2) := aim_run rho s1 r in (s2, e1 ++ e2)
  end.
Definition aim_events (rho : T) (rounds d : nat) (decisions : list bool) : list event :=
  let s0 := aim_init rho rounds d in
  repeat_ev d (Gauss (a_sigma s0) (L 1 1)) ++ snd (aim_run rho s0 decisions).
End Ledger.
