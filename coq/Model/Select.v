(* Model of the private-selection primitives and noise-scale helpers (mechanisms/mechanism.py:64-101, mst.py:63-67,
   adaptive_grid.py:179-199, mwem+pgm.py:22-41), generic over the numeric signature (floats for execution, reals for proofs). *)
From Coq Require Import List ZArith Bool.
Import ListNotations.
Require Import PGM.Base.Num.
Set Implicit Arguments.

Section Select.
Variable T : Type.
Variable O : NumOps T.
Notation "0" := (lit O 0 1).
Definition lmax (l : list T) : T := match l with [] => 0 | x :: r => fold_right (nmax O) x r end.
Definition lsum (l : list T) : T := fold_right (nadd O) 0 l.
(* scipy.special.softmax: exp(x - max) / sum *)
Definition softmax (s : list T) : list T :=
  let m := lmax s in let e := map (fun x => nexp O (nsub O x m)) s in let z := lsum e in map (fun x => ndiv O x z) e.
(* np.exp(scores - logsumexp(scores)), logsumexp = max + log sum exp(x - max) *)
Definition lse (s : list T) : T := let m := lmax s in nadd O m (nlog O (lsum (map (fun x => nexp O (nsub O x m)) s))).
Definition lse_probs (s : list T) : list T := let z := lse s in map (fun x => nexp O (nsub O x z)) s.
Fixpoint zipadd (a b : list T) : list T := match a, b with x :: a', y :: b' => nadd O x y :: zipadd a' b' | _, _ => [] end.

(* Mechanism.exponential_mechanism: q = qualities - max; p = softmax(0.5*eps/sens*q [+ log base]) *)
Definition em_mechanism (q : list T) (eps sens : T) (base : option (list T)) : list T :=
  let m := lmax q in
  let c := ndiv O (nmul O (lit O 1 2) eps) sens in
  let sc := map (fun x => nmul O c (nsub O x m)) q in
  softmax (match base with None => sc | Some b => zipadd sc (map (nlog O) b) end).
(* mst.exponential_mechanism: scores = coef*eps/sens*q; p = exp(scores - logsumexp scores) *)
Definition em_mst (q : list T) (eps sens : T) (monotonic : bool) : list T :=
  let coef := if monotonic then lit O 1 1 else lit O 1 2 in
  lse_probs (map (fun x => nmul O (ndiv O (nmul O coef eps) sens) x) q).
(* adaptive_grid.exponential_mechanism: as mst but on q - max q *)
Definition em_adagrid (q : list T) (eps sens : T) (monotonic : bool) : list T :=
  let coef := if monotonic then lit O 1 1 else lit O 1 2 in
  let m := lmax q in
  lse_probs (map (fun x => nmul O (ndiv O (nmul O coef eps) sens) (nsub O x m)) q).
(* mwem+pgm.worst_approximated: softmax(0.5*eps/sens*(errors - max)) with sens = 2 if bounded else 1 *)
Definition em_mwem (err : list T) (eps : T) (bounded : bool) : list T :=
  let sens := if bounded then lit O 2 1 else lit O 1 1 in
  let m := lmax err in
  softmax (map (fun x => nmul O (ndiv O (nmul O (lit O 1 2) eps) sens) (nsub O x m)) err).
(* noise-scale helpers *)
Definition laplace_scale (bounded : bool) (l1 eps : T) : T := ndiv O (if bounded then nmul O l1 (lit O 2 1) else l1) eps.
Definition gaussian_scale (bounded : bool) (l2 sigma1 : T) : T := nmul O (if bounded then nmul O l2 (lit O 2 1) else l2) sigma1.
End Select.
