(* Model of public_inference.entropic_mirror_descent (src/mbi/public_inference.py:20-46), as written: P is assigned once and NEVER
   updated, so the acceptance test uses the initial weights.  loss_and_grad is an oracle: the list of its results in call order. *)
From Coq Require Import List ZArith Bool.
Import ListNotations.
Require Import PGM.Base.Num PGM.Model.Select.
Set Implicit Arguments.
Section Public.
Variable T : Type.
Variable Ops : NumOps T.
Notation "x + y" := (nadd Ops x y). Notation "x * y" := (nmul Ops x y). Notation "x - y" := (nsub Ops x y). Notation "x / y" := (ndiv Ops x y).
Fixpoint vdot (a b : list T) : T := match a, b with x :: a', y :: b' => x * y + vdot a' b' | _, _ => lit Ops 0 1 end.
Fixpoint vzip (f : T -> T -> T) (a b : list T) : list T := match a, b with x :: a', y :: b' => f x y :: vzip f a' b' | _, _ => [] end.
(* logQ = logP - alpha*dL;  logQ += log(total) - logsumexp(logQ) *)
Definition mirror_step (total alpha : T) (logP dL : list T) : list T :=
  let l := vzip (fun p g => p - alpha * g) logP dL in
  let s := nlog Ops total - lse Ops l in map (fun x => x + s) l.
Definition init_logP (eta total : T) (x0 : list T) : list T :=
  let s := nlog Ops total - nlog Ops (lsum Ops x0) in map (fun x => nlog Ops (x + eta) + s) x0.
Definition init_P (total : T) (x0 : list T) : list T := let k := total / lsum Ops x0 in map (fun x => x * k) x0.
(* one iteration given the oracle's answer (new_loss, new_dL) at Q *)
Record st := { s_logP : list T; s_loss : T; s_dL : list T; s_alpha : T; s_begun : bool }.
Definition iterate (total : T) (P0 : list T) (s : st) (ans : T * list T) : st * list T :=
  let logQ := mirror_step total (s_alpha s) (s_logP s) (s_dL s) in
  let Q := map (nexp Ops) logQ in
  let (nl, ndl) := ans in
  if nleb Ops (lit Ops 1 2 * s_alpha s * vdot (s_dL s) (vzip (nsub Ops) P0 Q)) (s_loss s - nl)
  then ({| s_logP := logQ; s_loss := nl; s_dL := ndl; s_alpha := (if s_begun s then s_alpha s else s_alpha s * lit Ops 2 1); s_begun := s_begun s |}, Q)
  else ({| s_logP := s_logP s; s_loss := s_loss s; s_dL := s_dL s; s_alpha := s_alpha s * lit Ops 1 2; s_begun := true |}, Q).
Fixpoint emd (total : T) (P0 : list T) (s : st) (oracle : list (T * list T)) (trace : list (list T)) : list T * list (list T) :=
  match oracle with
  | [] => (map (nexp Ops) (s_logP s), rev trace)
  | a :: r => let (s', Q) := iterate total P0 s a in emd total P0 s' r (Q :: trace)
  end.
Definition emd_run (eta total : T) (x0 : list T) (first : T * list T) (oracle : list (T * list T)) : list T * list (list T) :=
  emd total (init_P total x0) {| s_logP := init_logP eta total x0; s_loss := fst first; s_dL := snd first; s_alpha := lit Ops 1 1; s_begun := false |} oracle [].
End Public.
