(* Value type the Factor model is executed on for C14: a rational or -infinity (None).
   Mirrors numpy's float semantics on the inputs the correspondence generates (finite values are
   integers/dyadics, so float arithmetic is exact; -inf appears only where the code defines it). *)
From Coq Require Import QArith Qcanon.
Definition xq := option Qc.
Definition xadd (a b : xq) : xq := match a, b with Some x, Some y => Some (x + y)%Qc | _, _ => None end.
(* Factor.__sub__: entries of `other` equal to -inf are treated as 0 *)
Definition xsub (a b : xq) : xq := match b with None => a | Some y => match a with Some x => Some (x - y)%Qc | None => None end end.
Definition xmul (a b : xq) : xq := match a, b with Some x, Some y => Some (x * y)%Qc | _, _ => None end.
(* Factor.__truediv__ by a factor: np.divide(..., where=tmp>0), 0 elsewhere *)
Definition xdiv (a b : xq) : xq :=
  match a, b with
  | Some x, Some y => if Qlt_le_dec 0 (this y) then Some (x / y)%Qc else Some 0%Qc
  | None, Some y => if Qlt_le_dec 0 (this y) then None else Some 0%Qc
  | _, None => Some 0%Qc end.
Definition xmax (a b : xq) : xq :=
  match a, b with Some x, Some y => if Qlt_le_dec (this x) (this y) then Some y else Some x | None, y => y | x, None => x end.
Definition xzero : xq := Some 0%Qc.
Definition xninf : xq := None.
