(* Model of the estimator object as a state machine (src/mbi/inference.py: self.model is the only state a later call reads,
   and only when warm_start is set).  run is the estimation itself (any function of the optional previous parameters and the
   arguments); the model says nothing else is read. *)
From Coq Require Import List.
Import ListNotations.
Set Implicit Arguments.
Section History.
Variables (Args Out St : Type).
Variable run : option St -> Args -> St * Out.
Definition step (warm : bool) (s : option St) (a : Args) : option St * Out :=
  let (s', o) := run (if warm then s else None) a in (Some s', o).
Fixpoint outs (warm : bool) (s : option St) (l : list Args) : list Out :=
  match l with [] => [] | a :: r => let (s', o) := step warm s a in o :: outs warm s' r end.
End History.
