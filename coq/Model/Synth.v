(* Model of synthetic_col in rounding mode (src/mbi/graphical_model.py:210-223) over exact rationals:
   counts *= total/sum; integ = floor; extra = total - sum integ; `extra` distinct indices with positive fractional part
   (the random subset, an oracle argument here) get one more.  Result: the number of records per value. *)
From Coq Require Import List ZArith QArith Qround Bool.
Import ListNotations.
Open Scope Q_scope.
Definition qsum (l : list Q) : Q := fold_right Qplus 0 l.
Definition zsum (l : list Z) : Z := fold_right Z.add 0%Z l.
Definition scaled (counts : list Q) (n : Z) : list Q := map (fun c => c * (inject_Z n / qsum counts)) counts.
Definition frac (q : Q) : Q := q - inject_Z (Qfloor q).
Definition memn (i : nat) (l : list nat) : bool := existsb (Nat.eqb i) l.
Definition ind (idx : list nat) (i : nat) : Z := if memn i idx then 1%Z else 0%Z.
Definition integ_at (counts : list Q) (n : Z) (i : nat) : Z := Qfloor (nth i (scaled counts n) 0).
Definition extra (counts : list Q) (n : Z) : Z := (n - zsum (map (integ_at counts n) (seq 0 (length counts))))%Z.
Definition round_col (counts : list Q) (n : Z) (idx : list nat) : list Z :=
  map (fun i => (integ_at counts n i + ind idx i)%Z) (seq 0 (length counts)).
(* the oracle subset is admissible: distinct indices, as many as `extra`, each inside the column and with a positive fractional part *)
Fixpoint nodupn (l : list nat) : bool := match l with [] => true | a :: r => (negb (memn a r) && nodupn r)%bool end.
Definition valid_idx (counts : list Q) (n : Z) (idx : list nat) : bool :=
  (nodupn idx && Z.eqb (Z.of_nat (length idx)) (extra counts n)
   && forallb (fun i => Nat.ltb i (length counts) && negb (Qle_bool (frac (nth i (scaled counts n) 0)) 0)) idx)%bool.
