(* Model of src/mbi/junction_tree.py: the graph of the cliques, triangulation by vertex elimination
   (elimination cliques, their maximal elements = nx.find_cliques of the triangulated graph for a full
   elimination order), the deterministic greedy order, and the structural checks of a junction tree
   (cover, antichain, attribute coverage; the tree/running-intersection/schedule checks are in Model/BP.v).
   networkx's minimum_spanning_tree / topological_sort / dfs_preorder are external: their OUTPUT is checked. *)
From Coq Require Import List Arith Bool.
Import ListNotations.
Require Import PGM.Base.Sums PGM.Model.BP.

Definition adjacent (E : list (nat * nat)) (a b : nat) : bool := (memE (a, b) E || memE (b, a) E)%bool.
Fixpoint pairs (l : list nat) : list (nat * nat) :=
  match l with [] => [] | a :: r => map (fun b => (a, b)) r ++ pairs r end.
Definition graph_of (cliques : list (list nat)) : list (nat * nat) := flat_map pairs cliques.
Definition removev (v : nat) (l : list nat) := filter (fun u => negb (Nat.eqb u v)) l.

(* _triangulated: eliminate the nodes in order, connecting the remaining neighbours of each *)
Fixpoint eliminate (order : list nat) (E : list (nat * nat)) (alive : list nat) : list (list nat) :=
  match order with
  | [] => []
  | v :: r => let alive' := removev v alive in
              let N := filter (adjacent E v) alive' in
              (v :: N) :: eliminate r (pairs N ++ E) alive'
  end.
Definition strictsub (c c' : list nat) : bool := (subsetb c c' && negb (subsetb c' c))%bool.
Definition seteq (c c' : list nat) : bool := (subsetb c c' && subsetb c' c)%bool.
Fixpoint dedup_sets (cs : list (list nat)) : list (list nat) :=
  match cs with [] => [] | c :: r => if existsb (seteq c) r then dedup_sets r else c :: dedup_sets r end.
Definition maximal (cs : list (list nat)) : list (list nat) :=
  dedup_sets (filter (fun c => negb (existsb (strictsub c) cs)) cs).
Definition jt_cliques (attrs : list nat) (cliques : list (list nat)) (order : list nat) : list (list nat) :=
  maximal (eliminate order (graph_of cliques) attrs).

(* _greedy_order(stochastic=False) *)
Fixpoint union (l m : list nat) : list nat :=
  match l with [] => m | a :: r => if memb a m then union r m else union r (m ++ [a]) end.
Definition cost_of (size : nat -> nat) (cliques : list (list nat)) (a : nat) : nat :=
  fold_right Nat.mul 1 (map size (fold_right union [] (filter (memb a) cliques))).
Fixpoint argmin (cost : nat -> nat) (l : list nat) (best : nat) : nat :=
  match l with [] => best | a :: r => argmin cost r (if Nat.ltb (cost a) (cost best) then a else best) end.
Fixpoint greedy (fuel : nat) (size : nat -> nat) (unmarked : list nat) (cliques : list (list nat)) : list nat :=
  match fuel, unmarked with
  | S f, u :: us =>
    let a := argmin (cost_of size cliques) us u in
    let nb := filter (memb a) cliques in
    let vars := removev a (fold_right union [] nb) in
    a :: greedy f size (removev a unmarked) (filter (fun c => negb (memb a c)) cliques ++ [vars])
  | _, _ => []
  end.
Definition greedy_order (size : nat -> nat) (attrs : list nat) (cliques : list (list nat)) : list nat :=
  greedy (length attrs) size attrs cliques.

(* structural conditions on the node set *)
Definition coverb (inputs nodes : list (list nat)) : bool := forallb (fun c => existsb (subsetb c) nodes) inputs.
Definition attrs_coverb (attrs : list nat) (nodes : list (list nat)) : bool := forallb (fun a => existsb (memb a) nodes) attrs.
Fixpoint antichainb (nodes : list (list nat)) : bool :=
  match nodes with [] => true | c :: r => (forallb (fun c' => negb (subsetb c c') && negb (subsetb c' c)) r && antichainb r)%bool end.
