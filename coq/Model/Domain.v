(* Model of src/mbi/domain.py.  A domain is the list of (attribute id, size) pairs in attribute order.
   Attribute names are mapped to natural numbers by the harness (order-preserving for the
   lexicographic order of the names, so that sort(how='name') is the order on ids).
   Definitions only; proofs are in Proofs/DomainP.v. *)
From Coq Require Import List Arith Bool.
Import ListNotations.
Require Import PGM.Base.Sums.

Definition dom := list (nat * nat).
Definition attrs (d : dom) : list nat := map fst d.
Definition dshape (d : dom) : list nat := map snd d.

Fixpoint lookup (d : dom) (a : nat) : option nat :=
  match d with [] => None | (b, n) :: r => if Nat.eqb b a then Some n else lookup r a end.

(* Domain.project: KeyError (None) when an attribute is not in the domain *)
Fixpoint project (d : dom) (l : list nat) : option dom :=
  match l with
  | [] => Some []
  | a :: r => match lookup d a, project d r with
              | Some n, Some d' => Some ((a, n) :: d')
              | _, _ => None end
  end.

Definition invert (d : dom) (l : list nat) : list nat := filter (fun a => negb (memb a l)) (attrs d).
Definition marginalize (d : dom) (l : list nat) : option dom := project d (invert d l).

Fixpoint index_of (a : nat) (l : list nat) : option nat :=
  match l with [] => None | b :: r => if Nat.eqb b a then Some 0 else option_map S (index_of a r) end.
Fixpoint axes (d : dom) (l : list nat) : option (list nat) :=
  match l with
  | [] => Some []
  | a :: r => match index_of a (attrs d), axes d r with
              | Some i, Some t => Some (i :: t) | _, _ => None end
  end.

Definition merge (d o : dom) : option dom :=
  match marginalize o (attrs d) with Some e => Some (d ++ e) | None => None end.
Definition contains (d o : dom) : bool := subsetb (attrs o) (attrs d).
Definition prodn (l : list nat) : nat := fold_right Nat.mul 1 l.
Definition size (d : dom) : nat := prodn (dshape d).
Definition size_of (d : dom) (l : list nat) : option nat := option_map size (project d l).
Definition canonical (d : dom) (l : list nat) : list nat := filter (fun a => memb a l) (attrs d).

(* sorted(): stable insertion sort by a key *)
Fixpoint insert_by (key : nat -> nat) (a : nat) (l : list nat) : list nat :=
  match l with
  | [] => [a]
  | b :: r => if Nat.leb (key a) (key b) then a :: l else b :: insert_by key a r
  end.
Definition sort_by (key : nat -> nat) (l : list nat) : list nat := fold_right (insert_by key) [] l.
Definition key_size (d : dom) (a : nat) : nat := match lookup d a with Some n => n | None => 0 end.
Definition sort_size (d : dom) : option dom := project d (sort_by (key_size d) (attrs d)).
Definition sort_name (d : dom) : option dom := project d (sort_by (fun a => a) (attrs d)).
Definition dom_eqb (d o : dom) : bool :=
  (Nat.eqb (length d) (length o) && forallb (fun p => Nat.eqb (fst (fst p)) (fst (snd p)) && Nat.eqb (snd (fst p)) (snd (snd p))) (combine d o))%bool.
