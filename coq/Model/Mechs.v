(* Model of a mechanism as an interaction tree over the DP primitives (C06): the private data is touched ONLY by the statistic
   handed to a primitive; the continuation receives only what the primitive released. *)
From Coq Require Import List.
Import ListNotations.
Set Implicit Arguments.
Section Mechs.
Variables (Data Stat Obs Descr Out : Type).
Inductive Mech : Type :=
| Ret (o : Out)
| Prim (d : Descr) (stat : Data -> Stat) (k : Obs -> Mech).     (* d: kind, noise scale, size, candidate set ... *)
(* run against a forced sequence of released values / selections; trace = descriptors of the primitives performed *)
Fixpoint run (m : Mech) (D : Data) (forced : list Obs) : list Descr * option Out :=
  match m with
  | Ret o => ([], Some o)
  | Prim d stat k => match forced with
                     | [] => ([d], None)
                     | x :: r => let (t, o) := run (k x) D r in (d :: t, o)
                     end
  end.
(* what a privacy accountant sees of a run on D: descriptor and the statistic each primitive was applied to *)
Fixpoint stats (m : Mech) (D : Data) (forced : list Obs) : list (Descr * Stat) :=
  match m with
  | Ret _ => []
  | Prim d stat k => (d, stat D) :: match forced with [] => [] | x :: r => stats (k x) D r end
  end.
End Mechs.
