(* Models of the approximate marginal oracles (src/mbi/region_graph.py, factor_graph.py) as message-passing sweeps over a region
   graph / factor graph whose STRUCTURE (regions, parent/child lists, the N/D/B edge sets of generalized BP, message order) is taken
   from the code (it is combinatorial book-keeping validated by the exactness / consistency observations), generic over the numeric
   signature.  Tables are Factor values (name-addressed operations of Model/Factor.v). *)
From Coq Require Import List Arith ZArith Bool.
Import ListNotations.
Require Import PGM.Base.Num PGM.Base.Sums PGM.Model.Domain PGM.Model.Dataset PGM.Model.Factor PGM.Model.Select PGM.Model.BP.
Set Implicit Arguments.

Section Region.
Variable T : Type.
Variable Ops : NumOps T.
Notation F := (factor T).
Definition z0 : T := lit Ops 0 1.
Definition neginf : T := nlog Ops z0.
(* stable log(exp a + exp b) *)
Definition lae (a b : T) : T :=
  let m := nmax Ops a b in
  if neqb Ops m neginf then neginf else nadd Ops m (nlog Ops (nadd Ops (nexp Ops (nsub Ops a m)) (nexp Ops (nsub Ops b m)))).
Definition fadd (f g : F) : F := match fibin z0 (nadd Ops) f g with Some h => h | None => f end.
(* Factor.__sub__: -inf entries of the subtrahend count as 0 (a - (-inf) := a), factor.py:161-165 *)
Definition gsub (a b : T) : T := if neqb Ops b neginf then a else nsub Ops a b.
Definition fsub (f g : F) : F := match fibin z0 gsub f g with Some h => h | None => f end.
Definition fscale (c : T) (f : F) : F := fmap (nmul Ops c) f.
(* f.logsumexp(drop) *)
Definition lse_out (f : F) (drop : list nat) : F := match fagg z0 lae neginf f drop with Some h => h | None => f end.
(* f -= f.logsumexp() *)
Definition fnorm (f : F) : F := let z := lse Ops (fvals f) in fmap (fun v => nsub Ops v z) f.
(* belief += log(total) - belief.logsumexp(); belief.exp() *)
Definition belief_of (total : T) (f : F) : F := let s := nsub Ops (nlog Ops total) (lse Ops (fvals f)) in fmap (fun v => nexp Ops (nadd Ops v s)) f.

Definition msgs := list ((nat * nat) * F).
Fixpoint getm (e : nat * nat) (M : msgs) (d : F) : F :=
  match M with [] => d | (e', m) :: r => if edge_eqb e' e then m else getm e r d end.

Record rgraph := { nreg : nat; rscope : nat -> list nat; rparents : nat -> list nat; rchildren : nat -> list nat; rpot : nat -> F; rzero : nat -> F }.
(* rzero r: the all-zero table over region r (initial messages) *)

(* ---------- Hazan-Peng-Shashua sweep (convex oracle, unit counting numbers), region_graph.py:283-330 ---------- *)
Section HPS.
Variable G : rgraph.
Variable rho : T.         (* damping *)
Definition M_of (M : msgs) (i j child : nat) : F := getm (i, j) M (rzero G child).
Definition hps_down (M : msgs) (p r : nat) : F :=
  let a := fold_left (fun acc c => if Nat.eqb c r then acc else fadd acc (M_of M c p c)) (rchildren G p) (rpot G p) in
  let a := fold_left (fun acc p1 => fsub acc (M_of M p p1 p)) (rparents G p) a in
  fnorm (lse_out a (diff (rscope G p) (rscope G r))).
Fixpoint of_nat (n : nat) : T := match n with 0%nat => z0 | S m => nadd Ops (of_nat m) (lit Ops 1 1) end.
Definition hps_up (M : msgs) (r p : nat) : F :=
  let a := fold_left (fun acc c => fadd acc (M_of M c r c)) (rchildren G r) (rpot G r) in
  let a := fold_left (fun acc p1 => fadd acc (M_of M p1 r r)) (rparents G r) a in
  let cc := ndiv Ops (lit Ops 1 1) (nadd Ops (lit Ops 1 1) (of_nat (length (rparents G r)))) in
  fnorm (fsub (fscale cc a) (M_of M p r r)).
Definition damp (old new : F) : F := fadd (fscale rho old) (fscale (nsub Ops (lit Ops 1 1) rho) new).
Definition edges : list (nat * nat) := flat_map (fun r => map (fun p => (p, r)) (rparents G r)) (seq 0 (nreg G)).
Definition hps_sweep (M : msgs) : msgs :=
  flat_map (fun e : nat * nat => let p := fst e in let r := snd e in
     [((p, r), damp (M_of M p r r) (hps_down M p r)); ((r, p), damp (M_of M r p r) (hps_up M r p))]) edges.
Definition hps_belief (total : T) (M : msgs) (r : nat) : F :=
  let a := fold_left (fun acc c => fadd acc (M_of M c r c)) (rchildren G r) (rpot G r) in
  let a := fold_left (fun acc p => fsub acc (M_of M r p r)) (rparents G r) a in
  belief_of total a.
Definition hps_run (total : T) (sweeps : nat) (M0 : msgs) : msgs * list F :=
  let M := Nat.iter sweeps hps_sweep M0 in (M, map (hps_belief total M) (seq 0 (nreg G))).
End HPS.

(* ---------- generalized belief propagation sweep (region_graph.py:245-281); N, D, B and the message order come from the code ---------- *)
Section GBP.
Variable G : rgraph.
Variable order : list (nat * nat).
Variable Nset Dset : nat * nat -> list (nat * nat).
Variable Bset : nat -> list (nat * nat).
Definition gbp_new (M : msgs) (new : msgs) (e : nat * nat) : F :=
  let (ru, rd) := e in
  let num := fold_left (fun acc e' => fadd acc (getm e' M (rzero G (snd e')))) (Nset e) (rpot G ru) in
  let cand := lse_out num (diff (rscope G ru) (rscope G rd)) in
  let res := fold_left (fun acc e' => fsub acc (getm e' new (rzero G (snd e')))) (Dset e) cand in
  fnorm res.
Definition gbp_sweep (M : msgs) : msgs :=
  let new := fold_left (fun nw e => nw ++ [(e, gbp_new M nw e)]) order [] in
  map (fun e => (e, fadd (fscale (lit Ops 1 2) (getm e M (rzero G (snd e)))) (fscale (lit Ops 1 2) (getm e new (rzero G (snd e)))))) order.
Definition gbp_belief (total : T) (M : msgs) (r : nat) : F :=
  belief_of total (fold_left (fun acc e' => fadd acc (getm e' M (rzero G (snd e')))) (Bset r) (rpot G r)).
Definition gbp_run (total : T) (sweeps : nat) (cliques : list nat) (M0 : msgs) : msgs * list F :=
  let M := Nat.iter sweeps gbp_sweep M0 in (M, map (gbp_belief total M) cliques).
End GBP.

(* ---------- loopy belief propagation on the factor graph (factor_graph.py:82-113) ---------- *)
Section LBP.
Variable ncl : nat.
Variable cscope : nat -> list nat.       (* attributes of clique c *)
Variable cpot : nat -> F.
Variable vzero : nat -> F.               (* zero table over attribute v *)
Variable attrs : list nat.
(* messages keyed (c, v): mu_f[c][v] and mu_n[v][c] *)
Definition lbp_f (mu_n : msgs) (c v : nat) : F :=
  let pre := fold_left (fun acc u => fadd acc (getm (c, u) mu_n (vzero u))) (cscope c) (cpot c) in
  let a := fsub pre (getm (c, v) mu_n (vzero v)) in
  fnorm (lse_out a (filter (fun u => negb (Nat.eqb u v)) (cscope c))).
Definition cliques_of (v : nat) : list nat := filter (fun c => memb v (cscope c)) (seq 0 ncl).
Definition lbp_n (mu_f : msgs) (v c : nat) : F :=
  let pre := fold_left (fun acc c' => fadd acc (getm (c', v) mu_f (vzero v))) (cliques_of v) (vzero v) in
  fsub pre (getm (c, v) mu_f (vzero v)).
Definition pairs_cv : list (nat * nat) := flat_map (fun c => map (fun v => (c, v)) (cscope c)) (seq 0 ncl).
Definition lbp_sweep (mu_n : msgs) : msgs :=
  let mu_f := map (fun e => (e, lbp_f mu_n (fst e) (snd e))) pairs_cv in
  map (fun e => (e, lbp_n mu_f (snd e) (fst e))) pairs_cv.
Definition lbp_belief (total : T) (mu_n : msgs) (c : nat) : F :=
  belief_of total (fold_left (fun acc u => fadd acc (getm (c, u) mu_n (vzero u))) (cscope c) (cpot c)).
Definition lbp_run (total : T) (sweeps : nat) : list F :=
  let M := Nat.iter sweeps lbp_sweep (map (fun e => (e, vzero (snd e))) pairs_cv) in map (lbp_belief total M) (seq 0 ncl).
End LBP.
End Region.
