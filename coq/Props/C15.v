(* C15 — Datasets vectorise to their contingency table; projection commutes; domain laws.
   Only statements + `exact lemma` + Print Assumptions. Models: Model/Domain.v, Model/Dataset.v. *)
From Coq Require Import List Arith ZArith Permutation Sorted.
Import ListNotations.
Require Import PGM.Base.Alg PGM.Base.Sums PGM.Base.Qnn PGM.Base.PyList PGM.Model.Domain PGM.Model.Dataset PGM.Proofs.DatasetP PGM.Proofs.DomainP.
Require Import PGM.Gen.Domain_gen PGM.Proofs.DomainGenP.

(* the vector form is the contingency table in row-major domain order: entry for each cell = total weight of the records equal to it *)
Theorem C15_datavector_is_contingency_table (R : SR) (D : dataset R) : wf_dataset D ->
  datavector D = map (fun c => wcount R c (rows D) (weights D)) (cells (dshape (ddom D))).
Proof. exact (@datavector_contingency R D). Qed.
Print Assumptions C15_datavector_is_contingency_table.

Theorem C15_datavector_entry (R : SR) (D : dataset R) c : wf_dataset D -> inshape c (dshape (ddom D)) ->
  nth (ravel (dshape (ddom D)) c) (datavector D) (zero R) = wcount R c (rows D) (weights D).
Proof. exact (@datavector_entry R D c). Qed.
Print Assumptions C15_datavector_entry.

(* projection onto any attribute list, in any order, = marginalise + transpose the table; weights carried *)
Theorem C15_project_commutes (R : SR) (D : dataset R) cols D' ax : wf_dataset D -> dproject D cols = Some D' -> axes (ddom D) cols = Some ax ->
  datavector D' = map (fun c' => marg_count R (dshape (ddom D)) ax c' (rows D) (weights D)) (cells (dshape (ddom D')))
  /\ attrs (ddom D') = cols.
Proof. intros W H EA. split. exact (@project_commutes R D cols D' ax W H EA).
  unfold dproject in H. destruct (project (ddom D) cols) eqn:E; try discriminate. rewrite EA in H. injection H as <-. simpl.
  exact (project_attrs _ _ _ E). Qed.
Print Assumptions C15_project_commutes.

Theorem C15_marginal_via_vector (R : SR) (D : dataset R) ax c' : wf_dataset D ->
  marg_count R (dshape (ddom D)) ax c' (rows D) (weights D) =
  suml R (map (fun c => if list_eqb (select ax c) c' then nth (ravel (dshape (ddom D)) c) (datavector D) (zero R) else zero R) (cells (dshape (ddom D)))).
Proof. exact (@marg_count_via_vector R D ax c'). Qed.
Print Assumptions C15_marginal_via_vector.

Theorem C15_mass_preserved (R : SR) (D : dataset R) : wf_dataset D -> suml R (datavector D) = suml R (weights D).
Proof. exact (@datavector_total R D). Qed.
Print Assumptions C15_mass_preserved.

(* domain laws *)
Theorem C15_project_order d l d' : project d l = Some d' -> attrs d' = l.
Proof. exact (project_attrs d l d'). Qed.
Print Assumptions C15_project_order.
Theorem C15_project_project d l d1 : project d l = Some d1 -> forall m, incl m l -> project d1 m = project d m.
Proof. exact (project_project d l d1). Qed.
Print Assumptions C15_project_project.
Theorem C15_marginalize_is_complement d l : exists d', marginalize d l = Some d' /\ attrs d' = invert d l /\ forall a, In a (invert d l) <-> In a (attrs d) /\ ~ In a l.
Proof. destruct (marginalize_defined d l) as [d' [H E]]. exists d'. split; [exact H|]. split; [exact E|]. intro a. apply invert_In. Qed.
Print Assumptions C15_marginalize_is_complement.
Theorem C15_merge_ordered_union d o : exists m, merge d o = Some m /\ attrs m = attrs d ++ invert o (attrs d) /\ (forall a, In a (attrs m) <-> In a (attrs d) \/ In a (attrs o)).
Proof. destruct (merge_attrs d o) as [m [H E]]. exists m. split; [exact H|]. split; [exact E|]. intro a. apply (merge_In d o m a H). Qed.
Print Assumptions C15_merge_ordered_union.
Theorem C15_merge_size d o m : merge d o = Some m -> exists e, marginalize o (attrs d) = Some e /\ size m = size d * size e.
Proof. exact (merge_size d o m). Qed.
Print Assumptions C15_merge_size.
Theorem C15_size_order_independent d l l' d1 d2 : Permutation l l' -> project d l = Some d1 -> project d l' = Some d2 -> size d1 = size d2.
Proof. exact (size_project_perm d l l' d1 d2). Qed.
Print Assumptions C15_size_order_independent.
Theorem C15_canonical d l : (forall a, In a (canonical d l) <-> In a (attrs d) /\ In a l) /\ (NoDup l -> NoDup (attrs d) -> incl l (attrs d) -> Permutation (canonical d l) l).
Proof. split. intro a. apply canonical_In. apply canonical_perm. Qed.
Print Assumptions C15_canonical.
Theorem C15_sort key l : Permutation (sort_by key l) l /\ StronglySorted (fun x y => key x <= key y) (sort_by key l).
Proof. split. apply sort_by_perm. apply sort_by_sorted. Qed.
Print Assumptions C15_sort.

(* ---- the definitions GENERATED from src/mbi/domain.py on every run (Gen/Domain_gen.v) ----
   A generated Domain g is well formed (wf0) when it is what the constructor builds; it represents repr g = zip(attrs, shape).
   C15_src_is_model: every translated method returns what the hand model (on which all laws above are proved, and which the
   Dataset / Factor models use) returns; so the laws hold of the source as translated.  Lookups need distinct attribute names
   (Python's dict keeps the last size of a repeated name, the model the first). *)
Theorem C15_src_is_model g o l a : wf0 g -> wf0 o -> NoDup (DomainGen.f_attrs g) -> NoDup (DomainGen.f_attrs o) ->
  option_map repr (DomainGen.project g (inr l)) = project (repr g) l
  /\ DomainGen.project g (inl a) = DomainGen.project g (inr [a])
  /\ DomainGen.transpose g (inr l) = DomainGen.project g (inr l)
  /\ option_map repr (DomainGen.marginalize g l) = marginalize (repr g) l
  /\ DomainGen.invert g l = Some (invert (repr g) l)
  /\ DomainGen.axes g l = axes (repr g) l
  /\ option_map repr (DomainGen.merge g o) = merge (repr g) (repr o)
  /\ DomainGen.contains g o = Some (contains (repr g) (repr o))
  /\ DomainGen.size g None = Some (size (repr g))
  /\ DomainGen.size g (Some (inr l)) = size_of (repr g) l
  /\ option_map repr (DomainGen.sort g 0) = sort_size (repr g)
  /\ option_map repr (DomainGen.sort g 1) = sort_name (repr g)
  /\ DomainGen.canonical g l = Some (canonical (repr g) l)
  /\ DomainGen.dunder_getitem g a = lookup (repr g) a
  /\ DomainGen.dunder_eq g o = Some (dom_eqb (repr g) (repr o)).
Proof. intros W Wo ND NDo. repeat split.
  - exact (proj1 (gen_project g l W ND)).
  - exact (proj1 (gen_marginalize g l W ND)).
  - exact (gen_invert g l W).
  - exact (gen_axes g l W).
  - exact (proj1 (gen_merge g o W Wo NDo)).
  - exact (gen_contains g o W Wo).
  - exact (gen_size g W).
  - exact (gen_size_of g l W ND).
  - exact (gen_sort_size g W ND).
  - exact (gen_sort_name g W ND).
  - exact (gen_canonical g l W).
  - exact (gen_getitem g a W ND).
  - exact (gen_eq g o W Wo). Qed.
Print Assumptions C15_src_is_model.
(* well-formedness is what the constructor establishes and every method preserves; every model domain is represented *)
Theorem C15_src_wellformed a s g : DomainGen.init a s = Some g -> DomainGen.f_attrs g = a /\ DomainGen.f_shape g = s /\ wf0 g.
Proof. exact (init_some a s g). Qed.
Print Assumptions C15_src_wellformed.
Theorem C15_src_constructor_asserts a s : length a <> length s -> DomainGen.init a s = None.
Proof. exact (gen_init_assert a s). Qed.
Print Assumptions C15_src_constructor_asserts.
Theorem C15_src_represents_every_domain (d : dom) : exists g, DomainGen.init (attrs d) (dshape d) = Some g /\ repr g = d /\ wf0 g.
Proof. exact (repr_surjective d). Qed.
Print Assumptions C15_src_represents_every_domain.
(* laws stated directly on the generated definitions *)
Theorem C15_src_project_order g l g' : wf0 g -> NoDup (DomainGen.f_attrs g) -> DomainGen.project g (inr l) = Some g' -> wf0 g' /\ DomainGen.f_attrs g' = l.
Proof. intros W ND. exact (proj2 (gen_project g l W ND) g'). Qed.
Print Assumptions C15_src_project_order.
Theorem C15_src_merge_ordered_union g o m : wf0 g -> wf0 o -> NoDup (DomainGen.f_attrs o) -> DomainGen.merge g o = Some m ->
  wf0 m /\ DomainGen.f_attrs m = DomainGen.f_attrs g ++ filter (fun a => negb (memb a (DomainGen.f_attrs g))) (DomainGen.f_attrs o).
Proof. intros W Wo ND H. destruct (proj2 (gen_merge g o W Wo ND) m H) as [Wm A]. split; [exact Wm|]. rewrite A. unfold invert. now rewrite attrs_repr. Qed.
Print Assumptions C15_src_merge_ordered_union.
Theorem C15_src_sort_how g how : how <> 0 -> how <> 1 -> DomainGen.sort g how = None.
Proof. exact (gen_sort_other g how). Qed.
Print Assumptions C15_src_sort_how.

(* non-vacuity: a concrete weighted dataset with a duplicate record, a size-1 attribute and a permuted projection *)
Example C15_example :
  let D : dataset QcSR := Build_dataset QcSR [(0,2);(1,1);(2,3)] [[1;0;2];[0;0;1];[1;0;2]] [Qc_of 1 1; Qc_of 1 2; Qc_of 3 1] in
  wf_dataset D /\ datavector D = map (fun p => Qc_of (fst p) (Z.to_pos (snd p))) [(0,1);(1,2);(0,1);(0,1);(0,1);(4,1)]%Z
  /\ option_map (@datavector QcSR) (dproject D [2;0]) = Some (map (fun p => Qc_of (fst p) (Z.to_pos (snd p))) [(0,1);(0,1);(1,2);(0,1);(0,1);(4,1)]%Z).
Proof. split; [|split]; [ | vm_compute; reflexivity | vm_compute; reflexivity ].
  split; [repeat constructor | reflexivity]. Qed.
