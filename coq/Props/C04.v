(* C04 — the optimised objective, its gradient and smoothness bound are the stated ones.
   Model: Model/Loss.v (total_loss sums over the SUPPLIED measurement list, each measurement evaluated once on the marginal of the
   clique group_of assigns it to; loss_m / grad_m are the per-measurement residual form of _marginal_loss). Exact rationals. *)
From Coq Require Import List Arith Bool QArith Qcanon.
Import ListNotations.
Require Import PGM.Base.Alg PGM.Base.Sums PGM.Base.Qnn PGM.Model.Domain PGM.Model.Loss PGM.Proofs.LossP.
Local Open Scope Qc_scope.

(* the gradient used is the derivative of the loss: exact second-order expansion in every direction d
   (the remainder is 1/2 |c Q d|^2, so the directional derivative at x along d is <grad x, d>) *)
Theorem C04_gradient_is_derivative Q m p y c x d :
  loss_m Q m p y c (fun j => x j + d j) =
  loss_m Q m p y c x + dot p (grad_m Q m p y c x) d + half * dot m (fun i => c * matvec Q p d i) (fun i => c * matvec Q p d i).
Proof. exact (loss_expansion Q m p y c x d). Qed.
Print Assumptions C04_gradient_is_derivative.

(* hence the loss is convex: it never lies below its linearisation *)
Theorem C04_loss_convex Q m p y c x d : loss_m Q m p y c x + dot p (grad_m Q m p y c x) d <= loss_m Q m p y c (fun j => x j + d j).
Proof. exact (loss_convex Q m p y c x d). Qed.
Print Assumptions C04_loss_convex.

(* <Q d, r> = <d, Q^T r>: the transpose used in the gradient is the adjoint of the query *)
Theorem C04_transpose_is_adjoint Q m p d r : dot m (matvec Q p d) r = dot p d (tmatvec Q m r).
Proof. exact (adjoint Q m p d r). Qed.
Print Assumptions C04_transpose_is_adjoint.

(* grouping: a measurement is assigned to a clique that contains its projection, or to none when no clique contains it *)
Theorem C04_group_contains size cliques proj i : group_of size cliques proj = Some i ->
  exists cl, In (i, cl) (sorted_cliques size cliques) /\ subsetb proj cl = true.
Proof. exact (first_containing_spec proj (sorted_cliques size cliques) i). Qed.
Print Assumptions C04_group_contains.
Theorem C04_group_none size cliques proj : group_of size cliques proj = None ->
  forall i cl, In (i, cl) (sorted_cliques size cliques) -> subsetb proj cl = false.
Proof. exact (first_containing_none proj (sorted_cliques size cliques)). Qed.
Print Assumptions C04_group_none.

(* PARTIAL: the smoothness bound (largest eigenvalue of the Hessian <= the constant _lipschitz returns) is an eigenvalue
   statement over the reals and is NOT proved; it is decided per run against numpy.linalg.eigvalsh of the dense Hessian. *)

Example C04_example : loss_m (fun i j => if Nat.eqb i j then 1 else 0) 2 2 (fun i => Q2Qc (Z.of_nat i # 1)) 1 (fun _ => 1) = Q2Qc (1 # 2).
Proof. vm_compute. reflexivity. Qed.
