(* C04 — the optimised objective, its gradient and smoothness bound are the stated ones.
   Model: Model/Loss.v (total_loss sums over the SUPPLIED measurement list, each measurement evaluated once on the marginal of the
   clique group_of assigns it to; loss_m / grad_m are the per-measurement residual form of _marginal_loss). Exact rationals. *)
From Coq Require Import List Arith Bool QArith Qcanon.
Import ListNotations.
Require Import PGM.Base.Alg PGM.Base.Sums PGM.Base.Qnn PGM.Model.Domain PGM.Model.Loss PGM.Proofs.LossP.
Local Open Scope Qc_scope.

(* the gradient used is the derivative of the loss: exact second-order expansion in every direction d
   (the remainder is 1/2 |c Q d|^2, so the directional derivative at x along d is <grad x, d>) *)
Theorem C04_gradient_is_derivative Q m p y c x d :
  loss_m Q m p y c (fun j => x j + d j) =
  loss_m Q m p y c x + dot p (grad_m Q m p y c x) d + half * dot m (fun i => c * matvec Q p d i) (fun i => c * matvec Q p d i).
Proof. exact (loss_expansion Q m p y c x d). Qed.
Print Assumptions C04_gradient_is_derivative.

(* hence the loss is convex: it never lies below its linearisation *)
Theorem C04_loss_convex Q m p y c x d : loss_m Q m p y c x + dot p (grad_m Q m p y c x) d <= loss_m Q m p y c (fun j => x j + d j).
Proof. exact (loss_convex Q m p y c x d). Qed.
Print Assumptions C04_loss_convex.

(* <Q d, r> = <d, Q^T r>: the transpose used in the gradient is the adjoint of the query *)
Theorem C04_transpose_is_adjoint Q m p d r : dot m (matvec Q p d) r = dot p d (tmatvec Q m r).
Proof. exact (adjoint Q m p d r). Qed.
Print Assumptions C04_transpose_is_adjoint.

(* grouping: a measurement is assigned to a clique that contains its projection, or to none when no clique contains it *)
Theorem C04_group_contains size cliques proj i : group_of size cliques proj = Some i ->
  exists cl, In (i, cl) (sorted_cliques size cliques) /\ subsetb proj cl = true.
Proof. exact (first_containing_spec proj (sorted_cliques size cliques) i). Qed.
Print Assumptions C04_group_contains.
Theorem C04_group_none size cliques proj : group_of size cliques proj = None ->
  forall i cl, In (i, cl) (sorted_cliques size cliques) -> subsetb proj cl = false.
Proof. exact (first_containing_none proj (sorted_cliques size cliques)). Qed.
Print Assumptions C04_group_none.

Example C04_example : loss_m (fun i j => if Nat.eqb i j then 1 else 0) 2 2 (fun i => Q2Qc (Z.of_nat i # 1)) 1 (fun _ => 1) = Q2Qc (1 # 2).
Proof. vm_compute. reflexivity. Qed.

(* SMOOTHNESS CONSTANT (on the reals).  Summing a clique table onto a sub-clique whose cells each collect m = n/p cells inflates the
   squared norm by at most m (Cauchy-Schwarz per block); hence a bound e on the quadratic form of Q^T Q gives e*(n/p)*c^2 for the
   measurement's contribution to the Hessian form in terms of the clique table; contributions on one clique add, and across cliques
   (block-diagonal Hessian) the maximum - what _lipschitz returns - bounds the whole form. *)
Require Import Reals PGM.Proofs.SmoothP.
Theorem C04_marginalisation_norm_bound (m : nat) blocks : (forall b, In b blocks -> length b = m) -> (sumsq (marg blocks) <= INR m * allsq blocks)%R.
Proof. exact (marg_bound m blocks). Qed.
Print Assumptions C04_marginalisation_norm_bound.
Theorem C04_measurement_smoothness (qform : list R -> R) e c (m : nat) blocks :
  (0 <= e)%R -> (forall w, (qform w <= e * sumsq w)%R) -> (forall b, In b blocks -> length b = m) ->
  (c * c * qform (marg blocks) <= e * INR m * (c * c) * allsq blocks)%R.
Proof. exact (measurement_bound qform e c m blocks). Qed.
Print Assumptions C04_measurement_smoothness.
Theorem C04_maximum_over_cliques (hs Ls nzs : list R) (Lmax : R) : length hs = length Ls -> length hs = length nzs ->
  (forall i, (nth i hs 0 <= nth i Ls 0 * nth i nzs 0)%R) -> (forall i, (nth i Ls 0 <= Lmax)%R) -> (forall i, (0 <= nth i nzs 0)%R) ->
  (lsum hs <= Lmax * lsum nzs)%R.
Proof. exact (max_over_cliques hs Ls nzs Lmax). Qed.
Print Assumptions C04_maximum_over_cliques.
(* PARTIAL: that eigsh returns an upper bound e of the quadratic form of Q^T Q (its largest eigenvalue) is external; the constant the
   code returns is compared per run with numpy.linalg.eigvalsh of the dense Hessian. *)

