(* C19 — public-data reweighting yields valid weights and never a worse fit.
   Model: Model/Public.v (entropic_mirror_descent as written: the acceptance test uses the STALE initial weights P0). *)
From Coq Require Import List ZArith Reals Lra Bool.
Import ListNotations.
Require Import PGM.Base.Num PGM.Model.Select PGM.Model.Public PGM.Proofs.SelectP PGM.Proofs.GibbsP PGM.Proofs.PublicP.
Open Scope R_scope.

(* every iterate is a vector of strictly positive weights summing to the total *)
Theorem C19_weights_sum_to_total total alpha logP dL : 0 < total -> logP <> [] -> length logP = length dL ->
  SelectP.sumR (map exp (mirror_step RNum total alpha logP dL)) = total.
Proof. exact (mirror_step_total total alpha logP dL). Qed.
Print Assumptions C19_weights_sum_to_total.
Theorem C19_weights_positive (l : list R) w : In w (map exp l) -> 0 < w.
Proof. exact (weights_positive l w). Qed.
Print Assumptions C19_weights_positive.
(* each step is the normalised exponential tilt Q_i = P_i exp(-alpha g_i) c of the previous iterate *)
Theorem C19_step_is_tilt total alpha logP dL : 0 < total -> logP <> [] -> length logP = length dL ->
  let l := vzip (fun p g => p - alpha * g) logP dL in let c := total / SelectP.sumR (map exp l) in
  0 < c /\ map exp (mirror_step RNum total alpha logP dL) = tilt alpha c (map exp logP) dL.
Proof. exact (mirror_step_is_tilt total alpha logP dL). Qed.
Print Assumptions C19_step_is_tilt.
(* Lyapunov step: an accepted tilt step satisfies L(Q) + KL(P0||Q)/2 <= L(P) + KL(P0||P)/2 - KL(Q||P)/2 *)
Theorem C19_lyapunov alpha c P g P0 (LP LQ : R) : let Q := tilt alpha c P g in
  0 < c -> length P = length g -> length P0 = length g -> allpos P -> GibbsP.sumR Q = GibbsP.sumR P0 ->
  LP - LQ >= alpha / 2 * (dot g P0 - dot g Q) -> LQ + kl P0 Q / 2 <= LP + kl P0 P / 2 - kl Q P / 2.
Proof. exact (lyapunov alpha c P g P0 LP LQ). Qed.
Print Assumptions C19_lyapunov.
(* hence, for ANY loss function and any sequence of accepted steps, the fit is never worse than at the start (the uniformly weighted
   public data scaled to the total), although the acceptance test uses the stale P0 *)
Theorem C19_never_worse P0 L0 P LP : allpos P0 -> reach P0 L0 P LP -> LP <= L0.
Proof. intros H. exact (never_worse P0 L0 H P LP). Qed.
Print Assumptions C19_never_worse.
Theorem C19_start_is_scaled_public_data total x0 : 0 < SelectP.sumR x0 -> SelectP.sumR (init_P RNum total x0) = total.
Proof. exact (init_P_total total x0). Qed.
Print Assumptions C19_start_is_scaled_public_data.
