(* C11 — synthetic records faithfully realise the model.  Model: Model/Synth.v (the rounding column, exact rationals, the random
   subset as an oracle argument constrained only by valid_idx). *)
From Coq Require Import List ZArith QArith Bool.
Import ListNotations.
Require Import PGM.Model.Synth PGM.Proofs.SynthP.

(* exactly the requested number of rows, for every admissible random subset *)
Theorem C11_rows_exact counts n idx : valid_idx counts n idx = true -> zsum (round_col counts n idx) = n.
Proof. exact (round_col_total counts n idx). Qed.
Print Assumptions C11_rows_exact.
(* each value's count differs from its expected count by less than 1, whatever the number of rows *)
Theorem C11_rounding_error_below_one counts n idx i : valid_idx counts n idx = true -> (i < length counts)%nat ->
  (- 1 < inject_Z (nth i (round_col counts n idx) 0%Z) - nth i (scaled counts n) 0%Q < 1)%Q.
Proof. exact (round_col_error counts n idx i). Qed.
Print Assumptions C11_rounding_error_below_one.
(* a value to which the conditional gives zero probability is never drawn *)
Theorem C11_zero_probability_never_drawn counts n idx i : valid_idx counts n idx = true -> (i < length counts)%nat -> (nth i counts 0%Q == 0)%Q ->
  nth i (round_col counts n idx) 0%Z = 0%Z.
Proof. exact (round_col_support counts n idx i). Qed.
Print Assumptions C11_zero_probability_never_drawn.

Example C11_example : valid_idx [1; 1 # 2; 0]%Q 5 [1%nat] = true /\ round_col [1; 1 # 2; 0]%Q 5 [1%nat] = [3; 2; 0]%Z.
Proof. split; vm_compute; reflexivity. Qed.
(* PARTIAL: that the product of the conditionals used along the reversed elimination order is the model joint (chain rule on the
   triangulated graph), hence the clique-count bound and the absence of records in zero cells of the JOINT, is observed per run. *)
