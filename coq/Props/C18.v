(* C18 — approximate estimation is valid, and exact when nothing is relaxed.
   The oracles LocalInference drives are the sweeps of Model/Region.v (tied to the code by the C16 / C17 correspondence); here: what
   holds for the estimator's outputs whatever the sweeps did, exactness of the problem solved when no consistency constraint is
   relaxed, and the control flow around the oracle. *)
From Coq Require Import List Arith Reals Lra.
Import ListNotations.
Require Import PGM.Base.Num PGM.Model.Factor PGM.Model.Region PGM.Proofs.GibbsP PGM.Proofs.CertP PGM.Proofs.RegionP PGM.Proofs.SelectP PGM.Proofs.LocalP.
Open Scope R_scope.

(* VALID: every table any oracle returns (convex, approx, pairwise; any messages, any step sizes, any number of iterations) is
   belief_of total b: strictly positive entries summing to the total *)
Theorem C18_tables_normalised total (f : factor R) : 0 < total -> fvals f <> [] ->
  SelectP.sumR (fvals (belief_of RNum total f)) = total /\ forall w, In w (fvals (belief_of RNum total f)) -> 0 < w.
Proof. intros H1 H2. rewrite belief_of_values. split. exact (normalised_sum total (fvals f) H1 H2). exact (normalised_pos total (fvals f)). Qed.
Print Assumptions C18_tables_normalised.

(* EXACT WHEN NOTHING IS RELAXED: with pairwise disjoint cliques the region graph has no edges; then for ANY potentials the oracle's
   answer N exp(theta_r)/Z_r maximises <theta, nu> + H(nu) over ALL families of valid tables (global consistency = local consistency
   = product of simplices), i.e. the oracle is the exact marginal oracle and mirror descent runs on the exact problem *)
Theorem C18_disjoint_oracle_exact n d theta N : 0 < N -> (forall r, (r < n)%nat -> (0 < d r)%nat) ->
  forall nu, valid n d N nu -> objective n d theta N nu <= objective n d theta N (fun r => belief (d r) (theta r) N).
Proof. exact (disjoint_exact n d theta N). Qed.
Print Assumptions C18_disjoint_oracle_exact.
Theorem C18_disjoint_unique d theta nu N : 0 < N -> (0 < d)%nat -> sumf d nu = N ->
  (dotf d theta (belief d theta N) + ent d N (belief d theta N)) - (dotf d theta nu + ent d N nu) = kl (tolist d nu) (tolist d (belief d theta N)).
Proof. exact (disjoint_region_gap d theta nu N). Qed.
Print Assumptions C18_disjoint_unique.

(* CONTROL FLOW: the extra sweeps after the last gradient step stop at the first point whose feasibility is below 1, or after exactly
   the budget (1000); nothing else is changed *)
Theorem C18_post_iterations (S : Type) (sweep : S -> S) (feas : S -> R) k s :
  fst (post S sweep feas k s) = sweeps S sweep (snd (post S sweep feas k s)) s /\ (snd (post S sweep feas k s) <= k)%nat /\
  (feas (fst (post S sweep feas k s)) < 1 \/ snd (post S sweep feas k s) = k) /\
  (forall i, (i < snd (post S sweep feas k s))%nat -> ~ feas (sweeps S sweep i s) < 1).
Proof. exact (post_spec S sweep feas k s). Qed.
Print Assumptions C18_post_iterations.
(* the damping schedule rho <- (0.9 + rho)/2 stays in [rho0, 0.9) and the step size stays positive, however often they fire *)
Theorem C18_damping_bounded k rho : 0 <= rho < 0.9 -> rho <= bumps k rho < 0.9.
Proof. exact (damping_bounded k rho). Qed.
Print Assumptions C18_damping_bounded.
Theorem C18_step_positive k a : 0 < a -> 0 < halves k a <= a.
Proof. exact (step_positive k a). Qed.
Print Assumptions C18_step_positive.
(* PARTIAL: that mirror descent with these oracles CONVERGES to the optimum of the (exact or relaxed) problem is observed per run
   (loss vs independent per-clique NNLS on disjoint families; fit <= uniform; feasibility test) and not proved; the restart recursion
   of mirror_descent_auto has no termination proof (observed). *)
