(* C12 — every constructed junction tree is valid, with a valid message schedule.
   The tree itself is produced by networkx (minimum_spanning_tree, dfs_preorder, topological_sort: external);
   what is proved is (1) the triangulation model covers every input clique, (2) the computable conditions the
   extracted model evaluates on the code's tree imply the textbook junction-tree properties, (3) the schedule check. *)
From Coq Require Import List Arith Bool Permutation.
Import ListNotations.
Require Import PGM.Base.Sums PGM.Model.BP PGM.Model.JTree PGM.Proofs.JTP PGM.Proofs.BPrunP PGM.Proofs.BPlinkP PGM.Proofs.JTreeP PGM.Proofs.WeightP.
Require Import PGM.Gen.MpOrder_gen PGM.Proofs.MpOrderP.

(* every input clique is contained in some elimination clique, for every elimination order that eliminates it *)
Theorem C12_triangulation_covers attrs cliques order C : In C cliques -> NoDup C -> C <> [] -> incl C attrs -> incl C order ->
  exists K, In K (eliminate order (graph_of cliques) attrs) /\ incl C K.
Proof. exact (triangulation_covers attrs cliques order C). Qed.
Print Assumptions C12_triangulation_covers.

(* running intersection: on a tree passing the check, for every attribute the nodes containing it have a single top node
   (all others have their parent in the set), i.e. they form one connected subtree — whatever node is taken as root *)
Theorem C12_running_intersection D ncl scope nbrs sch c a p :
  rootokb D ncl scope nbrs sch c = true -> length (tops scope a p (root_tree nbrs sch c)) <= 1.
Proof. intros H. unfold rootokb in H. apply andb_prop in H. destruct H as [H _]. apply andb_prop in H. destruct H as [G _].
  apply good_single_top. now apply goodb_good. Qed.
Print Assumptions C12_running_intersection.

(* the rooted unfolding reaches every node exactly once: the neighbour structure is a spanning tree, and the attributes
   outside a node are exactly what is eliminated below it *)
Theorem C12_tree_spans D ncl scope nbrs sch c : rootokb D ncl scope nbrs sch c = true ->
  Permutation (nodes (root_tree nbrs sch c)) (seq 0 ncl) /\
  Permutation (flat_map (elimt scope (scope c)) (match root_tree nbrs sch c with Node _ ks => ks end)) (diff D (scope c)).
Proof. intros H. unfold rootokb in H. apply andb_prop in H. destruct H as [H P2]. apply andb_prop in H. destruct H as [_ P1].
  split; now apply permb_perm. Qed.
Print Assumptions C12_tree_spans.

Theorem C12_input_cliques_covered inputs nds : coverb inputs nds = true -> forall c, In c inputs -> exists n, In n nds /\ incl c n.
Proof. exact (coverb_spec inputs nds). Qed.
Print Assumptions C12_input_cliques_covered.
Theorem C12_attributes_covered attrs nds : attrs_coverb attrs nds = true -> forall a, In a attrs -> exists n, In n nds /\ In a n.
Proof. exact (attrs_coverb_spec attrs nds). Qed.
Print Assumptions C12_attributes_covered.
Theorem C12_no_node_contains_another nds : antichainb nds = true ->
  forall i j, i < j -> j < length nds -> ~ incl (nth i nds []) (nth j nds []) /\ ~ incl (nth j nds []) (nth i nds []).
Proof. exact (antichainb_spec nds). Qed.
Print Assumptions C12_no_node_contains_another.

(* the schedule lists each direction of each tree edge exactly once and only after every message it depends on *)
Theorem C12_schedule nbrs ncl sch : vschedb nbrs [] sch = true -> completeb ncl nbrs sch = true ->
  valid_sched nbrs [] sch /\ NoDup sch /\ (forall e, In e sch -> In (snd e) (nbrs (fst e))) /\ (forall c k, c < ncl -> In k (nbrs c) -> In (k, c) sch).
Proof. intros V C. split. now apply vschedb_spec. exact (schedule_each_direction_once nbrs ncl sch V C). Qed.
Print Assumptions C12_schedule.

(* THE SCHEDULE, FROM THE SOURCE: Gen/MpOrder_gen.v is generated on every run from JunctionTree.mp_order (junction_tree.py:23-34): the
   nodes (both directions of every tree edge) and the dependency edges handed to networkx.  EVERY topological order of that graph - a
   permutation of the nodes in which the source of each edge precedes its target, which is topological_sort's specification - is a
   valid and complete schedule: each direction of each tree edge exactly once, (i,j) only after every (k,i) with k <> j. *)
Theorem C12_src_every_topological_order_is_a_valid_schedule tree_edges nbrs sch :
  (forall i j, In j (nbrs i) <-> In (i, j) tree_edges \/ In (j, i) tree_edges) -> NoDup (mp_order_messages tree_edges) ->
  topological (mp_order_messages tree_edges) (mp_order_edges (mp_order_messages tree_edges)) sch ->
  valid_sched nbrs [] sch /\ NoDup sch /\ (forall c k, In k (nbrs c) -> In (k, c) sch).
Proof. intros H. exact (mp_order_valid tree_edges nbrs H sch). Qed.
Print Assumptions C12_src_every_topological_order_is_a_valid_schedule.

(* WHY THE MAXIMUM-WEIGHT SPANNING TREE (junction_tree.py:104-123, weights = sizes of the clique intersections) WORKS.
   For a tree t over cliques with duplicate-free scopes inside D, rooted anywhere: every node containing attribute a is either a
   "top" (its parent does not contain a) or joined to its parent by an edge whose separator contains a; so
       weight t + sum_a #tops_a = sum_a N_a            (N_a = number of nodes containing a),
   every occurring attribute has at least one top, hence weight t <= sum_a (N_a - 1), and the bound is attained exactly when every
   attribute has ONE top - the nodes containing it form a connected subtree - which in turn gives the recursive predicate `good`
   under which C01_exact holds. *)
Theorem C12_weight_identity scope D t : NoDup D -> wfs scope D t ->
  weight scope [] t + list_sum (map (fun a => length (tops scope a [] t)) D) = list_sum (map (fun a => cnt scope a t) D).
Proof. exact (weight_identity scope D t). Qed.
Print Assumptions C12_weight_identity.
Theorem C12_weight_bound scope D t : NoDup D -> wfs scope D t ->
  weight scope [] t + list_sum (map (fun a => Nat.min 1 (cnt scope a t)) D) <= list_sum (map (fun a => cnt scope a t) D).
Proof. exact (weight_upper_bound scope D t). Qed.
Print Assumptions C12_weight_bound.
Theorem C12_weight_bound_attained_iff_running_intersection scope D t : NoDup D -> wfs scope D t ->
  (weight scope [] t + list_sum (map (fun a => Nat.min 1 (cnt scope a t)) D) = list_sum (map (fun a => cnt scope a t) D)
   <-> forall a, In a D -> length (tops scope a [] t) <= 1).
Proof. exact (weight_max_iff_single_tops scope D t). Qed.
Print Assumptions C12_weight_bound_attained_iff_running_intersection.
Theorem C12_running_intersection_gives_good scope D t : wfs scope D t -> (forall a, In a D -> length (tops scope a [] t) <= 1) -> good scope t.
Proof. exact (single_tops_good scope D t). Qed.
Print Assumptions C12_running_intersection_gives_good.
(* any tree over the same cliques that weighs at least as much as SOME junction tree is a junction tree: so every maximum-weight
   spanning tree is one as soon as the clique set admits a junction tree at all, whatever tie-breaking networkx applies *)
Theorem C12_max_weight_spanning_tree_is_junction_tree scope D t t' : NoDup D -> wfs scope D t -> wfs scope D t' ->
  Permutation (nodes t) (nodes t') -> good scope t' -> weight scope [] t' <= weight scope [] t -> good scope t.
Proof. intros ND W W' P. apply (max_weight_is_junction_tree scope D t t' ND W W'). intros a _. now apply same_nodes_same_cnt. Qed.
Print Assumptions C12_max_weight_spanning_tree_is_junction_tree.

(* NOT proved (rip_partial): that the maximal elimination cliques always ADMIT a junction tree (textbook: the clique graph of a
   chordal graph has one) and that networkx returns a maximum-weight spanning tree.  With those two facts the theorem above gives
   validity of every constructed tree; per run the extracted checker decides rootokb on every tree the code builds, and the thorough
   tier enumerates all graphs on <= 5 attributes x all orders. *)

(* non-vacuity: the 4-cycle a-b-c-d-a eliminated in order a,b,c,d *)
Example C12_example :
  jt_cliques [0;1;2;3] [[0;1];[1;2];[2;3];[3;0]] [0;1;2;3] = [[0;1;3];[1;2;3]]
  /\ rootokb [0;1;2;3] 2 (fun c => nth c [[0;1;3];[1;2;3]] []) (fun c => nth c [[1];[0]] []) [(0,1);(1,0)] 0 = true.
Proof. split; vm_compute; reflexivity. Qed.
(* the weight identity on the chain [0,1]-[1,2]-[2,3] rooted in the middle: weight 2, one top per attribute; and on the same cliques
   arranged as the star around [0,1] the attribute 2 has two tops and the weight drops to 1 *)
Example C12_weight_example :
  let scope := fun c => nth c [[0;1];[1;2];[2;3]] [] in
  weight scope [] (Node 1 [Node 0 []; Node 2 []]) = 2 /\ map (fun a => length (tops scope a [] (Node 1 [Node 0 []; Node 2 []]))) [0;1;2;3] = [1;1;1;1]
  /\ weight scope [] (Node 0 [Node 1 []; Node 2 []]) = 1 /\ map (fun a => length (tops scope a [] (Node 0 [Node 1 []; Node 2 []]))) [0;1;2;3] = [1;1;2;1].
Proof. vm_compute. repeat split. Qed.
