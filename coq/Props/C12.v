(* C12 — every constructed junction tree is valid, with a valid message schedule.
   The tree itself is produced by networkx (minimum_spanning_tree, dfs_preorder, topological_sort: external);
   what is proved is (1) the triangulation model covers every input clique, (2) the computable conditions the
   extracted model evaluates on the code's tree imply the textbook junction-tree properties, (3) the schedule check. *)
From Coq Require Import List Arith Bool Permutation.
Import ListNotations.
Require Import PGM.Base.Sums PGM.Model.BP PGM.Model.JTree PGM.Proofs.JTP PGM.Proofs.BPrunP PGM.Proofs.BPlinkP PGM.Proofs.JTreeP.

(* every input clique is contained in some elimination clique, for every elimination order that eliminates it *)
Theorem C12_triangulation_covers attrs cliques order C : In C cliques -> NoDup C -> C <> [] -> incl C attrs -> incl C order ->
  exists K, In K (eliminate order (graph_of cliques) attrs) /\ incl C K.
Proof. exact (triangulation_covers attrs cliques order C). Qed.
Print Assumptions C12_triangulation_covers.

(* running intersection: on a tree passing the check, for every attribute the nodes containing it have a single top node
   (all others have their parent in the set), i.e. they form one connected subtree — whatever node is taken as root *)
Theorem C12_running_intersection D ncl scope nbrs sch c a p :
  rootokb D ncl scope nbrs sch c = true -> length (tops scope a p (root_tree nbrs sch c)) <= 1.
Proof. intros H. unfold rootokb in H. apply andb_prop in H. destruct H as [H _]. apply andb_prop in H. destruct H as [G _].
  apply good_single_top. now apply goodb_good. Qed.
Print Assumptions C12_running_intersection.

(* the rooted unfolding reaches every node exactly once: the neighbour structure is a spanning tree, and the attributes
   outside a node are exactly what is eliminated below it *)
Theorem C12_tree_spans D ncl scope nbrs sch c : rootokb D ncl scope nbrs sch c = true ->
  Permutation (nodes (root_tree nbrs sch c)) (seq 0 ncl) /\
  Permutation (flat_map (elimt scope (scope c)) (match root_tree nbrs sch c with Node _ ks => ks end)) (diff D (scope c)).
Proof. intros H. unfold rootokb in H. apply andb_prop in H. destruct H as [H P2]. apply andb_prop in H. destruct H as [_ P1].
  split; now apply permb_perm. Qed.
Print Assumptions C12_tree_spans.

Theorem C12_input_cliques_covered inputs nds : coverb inputs nds = true -> forall c, In c inputs -> exists n, In n nds /\ incl c n.
Proof. exact (coverb_spec inputs nds). Qed.
Print Assumptions C12_input_cliques_covered.
Theorem C12_attributes_covered attrs nds : attrs_coverb attrs nds = true -> forall a, In a attrs -> exists n, In n nds /\ In a n.
Proof. exact (attrs_coverb_spec attrs nds). Qed.
Print Assumptions C12_attributes_covered.
Theorem C12_no_node_contains_another nds : antichainb nds = true ->
  forall i j, i < j -> j < length nds -> ~ incl (nth i nds []) (nth j nds []) /\ ~ incl (nth j nds []) (nth i nds []).
Proof. exact (antichainb_spec nds). Qed.
Print Assumptions C12_no_node_contains_another.

(* the schedule lists each direction of each tree edge exactly once and only after every message it depends on *)
Theorem C12_schedule nbrs ncl sch : vschedb nbrs [] sch = true -> completeb ncl nbrs sch = true ->
  valid_sched nbrs [] sch /\ NoDup sch /\ (forall e, In e sch -> In (snd e) (nbrs (fst e))) /\ (forall c k, c < ncl -> In k (nbrs c) -> In (k, c) sch).
Proof. intros V C. split. now apply vschedb_spec. exact (schedule_each_direction_once nbrs ncl sch V C). Qed.
Print Assumptions C12_schedule.

(* NOT proved (rip_partial): that the networkx maximum-weight spanning tree of the maximal elimination cliques always passes
   rootokb (textbook: a max-weight spanning tree of the clique graph of a chordal graph is a junction tree).  The extracted
   checker decides it on every tree the code builds; the thorough tier enumerates all graphs on <= 5 attributes x all orders. *)

(* non-vacuity: the 4-cycle a-b-c-d-a eliminated in order a,b,c,d *)
Example C12_example :
  jt_cliques [0;1;2;3] [[0;1];[1;2];[2;3];[3;0]] [0;1;2;3] = [[0;1;3];[1;2;3]]
  /\ rootokb [0;1;2;3] 2 (fun c => nth c [[0;1;3];[1;2;3]] []) (fun c => nth c [[1];[0]] []) [(0,1);(1,0)] 0 = true.
Proof. split; vm_compute; reflexivity. Qed.
