(* C07 — zCDP <-> (epsilon, delta) conversions.  Statements about the definitions GENERATED on every run
   from mechanisms/cdp2adp.py by translator/py2gallina.py (Gen/Cdp2adp_gen.v). *)
From Coq Require Import ZArith Reals Bool Lra.
From Coquelicot Require Import Coquelicot.
Require Import PGM.Base.Num PGM.Gen.Cdp2adp_gen PGM.Proofs.CdpP.
Open Scope R_scope.

(* SOUND, for every number type (floats included): the budget returned passes the code's own test
   cdp_delta(rho, eps) <= delta, because the search only moves its lower end to points that passed it. *)
Theorem C07_cdp_rho_sound (T : Type) (O : NumOps T) eps delta :
  nleb O (lit O 1 1) delta = false -> nleb O (cdp_delta O (lit O 0 1) eps) delta = true ->
  nleb O (cdp_delta O (cdp_rho O eps delta) eps) delta = true.
Proof. exact (@cdp_rho_sound T O eps delta). Qed.
Print Assumptions C07_cdp_rho_sound.

Theorem C07_cdp_eps_sound (T : Type) (O : NumOps T) rho delta :
  orb (nleb O (lit O 1 1) delta) (neqb O rho (lit O 0 1)) = false ->
  nleb O (cdp_delta O rho (nadd O rho (nmul O (lit O 2 1) (nsqrt O (nmul O rho (nlog O (ndiv O (lit O 1 1) delta))))))) delta = true ->
  nleb O (cdp_delta O rho (cdp_eps O rho delta)) delta = true.
Proof. exact (@cdp_eps_sound T O rho delta). Qed.
Print Assumptions C07_cdp_eps_sound.

(* TIGHT bracket: the other end of cdp_rho's search always fails the test *)
Theorem C07_cdp_rho_bracket (T : Type) (O : NumOps T) eps delta :
  nleb O (lit O 1 1) delta = false -> nleb O (cdp_delta O (nadd O eps (lit O 1 1)) eps) delta = false ->
  exists hi, nleb O (cdp_delta O hi eps) delta = false /\
     exists st, st = Nat.iter 1000 (fun st : T * T * T => let '(r, mn, mx) := st in
        let r := ndiv O (nadd O mn mx) (lit O 2 1) in
        let '(mn, mx) := if nleb O (cdp_delta O r eps) delta then (r, mx) else (mn, r) in (r, mn, mx))
        (lit O 0 1, lit O 0 1, nadd O eps (lit O 1 1)) /\ snd st = hi /\ snd (fst st) = cdp_rho O eps delta.
Proof. exact (@cdp_rho_bracket T O eps delta). Qed.
Print Assumptions C07_cdp_rho_bracket.

(* EQUALS THE PUBLISHED RENYI-ORDER BOUND at the alpha the search ends with ... *)
Theorem C07_delta_is_renyi_bound rho eps : 0 < rho -> cdp_delta RNum rho eps = Rmin (Bound rho eps (alpha_n rho eps 1000)) 1.
Proof. intros H1. exact (@delta_is_renyi_bound rho eps H1). Qed.
Print Assumptions C07_delta_is_renyi_bound.
(* ... alpha stays in [1.01, amax0] (so alpha > 1: every such alpha gives a valid bound) ... *)
Theorem C07_alpha_in_range rho eps n : 0 < rho -> 0 <= eps -> 101 / 100 <= alpha_n rho eps (S n) <= amax0 rho eps.
Proof. intros H1 H2. exact (@alpha_in_range rho eps H1 H2 n). Qed.
Print Assumptions C07_alpha_in_range.
(* ... the tested expression is the derivative of the log of the bound, strictly increasing in alpha ... *)
Theorem C07_tested_expression_is_derivative rho eps a : 1 < a ->
  is_derive (fun a => ln (Bound rho eps a)) a (g rho eps a) \/
  (is_derive (fun a => (a - 1) * (a * rho - eps) + a * ln (1 + - 1 / a) - ln (a - 1)) a (g rho eps a)
   /\ ln (Bound rho eps a) = (a - 1) * (a * rho - eps) + a * ln (1 + - 1 / a) - ln (a - 1)).
Proof. intros Ha. right. split. exact (@logB_derivative rho eps a Ha). exact (@ln_Bound rho eps a Ha). Qed.
Print Assumptions C07_tested_expression_is_derivative.
Theorem C07_derivative_increasing rho eps a b : 0 < rho -> 1 < a -> a < b -> g rho eps a < g rho eps b.
Proof. intros H1. exact (@g_increasing rho eps H1 a b). Qed.
Print Assumptions C07_derivative_increasing.
(* ... so the optimum (stationary point, clamped at 1.01) is inside the bracket at every iteration, whose width halves *)
Theorem C07_optimum_bracketed rho eps n a : 0 < rho -> 0 <= eps -> 101 / 100 <= a ->
  (g rho eps a < 0 -> a < amax_n rho eps n) /\ (0 <= g rho eps a -> amin_n rho eps n <= a).
Proof. intros H1 H2. exact (@optimum_bracketed rho eps H1 H2 n a). Qed.
Print Assumptions C07_optimum_bracketed.
Theorem C07_alpha_near_optimum rho eps n a : 0 < rho -> 0 <= eps -> 101 / 100 <= a -> g rho eps a = 0 ->
  Rabs (alpha_n rho eps (S n) - a) <= (amax0 rho eps - 101 / 100) / 2 ^ (S n).
Proof. intros H1 H2. exact (@alpha_near_optimum rho eps H1 H2 n a). Qed.
Print Assumptions C07_alpha_near_optimum.

(* MONOTONE: for every Renyi order the bound is increasing in rho and decreasing in eps *)
Theorem C07_bound_monotone a rho rho' eps eps' : 1 < a -> rho <= rho' -> eps' <= eps -> Bound rho eps a <= Bound rho' eps' a.
Proof. exact (@Bound_monotone a rho rho' eps eps'). Qed.
Print Assumptions C07_bound_monotone.

(* NOT PROVED (taken as published, Canonne-Kamath-Steinke Prop. 12): for every alpha > 1, Bound rho eps alpha bounds
   the exact delta of the Gaussian mechanism with rho = 1/(2 sigma^2).  The check compares against the exact
   Gaussian delta (erfc) on the grid instead: C07_exact_gaussian_upper_bound_partial is observed, not a theorem. *)

(* non-vacuity: hypotheses are satisfiable *)
Example C07_example : 0 < 1/2 /\ 0 <= 1 /\ 101/100 <= alpha_n (1/2) 1 1 <= amax0 (1/2) 1.
Proof. split; [lra|split;[lra|]]. apply (@alpha_in_range (1/2) 1); lra. Qed.
