(* C10 — structural zeros carry no mass in any answer.
   A structural zero is a potential entry 0 (log-potential -inf) on the declared cells of a clique c. *)
From Coq Require Import List Arith Bool.
Import ListNotations.
Require Import PGM.Base.Alg PGM.Base.Sums PGM.Base.Qnn PGM.Model.BP PGM.Model.Query PGM.Proofs.QueryP.

(* every answer (marginal of the explicit joint) whose attributes cover the declared ones gives 0 to every cell whose
   projection on the zero clique is a declared zero — for any other potentials, any total *)
Theorem C10_zero_cell_no_mass (R : SF) shape D ncl psi total c Z S x : c < ncl -> incl Z S ->
  (forall y, (forall a, In a Z -> y a = x a) -> psi c y = zero R) ->
  @brute R shape D ncl psi total S x = zero R.
Proof. exact (@zero_cell_no_mass R shape D ncl psi total c Z S x). Qed.
Print Assumptions C10_zero_cell_no_mass.

(* multiplicative (= additive in log space) updates theta' = theta - alpha g keep a zero a zero *)
Theorem C10_update_preserves_zero (R : SF) (p e : R) : p = zero R -> mul R p e = zero R.
Proof. intros ->. apply mul_0_l. Qed.
Print Assumptions C10_update_preserves_zero.

(* the -inf-aware subtraction (division by a zero message returns the dividend): no undefined value is ever produced *)
Theorem C10_guarded_division (R : SF) (a : R) : @sdiv R a (zero R) = a.
Proof. unfold sdiv. now rewrite (proj2 (eqz_spec R (zero R)) eq_refl). Qed.
Print Assumptions C10_guarded_division.

(* the remaining mass still sums to the total (when the support is not empty) *)
Theorem C10_mass_still_total (R : SF) shape D ncl psi total attrs : NoDup D -> NoDup attrs -> incl attrs D ->
  @sum_vars R shape D (@joint R ncl psi) base0 <> zero R -> @sum_vars R shape attrs (@brute R shape D ncl psi total attrs) base0 = total.
Proof. intros H1. exact (@brute_sums_to_total R shape D ncl psi H1 total attrs). Qed.
Print Assumptions C10_mass_still_total.
