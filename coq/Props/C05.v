(* C05 — mechanisms never spend more privacy than the (epsilon, delta) budget.
   Budget skeletons: Model/Ledger.v (sequence of releases/selections with their scales as the code computes them).
   Charging rule (fixed by the property): Gaussian release, L2 change D, scale s: D^2/(2 s^2); selection with parameter eps whose
   scores really move by sf times the sensitivity it was told: (eps sf)^2/8.  rho is cdp_rho(eps, delta) (C07). *)
From Coq Require Import List ZArith Reals Lra Bool.
Import ListNotations.
Require Import PGM.Base.Num PGM.Model.Ledger PGM.Proofs.LedgerP.
Open Scope R_scope.

Theorem C05_mst_spends_rho rho k1 rm1 k2 : 0 < rho -> (0 < k1)%nat -> (0 < rm1)%nat -> (0 < k2)%nat ->
  total (mst_events RNum rho k1 rm1 k2) = rho.
Proof. exact (mst_ledger rho k1 rm1 k2). Qed.
Print Assumptions C05_mst_spends_rho.

Theorem C05_adagrid_spends_rho rho1 rho2 rho3 n1 rm1 n3 : 0 < rho1 -> 0 < rho2 -> 0 < rho3 -> (0 < n1)%nat -> (0 < rm1)%nat -> (0 < n3)%nat ->
  total (adagrid_events RNum rho1 rho2 rho3 n1 rm1 n3) = rho1 + rho2 + rho3.
Proof. exact (adagrid_ledger rho1 rho2 rho3 n1 rm1 n3). Qed.
Print Assumptions C05_adagrid_spends_rho.

(* MWEM+PGM (Gaussian mode): exactly rho under both adjacency notions when the selection is told the adjacency notion;
   (alpha + 4(1-alpha)) rho > rho when it is not (the defect repaired in /repo b3aed87) *)
Theorem C05_mwem_spends_rho rho alpha rounds bounded fwd : 0 < rho -> 0 < alpha < 1 -> (0 < rounds)%nat ->
  total (mwem_events RNum rho alpha rounds bounded fwd) = if (bounded && negb fwd)%bool then (alpha + 4 * (1 - alpha)) * rho else rho.
Proof. exact (mwem_ledger rho alpha rounds bounded fwd). Qed.
Print Assumptions C05_mwem_spends_rho.

(* AIM: for EVERY sequence of annealing decisions (they depend on random outcomes) and every number of rounds with 0.9 d < rounds,
   the accumulated cost never exceeds rho and equals rho once the terminating round has run *)
Theorem C05_aim_never_overspends rho rounds d decisions : 0 < rho -> (0 < rounds)%nat -> 9 / 10 * INR d < INR rounds ->
  let s := fst (aim_run RNum rho (aim_init RNum rho rounds d) decisions) in a_used s <= rho /\ (a_done s = true -> a_used s = rho).
Proof. exact (aim_ledger_invariant rho rounds d decisions). Qed.
Print Assumptions C05_aim_never_overspends.

(* refuted outside that region: with rounds = 1 on 3 attributes the one-way phase alone costs 2.7 rho (known finding) *)
Theorem C05_aim_overspend_refuted rho : 0 < rho -> a_used (aim_init RNum rho 1 3) = 27 / 10 * rho.
Proof. exact (aim_overspend rho). Qed.
Print Assumptions C05_aim_overspend_refuted.

(* PARTIAL: that every released statistic really moves by at most the sensitivity the skeleton charges (one record changes one cell of
   each marginal by 1; query matrices with unit column norms; L1 error scores move by <= 1 resp. 2) is not proved here; the check
   charges every event of two neighbouring runs by the ACTUAL change of the operand / of the selection probabilities. *)
