(* C05 — mechanisms never spend more privacy than the (epsilon, delta) budget.
   Budget skeletons: Model/Ledger.v (sequence of releases/selections with their scales as the code computes them).
   Charging rule (fixed by the property): Gaussian release, L2 change D, scale s: D^2/(2 s^2); selection with parameter eps whose
   scores really move by sf times the sensitivity it was told: (eps sf)^2/8.  rho is cdp_rho(eps, delta) (C07). *)
From Coq Require Import List ZArith Reals Lra Bool.
Import ListNotations.
Require Import PGM.Base.Num PGM.Base.Alg PGM.Model.Domain PGM.Model.Dataset PGM.Model.Ledger PGM.Proofs.LedgerP PGM.Proofs.CertP PGM.Proofs.SensP.
Require Import PGM.Model.Select PGM.Proofs.GibbsP PGM.Proofs.DpP PGM.Proofs.DpLinkP.
Require Import PGM.Gen.Budget_gen PGM.Proofs.BudgetGenP.
Open Scope R_scope.

Theorem C05_mst_spends_rho rho k1 rm1 k2 : 0 < rho -> (0 < k1)%nat -> (0 < rm1)%nat -> (0 < k2)%nat ->
  total (mst_events RNum rho k1 rm1 k2) = rho.
Proof. exact (mst_ledger rho k1 rm1 k2). Qed.
Print Assumptions C05_mst_spends_rho.

Theorem C05_adagrid_spends_rho rho1 rho2 rho3 n1 rm1 n3 : 0 < rho1 -> 0 < rho2 -> 0 < rho3 -> (0 < n1)%nat -> (0 < rm1)%nat -> (0 < n3)%nat ->
  total (adagrid_events RNum rho1 rho2 rho3 n1 rm1 n3) = rho1 + rho2 + rho3.
Proof. exact (adagrid_ledger rho1 rho2 rho3 n1 rm1 n3). Qed.
Print Assumptions C05_adagrid_spends_rho.

(* MWEM+PGM (Gaussian mode): exactly rho under both adjacency notions when the selection is told the adjacency notion;
   (alpha + 4(1-alpha)) rho > rho when it is not (the defect repaired in /repo b3aed87) *)
Theorem C05_mwem_spends_rho rho alpha rounds bounded fwd : 0 < rho -> 0 < alpha < 1 -> (0 < rounds)%nat ->
  total (mwem_events RNum rho alpha rounds bounded fwd) = if (bounded && negb fwd)%bool then (alpha + 4 * (1 - alpha)) * rho else rho.
Proof. exact (mwem_ledger rho alpha rounds bounded fwd). Qed.
Print Assumptions C05_mwem_spends_rho.

(* MWEM+PGM in Laplace mode (pure epsilon-DP accounting: release of L1 change D at scale b costs D/b, selection eps): exactly epsilon *)
Theorem C05_mwem_laplace_spends_eps eps alpha rounds bounded : 0 < eps -> 0 < alpha < 1 -> (0 < rounds)%nat ->
  ptotal RNum (mwem_lap_events RNum eps alpha rounds bounded) = eps.
Proof. exact (mwem_lap_ledger eps alpha rounds bounded). Qed.
Print Assumptions C05_mwem_laplace_spends_eps.

(* AIM: for EVERY sequence of annealing decisions (they depend on random outcomes) and every number of rounds with 0.9 d < rounds,
   the accumulated cost never exceeds rho and equals rho once the terminating round has run *)
Theorem C05_aim_never_overspends rho rounds d decisions : 0 < rho -> (0 < rounds)%nat -> 9 / 10 * INR d < INR rounds ->
  let s := fst (aim_run RNum rho (aim_init RNum rho rounds d) decisions) in a_used s <= rho /\ (a_done s = true -> a_used s = rho).
Proof. exact (aim_ledger_invariant rho rounds d decisions). Qed.
Print Assumptions C05_aim_never_overspends.

(* refuted outside that region: with rounds = 1 on 3 attributes the one-way phase alone costs 2.7 rho (known finding) *)
Theorem C05_aim_overspend_refuted rho : 0 < rho -> a_used (aim_init RNum rho 1 3) = 27 / 10 * rho.
Proof. exact (aim_overspend rho). Qed.
Print Assumptions C05_aim_overspend_refuted.

(* SENSITIVITIES the skeleton charges.  A record (weight w) changes exactly one cell of the histogram, and of every projection of it,
   by w - for every semiring of counts *)
Theorem C05_record_changes_one_cell (S : SR) shape r w rs ws j :
  hist S shape (r :: rs) (w :: ws) j = if Nat.eqb j (ravel shape r) then add S (hist S shape rs ws j) w else hist S shape rs ws j.
Proof. exact (hist_add_record S shape r w rs ws j). Qed.
Print Assumptions C05_record_changes_one_cell.
Theorem C05_projection_commutes_with_adding_a_record (S : SR) (D : dataset S) r w cols : dproject (add_record S D r w) cols =
  match project (ddom D) cols, axes (ddom D) cols, dproject D cols with
  | Some _, Some ax, Some D' => Some (add_record S D' (select ax r) w)
  | _, _, _ => None
  end.
Proof. exact (project_add_record S D r w cols). Qed.
Print Assumptions C05_projection_commutes_with_adding_a_record.
(* hence a marginal moves by exactly 1 in L1 and in L2 when a record is added or removed (Gauss _ 1 in the skeletons), and by 2 in L1 /
   sqrt 2 in L2 when one record is replaced by another (ms = sqrt 2 in the bounded MWEM skeleton) *)
Theorem C05_marginal_change_add_remove n h i : (i < n)%nat -> l1 n (bump h i 1) h = 1 /\ l2sq n (bump h i 1) h = 1.
Proof. intros H. rewrite (l1_add_record n h i 1 H), (l2_add_record n h i 1 H), Rabs_R1. split; ring. Qed.
Print Assumptions C05_marginal_change_add_remove.
Theorem C05_marginal_change_replace n h i k : (i < n)%nat -> (k < n)%nat ->
  l1 n (bump h i 1) (bump h k 1) <= 2 /\ l2sq n (bump h i 1) (bump h k 1) <= 2.
Proof. intros Hi Hk. rewrite (l1_replace_record n h i k 1 Hi Hk), (l2_replace_record n h i k 1 Hi Hk), Rabs_R1. destruct (Nat.eqb i k); split; lra. Qed.
Print Assumptions C05_marginal_change_replace.
(* the L1 error scores of MST, AIM and MWEM move by at most the L1 change of the true marginal (1 resp. 2), whatever the model
   marginal; scaled and shifted scores by |w| times that; unit-bounded linear queries likewise *)
Theorem C05_l1_score_sensitivity n x x' m : Rabs (l1 n x' m - l1 n x m) <= l1 n x' x.
Proof. exact (l1_score_sensitivity n x x' m). Qed.
Print Assumptions C05_l1_score_sensitivity.
Theorem C05_weighted_score_sensitivity n x x' m w b : Rabs (w * (l1 n x' m - b) - w * (l1 n x m - b)) <= Rabs w * l1 n x' x.
Proof. exact (weighted_score_sensitivity n x x' m w b). Qed.
Print Assumptions C05_weighted_score_sensitivity.

(* ---- THE SAME LEDGERS ON THE ARITHMETIC GENERATED FROM THE SOURCE (Gen/Budget_gen.v, regenerated on every run) ----
   translator/py2gallina_budget.py turns every assignment to a budget variable, every scale / epsilon / sensitivity argument of a noise or
   selection primitive and every budget hand-over between functions in mst.py, aim.py, mwem+pgm.py and adaptive_grid.py into a Gallina
   formula.  The skeletons *_src below are built from those formulas only (control flow by hand); they equal the hand models, so the
   ledger theorems hold for the numbers the source contains now: changing 0.9 to 0.8, 8 to 4, rho/3 to rho/2 ... breaks these proofs. *)
Theorem C05_src_mst_spends_rho rho k1 rm1 k2 : 0 < rho -> (0 < k1)%nat -> (0 < rm1)%nat -> (0 < k2)%nat -> total (mst_events_src rho k1 rm1 k2) = rho.
Proof. exact (mst_src_spends_rho rho k1 rm1 k2). Qed.
Print Assumptions C05_src_mst_spends_rho.
Theorem C05_src_adagrid_spends_rho_default_split rho n1 rm1 n3 : 0 < rho -> (0 < n1)%nat -> (0 < rm1)%nat -> (0 < n3)%nat ->
  total (adagrid_events_src (adagrid_rho_step_1_1 RNum rho) (adagrid_rho_step_2_1 RNum rho) (adagrid_rho_step_3_1 RNum rho) n1 rm1 n3) = rho.
Proof. exact (adagrid_src_spends_rho_default rho n1 rm1 n3). Qed.
Print Assumptions C05_src_adagrid_spends_rho_default_split.
Theorem C05_src_adagrid_spends_rho_custom_split rho f1 f2 f3 n1 rm1 n3 : 0 < rho -> 0 < f1 -> 0 < f2 -> 0 < f3 -> f1 + f2 + f3 = 1 ->
  (0 < n1)%nat -> (0 < rm1)%nat -> (0 < n3)%nat ->
  total (adagrid_events_src (adagrid_rho_step_1_2 RNum rho f1) (adagrid_rho_step_2_2 RNum rho f2) (adagrid_rho_step_3_2 RNum rho f3) n1 rm1 n3) = rho.
Proof. exact (adagrid_src_spends_rho_split rho f1 f2 f3 n1 rm1 n3). Qed.
Print Assumptions C05_src_adagrid_spends_rho_custom_split.
Theorem C05_src_mwem_spends_rho rho alpha rounds bounded : 0 < rho -> 0 < alpha < 1 -> (0 < rounds)%nat ->
  total (mwem_events_src rho alpha rounds bounded true) = rho.
Proof. exact (mwem_src_spends_rho rho alpha rounds bounded). Qed.
Print Assumptions C05_src_mwem_spends_rho.
Theorem C05_src_mwem_laplace_spends_eps eps alpha rounds bounded : 0 < eps -> 0 < alpha < 1 -> (0 < rounds)%nat ->
  ptotal RNum (mwem_lap_events_src eps alpha rounds bounded) = eps.
Proof. exact (mwem_lap_src_spends_eps eps alpha rounds bounded). Qed.
Print Assumptions C05_src_mwem_laplace_spends_eps.
Theorem C05_src_aim_never_overspends rho rounds d decisions : 0 < rho -> (0 < rounds)%nat -> 9 / 10 * INR d < INR rounds ->
  let s := fst (aim_run_src rho (aim_init_src rho rounds d) decisions) in a_used s <= rho /\ (a_done s = true -> a_used s = rho).
Proof. exact (aim_src_never_overspends rho rounds d decisions). Qed.
Print Assumptions C05_src_aim_never_overspends.
Theorem C05_src_aim_overspend_refuted rho : 0 < rho -> a_used (aim_init_src rho 1 3) = 27 / 10 * rho.
Proof. exact (aim_src_overspend rho). Qed.
Print Assumptions C05_src_aim_overspend_refuted.

(* WHY THE CHARGES ARE WHAT THEY ARE.  (1) A private selection: the probabilities the code hands to choice() are the exponential-mechanism
   probabilities (C20), and when every score moves by at most the sensitivity the selection was given, every probability moves by a
   factor at most exp(eps) - the selection is eps-DP (hence eps^2/8-zCDP by the cited conversion); the declared monotonic variant
   (coefficient eps/sens instead of eps/(2 sens)) is eps-DP when all scores move in the same direction.  (2) Laplace noise of scale
   sens/eps on a vector whose L1 change is at most sens: density ratio at most exp(eps).  (3) Gaussian noise of scale s: the privacy
   loss at output a + z is D^2/(2 s^2) + D z/s^2, the charged rho plus a term odd in the noise. *)
Theorem C05_selection_probability_ratio c D q q' i : 0 <= c -> q <> [] -> (i < length q)%nat ->
  Forall2 (fun a b => Rabs (a - b) <= D) q q' -> em_prob c q i <= exp (2 * c * D) * em_prob c q' i.
Proof. exact (exponential_mechanism_ratio c D q q' i). Qed.
Print Assumptions C05_selection_probability_ratio.
Theorem C05_mst_selection_is_eps_dp q q' eps sens i : 0 <= eps -> 0 < sens -> q <> [] -> (i < length q)%nat ->
  Forall2 (fun a b => Rabs (a - b) <= sens) q q' ->
  nth i (em_mst RNum q eps sens false) 0 <= exp eps * nth i (em_mst RNum q' eps sens false) 0.
Proof. exact (em_mst_eps_dp q q' eps sens i). Qed.
Print Assumptions C05_mst_selection_is_eps_dp.
Theorem C05_monotonic_selection_is_eps_dp q q' eps sens i : 0 <= eps -> 0 < sens -> q <> [] -> (i < length q)%nat ->
  Forall2 (fun a b => 0 <= b - a <= sens) q q' ->
  nth i (em_mst RNum q eps sens true) 0 <= exp eps * nth i (em_mst RNum q' eps sens true) 0
  /\ nth i (em_mst RNum q' eps sens true) 0 <= exp eps * nth i (em_mst RNum q eps sens true) 0.
Proof. exact (em_mst_monotonic_eps_dp q q' eps sens i). Qed.
Print Assumptions C05_monotonic_selection_is_eps_dp.
Theorem C05_mechanism_selection_is_eps_dp q q' eps sens i : 0 <= eps -> 0 < sens -> q <> [] -> (i < length q)%nat ->
  Forall2 (fun a b => Rabs (a - b) <= sens) q q' ->
  nth i (em_mechanism RNum q eps sens None) 0 <= exp eps * nth i (em_mechanism RNum q' eps sens None) 0.
Proof. exact (em_mechanism_eps_dp q q' eps sens i). Qed.
Print Assumptions C05_mechanism_selection_is_eps_dp.
Theorem C05_adagrid_selection_is_eps_dp q q' eps sens i : 0 <= eps -> 0 < sens -> q <> [] -> (i < length q)%nat ->
  Forall2 (fun a b => Rabs (a - b) <= sens) q q' ->
  nth i (em_adagrid RNum q eps sens false) 0 <= exp eps * nth i (em_adagrid RNum q' eps sens false) 0.
Proof. exact (em_adagrid_eps_dp q q' eps sens i). Qed.
Print Assumptions C05_adagrid_selection_is_eps_dp.
Theorem C05_mwem_selection_is_eps_dp q q' eps (bounded : bool) i : 0 <= eps -> q <> [] -> (i < length q)%nat ->
  Forall2 (fun a b => Rabs (a - b) <= (if bounded then 2 else 1)) q q' ->
  nth i (em_mwem RNum q eps bounded) 0 <= exp eps * nth i (em_mwem RNum q' eps bounded) 0.
Proof. exact (em_mwem_eps_dp q q' eps bounded i). Qed.
Print Assumptions C05_mwem_selection_is_eps_dp.
Theorem C05_laplace_release_is_eps_dp eps D a a' x : 0 < eps -> 0 < D -> length a = length a' -> l1d a a' <= D ->
  lapvec (D / eps) a x <= exp eps * lapvec (D / eps) a' x.
Proof. exact (laplace_mechanism_eps_dp eps D a a' x). Qed.
Print Assumptions C05_laplace_release_is_eps_dp.
Theorem C05_gaussian_privacy_loss s a a' z : 0 < s ->
  gauss_logdens s a (a + z) - gauss_logdens s a' (a + z) = (a - a') * (a - a') / (2 * s * s) + (a - a') * z / (s * s).
Proof. exact (gaussian_privacy_loss s a a' z). Qed.
Print Assumptions C05_gaussian_privacy_loss.

(* PARTIAL: that the Python code releases exactly these statistics (marginals of the private data, L1 scores against a model fitted to
   earlier releases) is observed: the check charges every event of two neighbouring runs by the ACTUAL change of the operand / of the
   selection probabilities.  The zCDP composition and conversion theorems are cited (charging rule), not proved. *)
(* non-vacuity: the default rounds = 16 d meets the hypothesis of C05_aim_never_overspends (d = 3) *)
Example C05_default_rounds_ok : 9 / 10 * INR 3 < INR 48.
Proof. rewrite !INR_IZR_INZ. simpl. lra. Qed.
