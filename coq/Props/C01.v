(* C01 — exact inference returns the true marginals of the product distribution.
   Model: Model/BP.v (GraphicalModel.belief_propagation line by line over a zero-sum-free semifield; log-space
   + / - / logsumexp of the code are * / guarded division / sum; -inf is 0).  *)
From Coq Require Import List Arith Bool Lia.
Import ListNotations.
Require Import PGM.Base.Alg PGM.Base.Sums PGM.Base.Qnn PGM.Model.BP PGM.Proofs.BPrunP PGM.Proofs.JTP PGM.Proofs.BPlinkP.
Require Import PGM.Base.PyFactor PGM.Gen.BP_gen PGM.Proofs.BPGenP.

Section C01.
Variable R : SF.                       (* any zero-sum-free semifield: the non-negative reals, the non-negative rationals *)
Variable shape : nat -> nat.           (* attribute sizes *)
Variable D : list nat.                 (* attributes of the domain *)
Variable ncl : nat.                    (* tree nodes 0..ncl-1 *)
Variable scope : nat -> list nat.
Variable nbrs : nat -> list nat.
Variable psi : nat -> tbl R.           (* potentials (exp of the log-potentials), zero entries allowed *)
Hypothesis nbrs_nodup : forall c, NoDup (nbrs c).
Hypothesis nbrs_sym : forall i j, In j (nbrs i) -> In i (nbrs j).
Hypothesis nbrs_lt : forall i j, In j (nbrs i) -> j < ncl.
Hypothesis psi_dep : forall c, dep_on D (psi c).
Hypothesis psi_wf : forall c a, ~ In a (scope c) -> @indep R a (psi c).
Hypothesis shape_pos : forall a, 0 < shape a.
Hypothesis D_nodup : NoDup D.
Hypothesis scope_nodup : forall c, c < ncl -> NoDup (scope c).
Hypothesis scope_sub : forall c, c < ncl -> incl (scope c) D.

(* For EVERY schedule that respects the message dependencies and sends each direction of each tree edge,
   on every tree passing the (computable) junction-tree conditions, for every total and every potentials:
   each clique marginal equals the marginal of the normalised product of the potentials scaled to the total. *)
Theorem C01_exact sch total c0 c x :
  valid_sched nbrs [] sch -> (forall c k, In k (nbrs c) -> In (k, c) sch) ->
  (forall c, c < ncl -> rootokb D ncl scope nbrs sch c = true) ->
  c0 < ncl -> c < ncl -> valid shape x ->
  @marginal R shape D ncl scope psi sch total c0 c x = @brute R shape D ncl psi total (scope c) x.
Proof. intros V C RO. exact (bp_exact R shape D ncl scope nbrs psi nbrs_nodup nbrs_sym nbrs_lt psi_dep psi_wf shape_pos D_nodup scope_nodup scope_sub sch V C RO total c0 c x). Qed.

(* the result does not depend on which dependency-respecting schedule is used *)
Corollary C01_schedule_independent sch sch' total c0 c x :
  valid_sched nbrs [] sch -> (forall c k, In k (nbrs c) -> In (k, c) sch) -> (forall c, c < ncl -> rootokb D ncl scope nbrs sch c = true) ->
  valid_sched nbrs [] sch' -> (forall c k, In k (nbrs c) -> In (k, c) sch') -> (forall c, c < ncl -> rootokb D ncl scope nbrs sch' c = true) ->
  c0 < ncl -> c < ncl -> valid shape x ->
  @marginal R shape D ncl scope psi sch total c0 c x = @marginal R shape D ncl scope psi sch' total c0 c x.
Proof. intros. rewrite !C01_exact; auto. Qed.

(* ---- THE SAME THEOREM ABOUT THE DEFINITION GENERATED FROM THE SOURCE ----
   Gen/BP_gen.v is regenerated from GraphicalModel.belief_propagation (src/mbi/graphical_model.py) on every run by
   translator/py2gallina_bp.py (statements, dictionary reads/writes, factor operations, the membership test selecting the
   division, the normalisation loop all come from the AST; log space is read in the semifield as in Model/BP.v).  Its loop body
   is proved to BE the model's step and its result the model's marginal (Proofs/BPGenP.v); so exactness holds of the generated
   function: fed the materialised potentials, with sep_axes[(i,j)] listing what clique i shares with clique j, it returns at
   every clique the brute-force marginal of the normalised product scaled to the total (and logZ = log of the total mass). *)
Variable sep_axes : nat -> nat -> list nat.
Hypothesis sep_ok : forall i j a, In a (scope i) -> (In a (sep_axes i j) <-> In a (scope j)).
Theorem C01_src_exact sch total c x :
  valid_sched nbrs [] sch -> (forall c k, In k (nbrs c) -> In (k, c) sch) ->
  (forall c, c < ncl -> rootokb D ncl scope nbrs sch c = true) -> c < ncl -> valid shape x ->
  match @belief_propagation R shape D ncl scope sep_axes sch total (map (fun c => @mat R shape D (psi c)) (seq 0 ncl)) false with
  | inr beliefs => @lk R D (nth c beliefs (@Leaf R (zero R))) x = @brute R shape D ncl psi total (scope c) x
  | inl _ => False
  end.
Proof. intros V C RO Hc Vx. pose proof (bp_gen_is_model R shape D ncl scope sep_axes psi shape_pos sep_ok sch total c x Hc Vx) as G.
  destruct (@belief_propagation R shape D ncl scope sep_axes sch total (map (fun c0 => @mat R shape D (psi c0)) (seq 0 ncl)) false) as [z|b]; [exact G|].
  rewrite G. apply C01_exact; auto. lia. Qed.
Theorem C01_src_logZ sch total :
  @belief_propagation R shape D ncl scope sep_axes sch total (map (fun c => @mat R shape D (psi c)) (seq 0 ncl)) true
  = inl (@Zof R shape D scope (@run R shape D scope sch (@init R shape D ncl psi)) 0).
Proof. exact (bp_gen_logZ_is_model R shape D ncl scope sep_axes psi shape_pos sep_ok sch total). Qed.
(* the generated loop body is the model's step, for every state and message *)
Theorem C01_src_step_is_model_step m b i j :
  @belief_propagation_loop1 R shape D scope sep_axes (m, b) (i, j)
  = (sent (@step R shape D scope {| belt := b; sent := m |} (i, j)), belt (@step R shape D scope {| belt := b; sent := m |} (i, j))).
Proof. exact (loop1_is_step R shape D scope sep_axes shape_pos sep_ok m b i j). Qed.

(* the boolean schedule check used at run time is sound *)
Theorem C01_schedule_check_sound sch : vschedb nbrs [] sch = true -> valid_sched nbrs [] sch.
Proof. exact (vschedb_spec nbrs sch []). Qed.
End C01.
Print Assumptions C01_exact.
Print Assumptions C01_schedule_independent.
Print Assumptions C01_schedule_check_sound.
Print Assumptions C01_src_exact.
Print Assumptions C01_src_logZ.
Print Assumptions C01_src_step_is_model_step.

(* the semifield hypotheses are satisfiable: the non-negative rationals the model is executed on *)
Example C01_instance : SF. Proof. exact QnnSF. Qed.
(* the structural hypotheses are satisfiable by a tree with a fill-in-free chain of three cliques ab - bc - cd and its two-pass
   schedule: all the computable conditions (structure, schedule validity and completeness, junction-tree conditions for every root) hold *)
Example C01_chain_meets_hypotheses :
  jt_okb [0; 1; 2; 3] 3 (fun c => [c; S c]) (fun c => match c with 0 => [1] | 1 => [0; 2] | _ => [1] end) [(0, 1); (2, 1); (1, 0); (1, 2)] = true.
Proof. vm_compute. reflexivity. Qed.
