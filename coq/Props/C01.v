(* C01 — exact inference returns the true marginals of the product distribution.
   Model: Model/BP.v (GraphicalModel.belief_propagation line by line over a zero-sum-free semifield; log-space
   + / - / logsumexp of the code are * / guarded division / sum; -inf is 0).  *)
From Coq Require Import List Arith Bool.
Import ListNotations.
Require Import PGM.Base.Alg PGM.Base.Sums PGM.Base.Qnn PGM.Model.BP PGM.Proofs.BPrunP PGM.Proofs.JTP PGM.Proofs.BPlinkP.

Section C01.
Variable R : SF.                       (* any zero-sum-free semifield: the non-negative reals, the non-negative rationals *)
Variable shape : nat -> nat.           (* attribute sizes *)
Variable D : list nat.                 (* attributes of the domain *)
Variable ncl : nat.                    (* tree nodes 0..ncl-1 *)
Variable scope : nat -> list nat.
Variable nbrs : nat -> list nat.
Variable psi : nat -> tbl R.           (* potentials (exp of the log-potentials), zero entries allowed *)
Hypothesis nbrs_nodup : forall c, NoDup (nbrs c).
Hypothesis nbrs_sym : forall i j, In j (nbrs i) -> In i (nbrs j).
Hypothesis nbrs_lt : forall i j, In j (nbrs i) -> j < ncl.
Hypothesis psi_dep : forall c, dep_on D (psi c).
Hypothesis psi_wf : forall c a, ~ In a (scope c) -> @indep R a (psi c).
Hypothesis shape_pos : forall a, 0 < shape a.
Hypothesis D_nodup : NoDup D.
Hypothesis scope_nodup : forall c, c < ncl -> NoDup (scope c).
Hypothesis scope_sub : forall c, c < ncl -> incl (scope c) D.

(* For EVERY schedule that respects the message dependencies and sends each direction of each tree edge,
   on every tree passing the (computable) junction-tree conditions, for every total and every potentials:
   each clique marginal equals the marginal of the normalised product of the potentials scaled to the total. *)
Theorem C01_exact sch total c0 c x :
  valid_sched nbrs [] sch -> (forall c k, In k (nbrs c) -> In (k, c) sch) ->
  (forall c, c < ncl -> rootokb D ncl scope nbrs sch c = true) ->
  c0 < ncl -> c < ncl -> valid shape x ->
  @marginal R shape D ncl scope psi sch total c0 c x = @brute R shape D ncl psi total (scope c) x.
Proof. intros V C RO. exact (bp_exact R shape D ncl scope nbrs psi nbrs_nodup nbrs_sym nbrs_lt psi_dep psi_wf shape_pos D_nodup scope_nodup scope_sub sch V C RO total c0 c x). Qed.

(* the result does not depend on which dependency-respecting schedule is used *)
Corollary C01_schedule_independent sch sch' total c0 c x :
  valid_sched nbrs [] sch -> (forall c k, In k (nbrs c) -> In (k, c) sch) -> (forall c, c < ncl -> rootokb D ncl scope nbrs sch c = true) ->
  valid_sched nbrs [] sch' -> (forall c k, In k (nbrs c) -> In (k, c) sch') -> (forall c, c < ncl -> rootokb D ncl scope nbrs sch' c = true) ->
  c0 < ncl -> c < ncl -> valid shape x ->
  @marginal R shape D ncl scope psi sch total c0 c x = @marginal R shape D ncl scope psi sch' total c0 c x.
Proof. intros. rewrite !C01_exact; auto. Qed.

(* the boolean schedule check used at run time is sound *)
Theorem C01_schedule_check_sound sch : vschedb nbrs [] sch = true -> valid_sched nbrs [] sch.
Proof. exact (vschedb_spec nbrs sch []). Qed.
End C01.
Print Assumptions C01_exact.
Print Assumptions C01_schedule_independent.
Print Assumptions C01_schedule_check_sound.

(* the semifield hypotheses are satisfiable: the non-negative rationals the model is executed on *)
Example C01_instance : SF. Proof. exact QnnSF. Qed.
(* the structural hypotheses are satisfiable by a tree with a fill-in-free chain of three cliques ab - bc - cd and its two-pass
   schedule: all the computable conditions (structure, schedule validity and completeness, junction-tree conditions for every root) hold *)
Example C01_chain_meets_hypotheses :
  jt_okb [0; 1; 2; 3] 3 (fun c => [c; S c]) (fun c => match c with 0 => [1] | 1 => [0; 2] | _ => [1] end) [(0, 1); (2, 1); (1, 0); (1, 2)] = true.
Proof. vm_compute. reflexivity. Qed.
