(* C06 — private data reaches mechanism output only through the DP primitives. *)
From Coq Require Import List.
Import ListNotations.
Require Import PGM.Model.Mechs.

(* two executions on ANY two datasets that observe identical released values and selections perform the same sequence of
   primitives with the same descriptors (kinds, noise scales, sizes) and return identical output *)
Theorem C06_noninterference (Data Stat Obs Descr Out : Type) (m : Mech Data Stat Obs Descr Out) :
  forall D D' forced, run m D forced = run m D' forced.
Proof. induction m as [o|d stat k IH]; intros D D' forced; simpl. reflexivity.
  destruct forced as [|x r]. reflexivity. now rewrite (IH x D D' r). Qed.
Print Assumptions C06_noninterference.

(* the descriptors seen by the accountant are the same on both datasets; only the statistics differ *)
Theorem C06_same_descriptors (Data Stat Obs Descr Out : Type) (m : Mech Data Stat Obs Descr Out) :
  forall D D' forced, map fst (stats m D forced) = map fst (stats m D' forced).
Proof. induction m as [o|d stat k IH]; intros D D' forced; simpl. reflexivity.
  f_equal. destruct forced as [|x r]. reflexivity. apply IH. Qed.
Print Assumptions C06_same_descriptors.

(* PARTIAL by nature: the theorem holds for every program of this shape; that the Python mechanisms ARE of this shape (no
   data-dependent branch, threshold, count or candidate filter outside a primitive) is what the two forced runs establish per pair. *)
