(* C03 — estimation attains the global optimum over all distributions.
   A convergence proof of three first-order float solvers for every input is out of reach; what is proved is the CERTIFICATE
   that makes each observed run decisive.  x ranges over ALL tables on the full domain (p cells); Q is the stacked matrix
   (query o marginalisation) of all measurements, so loss_m is the objective as a function of the joint table. *)
From Coq Require Import List Arith Bool QArith Qcanon.
Import ListNotations.
Require Import PGM.Base.Qnn PGM.Model.Loss PGM.Proofs.LossP.
Local Open Scope Qc_scope.

(* Frank-Wolfe gap: for the table Phat answered by the model and EVERY non-negative table P with the same total,
   loss(Phat) - loss(P) <= <grad, Phat> - N * min_j grad_j.   A small gap certifies global optimality. *)
Theorem C03_gap_certificate Q m p y c Phat P lo :
  (forall j, (j < p)%nat -> lo <= grad_m Q m p y c Phat j) -> (forall j, (j < p)%nat -> 0 <= P j) -> qsum p P = qsum p Phat ->
  loss_m Q m p y c Phat - loss_m Q m p y c P <= dot p (grad_m Q m p y c Phat) Phat - lo * qsum p Phat.
Proof. exact (fw_gap_certificate Q m p y c Phat P lo). Qed.
Print Assumptions C03_gap_certificate.

(* the objective is convex in the table, so first-order stationarity over the simplex is global optimality *)
Theorem C03_convex Q m p y c x d : loss_m Q m p y c x + dot p (grad_m Q m p y c x) d <= loss_m Q m p y c (fun j => x j + d j).
Proof. exact (loss_convex Q m p y c x d). Qed.
Print Assumptions C03_convex.

(* the linear minimisation over {P >= 0, sum P = N} is bounded below at a vertex (a single cell) *)
Theorem C03_vertex_bound p g P lo : (forall j, (j < p)%nat -> lo <= g j) -> (forall j, (j < p)%nat -> 0 <= P j) -> lo * qsum p P <= dot p g P.
Proof. exact (linear_lower_bound p g P lo). Qed.
Print Assumptions C03_vertex_bound.

(* `never below the optimum`: the table the model answers from is itself a non-negative table with the model total
   (C08 / C02: all answers are marginals of one explicit joint), so its loss cannot be below the minimum over such tables;
   the check verifies that the loss computed from the marginal answers equals the loss of that table.
   PARTIAL (observed per run): that MD / RDA / IG reach a small gap with the iteration count used, and loss <= loss(uniform start). *)
