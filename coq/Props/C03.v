(* C03 — estimation attains the global optimum over all distributions.
   A convergence proof of three first-order float solvers for every input is out of reach; what is proved is the CERTIFICATE
   that makes each observed run decisive.  x ranges over ALL tables on the full domain (p cells); Q is the stacked matrix
   (query o marginalisation) of all measurements, so loss_m is the objective as a function of the joint table. *)
From Coq Require Import List Arith Bool QArith Qcanon.
Import ListNotations.
Require Import PGM.Base.Qnn PGM.Model.Loss PGM.Proofs.LossP.
Local Open Scope Qc_scope.

(* Frank-Wolfe gap: for the table Phat answered by the model and EVERY non-negative table P with the same total,
   loss(Phat) - loss(P) <= <grad, Phat> - N * min_j grad_j.   A small gap certifies global optimality. *)
Theorem C03_gap_certificate Q m p y c Phat P lo :
  (forall j, (j < p)%nat -> lo <= grad_m Q m p y c Phat j) -> (forall j, (j < p)%nat -> 0 <= P j) -> qsum p P = qsum p Phat ->
  loss_m Q m p y c Phat - loss_m Q m p y c P <= dot p (grad_m Q m p y c Phat) Phat - lo * qsum p Phat.
Proof. exact (fw_gap_certificate Q m p y c Phat P lo). Qed.
Print Assumptions C03_gap_certificate.

(* the objective is convex in the table, so first-order stationarity over the simplex is global optimality *)
Theorem C03_convex Q m p y c x d : loss_m Q m p y c x + dot p (grad_m Q m p y c x) d <= loss_m Q m p y c (fun j => x j + d j).
Proof. exact (loss_convex Q m p y c x d). Qed.
Print Assumptions C03_convex.

(* the linear minimisation over {P >= 0, sum P = N} is bounded below at a vertex (a single cell) *)
Theorem C03_vertex_bound p g P lo : (forall j, (j < p)%nat -> lo <= g j) -> (forall j, (j < p)%nat -> 0 <= P j) -> lo * qsum p P <= dot p g P.
Proof. exact (linear_lower_bound p g P lo). Qed.
Print Assumptions C03_vertex_bound.

(* `never below the optimum`: the table the model answers from is itself a non-negative table with the model total
   (C08 / C02: all answers are marginals of one explicit joint), so its loss cannot be below the minimum over such tables;
   the check verifies that the loss computed from the marginal answers equals the loss of that table.
   PARTIAL (observed per run): that MD / RDA / IG reach a small gap with the iteration count used, and loss <= loss(uniform start). *)

(* `never a worse fit than the uniform start`, mirror descent: a trial accepted by the sufficient-decrease test of inference.py:238
   does not increase the loss.  On the explicit joint, P and Q are the positive tables of the parameters omega and
   theta = omega - alpha*dL (Q is P tilted by exp(-alpha g), g the gradient pulled back to the cells, renormalised to the same
   total); then alpha <g, P - Q> = KL(P||Q) + KL(Q||P) >= 0, so the accepted trial has loss L' <= L, for ANY loss function.
   PARTIAL: the 25-halving fallback (the last trial is kept unconditionally) and RDA / IG are observed per run, not covered. *)
Require Import Coq.Reals.Reals PGM.Proofs.GibbsP PGM.Proofs.DpP.
Theorem C03_accepted_step_never_increases_loss (alpha c : R) (P g : list R) (L L' : R) :
  (0 < alpha)%R -> (0 < c)%R -> length P = length g -> GibbsP.allpos P ->
  GibbsP.sumR (GibbsP.tilt alpha c P g) = GibbsP.sumR P ->
  (L - L' >= alpha / 2 * (GibbsP.dot g P - GibbsP.dot g (GibbsP.tilt alpha c P g)))%R -> (L' <= L)%R.
Proof. exact (accepted_step_never_increases alpha c P g L L'). Qed.
Print Assumptions C03_accepted_step_never_increases_loss.
