(* C02 — every query path answers from one and the same joint distribution (the explicit joint `brute`). *)
From Coq Require Import List Arith Bool Permutation ZArith.
Import ListNotations.
Require Import PGM.Base.Alg PGM.Base.Sums PGM.Base.Qnn PGM.Model.BP PGM.Model.Query PGM.Proofs.BPrunP PGM.Proofs.QueryP PGM.Proofs.QueryLinkP PGM.Proofs.JTP PGM.Proofs.PairP.

(* variable elimination equals the iterated sum of the product of the factors for EVERY elimination list
   (so the greedy heuristic, or the hash order of a Python set, cannot matter); any commutative semiring *)
Theorem C02_variable_elimination_any_order (R : SR) shape elim l : Forall (@wf R) l ->
  ve shape elim l = @sum_vars R shape elim (@prodf R l).
Proof. exact (@ve_correct R shape elim l). Qed.
Print Assumptions C02_variable_elimination_any_order.

(* project without cached marginals = the marginal of the explicit joint, scaled to the total *)
Theorem C02_project_uncached (R : SF) shape D ncl scope psi elim attrs total :
  (forall c, dep_on (scope c) (psi c)) -> NoDup D -> Permutation elim (diff D attrs) -> NoDup attrs -> incl attrs D ->
  @project_ve R shape ncl scope psi elim attrs total = @brute R shape D ncl psi total attrs.
Proof. intros H1 H2. exact (@project_ve_correct R shape D ncl scope psi H1 H2 elim attrs total). Qed.
Print Assumptions C02_project_uncached.

(* project with cached clique marginals (after belief propagation) = the same marginal: the cache is irrelevant *)
Theorem C02_project_cached (R : SF) shape D ncl scope nbrs psi
  (nbrs_nodup : forall c, NoDup (nbrs c)) (nbrs_sym : forall i j, In j (nbrs i) -> In i (nbrs j)) (nbrs_lt : forall i j, In j (nbrs i) -> j < ncl)
  (psi_dep : forall c, dep_on D (psi c)) (psi_wf : forall c a, ~ In a (scope c) -> @indep R a (psi c)) (shape_pos : forall a, 0 < shape a)
  (D_nodup : NoDup D) (scope_nodup : forall c, c < ncl -> NoDup (scope c)) (scope_sub : forall c, c < ncl -> incl (scope c) D)
  sch (sch_valid : valid_sched nbrs [] sch) (sch_complete : forall c k, In k (nbrs c) -> In (k, c) sch)
  (roots_ok : forall c, c < ncl -> rootokb D ncl scope nbrs sch c = true) total c0 c attrs x :
  c0 < ncl -> c < ncl -> valid shape x -> NoDup attrs -> incl attrs (scope c) ->
  @project_cached R shape (@marginal R shape D ncl scope psi sch total c0 c) (scope c) attrs x = @brute R shape D ncl psi total attrs x.
Proof. exact (@project_cached_correct R shape D ncl scope nbrs psi nbrs_nodup nbrs_sym nbrs_lt psi_dep psi_wf shape_pos D_nodup scope_nodup scope_sub sch sch_valid sch_complete roots_ok total c0 c attrs x). Qed.
Print Assumptions C02_project_cached.

(* every answer sums to the model total *)
Theorem C02_answers_sum_to_total (R : SF) shape D ncl psi total attrs : NoDup D -> NoDup attrs -> incl attrs D ->
  @sum_vars R shape D (@joint R ncl psi) base0 <> zero R ->
  @sum_vars R shape attrs (@brute R shape D ncl psi total attrs) base0 = total.
Proof. intros H1. exact (@brute_sums_to_total R shape D ncl psi H1 total attrs). Qed.
Print Assumptions C02_answers_sum_to_total.

(* krondot = the Kronecker-product query applied to the joint: sum over the whole domain of joint x prod_a Q_a(r_a, x_a) *)
Theorem C02_krondot (R : SR) shape Dl potsl qs : Forall (@wf R) potsl -> Forall (@wf R) qs ->
  krondot shape Dl potsl qs = @sum_vars R shape Dl (@tmul R (@prodf R potsl) (@prodf R qs)).
Proof. exact (@krondot_correct R shape Dl potsl qs). Qed.
Print Assumptions C02_krondot.

(* BULK QUERIES, ADJACENT CLIQUES.  calculate_many_marginals builds, for two cliques joined by a tree edge,
       results[(Ci, Cj)] = marginals[Ci] * (marginals[Cj] / marginals[Cj].project(separator))      (Factor division: x / 0 := 0).
   With the tree rooted at i and j's subtree first, the clique marginals are mu_i = c * belief_i, mu_j = c * belief_j (C01: c = total / Z;
   belief_j is the belief of the same tree re-rooted at j), and that table equals c times the sum of the product of ALL potentials over
   everything outside Ci \/ Cj - the marginal of the one joint on Ci \/ Cj, scaled like every other answer - zero entries included,
   on every tree satisfying the recursive running-intersection predicate. *)
Theorem C02_bulk_query_adjacent_cliques (F : SF) shape scope (psi : nat -> tbl F) i j ksj rest c x :
  (forall d a, ~ In a (scope d) -> @indep F a (psi d)) ->
  good scope (Node i (Node j ksj :: rest)) -> valid shape x ->
  mul F (mul F c (belief_i F shape scope psi i j ksj rest x))
        (zdiv F (mul F c (belief_j F shape scope psi i j ksj rest x))
                (@sum_vars F shape (diff (scope j) (scope i)) (fun y => mul F c (belief_j F shape scope psi i j ksj rest y)) x))
  = mul F c (@sum_vars F shape (flat_map (elimt scope (scope j)) ksj ++ flat_map (elimt scope (scope i)) rest)
                              (jointt F psi (Node i (Node j ksj :: rest))) x).
Proof. intros W G V. exact (pair_marginal F shape scope psi W i j ksj rest c x G V). Qed.
Print Assumptions C02_bulk_query_adjacent_cliques.

(* non-vacuity of C02_bulk_query_adjacent_cliques: cliques ab (node 0) and bc (node 1) with a pendant clique cd (node 2) below bc, a zero entry
   in the first potential; the tree is `good`, and the table built from the two clique beliefs equals the sum of the product over d *)
Definition ex2_scope (c : nat) : list nat := nth c [[0;1];[1;2];[2;3]] [].
Definition ex2_psi (c : nat) : tbl QnnSF :=
  match c with
  | 0 => fun x => Qnn_of (Z.of_nat (x 0 * (1 + x 1))) 1
  | 1 => fun x => Qnn_of (Z.of_nat (1 + x 1 + 2 * x 2)) 2
  | _ => fun x => Qnn_of (Z.of_nat (2 + x 2 * x 3)) 3
  end.
Example C02_adjacent_example :
  goodb ex2_scope (Node 0 [Node 1 [Node 2 []]]) = true /\
  map (fun cell => let x := fun a => nth a cell 0 in
       Qcanon.this (qv (mul QnnSF (mul QnnSF (Qnn_of 5 1) (belief_i QnnSF (fun _ => 2) ex2_scope ex2_psi 0 1 [Node 2 []] [] x))
         (zdiv QnnSF (mul QnnSF (Qnn_of 5 1) (belief_j QnnSF (fun _ => 2) ex2_scope ex2_psi 0 1 [Node 2 []] [] x))
               (@sum_vars QnnSF (fun _ => 2) (diff (ex2_scope 1) (ex2_scope 0)) (fun y => mul QnnSF (Qnn_of 5 1) (belief_j QnnSF (fun _ => 2) ex2_scope ex2_psi 0 1 [Node 2 []] [] y)) x)))))
      [[0;0;0;0];[1;0;1;0];[1;1;0;0];[1;1;1;0]]
  = map (fun cell => let x := fun a => nth a cell 0 in
       Qcanon.this (qv (mul QnnSF (Qnn_of 5 1) (@sum_vars QnnSF (fun _ => 2) [3] (jointt QnnSF ex2_psi (Node 0 [Node 1 [Node 2 []]])) x))))
      [[0;0;0;0];[1;0;1;0];[1;1;0;0];[1;1;1;0]].
Proof. split; vm_compute; reflexivity. Qed.

(* PARTIAL: for cliques further apart calculate_many_marginals chains these conditionals along the tree path and sums the intermediate
   clique out; that longer chains equal brute (C_i u C_j) is NOT proved (many_marginals_path_partial) - the correspondence compares
   every such answer with `brute` on every run.  Saving/loading is pickling (runtime, not modelled); the harness round-trips half of the models. *)
