(* C16 — approximate marginal oracles are normalised, and exact on acyclic structures. *)
From Coq Require Import List ZArith Reals Lra Bool.
Import ListNotations.
Require Import PGM.Base.Num PGM.Model.Select PGM.Model.Factor PGM.Model.Region PGM.Proofs.SelectP PGM.Proofs.RegionP.
Open Scope R_scope.

(* every pseudo-marginal both oracles return is belief_of total (accumulated log-belief): whatever the messages (any sweep count,
   any structure, any potentials) its entries are strictly positive, finite, and sum to the total *)
Theorem C16_beliefs_are_normalised total (f : factor R) : fvals (belief_of RNum total f) = normalised total (fvals f).
Proof. exact (belief_of_values total f). Qed.
Print Assumptions C16_beliefs_are_normalised.
Theorem C16_normalised_sums_to_total total b : 0 < total -> b <> [] -> SelectP.sumR (normalised total b) = total.
Proof. exact (normalised_sum total b). Qed.
Print Assumptions C16_normalised_sums_to_total.
Theorem C16_normalised_positive total b w : In w (normalised total b) -> 0 < w.
Proof. exact (normalised_pos total b w). Qed.
Print Assumptions C16_normalised_positive.
(* PARTIAL (observed per run against the brute-force marginals, not proved): exactness of generalized BP on clique sets with the
   running-intersection property (potentials on the maximal cliques) and of loopy BP on tree factor graphs after enough sweeps.
   Known finding: generalized BP ignores the potentials of descendant regions in beliefs and message numerators, so it is inexact
   as soon as a nested (non-maximal) region carries a potential. *)
