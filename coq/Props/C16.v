(* C16 — approximate marginal oracles are normalised, and exact on acyclic structures. *)
From Coq Require Import List ZArith Reals Lra Bool.
Import ListNotations.
Require Import PGM.Base.Num PGM.Model.Select PGM.Model.Factor PGM.Model.Region PGM.Proofs.SelectP PGM.Proofs.RegionP.
Require Import PGM.Base.Alg PGM.Base.Sums PGM.Base.Qnn PGM.Model.BP PGM.Model.LBP PGM.Proofs.BPrunP PGM.Proofs.BPlinkP PGM.Proofs.LbpP.
Open Scope R_scope.

(* every pseudo-marginal both oracles return is belief_of total (accumulated log-belief): whatever the messages (any sweep count,
   any structure, any potentials) its entries are strictly positive, finite, and sum to the total *)
Theorem C16_beliefs_are_normalised total (f : factor R) : fvals (belief_of RNum total f) = normalised total (fvals f).
Proof. exact (belief_of_values total f). Qed.
Print Assumptions C16_beliefs_are_normalised.
Theorem C16_normalised_sums_to_total total b : 0 < total -> b <> [] -> SelectP.sumR (normalised total b) = total.
Proof. exact (normalised_sum total b). Qed.
Print Assumptions C16_normalised_sums_to_total.
Theorem C16_normalised_positive total b w : In w (normalised total b) -> 0 < w.
Proof. exact (normalised_pos total b w). Qed.
Print Assumptions C16_normalised_positive.
(* EXACT ON TREES ONCE RUN FOR ENOUGH SWEEPS - the sum-product recursion behind loopy propagation.
   On any tree of cliques passing the junction-tree conditions of C01 (in particular the bipartite tree whose nodes are the factors
   and the variables of a tree-structured factor graph: a variable node has scope [v] and potential 1), SYNCHRONOUS message passing -
   every round recomputes every message from the previous round, m'(i->j) = sum_{C_i \ C_j} psi_i * prod_{k <> j} m(k->i) - started from
   ARBITRARY messages yields, after as many rounds as the tree is high, exactly the true messages; the beliefs psi_c * prod_k m(k->c)
   normalised to the total are then the brute-force marginals of the product distribution.  Any zero-sum-free semifield (zeros allowed). *)
Close Scope R_scope.
Section C16_flooding.
Variable S : SF.
Variable shape : nat -> nat.
Variable D : list nat.
Variable ncl : nat.
Variable scope : nat -> list nat.
Variable nbrs : nat -> list nat.
Variable psi : nat -> tbl S.
Hypothesis nbrs_nodup : forall c, NoDup (nbrs c).
Hypothesis nbrs_sym : forall i j, In j (nbrs i) -> In i (nbrs j).
Hypothesis nbrs_lt : forall i j, In j (nbrs i) -> j < ncl.
Hypothesis psi_dep : forall c, dep_on D (psi c).
Hypothesis psi_wf : forall c a, ~ In a (scope c) -> @indep S a (psi c).
Hypothesis shape_pos : forall a, 0 < shape a.
Hypothesis D_nodup : NoDup D.
Hypothesis scope_nodup : forall c, c < ncl -> NoDup (scope c).
Hypothesis scope_sub : forall c, c < ncl -> incl (scope c) D.
Variable sch : list (nat * nat).                  (* any valid complete schedule: only used to name the subtrees tr i j *)
Hypothesis sch_valid : valid_sched nbrs [] sch.
Hypothesis sch_complete : forall c k, In k (nbrs c) -> In (k, c) sch.
Hypothesis roots_ok : forall c, c < ncl -> rootokb D ncl scope nbrs sch c = true.

Theorem C16_flooding_reaches_the_true_messages n i j m0 x : In j (nbrs i) -> height (tr nbrs sch i j) <= n ->
  Nat.iter n (flood S shape scope nbrs psi) m0 i j x = Mtrue S shape scope nbrs psi sch i j x.
Proof. intros Hj Hh. exact (flood_reaches_true_messages S shape scope nbrs psi nbrs_sym sch sch_valid sch_complete n i j Hj Hh m0 x). Qed.

Theorem C16_flooding_exact_once_run_for_enough_rounds n m0 total c0 c x :
  (forall i j, In j (nbrs i) -> height (tr nbrs sch i j) <= n) -> c0 < ncl -> c < ncl -> valid shape x ->
  mul S (flood_belief S shape scope nbrs psi n m0 c x)
        (div S total (@sum_vars S shape (scope c0) (flood_belief S shape scope nbrs psi n m0 c0) base0))
  = @brute S shape D ncl psi total (scope c) x.
Proof. exact (flood_exact S shape D ncl scope nbrs psi nbrs_nodup nbrs_sym nbrs_lt psi_dep psi_wf shape_pos D_nodup scope_nodup scope_sub sch sch_valid sch_complete roots_ok n m0 total c0 c x). Qed.

(* THE FORM THE CODE RUNS.  loopy_belief_propagation does not recompute all messages at once: each sweep first recomputes every
   factor -> variable message (and subtracts its logsumexp: a rescaling), then every variable -> factor message from the new ones.  Model:
   a sweep is ANY list of steps, each recomputing a selected set of messages from the current ones and rescaling them by a non-zero
   factor that may depend on everything; the only requirement is that every message is selected at least once per sweep.  After as many
   sweeps as the tree is high every message is the true one up to a non-zero scalar, and the beliefs, each normalised by its own mass
   (factor_graph.py:160-168), are the brute-force marginals. *)
Theorem C16_sweeps_reach_the_true_messages_up_to_scale Us n m0 :
  nz_scalings S Us -> ncovers S nbrs Us ->
  pexact_upto S shape scope nbrs psi sch n (Nat.iter n (nsweep S shape scope nbrs psi Us) m0).
Proof. intros NZ C. exact (nsweeps_reach_true_messages S shape scope nbrs psi nbrs_sym sch sch_valid sch_complete Us n m0 NZ C). Qed.

Theorem C16_loopy_propagation_exact_on_trees_once_run_for_enough_sweeps Us n m0 total c x :
  nz_scalings S Us -> ncovers S nbrs Us -> (forall i j, In j (nbrs i) -> height (tr nbrs sch i j) <= n) -> c < ncl -> valid shape x ->
  @sum_vars S shape (scope c) (belief_of_msgs S nbrs psi (Mtrue S shape scope nbrs psi sch) c) base0 <> zero S ->
  mul S (belief_of_msgs S nbrs psi (Nat.iter n (nsweep S shape scope nbrs psi Us) m0) c x)
        (div S total (@sum_vars S shape (scope c) (belief_of_msgs S nbrs psi (Nat.iter n (nsweep S shape scope nbrs psi Us) m0) c) base0))
  = @brute S shape D ncl psi total (scope c) x.
Proof. exact (nsweeps_exact S shape D ncl scope nbrs psi nbrs_nodup nbrs_sym nbrs_lt psi_dep psi_wf shape_pos D_nodup scope_nodup scope_sub sch sch_valid sch_complete roots_ok Us n m0 total c x). Qed.

(* the code computes "all incoming messages minus the one going back" (a division): wherever the message going back is non-zero this is
   the product over the other neighbours used above *)
Theorem C16_division_form (g : nat -> S) j l : NoDup l -> In j l -> g j <> zero S ->
  @sdiv S (prodl S (map g l)) (g j) = prodl S (map g (others j l)).
Proof. exact (prodl_split_div S g j l). Qed.

(* THE EXECUTABLE MODEL OF loopy_belief_propagation (Model/LBP.v: materialised messages, per sweep a factor -> variable step rescaled by
   1/mass and a variable -> factor step; this very term is extracted and run on exact rationals against FactorGraph.belief_propagation,
   on trees and on loopy graphs) is such a sweep list: on a tree, once fv and vf contain every directed edge and the number of sweeps
   reaches the height of the tree, its marginals are the brute-force marginals. *)
Theorem C16_loopy_model_exact_on_trees fv vf n total c x :
  (forall i j, In j (nbrs i) -> In (i, j) fv \/ In (i, j) vf) -> (forall i j, In j (nbrs i) -> height (tr nbrs sch i j) <= n) ->
  c < ncl -> valid shape x ->
  @sum_vars S shape (scope c) (belief_of_msgs S nbrs psi (Mtrue S shape scope nbrs psi sch) c) base0 <> zero S ->
  @lbp_marginal S shape D scope nbrs psi fv vf n total c x = @brute S shape D ncl psi total (scope c) x.
Proof. exact (lbp_exact_on_trees S shape D ncl scope nbrs psi nbrs_nodup nbrs_sym nbrs_lt psi_dep psi_wf shape_pos D_nodup scope_nodup scope_sub sch sch_valid sch_complete roots_ok fv vf n total c x). Qed.
End C16_flooding.
Print Assumptions C16_flooding_reaches_the_true_messages.
Print Assumptions C16_flooding_exact_once_run_for_enough_rounds.
Print Assumptions C16_sweeps_reach_the_true_messages_up_to_scale.
Print Assumptions C16_loopy_propagation_exact_on_trees_once_run_for_enough_sweeps.
Print Assumptions C16_division_form.
Print Assumptions C16_loopy_model_exact_on_trees.

(* non-vacuity of C16_loopy_model_exact_on_trees: the bipartite tree of the chain of factors {a,b} - {b,c} (nodes 0,1 = factors, 2,3,4 = the
   variables a,b,c), sizes 2, with a complete schedule: structure, schedule and junction-tree conditions hold, every subtree has height
   <= 4, and after 4 sweeps the executable model returns the brute-force marginal of the first factor (total 10) *)
Definition ex_scope (c : nat) : list nat := nth c [[0;1];[1;2];[0];[1];[2]] [].
Definition ex_nbrs (c : nat) : list nat := nth c [[2;3];[3;4];[0];[0;1];[1]] [].
Definition ex_sch : list (nat * nat) := [(2,0);(4,1);(1,3);(0,3);(3,0);(3,1);(0,2);(1,4)].
Definition ex_psi (c : nat) : tbl QnnSF :=
  match c with
  | 0 => fun x => Qnn_of (Z.of_nat (1 + x 0 + 2 * x 1)) 1
  | 1 => fun x => Qnn_of (Z.of_nat (2 + x 2)) (if Nat.eqb (x 1) 0 then 1 else 3)
  | _ => fun _ => one QnnSF
  end.
Example C16_bipartite_chain_meets_hypotheses :
  jt_okb [0;1;2] 5 ex_scope ex_nbrs ex_sch = true
  /\ forallb (fun e => Nat.leb (height (tr ex_nbrs ex_sch (fst e) (snd e))) 4) ex_sch = true
  /\ let fv := [(0,2);(0,3);(1,3);(1,4)] in let vf := [(2,0);(3,0);(3,1);(4,1)] in
     map (fun cell => Qcanon.this (qv (@lbp_marginal QnnSF (fun _ => 2) [0;1;2] ex_scope ex_nbrs ex_psi fv vf 4 (Qnn_of 10 1) 0 (fun a => nth a cell 0)))) [[0;0;0];[0;1;0];[1;0;0];[1;1;0]]
     = map (fun cell => Qcanon.this (qv (@brute QnnSF (fun _ => 2) [0;1;2] 5 ex_psi (Qnn_of 10 1) [0;1] (fun a => nth a cell 0)))) [[0;0;0];[0;1;0];[1;0;0];[1;1;0]].
Proof. split; [|split]; vm_compute; reflexivity. Qed.

(* PARTIAL (observed per run against the brute-force marginals, not proved): (1) that loopy_belief_propagation in log-space floats computes what the executable model Model/LBP.v computes in the semifield (division form with
   non-zero messages - finite potentials - instead of the product over the others): the extracted model is run on exact rationals against the code on every
   case (trees and loopy graphs, every sweep count), and the float model of the sweep as before;
   (2) generalized BP on clique sets with the running-intersection property (potentials on the maximal cliques).
   Known finding: generalized BP ignores the potentials of descendant regions in beliefs and message numerators, so it is inexact
   as soon as a nested (non-maximal) region carries a potential. *)
