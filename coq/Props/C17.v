(* C17 — the convex region-graph oracle solves its variational problem.
   CertP works with regions 0..n-1, tables as functions on cell indices, edges (parent, child), upward messages msg e (tables over the
   child), lift / proj = broadcast / marginalise along an edge (only their adjointness is used), and beliefs
   bel r = N exp(phi r)/Z_r with phi r = theta r + sum_{children} lift (msg) - sum_{parents} msg: the form hps_belief of Model/Region.v
   computes (unit counting numbers).  objective nu = sum_r <theta_r, nu_r> + sum_r H(nu_r). *)
From Coq Require Import List Arith Reals Lra Lia.
Import ListNotations.
Require Import PGM.Base.Num PGM.Model.Factor PGM.Model.Region PGM.Proofs.GibbsP PGM.Proofs.CertP PGM.Proofs.RegionP PGM.Proofs.SelectP.
Open Scope R_scope.

(* CERTIFICATE.  For ANY messages: if the beliefs agree along every region-graph edge, they maximise the potential-weighted mass plus
   the sum of region entropies over ALL valid, locally consistent pseudo-marginals.  No convergence analysis is involved: whenever the
   oracle's own feasibility test passes, what it returns is the optimum. *)
Theorem C17_certificate n d theta E msg lift proj N :
  0 < N -> (forall r, (r < n)%nat -> (0 < d r)%nat) -> (forall e, In e E -> (fst e < n)%nat /\ (snd e < n)%nat) ->
  (forall e, In e E -> forall m v, dotf (d (fst e)) (lift e m) v = dotf (d (snd e)) m (proj e v)) ->
  forall nu, consistent d E proj nu -> valid n d N nu -> consistent d E proj (bel d theta E msg lift N) ->
  objective n d theta N nu <= objective n d theta N (bel d theta E msg lift N).
Proof. intros HN Hd HE HA nu. exact (certificate n d theta E msg lift proj N HN Hd HE HA nu). Qed.
Print Assumptions C17_certificate.

(* per region: <phi, nu> + H(nu) = N ln Z - KL(nu || belief): the belief is the unique maximiser of its own term (KL = 0 iff nu = belief) *)
Theorem C17_region_identity d phi nu N : 0 < N -> (0 < d)%nat -> sumf d nu = N ->
  dotf d phi nu + ent d N nu = N * ln (Zr d phi) - kl (tolist d nu) (tolist d (belief d phi N)).
Proof. intros H1 H2 H3. exact (region_bound d phi nu N H1 H2 H3). Qed.
Print Assumptions C17_region_identity.

(* under consistency the message terms cancel edge by edge: the objective can be re-expressed through phi *)
Theorem C17_messages_cancel n d theta E msg lift proj N : (forall e, In e E -> (fst e < n)%nat /\ (snd e < n)%nat) ->
  (forall e, In e E -> forall m v, dotf (d (fst e)) (lift e m) v = dotf (d (snd e)) m (proj e v)) ->
  forall nu, consistent d E proj nu -> objective n d theta N nu = sumf n (fun r => dotf (d r) (phi theta E msg lift r) (nu r) + ent (d r) N (nu r)).
Proof. intros HE HA nu. exact (objective_reparam n d theta E msg lift proj N HE HA nu). Qed.
Print Assumptions C17_messages_cancel.

(* the returned tables are normalised whatever the messages *)
Theorem C17_beliefs_normalised total b : 0 < total -> b <> [] -> SelectP.sumR (normalised total b) = total.
Proof. exact (normalised_sum total b). Qed.
Print Assumptions C17_beliefs_normalised.
(* PARTIAL: that the damped sweeps REACH consistency is observed with the code's own convergence test; that minimal (pruned) edges imply
   agreement of every ancestor/descendant pair is observed (all nested pairs are compared per run), not proved. *)

(* non-vacuity: a two-region graph (a region with two cells above its one-cell sub-region, zero potentials and messages) meets all
   hypotheses of the certificate, including consistency of the beliefs *)
Example C17_hypotheses_satisfiable :
  let d := fun r : nat => match r with O => 2%nat | _ => 1%nat end in
  let E := [(0%nat, 1%nat)] in
  let lift := fun (_ : nat * nat) (m : nat -> R) (_ : nat) => m 0%nat in
  let proj := fun (_ : nat * nat) (v : nat -> R) (_ : nat) => v 0%nat + v 1%nat in
  let z := fun (_ : nat) (_ : nat) => 0 in let zm := fun (_ : nat * nat) (_ : nat) => 0 in
  (forall r, (r < 2)%nat -> (0 < d r)%nat) /\ (forall e, In e E -> (fst e < 2)%nat /\ (snd e < 2)%nat) /\
  (forall e, In e E -> forall m v, dotf (d (fst e)) (lift e m) v = dotf (d (snd e)) m (proj e v)) /\
  consistent d E proj (bel d z E zm lift 1).
Proof. cbv zeta. split; [|split; [|split]].
  - intros [|[|r]] H; simpl; lia.
  - intros e [<-|[]]. simpl. lia.
  - intros e [<-|[]] m v. unfold dotf. simpl. ring.
  - intros e [<-|[]] i Hi. simpl in Hi. assert (i = 0%nat) by lia. subst i.
    unfold bel, belief, Zr, phi. simpl. replace (0 + 0 + - 0) with 0 by ring. rewrite exp_0. field. Qed.
