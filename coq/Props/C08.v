(* C08 — the returned model is one coherent, valid distribution.  Every answer of the model is (C01/C02) a marginal
   `brute total attrs` of the single explicit joint of its stored parameters; the statements below are about those marginals. *)
From Coq Require Import List Arith Bool.
Import ListNotations.
Require Import PGM.Base.Alg PGM.Base.Sums PGM.Base.Qnn PGM.Model.BP PGM.Model.Query PGM.Proofs.QueryP PGM.Proofs.JTP PGM.Proofs.MleP.

(* any two answers agree on the attributes they share *)
Theorem C08_answers_agree_on_shared_attributes (R : SF) shape D ncl psi total A1 A2 S x :
  NoDup D -> NoDup A1 -> NoDup A2 -> NoDup S -> incl S A1 -> incl S A2 -> incl A1 D -> incl A2 D ->
  @sum_vars R shape (diff A1 S) (@brute R shape D ncl psi total A1) x = @sum_vars R shape (diff A2 S) (@brute R shape D ncl psi total A2) x.
Proof. intros ND. exact (@answers_agree R shape D ncl psi ND total A1 A2 S x). Qed.
Print Assumptions C08_answers_agree_on_shared_attributes.

(* every answer sums to the model total *)
Theorem C08_answers_sum_to_total (R : SF) shape D ncl psi total attrs : NoDup D -> NoDup attrs -> incl attrs D ->
  @sum_vars R shape D (@joint R ncl psi) base0 <> zero R -> @sum_vars R shape attrs (@brute R shape D ncl psi total attrs) base0 = total.
Proof. intros H1. exact (@brute_sums_to_total R shape D ncl psi H1 total attrs). Qed.
Print Assumptions C08_answers_sum_to_total.

(* marginalisation is linear: averaged iterates (RDA, IG) of consistent marginals are consistent *)
Theorem C08_marginalisation_linear (R : SF) shape l (f g : tbl R) :
  @sum_vars R shape l (fun x => add R (f x) (g x)) = fun x => add R (@sum_vars R shape l f x) (@sum_vars R shape l g x).
Proof. exact (@sum_vars_add R shape l f g). Qed.
Print Assumptions C08_marginalisation_linear.

(* nonnegativity is carried by the type: the executed instance is the non-negative rationals *)
Theorem C08_nonnegative (q : Qnn) : nn (qv q) = true. Proof. exact (qnn q). Qed.
Print Assumptions C08_nonnegative.

(* STORED PARAMETERS REPRODUCE STORED MARGINALS (RDA / IG set the parameters with mle): for clique tables mu that are consistent along
   the edges of the junction tree, the potentials mle builds - mu_c divided (x/0 := x) by mu_c summed onto the separator with the clique
   visited before it - have, for EVERY rooting of the tree satisfying the running-intersection predicate, the root marginal mu_root;
   over any zero-sum-free semifield, zeros included.  `par` is the visiting order of mle, `oriented` says the rooted tree and par
   describe the same tree. *)
Theorem C08_mle_reproduces (F : SF) shape scope (mu : nat -> tbl F) par :
  (forall c a, ~ In a (scope c) -> @indep F a (mu c)) ->
  (forall c p, par c = Some p -> forall x, @valid shape x ->
     @sum_vars F shape (diff (scope c) (scope p)) (mu c) x = @sum_vars F shape (diff (scope p) (scope c)) (mu p) x) ->
  forall d ks, good scope (Node d ks) -> oriented par None (Node d ks) -> forall x, @valid shape x ->
  @sum_vars F shape (flat_map (elimt scope (scope d)) ks) (jointt F (psi F shape scope mu par) (Node d ks)) x = mu d x.
Proof. intros Hd Hc. exact (mle_reproduces F shape scope mu par Hd Hc). Qed.
Print Assumptions C08_mle_reproduces.

(* PARTIAL: for MD the pair (theta, BP theta) is C01_exact.  For RDA / IG the averaged marginals are locally consistent because each
   summand is a BP output (C01) and consistency is linear (C08_marginalisation_linear); that mle's running set `variables & cl` equals
   the separator with the tree parent (running intersection + DFS order) is compared per run, as are the stored marginals against
   the exact joint of the stored parameters. *)
