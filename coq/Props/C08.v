(* C08 — the returned model is one coherent, valid distribution.  Every answer of the model is (C01/C02) a marginal
   `brute total attrs` of the single explicit joint of its stored parameters; the statements below are about those marginals. *)
From Coq Require Import List Arith Bool.
Import ListNotations.
Require Import PGM.Base.Alg PGM.Base.Sums PGM.Base.Qnn PGM.Model.BP PGM.Model.Query PGM.Proofs.QueryP PGM.Proofs.JTP PGM.Proofs.MleP.
Require Import PGM.Proofs.JTreeP PGM.Proofs.WeightP PGM.Proofs.MleSepP.
Require Import PGM.Base.PyFactor PGM.Gen.BP_gen PGM.Proofs.MleGenP.

(* any two answers agree on the attributes they share *)
Theorem C08_answers_agree_on_shared_attributes (R : SF) shape D ncl psi total A1 A2 S x :
  NoDup D -> NoDup A1 -> NoDup A2 -> NoDup S -> incl S A1 -> incl S A2 -> incl A1 D -> incl A2 D ->
  @sum_vars R shape (diff A1 S) (@brute R shape D ncl psi total A1) x = @sum_vars R shape (diff A2 S) (@brute R shape D ncl psi total A2) x.
Proof. intros ND. exact (@answers_agree R shape D ncl psi ND total A1 A2 S x). Qed.
Print Assumptions C08_answers_agree_on_shared_attributes.

(* every answer sums to the model total *)
Theorem C08_answers_sum_to_total (R : SF) shape D ncl psi total attrs : NoDup D -> NoDup attrs -> incl attrs D ->
  @sum_vars R shape D (@joint R ncl psi) base0 <> zero R -> @sum_vars R shape attrs (@brute R shape D ncl psi total attrs) base0 = total.
Proof. intros H1. exact (@brute_sums_to_total R shape D ncl psi H1 total attrs). Qed.
Print Assumptions C08_answers_sum_to_total.

(* marginalisation is linear: averaged iterates (RDA, IG) of consistent marginals are consistent *)
Theorem C08_marginalisation_linear (R : SF) shape l (f g : tbl R) :
  @sum_vars R shape l (fun x => add R (f x) (g x)) = fun x => add R (@sum_vars R shape l f x) (@sum_vars R shape l g x).
Proof. exact (@sum_vars_add R shape l f g). Qed.
Print Assumptions C08_marginalisation_linear.

(* nonnegativity is carried by the type: the executed instance is the non-negative rationals *)
Theorem C08_nonnegative (q : Qnn) : nn (qv q) = true. Proof. exact (qnn q). Qed.
Print Assumptions C08_nonnegative.

(* STORED PARAMETERS REPRODUCE STORED MARGINALS (RDA / IG set the parameters with mle): for clique tables mu that are consistent along
   the edges of the junction tree, the potentials mle builds - mu_c divided (x/0 := x) by mu_c summed onto the separator with the clique
   visited before it - have, for EVERY rooting of the tree satisfying the running-intersection predicate, the root marginal mu_root;
   over any zero-sum-free semifield, zeros included.  `par` is the visiting order of mle, `oriented` says the rooted tree and par
   describe the same tree. *)
Theorem C08_mle_reproduces (F : SF) shape scope (mu : nat -> tbl F) par :
  (forall c a, ~ In a (scope c) -> @indep F a (mu c)) ->
  (forall c p, par c = Some p -> forall x, @valid shape x ->
     @sum_vars F shape (diff (scope c) (scope p)) (mu c) x = @sum_vars F shape (diff (scope p) (scope c)) (mu p) x) ->
  forall d ks, good scope (Node d ks) -> oriented par None (Node d ks) -> forall x, @valid shape x ->
  @sum_vars F shape (flat_map (elimt scope (scope d)) ks) (jointt F (psi F shape scope mu par) (Node d ks)) x = mu d x.
Proof. intros Hd Hc. exact (mle_reproduces F shape scope mu par Hd Hc). Qed.
Print Assumptions C08_mle_reproduces.

(* THE SEPARATORS mle USES ARE THE TREE SEPARATORS.  mle walks self.cliques - the DFS preorder of the junction tree - keeping the set
   `variables` of everything seen so far, and divides each clique marginal by its projection on  variables & set(cl)  (mle_walk is that
   loop).  On a tree with one top per attribute (running intersection; what C12 / the checker establish) every emitted set has exactly the
   elements of scope(cl) /\ scope(parent(cl)), the cliques come in the tree's preorder, and the first set is empty: the potentials mle builds are
   the factorisation mu_c / (mu_c summed onto the parent separator) that C08_mle_reproduces is about. *)
Theorem C08_mle_separators_are_tree_separators scope t : (forall a, length (tops scope a [] t) <= 1) ->
  Forall2 (fun cs cp => fst cs = fst cp /\ parent_sep_spec scope (snd cp) (fst cs) (snd cs)) (snd (mle_walk scope [] t)) (with_parent scope [] t)
  /\ map fst (snd (mle_walk scope [] t)) = nodes t.
Proof. intros H. split. exact (mle_separators_are_parent_separators scope t H). exact (mle_walk_order scope t []). Qed.
Print Assumptions C08_mle_separators_are_tree_separators.
Theorem C08_good_tree_has_single_tops scope a t p : good scope t -> length (tops scope a p t) <= 1.
Proof. exact (good_single_top scope a t p). Qed.
Print Assumptions C08_good_tree_has_single_tops.
(* THE SAME FOR THE DEFINITION GENERATED FROM THE SOURCE: Gen/BP_gen.v contains the translation of GraphicalModel.mle (regenerated on
   every run by translator/py2gallina_bp.py).  On a tree whose cliques are numbered in preorder (self.cliques) with one top per attribute,
   fed the materialised clique tables mu_c, it returns at clique c the table  mu_c / (mu_c summed onto scope c /\ scope parent)  with the
   guarded division of the code (the root is divided by its total mass): the factorisation of C08_mle_reproduces, up to the constant at the
   root which belief_propagation's normalisation removes. *)
Theorem C08_src_mle_is_factorisation (R : SF) shape D ncl scope (mu : nat -> tbl R) t :
  (forall c, dep_on D (mu c)) -> nodes t = seq 0 ncl -> (forall a, length (tops scope a [] t) <= 1) ->
  Forall (fun cp => forall x, valid shape x ->
            @lk R D (nth (fst cp) (@mle R shape D ncl scope (marg R shape D ncl mu)) (@Leaf R (zero R))) x
            = @sdiv R (mu (fst cp) x) (@sum_vars R shape (diff (scope (fst cp)) (snd cp)) (mu (fst cp)) x))
         (with_parent scope [] t).
Proof. intros Hd. exact (mle_gen_is_factorisation R shape D ncl scope mu Hd t). Qed.
Print Assumptions C08_src_mle_is_factorisation.
(* non-vacuity: chain [0,1]-[1,2]-[2,3] rooted at the middle clique; walked 1, 0, 2 with separators {}, {1}, {2} *)
Example C08_mle_walk_example :
  let scope := fun c => nth c [[0;1];[1;2];[2;3]] [] in
  snd (mle_walk scope [] (Node 1 [Node 0 []; Node 2 []])) = [(1, []); (0, [1]); (2, [2])].
Proof. vm_compute. reflexivity. Qed.

(* PARTIAL: for MD the pair (theta, BP theta) is C01_exact.  For RDA / IG the averaged marginals are locally consistent because each
   summand is a BP output (C01) and consistency is linear (C08_marginalisation_linear).  That self.cliques IS the preorder of the tree
   (networkx dfs_preorder_nodes) is external; the stored marginals are compared per run with the exact joint of the stored parameters. *)
