(* C14 — Factor algebra is addressed by attribute name, never by position.
   tbl_of f x is the value of factor f at the joint assignment x (read by NAME through the domain);
   valid_on d x: x is inside the domain d.  All statements hold for any value type and any scalar op. *)
From Coq Require Import List Arith ZArith.
Import ListNotations.
Require Import PGM.Base.Alg PGM.Base.Sums PGM.Base.Qnn PGM.Model.Domain PGM.Model.Dataset PGM.Model.Factor PGM.Model.XQ PGM.Proofs.FactorP.

Section C14.
Variable K : Type.
Variable dflt : K.
Notation tbl := (tbl_of dflt).

(* materialise-by-name then read-by-name is the identity (the engine behind every operation) *)
Theorem C14_tabulate_lookup d (t : asg -> K) x : NoDup (attrs d) -> valid_on d x -> dep_on (attrs d) t -> tbl (tabulate d t) x = t x.
Proof. exact (@tbl_of_tabulate K dflt d t x). Qed.

Theorem C14_expand (f g : factor K) d' : expand dflt f d' = Some g -> NoDup (attrs d') ->
  fdom g = d' /\ forall x, valid_on d' x -> tbl g x = tbl f x.
Proof. exact (@expand_spec K dflt f g d'). Qed.

Theorem C14_transpose (f g : factor K) l : transpose dflt f l = Some g -> NoDup l ->
  attrs (fdom g) = l /\ forall x, valid_on (fdom g) x -> tbl g x = tbl f x.
Proof. exact (@transpose_spec K dflt f g l). Qed.

(* + - * / logaddexp: any scalar operation, attributes in any order, overlapping arbitrarily *)
Theorem C14_binary op (f g h : factor K) : fbin dflt op f g = Some h -> NoDup (attrs (fdom f)) -> NoDup (attrs (fdom g)) ->
  attrs (fdom h) = attrs (fdom f) ++ invert (fdom g) (attrs (fdom f)) /\
  forall x, valid_on (fdom h) x -> tbl h x = op (tbl f x) (tbl g x).
Proof. exact (@fbin_spec K dflt op f g h). Qed.

Theorem C14_inplace_agrees op (f g : factor K) : contains (fdom f) (fdom g) = true -> fibin dflt op f g = fbin dflt op f g.
Proof. exact (@fibin_agrees K dflt op f g). Qed.

(* sum / max / logsumexp over a list of attributes *)
Theorem C14_aggregate op u (f g : factor K) l : fagg dflt op u f l = Some g -> NoDup (attrs (fdom f)) ->
  attrs (fdom g) = invert (fdom f) l /\
  forall x, valid_on (fdom g) x -> tbl g x = fold_vars op u (key_size (fdom f)) l (tbl f) x.
Proof. exact (@fagg_spec K dflt op u f g l). Qed.

(* project: axes in the order requested; value = aggregate over all other attributes *)
Theorem C14_project op u (f g : factor K) l : fproject dflt op u f l = Some g -> NoDup (attrs (fdom f)) -> NoDup l ->
  attrs (fdom g) = l /\
  forall x, valid_on (fdom g) x -> exists s, fagg dflt op u f (invert (fdom f) l) = Some s /\ valid_on (fdom s) x /\
     tbl g x = fold_vars op u (key_size (fdom f)) (invert (fdom f) l) (tbl f) x.
Proof. exact (@fproject_spec K dflt op u f g l). Qed.

Theorem C14_condition (f g : factor K) ev : condition dflt f ev = Some g -> NoDup (attrs (fdom f)) ->
  attrs (fdom g) = invert (fdom f) (map fst ev) /\ forall x, valid_on (fdom g) x -> tbl g x = tbl f (override ev x).
Proof. exact (@condition_spec K dflt f g ev). Qed.

Theorem C14_elementwise (h : K -> K) (f : factor K) x : ravel (dshape (fdom f)) (cell_of (attrs (fdom f)) x) < length (fvals f) ->
  tbl_of (h dflt) (fmap h f) x = h (tbl f x).
Proof. exact (@fmap_spec K dflt h f x). Qed.

(* CliqueVector.combine: a factor is added in place into the FIRST clique of self containing it, nothing else changes *)
Theorem C14_combine_one op cl (g : factor K) (v : cvec K) :
  (forall c f, In (c, f) v -> subsetb cl c = false) /\ add_into dflt op cl g v = v
  \/ exists v1 c f v2, v = v1 ++ (c, f) :: v2 /\ (forall c' f', In (c', f') v1 -> subsetb cl c' = false) /\ subsetb cl c = true /\
       add_into dflt op cl g v = v1 ++ (c, match fibin dflt op f g with Some h => h | None => f end) :: v2.
Proof. exact (@add_into_spec K dflt op cl g v). Qed.
End C14.
Print Assumptions C14_tabulate_lookup.
Print Assumptions C14_expand.
Print Assumptions C14_transpose.
Print Assumptions C14_binary.
Print Assumptions C14_inplace_agrees.
Print Assumptions C14_aggregate.
Print Assumptions C14_project.
Print Assumptions C14_condition.
Print Assumptions C14_elementwise.
Print Assumptions C14_combine_one.

(* aggregation with (+,0) is the sum_vars of Base/Sums.v, which the inference proofs (C01, C02) reason about *)
Theorem C14_sum_is_sum_vars (R : SR) shape l (t : asg -> car R) : fold_vars (add R) (zero R) shape l t = @sum_vars R shape l t.
Proof. exact (@fold_vars_sum R shape l t). Qed.
Print Assumptions C14_sum_is_sum_vars.

(* non-vacuity: (a:2,b:3) + (c:2,b:3 in the other order, with a -inf entry), read back by name *)
Example C14_example :
  let q (n : Z) : xq := Some (Qc_of n 1) in
  let f := mkF [(0,2);(1,3)] [q 1; q 2; q 3; q 4; q 5; q 6]%Z in
  let g := mkF [(2,2);(1,3)] [q 10; q 20; xninf; q 40; q 50; q 60]%Z in
  option_map (@fvals xq) (fbin xzero xadd f g) =
  Some [q 11; q 41; q 22; q 52; xninf; q 63; q 14; q 44; q 25; q 55; xninf; q 66]%Z.
Proof. vm_compute. reflexivity. Qed.
