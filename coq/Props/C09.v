(* C09 — known totals are honoured; unknown totals are the best linear estimate.
   Model: Model/Loss.v est_of / var_of / ivw, with the least-squares solution v as an oracle input. *)
From Coq Require Import List Arith Bool QArith Qcanon.
Import ListNotations.
Require Import PGM.Base.Qnn PGM.Model.Loss PGM.Proofs.LossP PGM.Proofs.BlueP.
Local Open Scope Qc_scope.

(* a linear estimator v accepted by the test Q^T v = 1 is unbiased: on noise-free answers y = Q x it returns sum x *)
Theorem C09_unbiased Q m p v x : (forall j, (j < p)%nat -> tmatvec Q m v j = 1) -> est_of m v (matvec Q p x) = qsum p x.
Proof. exact (unbiased Q m p v x). Qed.
Print Assumptions C09_unbiased.

(* inverse-variance weighting of estimates that all equal N >= 1 returns N: noise-free measurements of N records give N,
   whatever (full-rank or not) query matrices were used, as soon as one measurement is accepted *)
Theorem C09_noise_free_gives_N l N : l <> [] -> (forall p, In p l -> fst p = N /\ 0 < snd p) -> 1 <= N -> ivw l = N.
Proof. exact (ivw_const l N). Qed.
Print Assumptions C09_noise_free_gives_N.

(* the per-measurement estimate is the BEST linear unbiased one: among all w with Q^T w = 1 (every unbiased linear estimate <w, y> of the
   count) a solution v in the column space of Q - which the minimum-norm solution of Q^T v = 1 is - has the smallest norm, hence the
   smallest variance sigma^2 |v|^2 *)
Theorem C09_min_norm_solution_is_best_linear_unbiased Q m p (v w z : vec) sigma :
  (forall j, (j < p)%nat -> tmatvec Q m v j = 1) -> (forall j, (j < p)%nat -> tmatvec Q m w j = 1) ->
  (forall i, (i < m)%nat -> v i = matvec Q p z i) ->
  dot m v v <= dot m w w /\ var_of m v sigma <= var_of m w sigma.
Proof. intros Hv Hw Hz. split. exact (min_norm_is_blue Q m p v w z Hv Hw Hz). exact (min_norm_minimises_variance Q m p v w z sigma Hv Hw Hz). Qed.
Print Assumptions C09_min_norm_solution_is_best_linear_unbiased.
Theorem C09_at_least_one l : 1 <= ivw l.
Proof. exact (ivw_at_least_one l). Qed.
Print Assumptions C09_at_least_one.

(* no accepted measurement => total 1 *)
Theorem C09_no_estimate : ivw [] = 1. Proof. reflexivity. Qed.
Print Assumptions C09_no_estimate.

(* OPTIMAL WEIGHTS (on the reals): any combination of independent unbiased estimates with weights summing to one has variance
   sum w_i^2 v_i >= 1/sum(1/v_i), and the inverse-variance weights (1/v_i)/sum(1/v_j) used by ivw attain it *)
Require Import Reals PGM.Proofs.IvwP.
Theorem C09_inverse_variance_lower_bound (l : list (R * R)) : l <> [] -> (forall p, In p l -> (0 < snd p)%R) -> sumw l = 1%R -> (/ prec l <= varc l)%R.
Proof. exact (ivw_lower_bound l). Qed.
Print Assumptions C09_inverse_variance_lower_bound.
Theorem C09_inverse_variance_weights_attain (vs : list R) : vs <> [] -> (forall v, In v vs -> (0 < v)%R) ->
  sumw (ivweights vs) = 1%R /\ varc (ivweights vs) = (/ prec (ivweights vs))%R.
Proof. exact (ivw_attains vs). Qed.
Print Assumptions C09_inverse_variance_weights_attain.

(* NOT proved: that lsmr returns the minimum-norm solution (so that each single estimate is the BLUE of its measurement); `known total
   used exactly` is definitional in _setup and is checked per run. *)
