(* C13 — estimation is history-free; returned models are immutable snapshots. *)
From Coq Require Import List.
Import ListNotations.
Require Import PGM.Model.History.

(* without warm start the k-th output is what a fresh estimator returns for the same arguments, whatever calls came before
   and whatever the state was *)
Theorem C13_history_free (Args Out St : Type) (run : option St -> Args -> St * Out) :
  forall l s, outs run false s l = map (fun a => snd (run None a)) l.
Proof. induction l as [|a r IH]; intros s; simpl. reflexivity.
  unfold step. destruct (run None a) as [s' o] eqn:E. simpl. now rewrite IH. Qed.
Print Assumptions C13_history_free.

(* with warm start only the immediately preceding state can matter *)
Theorem C13_warm_depends_on_last_state_only (Args Out St : Type) (run : option St -> Args -> St * Out) :
  forall l s a, outs run true s (l ++ [a]) = outs run true s l ++ [snd (run (fold_left (fun st x => fst (step run true st x)) l s) a)].
Proof. induction l as [|b r IH]; intros s a; simpl.
  - unfold step. destruct (run s a); reflexivity.
  - unfold step at 1 2. unfold step at 2. destruct (run s b) as [s' o]. simpl. rewrite IH. reflexivity. Qed.
Print Assumptions C13_warm_depends_on_last_state_only.

(* PARTIAL: Python object aliasing / in-place mutation (a returned model changing because of later calls, the caller's lists and
   arrays being modified) is runtime behaviour a functional model cannot exhibit; it is observed per run, as is the warm-start
   optimum (compared with a cold start through the C03 machinery). *)
