(* C20 — selection and noise primitives are exactly calibrated.  Model: Model/Select.v instantiated on the reals (RNum). *)
From Coq Require Import List ZArith Reals Lra Bool.
Import ListNotations.
Require Import PGM.Base.Num PGM.Model.Select PGM.Proofs.SelectP.
Open Scope R_scope.

(* scipy-style softmax (subtract the max, exponentiate, normalise) IS exp(s_i)/sum_j exp(s_j) *)
Theorem C20_softmax_is_normalised_exp s i : s <> [] -> (i < length s)%nat -> nth i (softmax RNum s) 0 = exp (nth i s 0) / sumR (map exp s).
Proof. exact (softmax_spec s i). Qed.
Print Assumptions C20_softmax_is_normalised_exp.
(* so is exp(scores - logsumexp(scores)) (mst.py, adaptive_grid.py) *)
Theorem C20_logsumexp_form_is_normalised_exp s i : s <> [] -> (i < length s)%nat -> nth i (lse_probs RNum s) 0 = exp (nth i s 0) / sumR (map exp s).
Proof. exact (lse_probs_spec s i). Qed.
Print Assumptions C20_logsumexp_form_is_normalised_exp.
(* with scores c*(q_i - m) + ln base_i each weight is base_i * exp(c q_i) times a factor common to all candidates:
   candidate i is picked with probability proportional to base_i * exp(eps*q_i/(2*sens)) (c = eps/(2 sens); c = eps/sens when monotonic) *)
Theorem C20_weight_is_base_times_exp c m q b : 0 < b -> exp (c * (q - m) + ln b) = b * exp (c * q) * exp (- (c * m)).
Proof. exact (em_proportional c m q b). Qed.
Print Assumptions C20_weight_is_base_times_exp.
(* unaffected by adding a constant to all qualities *)
Theorem C20_shift_invariant s k i : s <> [] -> exp (nth i s 0 + k) / sumR (map exp (map (fun x => x + k) s)) = exp (nth i s 0) / sumR (map exp s).
Proof. exact (shift_invariant s k i). Qed.
Print Assumptions C20_shift_invariant.
Theorem C20_probabilities_sum_to_one s : s <> [] -> sumR (softmax RNum s) = 1.
Proof. exact (softmax_sums_to_one s). Qed.
Print Assumptions C20_probabilities_sum_to_one.
(* well defined for scores of any magnitude: after the shift every exponent is non-positive *)
Theorem C20_exponents_nonpositive s x : In x s -> x - lmax RNum s <= 0.
Proof. exact (exponents_nonpositive s x). Qed.
Print Assumptions C20_exponents_nonpositive.
Theorem C20_laplace_scale bounded l1 eps : laplace_scale RNum bounded l1 eps = (if bounded then 2 * l1 else l1) / eps.
Proof. exact (laplace_scale_spec bounded l1 eps). Qed.
Print Assumptions C20_laplace_scale.
Theorem C20_gaussian_scale bounded l2 s : gaussian_scale RNum bounded l2 s = (if bounded then 2 * l2 else l2) * s.
Proof. exact (gaussian_scale_spec bounded l2 s). Qed.
Print Assumptions C20_gaussian_scale.
