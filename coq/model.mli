
type __ = Obj.t

val negb : bool -> bool

type nat =
| O
| S of nat

val option_map : ('a1 -> 'a2) -> 'a1 option -> 'a2 option

val fst : ('a1 * 'a2) -> 'a1

val snd : ('a1 * 'a2) -> 'a2

val length : 'a1 list -> nat

val app : 'a1 list -> 'a1 list -> 'a1 list

type comparison =
| Eq
| Lt
| Gt

val compOpp : comparison -> comparison

val add : nat -> nat -> nat

val mul : nat -> nat -> nat

val bool_dec : bool -> bool -> bool

module Nat :
 sig
  val add : nat -> nat -> nat

  val mul : nat -> nat -> nat

  val eqb : nat -> nat -> bool

  val leb : nat -> nat -> bool

  val ltb : nat -> nat -> bool
 end

val nth : nat -> 'a1 list -> 'a1 -> 'a1

val map : ('a1 -> 'a2) -> 'a1 list -> 'a2 list

val flat_map : ('a1 -> 'a2 list) -> 'a1 list -> 'a2 list

val fold_left : ('a1 -> 'a2 -> 'a1) -> 'a2 list -> 'a1 -> 'a1

val fold_right : ('a2 -> 'a1 -> 'a1) -> 'a1 -> 'a2 list -> 'a1

val existsb : ('a1 -> bool) -> 'a1 list -> bool

val forallb : ('a1 -> bool) -> 'a1 list -> bool

val filter : ('a1 -> bool) -> 'a1 list -> 'a1 list

val combine : 'a1 list -> 'a2 list -> ('a1 * 'a2) list

val seq : nat -> nat -> nat list

type positive =
| XI of positive
| XO of positive
| XH

type z =
| Z0
| Zpos of positive
| Zneg of positive

module Pos :
 sig
  type mask =
  | IsNul
  | IsPos of positive
  | IsNeg
 end

module Coq_Pos :
 sig
  val succ : positive -> positive

  val add : positive -> positive -> positive

  val add_carry : positive -> positive -> positive

  val pred_double : positive -> positive

  type mask = Pos.mask =
  | IsNul
  | IsPos of positive
  | IsNeg

  val succ_double_mask : mask -> mask

  val double_mask : mask -> mask

  val double_pred_mask : positive -> mask

  val sub_mask : positive -> positive -> mask

  val sub_mask_carry : positive -> positive -> mask

  val sub : positive -> positive -> positive

  val mul : positive -> positive -> positive

  val size_nat : positive -> nat

  val compare_cont : comparison -> positive -> positive -> comparison

  val compare : positive -> positive -> comparison

  val ggcdn : nat -> positive -> positive -> positive * (positive * positive)

  val ggcd : positive -> positive -> positive * (positive * positive)

  val eq_dec : positive -> positive -> bool
 end

module Z :
 sig
  val double : z -> z

  val succ_double : z -> z

  val pred_double : z -> z

  val pos_sub : positive -> positive -> z

  val add : z -> z -> z

  val opp : z -> z

  val mul : z -> z -> z

  val compare : z -> z -> comparison

  val sgn : z -> z

  val leb : z -> z -> bool

  val abs : z -> z

  val to_pos : z -> positive

  val ggcd : z -> z -> z * (z * z)

  val eq_dec : z -> z -> bool
 end

val z_lt_dec : z -> z -> bool

val z_lt_ge_dec : z -> z -> bool

val z_lt_le_dec : z -> z -> bool

type q = { qnum : z; qden : positive }

val qeq_dec : q -> q -> bool

val qle_bool : q -> q -> bool

val qplus : q -> q -> q

val qmult : q -> q -> q

val qopp : q -> q

val qinv : q -> q

val qlt_le_dec : q -> q -> bool

val qred : q -> q

type qc = q
  (* singleton inductive, whose constructor was Qcmake *)

val this : qc -> q

val q2Qc : q -> qc

val qc_eq_dec : qc -> qc -> bool

val qcplus : qc -> qc -> qc

val qcmult : qc -> qc -> qc

val qcopp : qc -> qc

val qcminus : qc -> qc -> qc

val qcinv : qc -> qc

val qcdiv : qc -> qc -> qc

val qc_eq_bool : qc -> qc -> bool

type sR = { zero : __; one : __; add0 : (__ -> __ -> __);
            mul0 : (__ -> __ -> __) }

type car = __

type sF = { sr : sR; div : (car -> car -> car); eqz : (car -> bool) }

type asg = nat -> nat

val upd : asg -> nat -> nat -> asg

val memb : nat -> nat list -> bool

val subsetb : nat list -> nat list -> bool

val qcSR : sR

val nn : qc -> bool

type qnn = qc
  (* singleton inductive, whose constructor was mkQnn *)

val qv : qnn -> qc

val q0 : qnn

val q1 : qnn

val qadd : qnn -> qnn -> qnn

val qmul : qnn -> qnn -> qnn

val qdiv : qnn -> qnn -> qnn

val qeqz : qnn -> bool

val qnnSR : sR

val qnnSF : sF

val qc_of : z -> positive -> qc

val qnn_of : z -> positive -> qnn

val qc_num : qc -> z

val qc_den : qc -> positive

type dom = (nat * nat) list

val attrs : dom -> nat list

val dshape : dom -> nat list

val lookup : dom -> nat -> nat option

val project : dom -> nat list -> dom option

val invert : dom -> nat list -> nat list

val marginalize : dom -> nat list -> dom option

val index_of : nat -> nat list -> nat option

val axes : dom -> nat list -> nat list option

val merge : dom -> dom -> dom option

val contains : dom -> dom -> bool

val prodn : nat list -> nat

val size : dom -> nat

val size_of : dom -> nat list -> nat option

val canonical : dom -> nat list -> nat list

val insert_by : (nat -> nat) -> nat -> nat list -> nat list

val sort_by : (nat -> nat) -> nat list -> nat list

val key_size : dom -> nat -> nat

val sort_size : dom -> dom option

val sort_name : dom -> dom option

val dom_eqb : dom -> dom -> bool

val cells : nat list -> nat list list

val list_eqb : nat list -> nat list -> bool

val ravel : nat list -> nat list -> nat

type dataset = { ddom : dom; rows : nat list list; weights : car list }

val hist : sR -> nat list -> nat list list -> car list -> nat -> car

val datavector : sR -> dataset -> car list

val select : nat list -> nat list -> nat list

val dproject : sR -> dataset -> nat list -> dataset option

type 'k factor = { fdom : dom; fvals : 'k list }

val cell_of : nat list -> asg -> nat list

val asg_of : nat list -> nat list -> asg

val tbl_of : 'a1 -> 'a1 factor -> asg -> 'a1

val tabulate : dom -> (asg -> 'a1) -> 'a1 factor

val expand : 'a1 -> 'a1 factor -> dom -> 'a1 factor option

val seteqb : nat list -> nat list -> bool

val transpose : 'a1 -> 'a1 factor -> nat list -> 'a1 factor option

val fmap : ('a1 -> 'a1) -> 'a1 factor -> 'a1 factor

val fbin :
  'a1 -> ('a1 -> 'a1 -> 'a1) -> 'a1 factor -> 'a1 factor -> 'a1 factor option

val fibin :
  'a1 -> ('a1 -> 'a1 -> 'a1) -> 'a1 factor -> 'a1 factor -> 'a1 factor option

val foldn : ('a1 -> 'a1 -> 'a1) -> 'a1 -> nat -> (nat -> 'a1) -> 'a1

val fold_var :
  ('a1 -> 'a1 -> 'a1) -> 'a1 -> (nat -> nat) -> nat -> (asg -> 'a1) -> asg ->
  'a1

val fold_vars :
  ('a1 -> 'a1 -> 'a1) -> 'a1 -> (nat -> nat) -> nat list -> (asg -> 'a1) ->
  asg -> 'a1

val fagg :
  'a1 -> ('a1 -> 'a1 -> 'a1) -> 'a1 -> 'a1 factor -> nat list -> 'a1 factor
  option

val fproject :
  'a1 -> ('a1 -> 'a1 -> 'a1) -> 'a1 -> 'a1 factor -> nat list -> 'a1 factor
  option

val override : (nat * nat) list -> asg -> asg

val evidence_ok : dom -> (nat * nat) list -> bool

val condition : 'a1 -> 'a1 factor -> (nat * nat) list -> 'a1 factor option

type 'k cvec = (nat list * 'k factor) list

val cv_get : nat list -> 'a1 cvec -> 'a1 factor option

val cv_bin :
  'a1 -> ('a1 -> 'a1 -> 'a1) -> 'a1 cvec -> 'a1 cvec -> 'a1 cvec option

val add_into :
  'a1 -> ('a1 -> 'a1 -> 'a1) -> nat list -> 'a1 factor -> 'a1 cvec -> 'a1 cvec

val cv_combine :
  'a1 -> ('a1 -> 'a1 -> 'a1) -> 'a1 cvec -> 'a1 cvec -> 'a1 cvec

type xq = qc option

val xadd : xq -> xq -> xq

val xsub : xq -> xq -> xq

val xmul : xq -> xq -> xq

val xdiv : xq -> xq -> xq

val xmax : xq -> xq -> xq

val xzero : xq

val xninf : xq
