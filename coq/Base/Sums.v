(* Tables as functions on total assignments; finite sums over one variable / a list of variables;
   Fubini, pulling independent factors out of sums, support lemmas. *)
From Coq Require Import List Arith Lia Bool FunctionalExtensionality Permutation.
Import ListNotations.
Require Import PGM.Base.Alg.
Set Implicit Arguments.

Definition asg := nat -> nat.
Definition upd (x : asg) (a v : nat) : asg := fun b => if Nat.eqb b a then v else x b.

Lemma upd_comm x a b v w : a <> b -> upd (upd x a v) b w = upd (upd x b w) a v.
Proof. intros H. extensionality c. unfold upd. destruct (Nat.eqb_spec c b), (Nat.eqb_spec c a); subst; congruence. Qed.
Lemma upd_upd x a v w : upd (upd x a v) a w = upd x a w.
Proof. extensionality c. unfold upd. destruct (Nat.eqb_spec c a); auto. Qed.
Lemma upd_same (y : asg) a : upd y a (y a) = y.
Proof. extensionality b. unfold upd. destruct (Nat.eqb_spec b a); subst; auto. Qed.
Lemma upd_eq x a v : upd x a v a = v. Proof. unfold upd. now rewrite Nat.eqb_refl. Qed.
Lemma upd_neq x a v b : b <> a -> upd x a v b = x b.
Proof. intros N. unfold upd. destruct (Nat.eqb_spec b a); congruence. Qed.

(* t depends only on the attributes in S *)
Definition dep_on (K : Type) (S : list nat) (t : asg -> K) := forall x y, (forall a, In a S -> x a = y a) -> t x = t y.

Definition memb (a : nat) (l : list nat) : bool := existsb (Nat.eqb a) l.
Lemma memb_In a l : memb a l = true <-> In a l.
Proof. unfold memb. rewrite existsb_exists. split. intros [x [H E]]. apply Nat.eqb_eq in E. now subst.
  intros H. exists a. split; auto. apply Nat.eqb_refl. Qed.
Lemma memb_nIn a l : memb a l = false <-> ~ In a l.
Proof. rewrite <- memb_In. destruct (memb a l); split; congruence. Qed.
Definition diff (l p : list nat) := filter (fun a => negb (memb a p)) l.
Lemma diff_In a l p : In a (diff l p) <-> In a l /\ ~ In a p.
Proof. unfold diff. rewrite filter_In, negb_true_iff, memb_nIn. tauto. Qed.
Definition inter (l p : list nat) := filter (fun a => memb a p) l.
Lemma inter_In a l p : In a (inter l p) <-> In a l /\ In a p.
Proof. unfold inter. rewrite filter_In, memb_In. tauto. Qed.
Definition subsetb (l p : list nat) := forallb (fun a => memb a p) l.
Lemma subsetb_spec l p : subsetb l p = true <-> incl l p.
Proof. unfold subsetb. rewrite forallb_forall. split; intros H a Ha. apply memb_In. auto. apply memb_In. auto. Qed.

Section Sums.
Variable R : SR.
Notation K := (car R).
Notation zero := (zero R). Notation one := (one R). Notation add := (add R). Notation mul := (mul R).
Variable shape : nat -> nat.

Definition tbl := asg -> K.
Fixpoint sumn (n : nat) (f : nat -> K) : K := match n with O => zero | S m => add (sumn m f) (f m) end.
Definition sum_var (a : nat) (f : tbl) : tbl := fun x => sumn (shape a) (fun v => f (upd x a v)).
Fixpoint sum_vars (l : list nat) (f : tbl) : tbl := match l with [] => f | z :: r => sum_vars r (sum_var z f) end.
Definition indep (a : nat) (f : tbl) := forall x v, f (upd x a v) = f x.
Definition indep_l (l : list nat) (f : tbl) := forall a, In a l -> indep a f.
(* f depends only on the attributes in S *)
Definition dep_only (S : list nat) (f : tbl) := forall a, ~ In a S -> indep a f.
Definition tmul (f g : tbl) : tbl := fun x => mul (f x) (g x).
Definition tone : tbl := fun _ => one.
Definition prodt (l : list tbl) : tbl := fold_right tmul tone l.
Definition tscale (c : K) (f : tbl) : tbl := fun x => mul c (f x).

Lemma sumn_ext n f g : (forall i, i < n -> f i = g i) -> sumn n f = sumn n g.
Proof. induction n; simpl; intros H; [reflexivity|]. rewrite IHn, H; auto. Qed.
Lemma sumn_mul_l n c f : sumn n (fun i => mul c (f i)) = mul c (sumn n f).
Proof. induction n; simpl. now rewrite mul_0_r. now rewrite IHn, distr_l. Qed.
Lemma sumn_add n f g : sumn n (fun i => add (f i) (g i)) = add (sumn n f) (sumn n g).
Proof. induction n; simpl. now rewrite add_0_l.
  rewrite IHn. rewrite !add_assoc. f_equal. rewrite <- !add_assoc. f_equal. apply add_comm. Qed.
Lemma sumn_zero m : sumn m (fun _ => zero) = zero.
Proof. induction m; simpl; auto. now rewrite IHm, add_0_l. Qed.
Lemma sumn_all_zero n f : (forall i, i < n -> f i = zero) -> sumn n f = zero.
Proof. induction n; simpl; intros H; auto. rewrite IHn, H; auto. apply add_0_l. Qed.
Lemma sumn_exch n m (f : nat -> nat -> K) :
  sumn n (fun i => sumn m (fun j => f i j)) = sumn m (fun j => sumn n (fun i => f i j)).
Proof. induction n; simpl. now rewrite sumn_zero. rewrite IHn. now rewrite sumn_add. Qed.
(* a sum with a single non-zero term *)
Lemma sumn_single n f k : k < n -> (forall i, i < n -> i <> k -> f i = zero) -> sumn n f = f k.
Proof. induction n; simpl; intros Hk H; [lia|]. destruct (Nat.eq_dec k n) as [->|N].
  - rewrite sumn_all_zero. apply add_0_l. intros i Hi. apply H; lia.
  - rewrite IHn by (try lia; intros; apply H; lia). rewrite (H n) by lia. apply add_0_r. Qed.

Lemma sum_var_ext a f g : (forall x, f x = g x) -> forall x, sum_var a f x = sum_var a g x.
Proof. intros H x. unfold sum_var. apply sumn_ext; intros; apply H. Qed.
Lemma sum_var_mul a f g : indep a f -> sum_var a (tmul f g) = tmul f (sum_var a g).
Proof. intros H. extensionality x. unfold sum_var, tmul. rewrite <- sumn_mul_l. apply sumn_ext; intros; now rewrite H. Qed.
Lemma sum_var_indep_self a f : indep a (sum_var a f).
Proof. intros x v. unfold sum_var. apply sumn_ext; intros. now rewrite upd_upd. Qed.
Lemma sum_var_indep a b f : indep a f -> indep a (sum_var b f).
Proof. intros H. destruct (Nat.eq_dec a b) as [->|N]. apply sum_var_indep_self.
  intros x v. unfold sum_var. apply sumn_ext; intros. rewrite upd_comm by auto. apply H. Qed.
Lemma sum_var_exch a b f : sum_var a (sum_var b f) = sum_var b (sum_var a f).
Proof. destruct (Nat.eq_dec a b) as [->|N]; auto. extensionality x. unfold sum_var. rewrite sumn_exch.
  apply sumn_ext; intros j _. apply sumn_ext; intros i _. now rewrite upd_comm. Qed.
Lemma sum_vars_sum_var l a f : sum_vars l (sum_var a f) = sum_var a (sum_vars l f).
Proof. revert f. induction l as [|z r IH]; simpl; intros; auto. rewrite <- IH. f_equal. apply sum_var_exch. Qed.
Lemma sum_vars_app l1 l2 f : sum_vars (l1 ++ l2) f = sum_vars l2 (sum_vars l1 f).
Proof. revert f. induction l1; simpl; intros; auto. Qed.
Lemma sum_vars_mul l f g : indep_l l f -> sum_vars l (tmul f g) = tmul f (sum_vars l g).
Proof. revert g. induction l as [|z r IH]; simpl; intros g H; auto.
  rewrite sum_var_mul by (apply H; now left). apply IH. intros a Ha. apply H. now right. Qed.
Lemma sum_vars_indep l a f : indep a f -> indep a (sum_vars l f).
Proof. revert f. induction l; simpl; intros; auto. apply IHl. now apply sum_var_indep. Qed.
Lemma sum_vars_indep_in l a f : In a l -> indep a (sum_vars l f).
Proof. revert f. induction l as [|z r IH]; simpl; intros f []. subst. apply sum_vars_indep, sum_var_indep_self. now apply IH. Qed.
Lemma sum_vars_comm l1 l2 f : sum_vars l1 (sum_vars l2 f) = sum_vars l2 (sum_vars l1 f).
Proof. revert f. induction l1 as [|z r IH]; simpl; intros; auto. rewrite <- IH. f_equal. symmetry. apply sum_vars_sum_var. Qed.
Lemma sum_vars_perm l1 l2 f : Permutation l1 l2 -> sum_vars l1 f = sum_vars l2 f.
Proof. intros P. revert f. induction P; intros f; simpl; auto.
  - now rewrite sum_var_exch.
  - now rewrite IHP1. Qed.
Lemma sum_vars_ext l f g : (forall x, f x = g x) -> forall x, sum_vars l f x = sum_vars l g x.
Proof. intros H x. replace g with f; auto. now extensionality y. Qed.
Lemma sum_vars_scale l c f : sum_vars l (tscale c f) = tscale c (sum_vars l f).
Proof. apply (@sum_vars_mul l (fun _ => c) f). intros a _ x v. reflexivity. Qed.

Lemma tmul_indep a f g : indep a f -> indep a g -> indep a (tmul f g).
Proof. intros Hf Hg x v. unfold tmul. now rewrite Hf, Hg. Qed.
Lemma tmul_comm f g : tmul f g = tmul g f. Proof. extensionality x. apply mul_comm. Qed.
Lemma tmul_assoc f g h : tmul f (tmul g h) = tmul (tmul f g) h. Proof. extensionality x. apply mul_assoc. Qed.
Lemma tmul_swap f g h : tmul (tmul f g) h = tmul (tmul f h) g.
Proof. rewrite <- !tmul_assoc. f_equal. apply tmul_comm. Qed.
Lemma tmul_one_l f : tmul tone f = f. Proof. extensionality x. apply mul_1_l. Qed.
Lemma tmul_one_r f : tmul f tone = f. Proof. extensionality x. apply mul_1_r. Qed.
Lemma prodt_app l1 l2 : prodt (l1 ++ l2) = tmul (prodt l1) (prodt l2).
Proof. unfold prodt. induction l1; simpl. now rewrite tmul_one_l. rewrite IHl1. apply tmul_assoc. Qed.
Lemma prodt_indep a l : (forall f, In f l -> indep a f) -> indep a (prodt l).
Proof. unfold prodt. induction l; simpl; intros H. intros x v; reflexivity.
  apply tmul_indep. apply H; now left. apply IHl. intros; apply H; now right. Qed.
Lemma prodt_perm l1 l2 : Permutation l1 l2 -> prodt l1 = prodt l2.
Proof. intros P. induction P; simpl; auto. now rewrite IHP.
  rewrite !tmul_assoc. f_equal. apply tmul_comm. congruence. Qed.

Lemma dep_only_tmul S1 S2 f g : dep_only S1 f -> dep_only S2 g -> dep_only (S1 ++ S2) (tmul f g).
Proof. intros Hf Hg a Ha. apply tmul_indep; [apply Hf|apply Hg]; intro; apply Ha, in_or_app; auto. Qed.
Lemma dep_only_incl S1 S2 f : incl S1 S2 -> dep_only S1 f -> dep_only S2 f.
Proof. intros I H a Ha. apply H. auto. Qed.
Lemma dep_only_sum_vars S l f : dep_only S f -> dep_only (diff S l) (sum_vars l f).
Proof. intros H a Ha. destruct (in_dec Nat.eq_dec a l) as [I|I]. now apply sum_vars_indep_in.
  apply sum_vars_indep. apply H. intro. apply Ha. apply diff_In. auto. Qed.

(* agreement outside / range inside a list of summed variables *)
Definition agree_out (l : list nat) (x y : asg) := forall a, ~ In a l -> y a = x a.
Definition inrange (l : list nat) (y : asg) := forall a, In a l -> y a < shape a.
Definition valid (x : asg) := forall a, x a < shape a.

Lemma sum_vars_ext_on l : forall f g x, (forall y, agree_out l x y -> inrange l y -> f y = g y) -> sum_vars l f x = sum_vars l g x.
Proof. induction l as [|z r IH]; simpl; intros f g x H.
  - apply H; [intros a _; reflexivity | intros a []].
  - apply IH. intros y Hy Ry. unfold sum_var. apply sumn_ext. intros v Hv. apply H.
    + intros a Ha. unfold upd. destruct (Nat.eqb_spec a z) as [->|N].
      * exfalso. apply Ha. now left.
      * apply Hy. intro. apply Ha. now right.
    + intros a [<-|Ha]. unfold upd. now rewrite Nat.eqb_refl.
      unfold upd. destruct (Nat.eqb_spec a z) as [->|N]; auto.
Qed.
Lemma sum_vars_all_zero l : forall f x, (forall y, agree_out l x y -> inrange l y -> f y = zero) -> sum_vars l f x = zero.
Proof. induction l as [|z r IH]; simpl; intros f x H.
  - apply H; [intros a _; reflexivity | intros a []].
  - apply IH. intros y Hy Ry. unfold sum_var. apply sumn_all_zero. intros v Hv. apply H.
    + intros a Ha. unfold upd. destruct (Nat.eqb_spec a z) as [->|N].
      * exfalso. apply Ha. now left.
      * apply Hy. intro. apply Ha. now right.
    + intros a [<-|Ha]. unfold upd. now rewrite Nat.eqb_refl.
      unfold upd. destruct (Nat.eqb_spec a z) as [->|N]; auto.
Qed.
Lemma indep_agree l : forall (f : tbl) x y, (forall a, In a l -> indep a f) -> agree_out l x y -> f y = f x.
Proof. induction l as [|a r IH]; intros f x y HI A.
  - f_equal. extensionality b. apply A. intros [].
  - set (y1 := upd y a (x a)).
    assert (A1 : agree_out r x y1).
    { intros b Hb. unfold y1, upd. destruct (Nat.eqb_spec b a) as [->|N]; auto. apply A. intros [E|E]; auto. }
    rewrite <- (IH f x y1 (fun b Hb => HI b (or_intror Hb)) A1).
    replace y with (upd y1 a (y a)). apply (HI a (or_introl eq_refl)).
    extensionality b. unfold y1, upd. destruct (Nat.eqb_spec b a); subst; auto. Qed.
Lemma valid_fibre l x y : valid x -> agree_out l x y -> inrange l y -> valid y.
Proof. intros V A Rg a. destruct (in_dec Nat.eq_dec a l) as [I|I]. now apply Rg. rewrite (A a I). apply V. Qed.
Lemma self_fibre l y : valid y -> agree_out l y y /\ inrange l y.
Proof. intros V. split; intros a _; auto. Qed.
End Sums.
