(* Concrete instances the executable models run on:
   QcSR  : all canonical rationals, a commutative (semi)ring           (C15, C04, C09: exact arithmetic)
   QnnSF : non-negative canonical rationals, a zero-sum-free semifield  (C01, C02, C08, C10: sum-product)
   Equality is Leibniz in both (canonical representatives + a boolean side condition). *)
From Coq Require Import QArith Qcanon Bool Eqdep_dec Lia Lqa.
Require Import PGM.Base.Alg.

Definition QcSR : SR.
Proof. refine (@mkSR Qc 0%Qc 1%Qc Qcplus Qcmult _ _ _ _ _ _ _ _).
  - exact Qcplus_comm. - exact Qcplus_assoc. - exact Qcplus_0_l.
  - exact Qcmult_comm. - exact Qcmult_assoc. - exact Qcmult_1_l.
  - intros; ring. - intros; ring. Defined.

Definition nn (q : Qc) : bool := Qle_bool 0 q.
Record Qnn := mkQnn { qv : Qc; qnn : nn qv = true }.

Lemma Qnn_eq a b : qv a = qv b -> a = b.
Proof. destruct a as [a Ha], b as [b Hb]. simpl. intros <-. f_equal. apply UIP_dec. apply bool_dec. Qed.

Lemma nn_le q : nn q = true <-> (0 <= q)%Qc.
Proof. unfold nn. rewrite Qle_bool_iff. reflexivity. Qed.

Lemma this_plus (a b : Qc) : (this (a + b)%Qc == this a + this b)%Q.
Proof. unfold Qcplus, Q2Qc; cbn [this]. apply Qred_correct. Qed.
Lemma this_mult (a b : Qc) : (this (a * b)%Qc == this a * this b)%Q.
Proof. unfold Qcmult, Q2Qc; cbn [this]. apply Qred_correct. Qed.
Lemma this_inv (a : Qc) : (this (/ a)%Qc == / this a)%Q.
Proof. unfold Qcinv, Q2Qc; cbn [this]. apply Qred_correct. Qed.
Lemma nn_plus a b : nn a = true -> nn b = true -> nn (a + b)%Qc = true.
Proof. rewrite !nn_le. intros Ha Hb. unfold Qcle in *. rewrite this_plus. change (this 0%Qc) with 0%Q in *. lra. Qed.
Lemma nn_mult a b : nn a = true -> nn b = true -> nn (a * b)%Qc = true.
Proof. rewrite !nn_le. intros Ha Hb. unfold Qcle in *. rewrite this_mult. change (this 0%Qc) with 0%Q in *. now apply Qmult_le_0_compat. Qed.
Lemma nn_inv a : nn a = true -> nn (/ a)%Qc = true.
Proof. rewrite !nn_le. intros Ha. unfold Qcle in *. rewrite this_inv. change (this 0%Qc) with 0%Q in *. now apply Qinv_le_0_compat. Qed.
Lemma Qc_zero_sum_free (a b : Qc) : (0 <= a)%Qc -> (0 <= b)%Qc -> (a + b)%Qc = 0%Qc -> a = 0%Qc /\ b = 0%Qc.
Proof. intros Ha Hb H. unfold Qcle in *.
  assert (E : (this a + this b == 0)%Q). { rewrite <- this_plus, H. reflexivity. }
  change (this 0%Qc) with 0%Q in *. split; apply Qc_is_canon; change (this 0%Qc) with 0%Q; lra. Qed.

Definition q0 : Qnn := @mkQnn 0%Qc eq_refl.
Definition q1 : Qnn := @mkQnn 1%Qc eq_refl.
Definition qadd (a b : Qnn) : Qnn := mkQnn _ (nn_plus _ _ (qnn a) (qnn b)).
Definition qmul (a b : Qnn) : Qnn := mkQnn _ (nn_mult _ _ (qnn a) (qnn b)).
Definition qdiv (a b : Qnn) : Qnn := mkQnn _ (nn_mult _ _ (qnn a) (nn_inv _ (qnn b))).
Definition qeqz (a : Qnn) : bool := Qc_eq_bool (qv a) 0%Qc.

Definition QnnSR : SR.
Proof. refine (@mkSR Qnn q0 q1 qadd qmul _ _ _ _ _ _ _ _); intros; apply Qnn_eq; simpl.
  - apply Qcplus_comm. - apply Qcplus_assoc. - apply Qcplus_0_l.
  - apply Qcmult_comm. - apply Qcmult_assoc. - apply Qcmult_1_l.
  - ring. - ring. Defined.

Lemma qv_zero (a : Qnn) : a = q0 <-> qv a = 0%Qc.
Proof. split. now intros ->. intros H. now apply Qnn_eq. Qed.

Definition QnnSF : SF.
Proof. refine (@mkSF QnnSR qdiv qeqz _ _ _ _ _ _).
  - (* zero-sum-free *) intros a b H. apply (f_equal qv) in H. simpl in H.
    pose proof (proj1 (nn_le _) (qnn a)) as Ha. pose proof (proj1 (nn_le _) (qnn b)) as Hb.
    destruct (Qc_zero_sum_free _ _ Ha Hb H) as [Ea Eb].
    split; now apply qv_zero.
  - (* no zero divisors *) intros a b H. apply (f_equal qv) in H. simpl in H.
    destruct (Qcmult_integral _ _ H) as [E|E]; [left|right]; now apply qv_zero.
  - (* eqz_spec *) intros a. unfold qeqz. split.
    + intros H. apply qv_zero. now apply Qc_eq_bool_correct.
    + intros ->. reflexivity.
  - (* div_mul *) intros a b Hb. apply Qnn_eq. simpl.
    assert (qv b <> 0%Qc) by (intro E; apply Hb; now apply qv_zero). now field.
  - (* mul_div *) intros a b Hb. apply Qnn_eq. simpl.
    assert (qv b <> 0%Qc) by (intro E; apply Hb; now apply qv_zero). now field.
  - intro H. apply (f_equal qv) in H. discriminate H. Defined.

(* conversion used by the driver: numerator / denominator *)
Definition Qc_of (n : Z) (d : positive) : Qc := Q2Qc (n # d).
Definition Qnn_of (n : Z) (d : positive) : Qnn :=
  match Bool.bool_dec (nn (Qc_of n d)) true with
  | left H => mkQnn _ H
  | right _ => q0
  end.
Definition Qc_num (q : Qc) : Z := Qnum (this q).
Definition Qc_den (q : Qc) : positive := Qden (this q).
