(* Run-time library for translator/py2gallina_bp.py: the log-space factor operations of src/mbi/factor.py read in the
   semifield model of log space (DESIGN 3.2), on the materialised tables (tries) of Model/BP.v, and the two dictionaries
   (clique -> factor as a list indexed by clique number; (clique, clique) -> factor as an association list, newest first). *)
From Coq Require Import List Arith Bool.
Import ListNotations.
Require Import PGM.Base.Alg PGM.Base.Sums PGM.Model.BP.
Set Implicit Arguments.

Section PyFactor.
Variable R : SF.
Variable shape : nat -> nat.
Variable D : list nat.
Notation trie := (@trie R).
Notation lk := (@lk R D).
Notation mat := (@mat R shape D).

Definition py_get (d : list trie) (c : nat) : trie := nth c d (@Leaf R (zero R)).
Definition py_set (d : list trie) (c : nat) (f : trie) : list trie := replace c f d.
Definition py_empty : list ((nat * nat) * trie) := [].
Definition py_haskey (k : nat * nat) (m : list ((nat * nat) * trie)) : bool := match getm k m with Some _ => true | None => false end.
Definition py_getm (m : list ((nat * nat) * trie)) (k : nat * nat) : trie := match getm k m with Some f => f | None => @Leaf R (zero R) end.
Definition py_setm (m : list ((nat * nat) * trie)) (k : nat * nat) (f : trie) : list ((nat * nat) * trie) := (k, f) :: m.
Definition py_dictcomp (f : nat -> trie) (n : nat) : list trie := map f (seq 0 n).
(* a dictionary clique -> factor that is filled key by key: all ncl slots, initially a dummy *)
Definition py_emptyf (n : nat) : list trie := repeat (@Leaf R (zero R)) n.
(* set of attributes seen so far (insertion order kept, duplicates harmless: only membership is used) *)
Definition py_emptyset : list nat := [].
Definition py_update (s cl : list nat) : list nat := s ++ cl.
(* tuple(s & set(cl)): the attributes of cl that are in s (any order is the same factor: projection and subtraction are by name) *)
Definition py_inter (cl s : list nat) : list nat := filter (fun a => memb a s) cl.
(* Domain.invert on the attribute list of a factor *)
Definition py_invert (dom attrs : list nat) : list nat := filter (fun a => negb (memb a attrs)) dom.

Definition f_copy (f : trie) : trie := f.
Definition f_exp (f : trie) : trie := f.
(* Factor.log(): from a linear-space table to its log-space representation - the same semifield value *)
Definition f_log (f : trie) : trie := f.
Definition f_add (f g : trie) : trie := mat (fun x => mul R (lk f x) (lk g x)).
Definition f_sub (f g : trie) : trie := mat (fun x => @sdiv R (lk f x) (lk g x)).
Definition f_scale (f : trie) (k : car R) : trie := mat (fun x => mul R (lk f x) k).
Definition f_logsumexp (f : trie) (attrs : list nat) : trie := mat (@sum_vars R shape attrs (lk f)).
(* Factor.project(attrs) of a factor over dom: sum out the other attributes *)
Definition f_project (f : trie) (dom attrs : list nat) : trie := mat (@sum_vars R shape (filter (fun a => negb (memb a attrs)) dom) (lk f)).
Definition f_logsumexp_all (f : trie) (dom : list nat) : car R := @sum_vars R shape dom (lk f) base0.
Definition s_log (k : car R) : car R := k.
Definition s_sub (a b : car R) : car R := div R a b.
End PyFactor.
