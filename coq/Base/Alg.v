(* Algebraic signatures the sum-product models are generic over.
   SR : commutative semiring (enough for variable elimination, marginalisation, contingency tables)
   SF : SR + guarded division, zero test, zero-sum-free, no zero divisors
        (what the division-based belief-propagation run needs; true of the non-negative reals and
        of the non-negative rationals used for execution, see Base/Qnn.v) *)
Set Implicit Arguments.

Record SR := mkSR {
  car :> Type;
  zero : car; one : car;
  add : car -> car -> car; mul : car -> car -> car;
  add_comm : forall a b, add a b = add b a;
  add_assoc : forall a b c, add a (add b c) = add (add a b) c;
  add_0_l : forall a, add zero a = a;
  mul_comm : forall a b, mul a b = mul b a;
  mul_assoc : forall a b c, mul a (mul b c) = mul (mul a b) c;
  mul_1_l : forall a, mul one a = a;
  mul_0_l : forall a, mul zero a = zero;
  distr_l : forall a b c, mul a (add b c) = add (mul a b) (mul a c) }.

Record SF := mkSF {
  sr :> SR;
  div : sr -> sr -> sr;
  eqz : sr -> bool;
  zero_sum_free : forall a b : sr, add sr a b = zero sr -> a = zero sr /\ b = zero sr;
  no_zero_div : forall a b : sr, mul sr a b = zero sr -> a = zero sr \/ b = zero sr;
  eqz_spec : forall a : sr, eqz a = true <-> a = zero sr;
  div_mul : forall a b : sr, b <> zero sr -> div (mul sr a b) b = a;
  mul_div : forall a b : sr, b <> zero sr -> mul sr (div a b) b = a;
  one_neq_zero : one sr <> zero sr }.

Section SRFacts.
Variable R : SR.
Lemma mul_1_r (a : R) : mul R a (one R) = a. Proof. now rewrite mul_comm, mul_1_l. Qed.
Lemma mul_0_r (a : R) : mul R a (zero R) = zero R. Proof. now rewrite mul_comm, mul_0_l. Qed.
Lemma add_0_r (a : R) : add R a (zero R) = a. Proof. now rewrite add_comm, add_0_l. Qed.
Lemma distr_r (a b c : R) : mul R (add R a b) c = add R (mul R a c) (mul R b c).
Proof. now rewrite mul_comm, distr_l, (mul_comm R c a), (mul_comm R c b). Qed.
End SRFacts.
