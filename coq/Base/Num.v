(* Numeric signature the scalar/translated models are generic over (no laws: the float instance has none).
   Instances: RNum below (Coq Reals, for the analysis theorems); the OCaml float record supplied by the driver. *)
From Coq Require Import ZArith Reals Bool.
Set Implicit Arguments.

Record NumOps (T : Type) := mkNum {
  lit : Z -> positive -> T;            (* decimal literal n/d *)
  nadd : T -> T -> T; nsub : T -> T -> T; nmul : T -> T -> T; ndiv : T -> T -> T; nneg : T -> T;
  nexp : T -> T; nlog : T -> T; nlog1p : T -> T; nsqrt : T -> T;
  nltb : T -> T -> bool; nleb : T -> T -> bool; neqb : T -> T -> bool;
  nmin : T -> T -> T; nmax : T -> T -> T }.

Open Scope R_scope.
Definition Rltb (x y : R) : bool := if Rlt_dec x y then true else false.
Definition Rleb (x y : R) : bool := if Rle_dec x y then true else false.
Definition Reqb (x y : R) : bool := if Req_EM_T x y then true else false.
Definition RNum : NumOps R :=
  {| lit := fun n d => IZR n / IZR (Zpos d);
     nadd := Rplus; nsub := Rminus; nmul := Rmult; ndiv := Rdiv; nneg := Ropp;
     nexp := exp; nlog := ln; nlog1p := fun x => ln (1 + x); nsqrt := sqrt;
     nltb := Rltb; nleb := Rleb; neqb := Reqb; nmin := Rmin; nmax := Rmax |}.

Lemma Rltb_true x y : Rltb x y = true <-> x < y.
Proof. unfold Rltb. destruct (Rlt_dec x y); split; auto; discriminate. Qed.
Lemma Rltb_false x y : Rltb x y = false <-> ~ x < y.
Proof. unfold Rltb. destruct (Rlt_dec x y); split; auto; try discriminate. contradiction. Qed.
Lemma Rleb_true x y : Rleb x y = true <-> x <= y.
Proof. unfold Rleb. destruct (Rle_dec x y); split; auto; discriminate. Qed.
Lemma Rleb_false x y : Rleb x y = false <-> ~ x <= y.
Proof. unfold Rleb. destruct (Rle_dec x y); split; auto; try discriminate. contradiction. Qed.
Lemma Reqb_true x y : Reqb x y = true <-> x = y.
Proof. unfold Reqb. destruct (Req_EM_T x y); split; auto; discriminate. Qed.
Lemma Reqb_false x y : Reqb x y = false <-> x <> y.
Proof. unfold Reqb. destruct (Req_EM_T x y); split; auto; try discriminate. contradiction. Qed.

Lemma iter_inv (A : Type) (P : A -> Prop) (f : A -> A) : (forall s, P s -> P (f s)) -> forall n s, P s -> P (Nat.iter n f s).
Proof. intros H n s Hs. induction n; simpl; auto. Qed.
