
type __ = Obj.t

(** val negb : bool -> bool **)

let negb = function
| true -> false
| false -> true

type nat =
| O
| S of nat

(** val option_map : ('a1 -> 'a2) -> 'a1 option -> 'a2 option **)

let option_map f = function
| Some a -> Some (f a)
| None -> None

(** val fst : ('a1 * 'a2) -> 'a1 **)

let fst = function
| (x, _) -> x

(** val snd : ('a1 * 'a2) -> 'a2 **)

let snd = function
| (_, y) -> y

(** val length : 'a1 list -> nat **)

let rec length = function
| [] -> O
| _ :: l' -> S (length l')

(** val app : 'a1 list -> 'a1 list -> 'a1 list **)

let rec app l m =
  match l with
  | [] -> m
  | a :: l1 -> a :: (app l1 m)

type comparison =
| Eq
| Lt
| Gt

(** val compOpp : comparison -> comparison **)

let compOpp = function
| Eq -> Eq
| Lt -> Gt
| Gt -> Lt

module Coq__1 = struct
 (** val add : nat -> nat -> nat **)
 let rec add n m =
   match n with
   | O -> m
   | S p -> S (add p m)
end
include Coq__1

(** val mul : nat -> nat -> nat **)

let rec mul n m =
  match n with
  | O -> O
  | S p -> add m (mul p m)

(** val bool_dec : bool -> bool -> bool **)

let bool_dec b1 b2 =
  if b1 then if b2 then true else false else if b2 then false else true

module Nat =
 struct
  (** val add : nat -> nat -> nat **)

  let rec add n m =
    match n with
    | O -> m
    | S p -> S (add p m)

  (** val mul : nat -> nat -> nat **)

  let rec mul n m =
    match n with
    | O -> O
    | S p -> add m (mul p m)

  (** val eqb : nat -> nat -> bool **)

  let rec eqb n m =
    match n with
    | O -> (match m with
            | O -> true
            | S _ -> false)
    | S n' -> (match m with
               | O -> false
               | S m' -> eqb n' m')

  (** val leb : nat -> nat -> bool **)

  let rec leb n m =
    match n with
    | O -> true
    | S n' -> (match m with
               | O -> false
               | S m' -> leb n' m')

  (** val ltb : nat -> nat -> bool **)

  let ltb n m =
    leb (S n) m
 end

(** val nth : nat -> 'a1 list -> 'a1 -> 'a1 **)

let rec nth n l default =
  match n with
  | O -> (match l with
          | [] -> default
          | x :: _ -> x)
  | S m -> (match l with
            | [] -> default
            | _ :: t -> nth m t default)

(** val map : ('a1 -> 'a2) -> 'a1 list -> 'a2 list **)

let rec map f = function
| [] -> []
| a :: t -> (f a) :: (map f t)

(** val flat_map : ('a1 -> 'a2 list) -> 'a1 list -> 'a2 list **)

let rec flat_map f = function
| [] -> []
| x :: t -> app (f x) (flat_map f t)

(** val fold_left : ('a1 -> 'a2 -> 'a1) -> 'a2 list -> 'a1 -> 'a1 **)

let rec fold_left f l a0 =
  match l with
  | [] -> a0
  | b :: t -> fold_left f t (f a0 b)

(** val fold_right : ('a2 -> 'a1 -> 'a1) -> 'a1 -> 'a2 list -> 'a1 **)

let rec fold_right f a0 = function
| [] -> a0
| b :: t -> f b (fold_right f a0 t)

(** val existsb : ('a1 -> bool) -> 'a1 list -> bool **)

let rec existsb f = function
| [] -> false
| a :: l0 -> (||) (f a) (existsb f l0)

(** val forallb : ('a1 -> bool) -> 'a1 list -> bool **)

let rec forallb f = function
| [] -> true
| a :: l0 -> (&&) (f a) (forallb f l0)

(** val filter : ('a1 -> bool) -> 'a1 list -> 'a1 list **)

let rec filter f = function
| [] -> []
| x :: l0 -> if f x then x :: (filter f l0) else filter f l0

(** val combine : 'a1 list -> 'a2 list -> ('a1 * 'a2) list **)

let rec combine l l' =
  match l with
  | [] -> []
  | x :: tl ->
    (match l' with
     | [] -> []
     | y :: tl' -> (x, y) :: (combine tl tl'))

(** val seq : nat -> nat -> nat list **)

let rec seq start = function
| O -> []
| S len0 -> start :: (seq (S start) len0)

type positive =
| XI of positive
| XO of positive
| XH

type z =
| Z0
| Zpos of positive
| Zneg of positive

module Pos =
 struct
  type mask =
  | IsNul
  | IsPos of positive
  | IsNeg
 end

module Coq_Pos =
 struct
  (** val succ : positive -> positive **)

  let rec succ = function
  | XI p -> XO (succ p)
  | XO p -> XI p
  | XH -> XO XH

  (** val add : positive -> positive -> positive **)

  let rec add x y =
    match x with
    | XI p ->
      (match y with
       | XI q2 -> XO (add_carry p q2)
       | XO q2 -> XI (add p q2)
       | XH -> XO (succ p))
    | XO p ->
      (match y with
       | XI q2 -> XI (add p q2)
       | XO q2 -> XO (add p q2)
       | XH -> XI p)
    | XH -> (match y with
             | XI q2 -> XO (succ q2)
             | XO q2 -> XI q2
             | XH -> XO XH)

  (** val add_carry : positive -> positive -> positive **)

  and add_carry x y =
    match x with
    | XI p ->
      (match y with
       | XI q2 -> XI (add_carry p q2)
       | XO q2 -> XO (add_carry p q2)
       | XH -> XI (succ p))
    | XO p ->
      (match y with
       | XI q2 -> XO (add_carry p q2)
       | XO q2 -> XI (add p q2)
       | XH -> XO (succ p))
    | XH ->
      (match y with
       | XI q2 -> XI (succ q2)
       | XO q2 -> XO (succ q2)
       | XH -> XI XH)

  (** val pred_double : positive -> positive **)

  let rec pred_double = function
  | XI p -> XI (XO p)
  | XO p -> XI (pred_double p)
  | XH -> XH

  type mask = Pos.mask =
  | IsNul
  | IsPos of positive
  | IsNeg

  (** val succ_double_mask : mask -> mask **)

  let succ_double_mask = function
  | IsNul -> IsPos XH
  | IsPos p -> IsPos (XI p)
  | IsNeg -> IsNeg

  (** val double_mask : mask -> mask **)

  let double_mask = function
  | IsPos p -> IsPos (XO p)
  | x0 -> x0

  (** val double_pred_mask : positive -> mask **)

  let double_pred_mask = function
  | XI p -> IsPos (XO (XO p))
  | XO p -> IsPos (XO (pred_double p))
  | XH -> IsNul

  (** val sub_mask : positive -> positive -> mask **)

  let rec sub_mask x y =
    match x with
    | XI p ->
      (match y with
       | XI q2 -> double_mask (sub_mask p q2)
       | XO q2 -> succ_double_mask (sub_mask p q2)
       | XH -> IsPos (XO p))
    | XO p ->
      (match y with
       | XI q2 -> succ_double_mask (sub_mask_carry p q2)
       | XO q2 -> double_mask (sub_mask p q2)
       | XH -> IsPos (pred_double p))
    | XH -> (match y with
             | XH -> IsNul
             | _ -> IsNeg)

  (** val sub_mask_carry : positive -> positive -> mask **)

  and sub_mask_carry x y =
    match x with
    | XI p ->
      (match y with
       | XI q2 -> succ_double_mask (sub_mask_carry p q2)
       | XO q2 -> double_mask (sub_mask p q2)
       | XH -> IsPos (pred_double p))
    | XO p ->
      (match y with
       | XI q2 -> double_mask (sub_mask_carry p q2)
       | XO q2 -> succ_double_mask (sub_mask_carry p q2)
       | XH -> double_pred_mask p)
    | XH -> IsNeg

  (** val sub : positive -> positive -> positive **)

  let sub x y =
    match sub_mask x y with
    | IsPos z0 -> z0
    | _ -> XH

  (** val mul : positive -> positive -> positive **)

  let rec mul x y =
    match x with
    | XI p -> add y (XO (mul p y))
    | XO p -> XO (mul p y)
    | XH -> y

  (** val size_nat : positive -> nat **)

  let rec size_nat = function
  | XI p0 -> S (size_nat p0)
  | XO p0 -> S (size_nat p0)
  | XH -> S O

  (** val compare_cont : comparison -> positive -> positive -> comparison **)

  let rec compare_cont r x y =
    match x with
    | XI p ->
      (match y with
       | XI q2 -> compare_cont r p q2
       | XO q2 -> compare_cont Gt p q2
       | XH -> Gt)
    | XO p ->
      (match y with
       | XI q2 -> compare_cont Lt p q2
       | XO q2 -> compare_cont r p q2
       | XH -> Gt)
    | XH -> (match y with
             | XH -> r
             | _ -> Lt)

  (** val compare : positive -> positive -> comparison **)

  let compare =
    compare_cont Eq

  (** val ggcdn :
      nat -> positive -> positive -> positive * (positive * positive) **)

  let rec ggcdn n a b =
    match n with
    | O -> (XH, (a, b))
    | S n0 ->
      (match a with
       | XI a' ->
         (match b with
          | XI b' ->
            (match compare a' b' with
             | Eq -> (a, (XH, XH))
             | Lt ->
               let (g, p) = ggcdn n0 (sub b' a') a in
               let (ba, aa) = p in (g, (aa, (add aa (XO ba))))
             | Gt ->
               let (g, p) = ggcdn n0 (sub a' b') b in
               let (ab, bb) = p in (g, ((add bb (XO ab)), bb)))
          | XO b0 ->
            let (g, p) = ggcdn n0 a b0 in
            let (aa, bb) = p in (g, (aa, (XO bb)))
          | XH -> (XH, (a, XH)))
       | XO a0 ->
         (match b with
          | XI _ ->
            let (g, p) = ggcdn n0 a0 b in
            let (aa, bb) = p in (g, ((XO aa), bb))
          | XO b0 -> let (g, p) = ggcdn n0 a0 b0 in ((XO g), p)
          | XH -> (XH, (a, XH)))
       | XH -> (XH, (XH, b)))

  (** val ggcd : positive -> positive -> positive * (positive * positive) **)

  let ggcd a b =
    ggcdn (Coq__1.add (size_nat a) (size_nat b)) a b

  (** val eq_dec : positive -> positive -> bool **)

  let rec eq_dec p x0 =
    match p with
    | XI p0 -> (match x0 with
                | XI p1 -> eq_dec p0 p1
                | _ -> false)
    | XO p0 -> (match x0 with
                | XO p1 -> eq_dec p0 p1
                | _ -> false)
    | XH -> (match x0 with
             | XH -> true
             | _ -> false)
 end

module Z =
 struct
  (** val double : z -> z **)

  let double = function
  | Z0 -> Z0
  | Zpos p -> Zpos (XO p)
  | Zneg p -> Zneg (XO p)

  (** val succ_double : z -> z **)

  let succ_double = function
  | Z0 -> Zpos XH
  | Zpos p -> Zpos (XI p)
  | Zneg p -> Zneg (Coq_Pos.pred_double p)

  (** val pred_double : z -> z **)

  let pred_double = function
  | Z0 -> Zneg XH
  | Zpos p -> Zpos (Coq_Pos.pred_double p)
  | Zneg p -> Zneg (XI p)

  (** val pos_sub : positive -> positive -> z **)

  let rec pos_sub x y =
    match x with
    | XI p ->
      (match y with
       | XI q2 -> double (pos_sub p q2)
       | XO q2 -> succ_double (pos_sub p q2)
       | XH -> Zpos (XO p))
    | XO p ->
      (match y with
       | XI q2 -> pred_double (pos_sub p q2)
       | XO q2 -> double (pos_sub p q2)
       | XH -> Zpos (Coq_Pos.pred_double p))
    | XH ->
      (match y with
       | XI q2 -> Zneg (XO q2)
       | XO q2 -> Zneg (Coq_Pos.pred_double q2)
       | XH -> Z0)

  (** val add : z -> z -> z **)

  let add x y =
    match x with
    | Z0 -> y
    | Zpos x' ->
      (match y with
       | Z0 -> x
       | Zpos y' -> Zpos (Coq_Pos.add x' y')
       | Zneg y' -> pos_sub x' y')
    | Zneg x' ->
      (match y with
       | Z0 -> x
       | Zpos y' -> pos_sub y' x'
       | Zneg y' -> Zneg (Coq_Pos.add x' y'))

  (** val opp : z -> z **)

  let opp = function
  | Z0 -> Z0
  | Zpos x0 -> Zneg x0
  | Zneg x0 -> Zpos x0

  (** val mul : z -> z -> z **)

  let mul x y =
    match x with
    | Z0 -> Z0
    | Zpos x' ->
      (match y with
       | Z0 -> Z0
       | Zpos y' -> Zpos (Coq_Pos.mul x' y')
       | Zneg y' -> Zneg (Coq_Pos.mul x' y'))
    | Zneg x' ->
      (match y with
       | Z0 -> Z0
       | Zpos y' -> Zneg (Coq_Pos.mul x' y')
       | Zneg y' -> Zpos (Coq_Pos.mul x' y'))

  (** val compare : z -> z -> comparison **)

  let compare x y =
    match x with
    | Z0 -> (match y with
             | Z0 -> Eq
             | Zpos _ -> Lt
             | Zneg _ -> Gt)
    | Zpos x' -> (match y with
                  | Zpos y' -> Coq_Pos.compare x' y'
                  | _ -> Gt)
    | Zneg x' ->
      (match y with
       | Zneg y' -> compOpp (Coq_Pos.compare x' y')
       | _ -> Lt)

  (** val sgn : z -> z **)

  let sgn = function
  | Z0 -> Z0
  | Zpos _ -> Zpos XH
  | Zneg _ -> Zneg XH

  (** val leb : z -> z -> bool **)

  let leb x y =
    match compare x y with
    | Gt -> false
    | _ -> true

  (** val abs : z -> z **)

  let abs = function
  | Zneg p -> Zpos p
  | x -> x

  (** val to_pos : z -> positive **)

  let to_pos = function
  | Zpos p -> p
  | _ -> XH

  (** val ggcd : z -> z -> z * (z * z) **)

  let ggcd a b =
    match a with
    | Z0 -> ((abs b), (Z0, (sgn b)))
    | Zpos a0 ->
      (match b with
       | Z0 -> ((abs a), ((sgn a), Z0))
       | Zpos b0 ->
         let (g, p) = Coq_Pos.ggcd a0 b0 in
         let (aa, bb) = p in ((Zpos g), ((Zpos aa), (Zpos bb)))
       | Zneg b0 ->
         let (g, p) = Coq_Pos.ggcd a0 b0 in
         let (aa, bb) = p in ((Zpos g), ((Zpos aa), (Zneg bb))))
    | Zneg a0 ->
      (match b with
       | Z0 -> ((abs a), ((sgn a), Z0))
       | Zpos b0 ->
         let (g, p) = Coq_Pos.ggcd a0 b0 in
         let (aa, bb) = p in ((Zpos g), ((Zneg aa), (Zpos bb)))
       | Zneg b0 ->
         let (g, p) = Coq_Pos.ggcd a0 b0 in
         let (aa, bb) = p in ((Zpos g), ((Zneg aa), (Zneg bb))))

  (** val eq_dec : z -> z -> bool **)

  let eq_dec x y =
    match x with
    | Z0 -> (match y with
             | Z0 -> true
             | _ -> false)
    | Zpos p -> (match y with
                 | Zpos p0 -> Coq_Pos.eq_dec p p0
                 | _ -> false)
    | Zneg p -> (match y with
                 | Zneg p0 -> Coq_Pos.eq_dec p p0
                 | _ -> false)
 end

(** val z_lt_dec : z -> z -> bool **)

let z_lt_dec x y =
  match Z.compare x y with
  | Lt -> true
  | _ -> false

(** val z_lt_ge_dec : z -> z -> bool **)

let z_lt_ge_dec =
  z_lt_dec

(** val z_lt_le_dec : z -> z -> bool **)

let z_lt_le_dec =
  z_lt_ge_dec

type q = { qnum : z; qden : positive }

(** val qeq_dec : q -> q -> bool **)

let qeq_dec x y =
  Z.eq_dec (Z.mul x.qnum (Zpos y.qden)) (Z.mul y.qnum (Zpos x.qden))

(** val qle_bool : q -> q -> bool **)

let qle_bool x y =
  Z.leb (Z.mul x.qnum (Zpos y.qden)) (Z.mul y.qnum (Zpos x.qden))

(** val qplus : q -> q -> q **)

let qplus x y =
  { qnum = (Z.add (Z.mul x.qnum (Zpos y.qden)) (Z.mul y.qnum (Zpos x.qden)));
    qden = (Coq_Pos.mul x.qden y.qden) }

(** val qmult : q -> q -> q **)

let qmult x y =
  { qnum = (Z.mul x.qnum y.qnum); qden = (Coq_Pos.mul x.qden y.qden) }

(** val qopp : q -> q **)

let qopp x =
  { qnum = (Z.opp x.qnum); qden = x.qden }

(** val qinv : q -> q **)

let qinv x =
  match x.qnum with
  | Z0 -> { qnum = Z0; qden = XH }
  | Zpos p -> { qnum = (Zpos x.qden); qden = p }
  | Zneg p -> { qnum = (Zneg x.qden); qden = p }

(** val qlt_le_dec : q -> q -> bool **)

let qlt_le_dec x y =
  z_lt_le_dec (Z.mul x.qnum (Zpos y.qden)) (Z.mul y.qnum (Zpos x.qden))

(** val qred : q -> q **)

let qred q2 =
  let { qnum = q3; qden = q4 } = q2 in
  let (r1, r2) = snd (Z.ggcd q3 (Zpos q4)) in
  { qnum = r1; qden = (Z.to_pos r2) }

type qc = q
  (* singleton inductive, whose constructor was Qcmake *)

(** val this : qc -> q **)

let this q2 =
  q2

(** val q2Qc : q -> qc **)

let q2Qc =
  qred

(** val qc_eq_dec : qc -> qc -> bool **)

let qc_eq_dec x y =
  qeq_dec (this x) (this y)

(** val qcplus : qc -> qc -> qc **)

let qcplus x y =
  q2Qc (qplus (this x) (this y))

(** val qcmult : qc -> qc -> qc **)

let qcmult x y =
  q2Qc (qmult (this x) (this y))

(** val qcopp : qc -> qc **)

let qcopp x =
  q2Qc (qopp (this x))

(** val qcminus : qc -> qc -> qc **)

let qcminus x y =
  qcplus x (qcopp y)

(** val qcinv : qc -> qc **)

let qcinv x =
  q2Qc (qinv (this x))

(** val qcdiv : qc -> qc -> qc **)

let qcdiv x y =
  qcmult x (qcinv y)

(** val qc_eq_bool : qc -> qc -> bool **)

let qc_eq_bool x y =
  if qc_eq_dec x y then true else false

type sR = { zero : __; one : __; add0 : (__ -> __ -> __);
            mul0 : (__ -> __ -> __) }

type car = __

type sF = { sr : sR; div : (car -> car -> car); eqz : (car -> bool) }

type asg = nat -> nat

(** val upd : asg -> nat -> nat -> asg **)

let upd x a v b =
  if Nat.eqb b a then v else x b

(** val memb : nat -> nat list -> bool **)

let memb a l =
  existsb (Nat.eqb a) l

(** val subsetb : nat list -> nat list -> bool **)

let subsetb l p =
  forallb (fun a -> memb a p) l

(** val qcSR : sR **)

let qcSR =
  { zero = (Obj.magic q2Qc { qnum = Z0; qden = XH }); one =
    (Obj.magic q2Qc { qnum = (Zpos XH); qden = XH }); add0 =
    (Obj.magic qcplus); mul0 = (Obj.magic qcmult) }

(** val nn : qc -> bool **)

let nn q2 =
  qle_bool { qnum = Z0; qden = XH } (this q2)

type qnn = qc
  (* singleton inductive, whose constructor was mkQnn *)

(** val qv : qnn -> qc **)

let qv q2 =
  q2

(** val q0 : qnn **)

let q0 =
  q2Qc { qnum = Z0; qden = XH }

(** val q1 : qnn **)

let q1 =
  q2Qc { qnum = (Zpos XH); qden = XH }

(** val qadd : qnn -> qnn -> qnn **)

let qadd a b =
  qcplus (qv a) (qv b)

(** val qmul : qnn -> qnn -> qnn **)

let qmul a b =
  qcmult (qv a) (qv b)

(** val qdiv : qnn -> qnn -> qnn **)

let qdiv a b =
  qcmult (qv a) (qcinv (qv b))

(** val qeqz : qnn -> bool **)

let qeqz a =
  qc_eq_bool (qv a) (q2Qc { qnum = Z0; qden = XH })

(** val qnnSR : sR **)

let qnnSR =
  { zero = (Obj.magic q0); one = (Obj.magic q1); add0 = (Obj.magic qadd);
    mul0 = (Obj.magic qmul) }

(** val qnnSF : sF **)

let qnnSF =
  { sr = qnnSR; div = (Obj.magic qdiv); eqz = (Obj.magic qeqz) }

(** val qc_of : z -> positive -> qc **)

let qc_of n d =
  q2Qc { qnum = n; qden = d }

(** val qnn_of : z -> positive -> qnn **)

let qnn_of n d =
  if bool_dec (nn (qc_of n d)) true then qc_of n d else q0

(** val qc_num : qc -> z **)

let qc_num q2 =
  (this q2).qnum

(** val qc_den : qc -> positive **)

let qc_den q2 =
  (this q2).qden

type dom = (nat * nat) list

(** val attrs : dom -> nat list **)

let attrs d =
  map fst d

(** val dshape : dom -> nat list **)

let dshape d =
  map snd d

(** val lookup : dom -> nat -> nat option **)

let rec lookup d a =
  match d with
  | [] -> None
  | p :: r -> let (b, n) = p in if Nat.eqb b a then Some n else lookup r a

(** val project : dom -> nat list -> dom option **)

let rec project d = function
| [] -> Some []
| a :: r ->
  (match lookup d a with
   | Some n ->
     (match project d r with
      | Some d' -> Some ((a, n) :: d')
      | None -> None)
   | None -> None)

(** val invert : dom -> nat list -> nat list **)

let invert d l =
  filter (fun a -> negb (memb a l)) (attrs d)

(** val marginalize : dom -> nat list -> dom option **)

let marginalize d l =
  project d (invert d l)

(** val index_of : nat -> nat list -> nat option **)

let rec index_of a = function
| [] -> None
| b :: r ->
  if Nat.eqb b a then Some O else option_map (fun x -> S x) (index_of a r)

(** val axes : dom -> nat list -> nat list option **)

let rec axes d = function
| [] -> Some []
| a :: r ->
  (match index_of a (attrs d) with
   | Some i -> (match axes d r with
                | Some t -> Some (i :: t)
                | None -> None)
   | None -> None)

(** val merge : dom -> dom -> dom option **)

let merge d o =
  match marginalize o (attrs d) with
  | Some e -> Some (app d e)
  | None -> None

(** val contains : dom -> dom -> bool **)

let contains d o =
  subsetb (attrs o) (attrs d)

(** val prodn : nat list -> nat **)

let prodn l =
  fold_right Nat.mul (S O) l

(** val size : dom -> nat **)

let size d =
  prodn (dshape d)

(** val size_of : dom -> nat list -> nat option **)

let size_of d l =
  option_map size (project d l)

(** val canonical : dom -> nat list -> nat list **)

let canonical d l =
  filter (fun a -> memb a l) (attrs d)

(** val insert_by : (nat -> nat) -> nat -> nat list -> nat list **)

let rec insert_by key a l = match l with
| [] -> a :: []
| b :: r ->
  if Nat.leb (key a) (key b) then a :: l else b :: (insert_by key a r)

(** val sort_by : (nat -> nat) -> nat list -> nat list **)

let sort_by key l =
  fold_right (insert_by key) [] l

(** val key_size : dom -> nat -> nat **)

let key_size d a =
  match lookup d a with
  | Some n -> n
  | None -> O

(** val sort_size : dom -> dom option **)

let sort_size d =
  project d (sort_by (key_size d) (attrs d))

(** val sort_name : dom -> dom option **)

let sort_name d =
  project d (sort_by (fun a -> a) (attrs d))

(** val dom_eqb : dom -> dom -> bool **)

let dom_eqb d o =
  (&&) (Nat.eqb (length d) (length o))
    (forallb (fun p ->
      (&&) (Nat.eqb (fst (fst p)) (fst (snd p)))
        (Nat.eqb (snd (fst p)) (snd (snd p)))) (combine d o))

(** val cells : nat list -> nat list list **)

let rec cells = function
| [] -> [] :: []
| n :: ns -> flat_map (fun v -> map (fun x -> v :: x) (cells ns)) (seq O n)

(** val list_eqb : nat list -> nat list -> bool **)

let rec list_eqb a b =
  match a with
  | [] -> (match b with
           | [] -> true
           | _ :: _ -> false)
  | x :: a' ->
    (match b with
     | [] -> false
     | y :: b' -> (&&) (Nat.eqb x y) (list_eqb a' b'))

(** val ravel : nat list -> nat list -> nat **)

let rec ravel shape cell =
  match shape with
  | [] -> O
  | _ :: ns ->
    (match cell with
     | [] -> O
     | v :: vs -> add (mul v (prodn ns)) (ravel ns vs))

type dataset = { ddom : dom; rows : nat list list; weights : car list }

(** val hist : sR -> nat list -> nat list list -> car list -> nat -> car **)

let rec hist r shape rs ws =
  match rs with
  | [] -> (fun _ -> r.zero)
  | r0 :: rs' ->
    (match ws with
     | [] -> (fun _ -> r.zero)
     | w :: ws' ->
       let h = hist r shape rs' ws' in
       let i = ravel shape r0 in
       (fun j -> if Nat.eqb j i then r.add0 (h j) w else h j))

(** val datavector : sR -> dataset -> car list **)

let datavector r d =
  map (hist r (dshape d.ddom) d.rows d.weights) (seq O (size d.ddom))

(** val select : nat list -> nat list -> nat list **)

let select ax r =
  map (fun i -> nth i r O) ax

(** val dproject : sR -> dataset -> nat list -> dataset option **)

let dproject _ d cols =
  match project d.ddom cols with
  | Some d' ->
    (match axes d.ddom cols with
     | Some ax ->
       Some { ddom = d'; rows = (map (select ax) d.rows); weights =
         d.weights }
     | None -> None)
  | None -> None

type 'k factor = { fdom : dom; fvals : 'k list }

(** val cell_of : nat list -> asg -> nat list **)

let cell_of l x =
  map x l

(** val asg_of : nat list -> nat list -> asg **)

let asg_of l c a =
  match index_of a l with
  | Some i -> nth i c O
  | None -> O

(** val tbl_of : 'a1 -> 'a1 factor -> asg -> 'a1 **)

let tbl_of dflt f x =
  nth (ravel (dshape f.fdom) (cell_of (attrs f.fdom) x)) f.fvals dflt

(** val tabulate : dom -> (asg -> 'a1) -> 'a1 factor **)

let tabulate d t =
  { fdom = d; fvals =
    (map (fun c -> t (asg_of (attrs d) c)) (cells (dshape d))) }

(** val expand : 'a1 -> 'a1 factor -> dom -> 'a1 factor option **)

let expand dflt f d' =
  if contains d' f.fdom then Some (tabulate d' (tbl_of dflt f)) else None

(** val seteqb : nat list -> nat list -> bool **)

let seteqb l m =
  (&&) (subsetb l m) (subsetb m l)

(** val transpose : 'a1 -> 'a1 factor -> nat list -> 'a1 factor option **)

let transpose dflt f l =
  if seteqb l (attrs f.fdom)
  then (match project f.fdom l with
        | Some d' -> Some (tabulate d' (tbl_of dflt f))
        | None -> None)
  else None

(** val fmap : ('a1 -> 'a1) -> 'a1 factor -> 'a1 factor **)

let fmap g f =
  { fdom = f.fdom; fvals = (map g f.fvals) }

(** val fbin :
    'a1 -> ('a1 -> 'a1 -> 'a1) -> 'a1 factor -> 'a1 factor -> 'a1 factor
    option **)

let fbin dflt op f g =
  match merge f.fdom g.fdom with
  | Some d ->
    Some (tabulate d (fun x -> op (tbl_of dflt f x) (tbl_of dflt g x)))
  | None -> None

(** val fibin :
    'a1 -> ('a1 -> 'a1 -> 'a1) -> 'a1 factor -> 'a1 factor -> 'a1 factor
    option **)

let fibin dflt op f g =
  if contains f.fdom g.fdom
  then Some
         (tabulate f.fdom (fun x -> op (tbl_of dflt f x) (tbl_of dflt g x)))
  else None

(** val foldn : ('a1 -> 'a1 -> 'a1) -> 'a1 -> nat -> (nat -> 'a1) -> 'a1 **)

let rec foldn op u n h =
  match n with
  | O -> u
  | S m -> op (foldn op u m h) (h m)

(** val fold_var :
    ('a1 -> 'a1 -> 'a1) -> 'a1 -> (nat -> nat) -> nat -> (asg -> 'a1) -> asg
    -> 'a1 **)

let fold_var op u shape a t x =
  foldn op u (shape a) (fun v -> t (upd x a v))

(** val fold_vars :
    ('a1 -> 'a1 -> 'a1) -> 'a1 -> (nat -> nat) -> nat list -> (asg -> 'a1) ->
    asg -> 'a1 **)

let rec fold_vars op u shape l t =
  match l with
  | [] -> t
  | a :: r -> fold_vars op u shape r (fold_var op u shape a t)

(** val fagg :
    'a1 -> ('a1 -> 'a1 -> 'a1) -> 'a1 -> 'a1 factor -> nat list -> 'a1 factor
    option **)

let fagg dflt op u f l =
  match axes f.fdom l with
  | Some _ ->
    (match marginalize f.fdom l with
     | Some d' ->
       Some (tabulate d' (fold_vars op u (key_size f.fdom) l (tbl_of dflt f)))
     | None -> None)
  | None -> None

(** val fproject :
    'a1 -> ('a1 -> 'a1 -> 'a1) -> 'a1 -> 'a1 factor -> nat list -> 'a1 factor
    option **)

let fproject dflt op u f l =
  match fagg dflt op u f (invert f.fdom l) with
  | Some g -> transpose dflt g l
  | None -> None

(** val override : (nat * nat) list -> asg -> asg **)

let rec override ev x =
  match ev with
  | [] -> x
  | p :: r -> let (a, v) = p in upd (override r x) a v

(** val evidence_ok : dom -> (nat * nat) list -> bool **)

let evidence_ok d ev =
  forallb (fun p ->
    match lookup d (fst p) with
    | Some n -> Nat.ltb (snd p) n
    | None -> true) ev

(** val condition :
    'a1 -> 'a1 factor -> (nat * nat) list -> 'a1 factor option **)

let condition dflt f ev =
  if evidence_ok f.fdom ev
  then (match marginalize f.fdom (map fst ev) with
        | Some d' ->
          Some (tabulate d' (fun x -> tbl_of dflt f (override ev x)))
        | None -> None)
  else None

type 'k cvec = (nat list * 'k factor) list

(** val cv_get : nat list -> 'a1 cvec -> 'a1 factor option **)

let rec cv_get cl = function
| [] -> None
| p :: r -> let (c, f) = p in if list_eqb c cl then Some f else cv_get cl r

(** val cv_bin :
    'a1 -> ('a1 -> 'a1 -> 'a1) -> 'a1 cvec -> 'a1 cvec -> 'a1 cvec option **)

let cv_bin dflt op v w =
  fold_right (fun p acc ->
    match acc with
    | Some r ->
      (match cv_get (fst p) w with
       | Some g ->
         (match fbin dflt op (snd p) g with
          | Some h -> Some (((fst p), h) :: r)
          | None -> None)
       | None -> None)
    | None -> None) (Some []) v

(** val add_into :
    'a1 -> ('a1 -> 'a1 -> 'a1) -> nat list -> 'a1 factor -> 'a1 cvec -> 'a1
    cvec **)

let rec add_into dflt op cl g = function
| [] -> []
| p :: r ->
  let (c, f) = p in
  if subsetb cl c
  then (match fibin dflt op f g with
        | Some h -> (c, h) :: r
        | None -> (c, f) :: r)
  else (c, f) :: (add_into dflt op cl g r)

(** val cv_combine :
    'a1 -> ('a1 -> 'a1 -> 'a1) -> 'a1 cvec -> 'a1 cvec -> 'a1 cvec **)

let cv_combine dflt op v other =
  fold_left (fun acc p -> add_into dflt op (fst p) (snd p) acc) other v

type xq = qc option

(** val xadd : xq -> xq -> xq **)

let xadd a b =
  match a with
  | Some x -> (match b with
               | Some y -> Some (qcplus x y)
               | None -> None)
  | None -> None

(** val xsub : xq -> xq -> xq **)

let xsub a = function
| Some y -> (match a with
             | Some x -> Some (qcminus x y)
             | None -> None)
| None -> a

(** val xmul : xq -> xq -> xq **)

let xmul a b =
  match a with
  | Some x -> (match b with
               | Some y -> Some (qcmult x y)
               | None -> None)
  | None -> None

(** val xdiv : xq -> xq -> xq **)

let xdiv a b =
  match a with
  | Some x ->
    (match b with
     | Some y ->
       if qlt_le_dec { qnum = Z0; qden = XH } (this y)
       then Some (qcdiv x y)
       else Some (q2Qc { qnum = Z0; qden = XH })
     | None -> Some (q2Qc { qnum = Z0; qden = XH }))
  | None ->
    (match b with
     | Some y ->
       if qlt_le_dec { qnum = Z0; qden = XH } (this y)
       then None
       else Some (q2Qc { qnum = Z0; qden = XH })
     | None -> Some (q2Qc { qnum = Z0; qden = XH }))

(** val xmax : xq -> xq -> xq **)

let xmax a b =
  match a with
  | Some x ->
    (match b with
     | Some y -> if qlt_le_dec (this x) (this y) then Some y else Some x
     | None -> a)
  | None -> b

(** val xzero : xq **)

let xzero =
  Some (q2Qc { qnum = Z0; qden = XH })

(** val xninf : xq **)

let xninf =
  None
