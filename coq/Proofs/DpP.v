(* C05 / C20: the privacy facts behind the charging rule, proved for the very expressions the selection / noise models compute.
   * exponential mechanism: p_i = exp(c q_i) / sum_j exp(c q_j) (C20_softmax_is_normalised_exp with scores c*q).  If every score
     moves by at most D between neighbouring datasets then every probability moves by a factor at most exp(2 c D): with the code's
     c = eps/(2 D) that is exp(eps) (eps-DP, hence eps^2/8-zCDP by the cited conversion).  If moreover all scores move in the same
     direction (the declared "monotonic" variant) the factor is exp(c D): with c = eps/D again exp(eps).
   * Laplace noise of scale b on a vector: the density ratio between two centres is at most exp(L1 distance / b).
   * Gaussian noise of scale s: the privacy loss at output a + z is  D^2/(2 s^2) + D z / s^2  (D = a - a'), i.e. the charged
     rho = D^2/(2 s^2) plus a term that is odd in the noise. *)
From Coq Require Import Reals Lra List Lia.
Import ListNotations.
Require Import PGM.Proofs.GibbsP.
Open Scope R_scope.

Definition wts (c : R) (q : list R) : list R := map (fun x => exp (c * x)) q.
Definition em_prob (c : R) (q : list R) (i : nat) : R := nth i (wts c q) 0 / sumR (wts c q).

Lemma F2_length {A B} (R : A -> B -> Prop) l l' : Forall2 R l l' -> length l = length l'.
Proof. intros H. induction H; simpl; congruence. Qed.
Lemma wts_pos c q : allpos (wts c q).
Proof. induction q; simpl; auto. split; auto. apply exp_pos. Qed.
Lemma nth_allpos_nn l : forall i, allpos l -> 0 <= nth i l 0.
Proof. induction l as [|a l IH]; intros [|i] H; simpl in *; try lra. apply IH. tauto. Qed.
Lemma sumR_allpos l : l <> [] -> allpos l -> 0 < sumR l.
Proof. destruct l as [|a l]; [congruence|]. intros _ [Ha Hl]. simpl. assert (0 <= sumR l). { clear -Hl. induction l; simpl in *; [lra|]. destruct Hl. specialize (IHl H0). lra. } lra. Qed.

(* pointwise bound on the weights, uniformly over the candidates *)
Lemma wts_ratio c k q q' : 0 <= c -> Forall2 (fun a b => a - b <= k) q q' ->
  Forall2 (fun w w' => w <= exp (c * k) * w') (wts c q) (wts c q').
Proof. intros Hc H. induction H as [|a b q q' Hab Hf IH]; simpl. apply Forall2_nil. apply Forall2_cons; auto.
  rewrite <- exp_plus. destruct (Rle_dec (c * a) (c * k + c * b)) as [L|L].
  - destruct L as [L|L]. left. now apply exp_increasing. rewrite L. right. reflexivity.
  - exfalso. apply L. assert (c * (a - b) <= c * k) by (apply Rmult_le_compat_l; lra). lra. Qed.
Lemma sum_ratio K l l' : Forall2 (fun w w' => w <= K * w') l l' -> sumR l <= K * sumR l'.
Proof. intros H. induction H; simpl; lra. Qed.
Lemma nth_ratio K l l' i : Forall2 (fun w w' : R => w <= K * w') l l' -> (i < length l)%nat -> nth i l 0 <= K * nth i l' 0.
Proof. intros H. revert i. induction H as [|a b l l' Hab _ IH]; intros i Hi; simpl in *. lia. destruct i; auto. apply IH. lia. Qed.
Lemma Forall2_flip_sub k (q q' : list R) : Forall2 (fun a b => Rabs (a - b) <= k) q q' ->
  Forall2 (fun a b => a - b <= k) q q' /\ Forall2 (fun a b => a - b <= k) q' q.
Proof. intros H. induction H as [|a b q q' Hab Hf [I1 I2]].
  - split; apply Forall2_nil.
  - split; apply Forall2_cons; auto.
    + pose proof (Rle_abs (a - b)). lra.
    + pose proof (Rle_abs (- (a - b))) as H. rewrite Rabs_Ropp in H. lra. Qed.

(* general form: numerator moves by at most k1, denominator by at most k2 *)
Lemma em_ratio_gen c k1 k2 q q' i : 0 <= c -> q <> [] -> (i < length q)%nat ->
  Forall2 (fun a b => a - b <= k1) q q' -> Forall2 (fun a b => a - b <= k2) q' q ->
  em_prob c q i <= exp (c * (k1 + k2)) * em_prob c q' i.
Proof. intros Hc NE Hi F1 F2. unfold em_prob.
  assert (NE' : q' <> []). { destruct F1; congruence. }
  assert (S : 0 < sumR (wts c q)). { apply sumR_allpos. unfold wts. destruct q; simpl; congruence. apply wts_pos. }
  assert (S' : 0 < sumR (wts c q')). { apply sumR_allpos. unfold wts. destruct q'; simpl; congruence. apply wts_pos. }
  pose proof (nth_ratio _ _ _ i (wts_ratio c k1 q q' Hc F1)) as N. unfold wts in N at 1. rewrite map_length in N. specialize (N Hi).
  pose proof (sum_ratio _ _ _ (wts_ratio c k2 q' q Hc F2)) as D.
  assert (P' : 0 <= nth i (wts c q') 0) by (apply nth_allpos_nn; apply wts_pos).
  replace (c * (k1 + k2)) with (c * k1 + c * k2) by ring. rewrite exp_plus.
  pose proof (exp_pos (c * k1)) as E1. pose proof (exp_pos (c * k2)) as E2.
  (* nth q / S  <=  e1 nth q' / S  <=  e1 nth q' e2 / S' *)
  apply Rle_trans with (exp (c * k1) * nth i (wts c q') 0 / sumR (wts c q)).
  - unfold Rdiv. apply Rmult_le_compat_r. left. now apply Rinv_0_lt_compat. exact N.
  - unfold Rdiv. replace (exp (c * k1) * exp (c * k2) * (nth i (wts c q') 0 * / sumR (wts c q'))) with ((exp (c * k1) * nth i (wts c q') 0) * (exp (c * k2) * / sumR (wts c q'))) by ring.
    apply Rmult_le_compat_l. apply Rmult_le_pos; lra.
    (* 1/S <= e2 / S'  <=  S' <= e2 S *)
    apply Rmult_le_reg_r with (sumR (wts c q)); [exact S|]. rewrite Rinv_l by lra.
    apply Rmult_le_reg_r with (sumR (wts c q')); [exact S'|]. field_simplify; [|lra]. lra. Qed.

Theorem exponential_mechanism_ratio c D q q' i : 0 <= c -> q <> [] -> (i < length q)%nat ->
  Forall2 (fun a b => Rabs (a - b) <= D) q q' -> em_prob c q i <= exp (2 * c * D) * em_prob c q' i.
Proof. intros Hc NE Hi F. destruct (Forall2_flip_sub D q q' F) as [F1 F2].
  replace (2 * c * D) with (c * (D + D)) by ring. now apply em_ratio_gen. Qed.
(* the code's coefficient c = eps / (2 sensitivity): eps-DP *)
Corollary exponential_mechanism_eps_dp eps D q q' i : 0 <= eps -> 0 < D -> q <> [] -> (i < length q)%nat ->
  Forall2 (fun a b => Rabs (a - b) <= D) q q' -> em_prob (eps / (2 * D)) q i <= exp eps * em_prob (eps / (2 * D)) q' i.
Proof. intros He HD NE Hi F. replace eps with (2 * (eps / (2 * D)) * D) at 2 by (field; lra).
  apply exponential_mechanism_ratio; auto. apply Rmult_le_pos. lra. left. apply Rinv_0_lt_compat. lra. Qed.
(* the declared monotonic variant (coefficient eps / sensitivity): all scores move in the same direction *)
Corollary exponential_mechanism_monotonic_eps_dp eps D q q' i : 0 <= eps -> 0 < D -> q <> [] -> (i < length q)%nat ->
  Forall2 (fun a b => 0 <= b - a <= D) q q' ->
  em_prob (eps / D) q i <= exp eps * em_prob (eps / D) q' i /\ em_prob (eps / D) q' i <= exp eps * em_prob (eps / D) q i.
Proof. intros He HD NE Hi F.
  assert (F1 : Forall2 (fun a b => a - b <= 0) q q') by (clear -F; induction F; [apply Forall2_nil|apply Forall2_cons; auto; lra]).
  assert (F2 : Forall2 (fun a b => a - b <= D) q' q) by (clear -F; induction F; [apply Forall2_nil|apply Forall2_cons; auto; lra]).
  assert (Hc : 0 <= eps / D) by (apply Rmult_le_pos; [lra|left; now apply Rinv_0_lt_compat]).
  assert (L : length q = length q') by (eapply F2_length; eauto).
  split.
  - replace eps with (eps / D * (0 + D)) at 2 by (field; lra). now apply em_ratio_gen.
  - replace eps with (eps / D * (D + 0)) at 2 by (field; lra). apply em_ratio_gen; auto. destruct F; congruence. congruence. Qed.

(* ---- Laplace ---- *)
Definition lap (b a x : R) : R := exp (- Rabs (x - a) / b) / (2 * b).
Fixpoint lapvec (b : R) (a x : list R) : R := match a, x with c :: a', y :: x' => lap b c y * lapvec b a' x' | _, _ => 1 end.
Fixpoint l1d (a a' : list R) : R := match a, a' with c :: r, c' :: r' => Rabs (c - c') + l1d r r' | _, _ => 0 end.
Lemma lap_pos b a x : 0 < b -> 0 < lap b a x.
Proof. intros Hb. unfold lap. apply Rdiv_lt_0_compat. apply exp_pos. lra. Qed.
Lemma lap_ratio b a a' x : 0 < b -> lap b a x <= exp (Rabs (a - a') / b) * lap b a' x.
Proof. intros Hb. unfold lap.
  assert (I : 0 < / b) by now apply Rinv_0_lt_compat.
  assert (T : Rabs (x - a') <= Rabs (x - a) + Rabs (a - a')). { replace (x - a') with ((x - a) + (a - a')) by ring. apply Rabs_triang. }
  assert (E : exp (- Rabs (x - a) / b) <= exp (Rabs (a - a') / b) * exp (- Rabs (x - a') / b)).
  { rewrite <- exp_plus. assert (LE : - Rabs (x - a) / b <= Rabs (a - a') / b + - Rabs (x - a') / b) by (unfold Rdiv; nra).
    destruct LE as [LE|LE]. left. now apply exp_increasing. rewrite LE. right. reflexivity. }
  assert (I2 : 0 < / (2 * b)) by (apply Rinv_0_lt_compat; lra).
  set (u := exp (- Rabs (x - a) / b)) in *. set (v := exp (- Rabs (x - a') / b)) in *. set (w := exp (Rabs (a - a') / b)) in *.
  apply Rle_trans with ((w * v) * / (2 * b)). unfold Rdiv. apply Rmult_le_compat_r; lra. right. unfold Rdiv. ring. Qed.
Lemma lapvec_pos b a x : 0 < b -> 0 < lapvec b a x.
Proof. intros Hb. revert x. induction a as [|c a IH]; intros [|y x]; simpl; try lra. apply Rmult_lt_0_compat. now apply lap_pos. apply IH. Qed.
Theorem laplace_mechanism_ratio b a a' x : 0 < b -> length a = length a' -> lapvec b a x <= exp (l1d a a' / b) * lapvec b a' x.
Proof. intros Hb. revert a' x. induction a as [|c a IH]; intros [|c' a'] x L; simpl in *; try discriminate.
  - unfold Rdiv. rewrite Rmult_0_l, exp_0. lra.
  - destruct x as [|y x]. unfold Rdiv. assert (0 <= (Rabs (c - c') + l1d a a') * / b).
    { apply Rmult_le_pos. assert (0 <= l1d a a'). { clear. revert a'. induction a; intros [|? ?]; simpl; try lra. pose proof (Rabs_pos (a - r)). specialize (IHa l). lra. } pose proof (Rabs_pos (c - c')). lra. left. now apply Rinv_0_lt_compat. }
    pose proof (exp_ineq1_le ((Rabs (c - c') + l1d a a') * / b)). lra.
    injection L as L. specialize (IH a' x L). pose proof (lap_ratio b c c' y Hb).
    replace ((Rabs (c - c') + l1d a a') / b) with (Rabs (c - c') / b + l1d a a' / b) by (unfold Rdiv; ring). rewrite exp_plus.
    pose proof (lap_pos b c y Hb). pose proof (lap_pos b c' y Hb). pose proof (lapvec_pos b a x Hb). pose proof (lapvec_pos b a' x Hb).
    pose proof (exp_pos (Rabs (c - c') / b)). pose proof (exp_pos (l1d a a' / b)).
    apply Rle_trans with (exp (Rabs (c - c') / b) * lap b c' y * (exp (l1d a a' / b) * lapvec b a' x)).
    apply Rmult_le_compat; lra. right. ring. Qed.
(* scale = sensitivity / eps (laplace_noise_scale) : eps-DP *)
Corollary laplace_mechanism_eps_dp eps D a a' x : 0 < eps -> 0 < D -> length a = length a' -> l1d a a' <= D ->
  lapvec (D / eps) a x <= exp eps * lapvec (D / eps) a' x.
Proof. intros He HD L S. assert (Hb : 0 < D / eps) by (apply Rdiv_lt_0_compat; lra).
  apply Rle_trans with (exp (l1d a a' / (D / eps)) * lapvec (D / eps) a' x). apply laplace_mechanism_ratio; auto. apply Rmult_le_compat_r. left. now apply lapvec_pos.
  assert (E : l1d a a' / (D / eps) <= eps). { replace (l1d a a' / (D / eps)) with (l1d a a' * (eps / D)) by (field; lra).
    replace eps with (D * (eps / D)) at 2 by (field; lra). apply Rmult_le_compat_r. left. apply Rdiv_lt_0_compat; lra. exact S. }
  destruct E as [E|E]. left. now apply exp_increasing. rewrite E. right. reflexivity. Qed.

(* ---- Gaussian: the privacy loss at output a + z ---- *)
Definition gauss_logdens (s a x : R) : R := - (x - a) * (x - a) / (2 * s * s).
Theorem gaussian_privacy_loss s a a' z : 0 < s ->
  gauss_logdens s a (a + z) - gauss_logdens s a' (a + z) = (a - a') * (a - a') / (2 * s * s) + (a - a') * z / (s * s).
Proof. intros Hs. unfold gauss_logdens. field. lra. Qed.

(* ---- C03: a trial accepted by mirror descent's sufficient-decrease test never increases the loss ----
   On the explicit joint: P and P' are the (positive) tables of the parameters omega and theta = omega - alpha*dL, so
   ln P'(x) = ln P(x) - alpha * g(x) + const, with g the gradient pulled back to cells; both sum to the same total.  Then
   alpha * <g, P - P'> = KL(P||P') + KL(P'||P) >= 0, and the test  L - L' >= alpha/2 <g, P - P'>  gives L' <= L. *)
Lemma kl_tilt_sym alpha c P g : 0 < c -> length P = length g -> allpos P -> sumR (tilt alpha c P g) = sumR P ->
  alpha * (dot g P - dot g (tilt alpha c P g)) = kl P (tilt alpha c P g) + kl (tilt alpha c P g) P.
Proof. intros Hc L HP S. set (Q := tilt alpha c P g) in *.
  assert (LQ : length Q = length g). { unfold Q. apply tilt_length. exact L. }
  pose proof (three_point_gen alpha c P g P Hc L L HP) as T0. fold Q in T0. rewrite kl_self in T0.
  pose proof (three_point_gen alpha c P g Q Hc L LQ HP) as T1. fold Q in T1. rewrite kl_self in T1. rewrite S in T1. lra. Qed.
Theorem accepted_step_never_increases alpha c P g (L L' : R) : 0 < alpha -> 0 < c -> length P = length g -> allpos P ->
  sumR (tilt alpha c P g) = sumR P ->
  L - L' >= alpha / 2 * (dot g P - dot g (tilt alpha c P g)) -> L' <= L.
Proof. intros Ha Hc Len HP S Acc. pose proof (kl_tilt_sym alpha c P g Hc Len HP S) as K.
  assert (Q1 : 0 <= kl P (tilt alpha c P g)). { apply gibbs; auto. now rewrite tilt_length. now apply allpos_nn. now apply tilt_pos. }
  assert (Q2 : 0 <= kl (tilt alpha c P g) P). { apply gibbs; auto. now rewrite tilt_length. apply allpos_nn. now apply tilt_pos. }
  lra. Qed.
