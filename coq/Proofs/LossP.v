(* C04 / C03 / C09: algebra of the squared loss over the rationals: exact second-order expansion (so the gradient is the
   derivative and the loss is convex), adjointness, and the unbiasedness / exactness facts behind the total estimate. *)
From Coq Require Import List Arith Bool QArith Qcanon Lia Lqa.
Import ListNotations.
Require Import PGM.Base.Alg PGM.Base.Sums PGM.Base.Qnn PGM.Model.Domain PGM.Model.Loss.
Local Open Scope Qc_scope.

Lemma qsum_ext n f g : (forall i, (i < n)%nat -> f i = g i) -> qsum n f = qsum n g.
Proof. apply (@sumn_ext QcSR). Qed.
Lemma qsum_add n f g : qsum n (fun i => f i + g i) = qsum n f + qsum n g.
Proof. apply (@sumn_add QcSR). Qed.
Lemma qsum_scale n c f : qsum n (fun i => c * f i) = c * qsum n f.
Proof. apply (@sumn_mul_l QcSR). Qed.
Lemma qsum_exch n m (f : nat -> nat -> Qc) : qsum n (fun i => qsum m (fun j => f i j)) = qsum m (fun j => qsum n (fun i => f i j)).
Proof. apply (@sumn_exch QcSR). Qed.
Lemma qsum_S n f : qsum (S n) f = qsum n f + f n. Proof. reflexivity. Qed.
Lemma qsum_0 f : qsum 0 f = 0. Proof. reflexivity. Qed.

Lemma dot_add_r n u v w : dot n u (fun i => v i + w i) = dot n u v + dot n u w.
Proof. unfold dot. rewrite <- qsum_add. apply qsum_ext. intros. ring. Qed.
Lemma dot_comm n u v : dot n u v = dot n v u.
Proof. unfold dot. apply qsum_ext. intros. ring. Qed.
Lemma dot_scale_r n c u v : dot n u (fun i => c * v i) = c * dot n u v.
Proof. unfold dot. rewrite <- qsum_scale. apply qsum_ext. intros. ring. Qed.

(* <Q d, r> = <d, Q^T r> *)
Lemma adjoint Q m p d r : dot m (matvec Q p d) r = dot p d (tmatvec Q m r).
Proof. unfold dot, matvec, tmatvec, dot.
  transitivity (qsum m (fun i => qsum p (fun j => Q i j * d j * r i))).
  { apply qsum_ext. intros i _. rewrite Qcmult_comm, <- qsum_scale. apply qsum_ext. intros. ring. }
  rewrite qsum_exch. apply qsum_ext. intros j _. rewrite <- qsum_scale. apply qsum_ext. intros. ring. Qed.

Lemma resid_add Q m p y c x d i : resid Q m p y c (fun j => x j + d j) i = resid Q m p y c x i + c * matvec Q p d i.
Proof. unfold resid, matvec. rewrite dot_add_r. ring. Qed.

Lemma half_double a : half * (a + a) = a.
Proof. unfold half. field. discriminate. Qed.

(* exact expansion: loss(x+d) = loss(x) + <grad(x), d> + 1/2 |c Q d|^2 *)
Theorem loss_expansion Q m p y c x d :
  loss_m Q m p y c (fun j => x j + d j) =
  loss_m Q m p y c x + dot p (grad_m Q m p y c x) d + half * dot m (fun i => c * matvec Q p d i) (fun i => c * matvec Q p d i).
Proof. unfold loss_m, grad_m.
  set (r := resid Q m p y c x). set (e := fun i => c * matvec Q p d i).
  assert (E : dot m (resid Q m p y c (fun j => x j + d j)) (resid Q m p y c (fun j => x j + d j)) = dot m r r + (dot m r e + dot m r e) + dot m e e).
  { unfold dot. rewrite <- !qsum_add. apply qsum_ext. intros i _. rewrite resid_add. fold (e i). fold (r i). ring. }
  rewrite E.
  assert (A : dot p (fun j => c * tmatvec Q m r j) d = dot m r e).
  { unfold e. rewrite dot_scale_r. rewrite (dot_comm m r). rewrite adjoint. rewrite dot_comm. unfold dot. rewrite <- qsum_scale. apply qsum_ext. intros. ring. }
  rewrite A. set (a := dot m r r). set (b := dot m r e). set (cc := dot m e e).
  transitivity (half * a + half * (b + b) + half * cc); [ring | rewrite half_double; ring]. Qed.

Lemma Qc_sq_nonneg a : 0 <= a * a.
Proof. unfold Qcle. rewrite this_mult. change (this 0) with 0%Q. destruct (Qlt_le_dec (this a) 0).
  - setoid_replace (this a * this a)%Q with ((- this a) * (- this a))%Q by ring. apply Qmult_le_0_compat; lra.
  - apply Qmult_le_0_compat; auto. Qed.
Lemma Qclt_irrefl' (a : Qc) : ~ a < a.
Proof. unfold Qclt. apply Qlt_irrefl. Qed.
Lemma Qcinv_pos a : 0 < a -> 0 < / a.
Proof. unfold Qclt. rewrite this_inv. change (this 0) with 0%Q. apply Qinv_lt_0_compat. Qed.
Lemma half_nonneg : 0 <= half.
Proof. unfold half. apply Qclt_le_weak, Qcinv_pos. reflexivity. Qed.
Lemma dot_self_nonneg n u : 0 <= dot n u u.
Proof. unfold dot. induction n. rewrite qsum_0. apply Qcle_refl. rewrite qsum_S.
  replace 0 with (0 + 0) by ring. apply Qcplus_le_compat; auto. apply Qc_sq_nonneg. Qed.

(* convexity / first-order lower bound: the loss never lies below its linearisation (for every direction d) *)
Theorem loss_convex Q m p y c x d : loss_m Q m p y c x + dot p (grad_m Q m p y c x) d <= loss_m Q m p y c (fun j => x j + d j).
Proof. rewrite loss_expansion. rewrite <- (Qcplus_0_r (loss_m Q m p y c x + dot p (grad_m Q m p y c x) d)) at 1.
  apply Qcplus_le_compat. apply Qcle_refl.
  replace 0 with (0 * half) by ring. rewrite (Qcmult_comm half). apply Qcmult_le_compat_r. apply dot_self_nonneg. apply half_nonneg. Qed.

(* ---- totals (C09) ---- *)
(* a linear estimator v with Q^T v = 1 recovers the total of any x from noise-free answers *)
Theorem unbiased Q m p v x : (forall j, (j < p)%nat -> tmatvec Q m v j = 1) -> dot m v (matvec Q p x) = qsum p x.
Proof. intros H. rewrite dot_comm, adjoint. unfold dot. apply qsum_ext. intros j Hj. rewrite H by auto. ring. Qed.

(* inverse-variance weighting of identical estimates returns that estimate (noise-free => N) *)
Lemma ivw_const_aux l N : (forall p, In p l -> fst p = N /\ snd p <> 0) ->
  fold_right (fun p acc => fst p / snd p + acc) 0 l = N * fold_right (fun p acc => / snd p + acc) 0 l.
Proof. induction l as [|p l IH]; simpl; intros H. ring. rewrite IH by (intros; apply H; now right).
  destruct (H p (or_introl eq_refl)) as [-> Hs]. field. exact Hs. Qed.
Lemma wsum_nonneg l : (forall p, In p l -> 0 < snd p) -> 0 <= fold_right (fun (p : Qc * Qc) acc => / snd p + acc) 0 l.
Proof. induction l as [|p l IH]; simpl; intros H. apply Qcle_refl. replace 0 with (0 + 0) by ring. apply Qcplus_le_compat.
  apply Qclt_le_weak, Qcinv_pos, H. now left. apply IH. intros; apply H; now right. Qed.
Lemma wsum_pos l : l <> [] -> (forall p, In p l -> 0 < snd p) -> 0 < fold_right (fun (p : Qc * Qc) acc => / snd p + acc) 0 l.
Proof. destruct l as [|p l]; intros NE H. congruence. simpl.
  apply Qclt_le_trans with (/ snd p + 0). rewrite Qcplus_0_r. apply Qcinv_pos, H. now left.
  apply Qcplus_le_compat. apply Qcle_refl. apply wsum_nonneg. intros; apply H; now right. Qed.
Theorem ivw_const l N : l <> [] -> (forall p, In p l -> fst p = N /\ 0 < snd p) -> 1 <= N -> ivw l = N.
Proof. intros NE H HN.
  assert (W : 0 < fold_right (fun (p : Qc * Qc) acc => / snd p + acc) 0 l) by (apply wsum_pos; auto; intros p Hp; apply H; auto).
  assert (S : fold_right (fun p acc => fst p / snd p + acc) 0 l = N * fold_right (fun p acc => / snd p + acc) 0 l).
  { apply ivw_const_aux. intros p Hp. destruct (H p Hp) as [A B]. split; auto. intro Z. rewrite Z in B. now apply Qclt_irrefl' in B. }
  unfold ivw. destruct l as [|p0 l0]. congruence. rewrite S.
  set (w := fold_right (fun p acc => / snd p + acc) 0 (p0 :: l0)) in *.
  assert (E : / w * (N * w) = N). { field. intro Z. rewrite Z in W. now apply Qclt_irrefl' in W. }
  rewrite E. destruct (Qclt_le_dec N 1); auto. exfalso. apply (Qclt_not_le _ _ q HN). Qed.
Theorem ivw_at_least_one l : 1 <= ivw l.
Proof. unfold ivw. destruct l. apply Qcle_refl. destruct (Qclt_le_dec _ 1); auto. apply Qcle_refl. Qed.

(* ---- grouping: each measurement is assigned to at most one clique, and to one iff some clique contains it ---- *)
Lemma first_containing_spec proj cands i : first_containing proj cands = Some i -> exists cl, In (i, cl) cands /\ subsetb proj cl = true.
Proof. induction cands as [|[j cl] r IH]; simpl; intros H. discriminate. destruct (subsetb proj cl) eqn:E.
  injection H as <-. eauto. destruct (IH H) as [cl' [A B]]. eauto. Qed.
Lemma first_containing_none proj cands : first_containing proj cands = None -> forall i cl, In (i, cl) cands -> subsetb proj cl = false.
Proof. induction cands as [|[j cl] r IH]; simpl; intros H i cl' Hin. contradiction. destruct (subsetb proj cl) eqn:E. discriminate.
  destruct Hin as [Hin|Hin]. injection Hin as <- <-. auto. eauto. Qed.

(* ---- C03: the Frank-Wolfe gap certificate.  x is a table over all p cells, Q the stacked (query o marginalisation) matrix. ---- *)
Lemma qsum_le n f g : (forall i, (i < n)%nat -> f i <= g i) -> qsum n f <= qsum n g.
Proof. induction n; intros H. apply Qcle_refl. rewrite !qsum_S. apply Qcplus_le_compat; auto. Qed.
(* linear minimisation over {P >= 0, sum P = N} is attained at a vertex: <g, P> >= N * min g *)
Lemma linear_lower_bound p g P lo : (forall j, (j < p)%nat -> lo <= g j) -> (forall j, (j < p)%nat -> 0 <= P j) -> lo * qsum p P <= dot p g P.
Proof. intros Hg HP. unfold dot. rewrite <- qsum_scale. apply qsum_le. intros j Hj. apply Qcmult_le_compat_r; auto. Qed.

Theorem fw_gap_certificate Q m p y c Phat P lo :
  (forall j, (j < p)%nat -> lo <= grad_m Q m p y c Phat j) -> (forall j, (j < p)%nat -> 0 <= P j) -> qsum p P = qsum p Phat ->
  loss_m Q m p y c Phat - loss_m Q m p y c P <= dot p (grad_m Q m p y c Phat) Phat - lo * qsum p Phat.
Proof. intros Hg HP HN.
  pose proof (loss_convex Q m p y c Phat (fun j => P j - Phat j)) as CV.
  assert (E : loss_m Q m p y c (fun j => Phat j + (P j - Phat j)) = loss_m Q m p y c P).
  { unfold loss_m, resid, matvec, dot. f_equal. apply qsum_ext. intros i _. f_equal; f_equal; f_equal; apply qsum_ext; intros; ring. }
  cbv beta in CV. rewrite E in CV.
  assert (L : dot p (grad_m Q m p y c Phat) (fun j => P j - Phat j) = dot p (grad_m Q m p y c Phat) P - dot p (grad_m Q m p y c Phat) Phat).
  { unfold dot. unfold Qcminus. rewrite <- (Qcmult_1_l (qsum p (fun i => grad_m Q m p y c Phat i * Phat i))).
    replace (- (1 * qsum p (fun i => grad_m Q m p y c Phat i * Phat i))) with ((- (1)) * qsum p (fun i => grad_m Q m p y c Phat i * Phat i)) by ring.
    rewrite <- qsum_scale, <- qsum_add. apply qsum_ext. intros. ring. }
  rewrite L in CV. pose proof (linear_lower_bound p (grad_m Q m p y c Phat) P lo Hg HP) as LB. rewrite HN in LB.
  (* L(Phat) - L(P) <= <g,Phat> - <g,P> <= <g,Phat> - lo N *)
  apply Qcle_trans with (dot p (grad_m Q m p y c Phat) Phat - dot p (grad_m Q m p y c Phat) P).
  - apply Qcle_minus_iff. apply Qcle_minus_iff in CV.
    replace (dot p (grad_m Q m p y c Phat) Phat - dot p (grad_m Q m p y c Phat) P + - (loss_m Q m p y c Phat - loss_m Q m p y c P))
      with (loss_m Q m p y c P + - (loss_m Q m p y c Phat + (dot p (grad_m Q m p y c Phat) P - dot p (grad_m Q m p y c Phat) Phat))) by ring. exact CV.
  - unfold Qcminus. apply Qcplus_le_compat. apply Qcle_refl. apply Qcopp_le_compat. exact LB. Qed.
