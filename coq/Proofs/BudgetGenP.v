(* The budget ARITHMETIC generated from the mechanisms' source (Gen/Budget_gen.v) is the arithmetic of the hand-written ledger
   models (Model/Ledger.v): each skeleton rebuilt from the generated formulas (control flow by hand, every number from the source
   text) equals the hand model on the reals, so the ledger theorems hold for the formulas the code contains now. *)
From Coq Require Import List ZArith Reals Lra Bool.
Import ListNotations.
Require Import PGM.Base.Num PGM.Model.Ledger PGM.Proofs.LedgerP PGM.Gen.Budget_gen.
Open Scope R_scope.

Ltac unlit := cbn [lit nadd nsub nmul ndiv nneg nsqrt nltb nleb RNum] in *.

(* ---------------- MST ---------------- *)
(* measure(): weights = ones(k)/||ones(k)||, i.e. wgt = 1/sqrt k for each of the k cliques; select(): r - 1 = rm1 selections *)
Definition mst_events_src (rho : R) (k1 rm1 k2 : nat) : list (event R) :=
  let sigma := mst_main_sigma_1 RNum rho in
  let eps := mst_select_exponential_mechanism_eps_1 (mst_select_epsilon_1 RNum (mst_main_select_arg1_1 RNum rho) (INR rm1 + 1)) in
  repeat_ev k1 (Gauss (mst_measure_normal_scale_1 RNum (mst_main_measure_arg2_1 sigma) (/ sqrt (INR k1))) 1)
  ++ repeat_ev rm1 (Select eps (1 / mst_select_exponential_mechanism_sens_1 RNum))
  ++ repeat_ev k2 (Gauss (mst_measure_normal_scale_1 RNum (mst_main_measure_arg2_2 sigma) (/ sqrt (INR k2))) 1).

Lemma div_inv_sqrt s n : (0 < n)%nat -> s / / sqrt (INR n) = s * sqrt (INR n).
Proof. intros H. assert (0 < sqrt (INR n)). { apply sqrt_lt_R0. apply lt_0_INR. exact H. } field. lra. Qed.

Theorem mst_src_is_model rho k1 rm1 k2 : (0 < k1)%nat -> (0 < k2)%nat -> mst_events_src rho k1 rm1 k2 = mst_events RNum rho k1 rm1 k2.
Proof. intros H1 H2. unfold mst_events_src, mst_events, mst_main_sigma_1, mst_select_exponential_mechanism_eps_1, mst_select_epsilon_1,
    mst_main_select_arg1_1, mst_measure_normal_scale_1, mst_main_measure_arg2_1, mst_main_measure_arg2_2, mst_select_exponential_mechanism_sens_1.
  rewrite !of_nat_INR. unlit. rewrite !div_inv_sqrt by assumption.
  replace (IZR 1 / IZR 1) with 1 by (unfold Rdiv; rewrite Rinv_1; ring). replace (1 / 1) with 1 by field.
  replace (INR rm1 + 1 - 1) with (INR rm1) by ring.
  replace (IZR 8 / IZR 1 * (rho / (IZR 3 / IZR 1))) with (IZR 8 / IZR 1 * (rho / (IZR 3 / IZR 1))) by reflexivity.
  reflexivity. Qed.

Theorem mst_src_spends_rho rho k1 rm1 k2 : 0 < rho -> (0 < k1)%nat -> (0 < rm1)%nat -> (0 < k2)%nat -> total (mst_events_src rho k1 rm1 k2) = rho.
Proof. intros. rewrite mst_src_is_model by assumption. now apply mst_ledger. Qed.

(* ---------------- Adaptive Grid ---------------- *)
Definition adagrid_events_src (rho1 rho2 rho3 : R) (n1 rm1 n3 : nat) : list (event R) :=
  repeat_ev n1 (Gauss (adagrid_normal_scale_1 (adagrid_step1_sigma_1 RNum rho1 (INR n1))) 1)
  ++ repeat_ev rm1 (Select (adagrid_select_exponential_mechanism_eps_1 (adagrid_select_epsilon_1 RNum (adagrid_select_arg2_1 rho2) (INR rm1 + 1)))
                           (1 / adagrid_select_exponential_mechanism_sens_1 RNum))
  ++ repeat_ev n3 (Gauss (adagrid_normal_scale_2 (adagrid_step3_sigma_1 RNum (INR n3) rho3)) 1).
Theorem adagrid_src_is_model rho1 rho2 rho3 n1 rm1 n3 : adagrid_events_src rho1 rho2 rho3 n1 rm1 n3 = adagrid_events RNum rho1 rho2 rho3 n1 rm1 n3.
Proof. unfold adagrid_events_src, adagrid_events, adagrid_normal_scale_1, adagrid_normal_scale_2, adagrid_step1_sigma_1, adagrid_step3_sigma_1,
    adagrid_select_exponential_mechanism_eps_1, adagrid_select_epsilon_1, adagrid_select_arg2_1, adagrid_select_exponential_mechanism_sens_1.
  rewrite !of_nat_INR. unlit. replace (IZR 1 / IZR 1) with 1 by (unfold Rdiv; rewrite Rinv_1; ring). replace (1 / 1) with 1 by field.
  replace (INR rm1 + 1 - 1) with (INR rm1) by ring. reflexivity. Qed.
(* default split rho/3 each, or rho*frac_i with the fractions summing to one *)
Theorem adagrid_src_spends_rho_default rho n1 rm1 n3 : 0 < rho -> (0 < n1)%nat -> (0 < rm1)%nat -> (0 < n3)%nat ->
  total (adagrid_events_src (adagrid_rho_step_1_1 RNum rho) (adagrid_rho_step_2_1 RNum rho) (adagrid_rho_step_3_1 RNum rho) n1 rm1 n3) = rho.
Proof. intros Hr H1 H2 H3. rewrite adagrid_src_is_model. unfold adagrid_rho_step_1_1, adagrid_rho_step_2_1, adagrid_rho_step_3_1. unlit.
  assert (P : 0 < rho / (IZR 3 / IZR 1)) by (apply Rdiv_lt_0_compat; lra).
  rewrite adagrid_ledger by assumption. field. Qed.
Theorem adagrid_src_spends_rho_split rho f1 f2 f3 n1 rm1 n3 : 0 < rho -> 0 < f1 -> 0 < f2 -> 0 < f3 -> f1 + f2 + f3 = 1 ->
  (0 < n1)%nat -> (0 < rm1)%nat -> (0 < n3)%nat ->
  total (adagrid_events_src (adagrid_rho_step_1_2 RNum rho f1) (adagrid_rho_step_2_2 RNum rho f2) (adagrid_rho_step_3_2 RNum rho f3) n1 rm1 n3) = rho.
Proof. intros Hr F1 F2 F3 S H1 H2 H3. rewrite adagrid_src_is_model. unfold adagrid_rho_step_1_2, adagrid_rho_step_2_2, adagrid_rho_step_3_2. unlit.
  rewrite adagrid_ledger; try assumption; try (apply Rmult_lt_0_compat; assumption). replace (rho * f1 + rho * f2 + rho * f3) with (rho * (f1 + f2 + f3)) by ring. rewrite S. ring. Qed.

(* ---------------- MWEM+PGM ---------------- *)
(* fwd: whether the bounded flag reaches worst_approximated (its `sensitivity` is then 2); the scores really move by 2 under bounded adjacency *)
Definition mwem_events_src (rho alpha : R) (rounds : nat) (bounded fwd : bool) : list (event R) :=
  let rpr := mwem_rho_per_round_1 RNum rho (INR rounds) in
  let sigma := mwem_sigma_2 RNum alpha rpr in
  let eps := mwem_worst_approximated_eps_1 (mwem_exp_eps_2 RNum alpha rpr) in
  let ms := mwem_marginal_sensitivity_2 RNum bounded in
  let sf := (if bounded then 2 else 1) / mwem_select_sensitivity_1 RNum (bounded && fwd) in
  flat_map (fun _ => [Select eps sf; Gauss (mwem_normal_scale_1 RNum ms sigma) ms]) (seq 0 rounds).
Theorem mwem_src_is_model rho alpha rounds bounded fwd : mwem_events_src rho alpha rounds bounded fwd = mwem_events RNum rho alpha rounds bounded fwd.
Proof. unfold mwem_events_src, mwem_events, mwem_rho_per_round_1, mwem_sigma_2, mwem_worst_approximated_eps_1, mwem_exp_eps_2, mwem_marginal_sensitivity_2,
    mwem_select_sensitivity_1, mwem_normal_scale_1.
  rewrite !of_nat_INR. unlit.
  replace (IZR 8 / IZR 1 * (IZR 1 / IZR 1 - alpha) * (rho / INR rounds)) with (IZR 8 / IZR 1 * ((IZR 1 / IZR 1 - alpha) * (rho / INR rounds))) by ring.
  assert (E : (if bounded then 2 else 1) / (if (bounded && fwd)%bool then IZR 2 / IZR 1 else IZR 1 / IZR 1) = (if bounded then if fwd then IZR 1 / IZR 1 else IZR 2 / IZR 1 else IZR 1 / IZR 1)).
  { destruct bounded, fwd; simpl; field. }
  rewrite E. reflexivity. Qed.
Theorem mwem_src_spends_rho rho alpha rounds bounded : 0 < rho -> 0 < alpha < 1 -> (0 < rounds)%nat ->
  total (mwem_events_src rho alpha rounds bounded true) = rho.
Proof. intros. rewrite mwem_src_is_model, mwem_ledger by assumption. destruct bounded; reflexivity. Qed.

Definition mwem_lap_events_src (eps alpha : R) (rounds : nat) (bounded : bool) : list (pevent R) :=
  let epr := mwem_eps_per_round_1 RNum eps (INR rounds) in
  let sigma := mwem_sigma_1 RNum alpha epr in
  let ms := mwem_marginal_sensitivity_1 RNum bounded in
  flat_map (fun _ => [PSelect (mwem_worst_approximated_eps_1 (mwem_exp_eps_1 RNum alpha epr)) 1; Lap (mwem_laplace_scale_1 RNum ms sigma) ms]) (seq 0 rounds).
Theorem mwem_lap_src_is_model eps alpha rounds bounded : mwem_lap_events_src eps alpha rounds bounded = mwem_lap_events RNum eps alpha rounds bounded.
Proof. unfold mwem_lap_events_src, mwem_lap_events, mwem_eps_per_round_1, mwem_sigma_1, mwem_marginal_sensitivity_1, mwem_worst_approximated_eps_1, mwem_exp_eps_1, mwem_laplace_scale_1.
  rewrite !of_nat_INR. unlit. replace (IZR 1 / IZR 1) with 1 by (unfold Rdiv; rewrite Rinv_1; ring). reflexivity. Qed.
Theorem mwem_lap_src_spends_eps eps alpha rounds bounded : 0 < eps -> 0 < alpha < 1 -> (0 < rounds)%nat ->
  ptotal RNum (mwem_lap_events_src eps alpha rounds bounded) = eps.
Proof. intros. rewrite mwem_lap_src_is_model. now apply mwem_lap_ledger. Qed.

(* ---------------- AIM ---------------- *)
Definition aim_init_src (rho : R) (rounds d : nat) : aim_st R :=
  let sigma := aim_run_sigma_1 RNum (INR rounds) rho in
  let eps := aim_run_epsilon_1 RNum rho (INR rounds) in
  {| a_sigma := sigma; a_eps := eps; a_used := aim_run_rho_used_1 RNum (INR d) sigma; a_done := false |}.
Definition aim_round_src (rho : R) (s : aim_st R) (anneal : bool) : aim_st R * list (event R) :=
  if a_done s then (s, []) else
  let last := aim_run_cond_1 RNum rho (a_used s) (a_sigma s) (a_eps s) in
  let remaining := aim_run_remaining_1 RNum rho (a_used s) in
  let sigma := if last then aim_run_sigma_2 RNum remaining else a_sigma s in
  let eps := if last then aim_run_epsilon_2 RNum remaining else a_eps s in
  let used := aim_run_rho_used_2 RNum (a_used s) eps sigma in
  let ev := [Select (aim_run_worst_approximated_eps_1 eps) 1; Gauss (aim_run_gaussian_noise_scale_2 sigma) 1] in
  if last then ({| a_sigma := sigma; a_eps := eps; a_used := used; a_done := true |}, ev)
  else if anneal then ({| a_sigma := aim_run_sigma_3 RNum sigma; a_eps := aim_run_epsilon_3 RNum eps; a_used := used; a_done := false |}, ev)
  else ({| a_sigma := sigma; a_eps := eps; a_used := used; a_done := false |}, ev).
Fixpoint aim_run_src (rho : R) (s : aim_st R) (decisions : list bool) : aim_st R * list (event R) :=
  match decisions with
  | [] => (s, [])
  | b :: r => let (s1, e1) := aim_round_src rho s b in let (s2, e2) := aim_run_src rho s1 r in (s2, e1 ++ e2)
  end.

Lemma one1 : IZR 1 / IZR 1 = 1. Proof. unfold Rdiv. rewrite Rinv_1. ring. Qed.
Theorem aim_init_src_is_model rho rounds d : rho <> 0 -> aim_init_src rho rounds d = aim_init RNum rho rounds d.
Proof. intros Hr. unfold aim_init_src, aim_init, aim_run_sigma_1, aim_run_epsilon_1, aim_run_rho_used_1. rewrite !of_nat_INR. unlit.
  replace (IZR 2 / IZR 1 * (IZR 9 / IZR 10) * rho) with (IZR 2 / IZR 1 * (IZR 9 / IZR 10 * rho)) by ring.
  replace (IZR 8 / IZR 1 * (IZR 1 / IZR 10) * rho) with (IZR 8 / IZR 1 * (IZR 1 / IZR 10 * rho)) by ring. reflexivity. Qed.
Lemma aim_cond_src rho u s e : aim_run_cond_1 RNum rho u s e = nltb RNum (rho - u) (lit RNum 2 1 * round_cost RNum s e).
Proof. unfold aim_run_cond_1, round_cost. unlit. f_equal. replace (8 / 1) with 8 by field. replace (1 / 1) with 1 by field. ring. Qed.
Theorem aim_round_src_is_model rho s b : aim_round_src rho s b = aim_round RNum rho s b.
Proof. unfold aim_round_src, aim_round. destruct (a_done s); [reflexivity|]. rewrite aim_cond_src.
  unfold aim_run_remaining_1, aim_run_sigma_2, aim_run_epsilon_2, aim_run_rho_used_2, aim_run_worst_approximated_eps_1, aim_run_gaussian_noise_scale_2,
    aim_run_sigma_3, aim_run_epsilon_3, round_cost. unlit.
  set (last := Rltb (rho - a_used s) (IZR 2 / IZR 1 * (IZR 1 / IZR 8 * (a_eps s * a_eps s) + IZR 1 / IZR 2 / (a_sigma s * a_sigma s)))).
  replace (IZR 2 / IZR 1 * (IZR 9 / IZR 10) * (rho - a_used s)) with (IZR 2 / IZR 1 * (IZR 9 / IZR 10 * (rho - a_used s))) by ring.
  replace (IZR 8 / IZR 1 * (IZR 1 / IZR 10) * (rho - a_used s)) with (IZR 8 / IZR 1 * (IZR 1 / IZR 10 * (rho - a_used s))) by ring.
  replace (8 / 1) with 8 by field. replace (1 / 1) with 1 by field.
  destruct last; [reflexivity|]. destruct b; reflexivity. Qed.
Theorem aim_run_src_is_model rho decisions : forall s, aim_run_src rho s decisions = aim_run RNum rho s decisions.
Proof. induction decisions as [|b r IH]; intros s; simpl; [reflexivity|]. rewrite aim_round_src_is_model.
  destruct (aim_round RNum rho s b) as [s1 e1]. rewrite IH. reflexivity. Qed.
Theorem aim_src_never_overspends rho rounds d decisions : 0 < rho -> (0 < rounds)%nat -> 9 / 10 * INR d < INR rounds ->
  let s := fst (aim_run_src rho (aim_init_src rho rounds d) decisions) in a_used s <= rho /\ (a_done s = true -> a_used s = rho).
Proof. intros Hr Hn Hd. rewrite aim_init_src_is_model by lra. rewrite aim_run_src_is_model. now apply aim_ledger_invariant. Qed.
(* the known finding, on the source's own formulas: rounds = 1 on three attributes spends 2.7 rho before the first round *)
Theorem aim_src_overspend rho : 0 < rho -> a_used (aim_init_src rho 1 3) = 27 / 10 * rho.
Proof. intros Hr. rewrite aim_init_src_is_model by lra. now apply aim_overspend. Qed.
