(* C19: on the reals every iterate of the model of entropic_mirror_descent is a strictly positive weight vector summing to the total,
   and it is the normalised exponential tilt of the previous iterate - the form the Lyapunov argument (GibbsP.never_worse) needs. *)
From Coq Require Import List ZArith Reals Lra Bool.
Import ListNotations.
Require Import PGM.Base.Num PGM.Model.Select PGM.Model.Public PGM.Proofs.SelectP PGM.Proofs.GibbsP.
Open Scope R_scope.

Lemma sumR_eq l : GibbsP.sumR l = SelectP.sumR l.
Proof. induction l as [|a l IH]. reflexivity. change (a + GibbsP.sumR l = a + SelectP.sumR l). now rewrite IH. Qed.

Lemma lse_R l : l <> [] -> lse RNum l = ln (SelectP.sumR (map exp l)).
Proof. intros NE. unfold lse. rewrite lsum_R.
  change (nsub RNum) with Rminus. change (nexp RNum) with exp. change (nadd RNum) with Rplus. change (nlog RNum) with ln.
  set (m := lmax RNum l).
  assert (E : SelectP.sumR (map (fun x => exp (x - m)) l) = exp (- m) * SelectP.sumR (map exp l)).
  { rewrite <- sumR_scale. f_equal. apply map_ext. intros a. unfold Rminus. rewrite exp_plus. ring. }
  pose proof (exp_pos (- m)). pose proof (sumR_exp_pos l NE).
  rewrite E, ln_mult, ln_exp by lra. ring. Qed.

Lemma vzip_length (f : R -> R -> R) a : forall b, length a = length b -> length (vzip f a b) = length a.
Proof. induction a as [|x a IH]; intros [|y b] L; simpl in *; try discriminate; auto. Qed.

Lemma tilt_vzip alpha c : forall logP dL, length logP = length dL ->
  map (fun x => exp x * c) (vzip (fun p g => p - alpha * g) logP dL) = tilt alpha c (map exp logP) dL.
Proof. induction logP as [|p logP IH]; intros [|g dL] L; simpl in *; try discriminate; auto.
  f_equal. unfold Rminus. rewrite exp_plus. f_equal. f_equal. f_equal. ring. apply IH. congruence. Qed.

(* the new weights are P_i * exp(-alpha g_i) * c with the common factor c = total / sum_j P_j exp(-alpha g_j) > 0 *)
Theorem mirror_step_is_tilt total alpha logP dL : 0 < total -> logP <> [] -> length logP = length dL ->
  let l := vzip (fun p g => p - alpha * g) logP dL in
  let c := total / SelectP.sumR (map exp l) in
  0 < c /\ map exp (mirror_step RNum total alpha logP dL) = tilt alpha c (map exp logP) dL.
Proof. intros HT NE L l c.
  assert (NL : l <> []). { unfold l. destruct logP, dL; simpl in *; try discriminate; congruence. }
  pose proof (sumR_exp_pos l NL) as SP.
  assert (Hc : 0 < c) by (unfold c; apply Rdiv_lt_0_compat; auto). split; auto.
  unfold mirror_step. change (nsub RNum) with Rminus. change (nmul RNum) with Rmult. change (nadd RNum) with Rplus. change (nlog RNum) with ln.
  fold l. rewrite (lse_R l NL). rewrite map_map.
  assert (G : forall x, exp (x + (ln total - ln (SelectP.sumR (map exp l)))) = exp x * c).
  { intros x. rewrite exp_plus. unfold Rminus. rewrite exp_plus, exp_ln, exp_Ropp, exp_ln by lra. unfold c. field. lra. }
  rewrite (map_ext _ (fun x => exp x * c) G).
  unfold l. now apply tilt_vzip. Qed.

(* every iterate sums to the total *)
Theorem mirror_step_total total alpha logP dL : 0 < total -> logP <> [] -> length logP = length dL ->
  SelectP.sumR (map exp (mirror_step RNum total alpha logP dL)) = total.
Proof. intros HT NE L. set (l := vzip (fun p g => p - alpha * g) logP dL).
  assert (NL : l <> []). { unfold l. destruct logP, dL; simpl in *; try discriminate; congruence. }
  pose proof (sumR_exp_pos l NL) as SP.
  unfold mirror_step. change (nsub RNum) with Rminus. change (nmul RNum) with Rmult. change (nadd RNum) with Rplus. change (nlog RNum) with ln.
  fold l. rewrite (lse_R l NL). rewrite map_map.
  rewrite (map_ext _ (fun x => (total / SelectP.sumR (map exp l)) * exp x)).
  - rewrite sumR_scale. field. lra.
  - intros x. rewrite exp_plus. unfold Rminus. rewrite exp_plus, exp_ln, exp_Ropp, exp_ln by lra. field. lra. Qed.

(* ... and is strictly positive and finite (an exponential) *)
Theorem weights_positive (l : list R) : forall w, In w (map exp l) -> 0 < w.
Proof. intros w H. apply in_map_iff in H. destruct H as [x [<- _]]. apply exp_pos. Qed.

(* the initial weights are the public records scaled to the total (for eta = 0) *)
Theorem init_P_total total x0 : 0 < SelectP.sumR x0 -> SelectP.sumR (init_P RNum total x0) = total.
Proof. intros H. unfold init_P. rewrite lsum_R. change (nmul RNum) with Rmult. change (ndiv RNum) with Rdiv.
  rewrite (map_ext _ (fun x => (total / SelectP.sumR x0) * (fun y => y) x)) by (intros; ring).
  rewrite sumR_scale, map_id. field. lra. Qed.
