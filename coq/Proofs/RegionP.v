(* C16 / C17 / C18: the belief normalisation  exp(b_i + ln N - logsumexp b)  is positive and sums to N for ANY table b
   (so for any messages, any sweep count, every oracle). *)
From Coq Require Import List ZArith Reals Lra Bool.
Import ListNotations.
Require Import PGM.Base.Num PGM.Model.Select PGM.Proofs.SelectP PGM.Proofs.PublicP.
Open Scope R_scope.

Definition normalised (total : R) (b : list R) : list R := map (fun v => exp (v + (ln total - lse RNum b))) b.
Theorem normalised_sum total b : 0 < total -> b <> [] -> SelectP.sumR (normalised total b) = total.
Proof. intros HT NE. unfold normalised. rewrite (lse_R b NE). pose proof (sumR_exp_pos b NE) as SP.
  rewrite (map_ext _ (fun x => (total / SelectP.sumR (map exp b)) * exp x)).
  - rewrite sumR_scale. field. lra.
  - intros x. rewrite exp_plus. unfold Rminus. rewrite exp_plus, exp_ln, exp_Ropp, exp_ln by lra. field. lra. Qed.
Theorem normalised_pos total b w : In w (normalised total b) -> 0 < w.
Proof. unfold normalised. intros H. apply in_map_iff in H. destruct H as [x [<- _]]. apply exp_pos. Qed.
(* the model's belief_of on the reals is this normalisation of the table's values *)
Require Import PGM.Model.Factor PGM.Model.Region.
Theorem belief_of_values total (f : factor R) : fvals (belief_of RNum total f) = normalised total (fvals f).
Proof. reflexivity. Qed.
