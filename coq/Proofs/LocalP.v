(* C18: what LocalInference adds on top of the oracles (C16, C17): exactness when nothing is relaxed, and the control flow of
   mirror_descent_auto (post-iteration loop, damping schedule, step halving). *)
From Coq Require Import List Arith Reals Lra Lia.
Import ListNotations.
Require Import PGM.Proofs.GibbsP PGM.Proofs.CertP.
Open Scope R_scope.

(* ---- no region-graph edges (pairwise disjoint cliques): local consistency is vacuous, and the oracle's beliefs
        N exp(theta_r)/Z_r are the exact maximiser over ALL families of valid tables: the product of simplices ---- *)
Lemma consistent_nil d proj nu : consistent d [] proj nu.
Proof. intros e []. Qed.
Lemma bel_nil d theta msg lift N r : bel d theta [] msg lift N r = belief (d r) (theta r) N.
Proof. reflexivity. Qed.
Theorem disjoint_exact n d theta N : 0 < N -> (forall r, (r < n)%nat -> (0 < d r)%nat) ->
  forall nu, valid n d N nu -> objective n d theta N nu <= objective n d theta N (fun r => belief (d r) (theta r) N).
Proof. intros HN Hd nu V.
  pose (z := fun (_ : nat * nat) (_ : nat) => 0). pose (l := fun (_ : nat * nat) (_ : nat -> R) (_ : nat) => 0).
  apply (certificate n d theta [] z l l N HN Hd).
  - intros e [].
  - intros e [].
  - apply consistent_nil.
  - exact V.
  - apply consistent_nil. Qed.
(* and the maximiser of each region's term is unique: any other valid table loses exactly its KL divergence to the belief *)
Theorem disjoint_region_gap d theta nu N : 0 < N -> (0 < d)%nat -> sumf d nu = N ->
  (dotf d theta (belief d theta N) + ent d N (belief d theta N)) - (dotf d theta nu + ent d N nu) = kl (tolist d nu) (tolist d (belief d theta N)).
Proof. intros HN Hd Hs. rewrite (region_bound d theta nu N HN Hd Hs).
  rewrite (region_bound d theta (belief d theta N) N HN Hd) by (apply belief_tot; auto).
  assert (K : kl (tolist d (belief d theta N)) (tolist d (belief d theta N)) = 0) by apply kl_self. rewrite K. lra. Qed.

(* ---- control flow of mirror_descent_auto ---- *)
Section Control.
Variable S : Type.
Variable sweep : S -> S.          (* one call of the oracle with unchanged potentials (messages persist) *)
Variable feas : S -> R.           (* model.primal_feasibility *)
(* for _ in range(k): if feas(mu) < 1: break; mu = sweep(mu) *)
Fixpoint post (k : nat) (s : S) : S * nat :=
  match k with
  | O => (s, O)
  | Datatypes.S k' => if Rlt_dec (feas s) 1 then (s, O) else let (s', j) := post k' (sweep s) in (s', Datatypes.S j)
  end.
Fixpoint sweeps (j : nat) (s : S) : S := match j with O => s | Datatypes.S j' => sweeps j' (sweep s) end.
Theorem post_spec : forall k s, fst (post k s) = sweeps (snd (post k s)) s /\ (snd (post k s) <= k)%nat /\
  (feas (fst (post k s)) < 1 \/ snd (post k s) = k) /\ (forall i, (i < snd (post k s))%nat -> ~ feas (sweeps i s) < 1).
Proof. induction k as [|k IH]; intros s; cbn [post].
  - cbn. split; [reflexivity|]. split; [lia|]. split; [right; reflexivity|]. intros i Hi; lia.
  - destruct (Rlt_dec (feas s) 1) as [L|L].
    + cbn. split; [reflexivity|]. split; [lia|]. split; [left; exact L|]. intros i Hi; lia.
    + specialize (IH (sweep s)). destruct (post k (sweep s)) as [s' j]. cbn [fst snd] in *. destruct IH as (A & B & C & D).
      split; [exact A|]. split; [lia|]. split.
      * destruct C as [C|C]; [left; exact C | right; lia].
      * intros [|i] Hi; cbn [sweeps]. exact L. apply D. lia. Qed.
End Control.

(* damping schedule rho <- (0.9 + rho)/2: from any start in [0, 0.9) it is increasing and never reaches 0.9, so the sweeps keep moving *)
Definition bump (rho : R) : R := (0.9 + rho) / 2.
Fixpoint bumps (k : nat) (rho : R) : R := match k with O => rho | S k' => bumps k' (bump rho) end.
Theorem damping_bounded : forall k rho, 0 <= rho < 0.9 -> rho <= bumps k rho < 0.9.
Proof. induction k as [|k IH]; intros rho H; cbn [bumps]. lra.
  assert (B : 0 <= bump rho < 0.9) by (unfold bump; lra). specialize (IH _ B). unfold bump in *. lra. Qed.
Theorem damping_closed_form : forall k rho, 0.9 - bumps k rho = (0.9 - rho) / 2 ^ k.
Proof. induction k as [|k IH]; intros rho; cbn [bumps pow]. field.
  rewrite IH. unfold bump. field. apply pow_nonzero. lra. Qed.
(* the step size after k halvings stays positive *)
Fixpoint halves (k : nat) (a : R) : R := match k with O => a | S k' => halves k' (a / 2) end.
Theorem step_positive : forall k a, 0 < a -> 0 < halves k a <= a.
Proof. induction k as [|k IH]; intros a H; cbn [halves]. lra. specialize (IH (a / 2) ltac:(lra)). lra. Qed.
