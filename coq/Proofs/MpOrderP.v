(* C12, message schedule: EVERY topological order of the dependency graph JunctionTree.mp_order builds (Gen/MpOrder_gen.v, generated
   from the source on every run) is a valid schedule in the sense of C01 - each direction of each tree edge exactly once, and (i,j)
   only after every (k,i) with k <> j - and it is complete.  networkx's topological_sort is external; its specification is the
   hypothesis `topological`: a permutation of the nodes in which the source of every edge precedes its target. *)
From Coq Require Import List Arith Lia Bool Permutation.
Import ListNotations.
Require Import PGM.Base.Alg PGM.Base.Sums PGM.Model.BP PGM.Proofs.BPrunP PGM.Gen.MpOrder_gen.

Section MpOrder.
Variable tree_edges : list (nat * nat).       (* self.tree.edges(): each undirected edge once, in either orientation *)
Variable nbrs : nat -> list nat.              (* the tree's adjacency *)
Hypothesis nbrs_spec : forall i j, In j (nbrs i) <-> In (i, j) tree_edges \/ In (j, i) tree_edges.
Notation msgs := (mp_order_messages tree_edges).
Notation deps := (mp_order_edges (mp_order_messages tree_edges)).

Definition topological (nodes : list (nat * nat)) (edges : list ((nat * nat) * (nat * nat))) (sch : list (nat * nat)) : Prop :=
  Permutation nodes sch /\ forall pre e post, sch = pre ++ e :: post -> forall m, In (m, e) edges -> In m pre.

Lemma msgs_spec i j : In (i, j) msgs <-> In j (nbrs i).
Proof. unfold mp_order_messages. rewrite in_app_iff, !in_map_iff, nbrs_spec. split.
  - intros [[[a b] [E H]]|[[a b] [E H]]]; inversion E; subst; auto.
  - intros [H|H]; [left; exists (i, j)|right; exists (j, i)]; auto. Qed.
Lemma nbrs_sym i j : In j (nbrs i) -> In i (nbrs j).
Proof. rewrite !nbrs_spec. tauto. Qed.
Lemma deps_spec k i j : In k (nbrs i) -> In j (nbrs i) -> k <> j -> In ((k, i), (i, j)) deps.
Proof. intros Hk Hj N. unfold mp_order_edges. apply in_flat_map. exists (k, i). split. apply msgs_spec. now apply nbrs_sym.
  apply in_flat_map. exists (i, j). split. now apply msgs_spec. cbn [fst snd]. rewrite Nat.eqb_refl.
  destruct (Nat.eqb_spec k j); [contradiction|]. simpl. now left. Qed.

Theorem mp_order_valid sch : NoDup msgs -> topological msgs deps sch ->
  valid_sched nbrs [] sch /\ NoDup sch /\ (forall c k, In k (nbrs c) -> In (k, c) sch).
Proof. intros ND [P T]. assert (NDs : NoDup sch) by (eapply Permutation_NoDup; eauto). split; [|split].
  - assert (G : forall post pre, sch = pre ++ post -> valid_sched nbrs (rev pre) post).
    { induction post as [|e r IH]; intros pre E; simpl. exact I. split.
      - destruct e as [i j]. unfold vstep. cbn [fst snd].
        assert (Ie : In (i, j) msgs). { eapply Permutation_in. apply Permutation_sym; eauto. rewrite E. apply in_app_iff. right. now left. }
        split; [now apply msgs_spec|]. split.
        + rewrite <- in_rev. intros I. rewrite E in NDs. apply NoDup_remove_2 in NDs. apply NDs. apply in_app_iff. now left.
        + intros k Hk N. rewrite <- in_rev. apply (T pre (i, j) r E). apply deps_spec; auto. now apply msgs_spec.
      - replace (e :: rev pre) with (rev (pre ++ [e])) by (rewrite rev_app_distr; reflexivity). apply IH. rewrite E, <- app_assoc. reflexivity. }
    apply (G sch []). reflexivity.
  - exact NDs.
  - intros c k Hk. eapply Permutation_in; eauto. apply msgs_spec. now apply nbrs_sym. Qed.
End MpOrder.
