(* C09: optimality of inverse-variance weights (on the reals).  Combining independent unbiased estimates with variances v_i by weights
   w_i summing to one gives variance sum w_i^2 v_i; it is minimised, with value 1/sum(1/v_i), exactly by w_i = (1/v_i)/sum(1/v_j) -
   the weights `ivw` (Model/Loss.v) and the four copies of the estimator in the code use. *)
From Coq Require Import List Reals Lra.
Import ListNotations.
Open Scope R_scope.

Definition sumw (l : list (R * R)) : R := fold_right (fun p acc => fst p + acc) 0 l.                        (* sum of weights *)
Definition prec (l : list (R * R)) : R := fold_right (fun p acc => / snd p + acc) 0 l.                      (* sum of 1/v *)
Definition varc (l : list (R * R)) : R := fold_right (fun p acc => fst p * fst p * snd p + acc) 0 l.         (* variance of the combination *)
Definition gap (c : R) (l : list (R * R)) : R := fold_right (fun p acc => snd p * ((fst p - c / snd p) * (fst p - c / snd p)) + acc) 0 l.

Lemma gap_expand c l : (forall p, In p l -> 0 < snd p) -> gap c l = varc l - 2 * c * sumw l + c * c * prec l.
Proof. induction l as [|[w v] l IH]; intros H; simpl. ring.
  rewrite IH by (intros; apply H; now right). pose proof (H (w, v) (or_introl eq_refl)) as Hv. simpl in Hv. field. lra. Qed.
Lemma gap_nonneg c l : (forall p, In p l -> 0 < snd p) -> 0 <= gap c l.
Proof. induction l as [|[w v] l IH]; intros H; simpl. lra.
  specialize (IH ltac:(intros; apply H; now right)). pose proof (H (w, v) (or_introl eq_refl)) as Hv. simpl in Hv.
  assert (0 <= v * ((w - c / v) * (w - c / v))). { apply Rmult_le_pos. lra. apply Rle_0_sqr. } lra. Qed.
Lemma prec_pos l : l <> [] -> (forall p, In p l -> 0 < snd p) -> 0 < prec l.
Proof. destruct l as [|[w v] l]; intros N H. congruence. simpl.
  assert (G : forall l', (forall p, In p l' -> 0 < snd p) -> 0 <= prec l').
  { induction l' as [|[w' v'] l' IH]; intros H'; simpl. lra. specialize (IH ltac:(intros; apply H'; now right)).
    pose proof (H' (w', v') (or_introl eq_refl)) as Hv. simpl in Hv. pose proof (Rinv_0_lt_compat _ Hv). lra. }
  pose proof (H (w, v) (or_introl eq_refl)) as Hv. simpl in Hv. pose proof (Rinv_0_lt_compat _ Hv).
  specialize (G l ltac:(intros; apply H; now right)). lra. Qed.

(* every unbiased combination has variance at least 1/sum(1/v_i) *)
Theorem ivw_lower_bound l : l <> [] -> (forall p, In p l -> 0 < snd p) -> sumw l = 1 -> / prec l <= varc l.
Proof. intros N H S. pose proof (prec_pos l N H) as P. pose proof (gap_nonneg (/ prec l) l H) as G.
  rewrite (gap_expand _ l H), S in G.
  assert (E : / prec l * / prec l * prec l = / prec l) by (field; lra). lra. Qed.
Lemma prec_map (f : R -> R) vs : prec (map (fun v => (f v, v)) vs) = fold_right (fun v acc => / v + acc) 0 vs.
Proof. unfold prec. induction vs as [|v vs IH]; cbn [map fold_right snd]. reflexivity. rewrite IH. reflexivity. Qed.
(* and the inverse-variance weights attain it *)
Definition ivweights (vs : list R) : list (R * R) := let P := fold_right (fun v acc => / v + acc) 0 vs in map (fun v => (/ v / P, v)) vs.
Lemma ivweights_facts vs : (forall v, In v vs -> 0 < v) -> forall P, P <> 0 ->
  let l := map (fun v => (/ v / P, v)) vs in let Q := fold_right (fun v acc => / v + acc) 0 vs in
  sumw l = Q / P /\ prec l = Q /\ varc l = Q / (P * P).
Proof. intros H P HP. induction vs as [|v vs IH]; cbn [map fold_right sumw prec varc fst snd].
  - repeat split; field; auto.
  - specialize (IH ltac:(intros; apply H; now right)). cbv zeta in IH. destruct IH as (A & B & C).
    pose proof (H v (or_introl eq_refl)) as Hv. cbv zeta. unfold sumw, prec, varc in *. rewrite A, B, C.
    repeat split; field; split; auto; lra. Qed.
Theorem ivw_attains vs : vs <> [] -> (forall v, In v vs -> 0 < v) ->
  sumw (ivweights vs) = 1 /\ varc (ivweights vs) = / prec (ivweights vs).
Proof. intros N H. unfold ivweights. set (P := fold_right (fun v acc => / v + acc) 0 vs).
  assert (HP : 0 < P).
  { unfold P. rewrite <- (prec_map (fun _ => 0) vs). apply prec_pos. destruct vs; simpl; congruence.
    intros p Hp. apply in_map_iff in Hp. destruct Hp as (v & <- & Hv). simpl. auto. }
  destruct (ivweights_facts vs H P ltac:(lra)) as (A & B & C). cbv zeta in *. fold P in A, B, C. rewrite A, B, C. split; field; lra. Qed.
