(* C16: the executable model of loopy_belief_propagation (Model/LBP.v, run against the code on exact rationals) IS a normalised
   asynchronous sweep schedule in the sense of Proofs/BPlinkP.v - two steps per sweep, factor -> variable (rescaled by 1/mass) and
   variable -> factor - so on a tree of cliques passing the junction-tree conditions, once every directed edge is in one of the two
   lists and the number of sweeps reaches the height of the tree, its marginals are the brute-force marginals. *)
From Coq Require Import List Arith Lia Bool.
Import ListNotations.
Require Import PGM.Base.Alg PGM.Base.Sums PGM.Model.BP PGM.Model.LBP PGM.Proofs.BPrunP PGM.Proofs.BPlinkP.

Section LbpP.
Variable R : SF.
Notation K := (car R).
Variable shape : nat -> nat.
Variable D : list nat.
Variable ncl : nat.
Variable scope : nat -> list nat.
Variable nbrs : nat -> list nat.
Variable psi : nat -> tbl R.
Hypothesis nbrs_nodup : forall c, NoDup (nbrs c).
Hypothesis nbrs_sym : forall i j, In j (nbrs i) -> In i (nbrs j).
Hypothesis nbrs_lt : forall i j, In j (nbrs i) -> j < ncl.
Hypothesis psi_dep : forall c, dep_on D (psi c).
Hypothesis psi_wf : forall c a, ~ In a (scope c) -> @indep R a (psi c).
Hypothesis shape_pos : forall a, 0 < shape a.
Hypothesis D_nodup : NoDup D.
Hypothesis scope_nodup : forall c, c < ncl -> NoDup (scope c).
Hypothesis scope_sub : forall c, c < ncl -> incl (scope c) D.
Variable sch : list (nat * nat).
Hypothesis sch_valid : valid_sched nbrs [] sch.
Hypothesis sch_complete : forall c k, In k (nbrs c) -> In (k, c) sch.
Hypothesis roots_ok : forall c, c < ncl -> rootokb D ncl scope nbrs sch c = true.
Notation valid := (valid shape).
Notation trie := (@trie R).
Notation lk := (@lk R D).
Notation mat := (@mat R shape D).
Notation getmsg := (@getmsg R D).
Notation flood_of := (@flood_of R shape scope nbrs psi).
Notation norm_of := (@norm_of R shape).
Notation new_msg := (@new_msg R shape scope nbrs psi).
Notation mstep := (@mstep R shape D scope nbrs psi).
Notation nstep := (@nstep R shape scope nbrs psi).
Notation nsweep := (@nsweep R shape scope nbrs psi).
Notation lbp_sweep := (@lbp_sweep R shape D scope nbrs psi).
Notation lbp_run := (@lbp_run R shape D scope nbrs psi).
Notation lbp_marginal := (@lbp_marginal R shape D scope nbrs psi).
Notation lbelief := (@belief R D nbrs psi).

Definition veq (M M' : nat -> nat -> tbl R) : Prop := forall i j x, valid x -> M i j x = M' i j x.
Definition Ues (es : list (nat * nat)) : nat -> nat -> bool := fun i j => memE (i, j) es.
Definition cnorm (nz : bool) (M : nat -> nat -> tbl R) (i j : nat) : K := norm_of nz (flood_of M i j) (sep scope i j).

Lemma base0_ok : valid base0. Proof. intros a. apply shape_pos. Qed.
Lemma flood_same M i j : flood_of M i j = flood R shape scope nbrs psi M i j.
Proof. reflexivity. Qed.
Lemma flood_veq M M' i j x : veq M M' -> valid x -> flood_of M i j x = flood_of M' i j x.
Proof. intros E V. unfold LBP.flood_of. apply sum_vars_ext_on. intros y A Rg. f_equal. f_equal. apply map_ext. intros k. apply E. eapply valid_fibre; eauto. Qed.
Lemma cnorm_veq nz M M' i j : veq M M' -> cnorm nz M i j = cnorm nz M' i j.
Proof. intros E. unfold cnorm, LBP.norm_of. destruct nz; auto.
  assert (S : @sum_vars R shape (sep scope i j) (flood_of M i j) base0 = @sum_vars R shape (sep scope i j) (flood_of M' i j) base0).
  { apply sum_vars_ext_on. intros y A Rg. apply flood_veq; auto. eapply valid_fibre; eauto. apply base0_ok. }
  now rewrite S. Qed.
Lemma nstep_veq U nz M M' : veq M M' -> veq (nstep U (cnorm nz) M) (nstep U (cnorm nz) M').
Proof. intros E i j x V. unfold BPlinkP.nstep. destruct (U i j); [|now apply E]. rewrite (cnorm_veq nz M M' i j E). f_equal.
  rewrite <- !flood_same. now apply flood_veq. Qed.

(* lookups in the message list *)
Lemma getm_app_some (e : nat * nat) (l1 l2 : msgs R) t : getm e l1 = Some t -> getm e (l1 ++ l2) = Some t.
Proof. induction l1 as [|[e' t'] r IH]; simpl; intros H. discriminate. destruct (edge_eqb e' e); auto. Qed.
Lemma getm_app_none (e : nat * nat) (l1 l2 : msgs R) : getm e l1 = None -> getm e (l1 ++ l2) = getm e l2.
Proof. induction l1 as [|[e' t'] r IH]; simpl; intros H; auto. destruct (edge_eqb e' e); auto. discriminate. Qed.
Lemma edge_eqb_eq e e' : edge_eqb e e' = true <-> e = e'.
Proof. destruct e, e'. unfold edge_eqb. simpl. rewrite andb_true_iff, !Nat.eqb_eq. split; intros H. destruct H; congruence. inversion H; auto. Qed.
Lemma getm_map_new (f : nat * nat -> trie) (e : nat * nat) : forall es,
  getm e (map (fun e' => (e', f e')) es) = if memE e es then Some (f e) else None.
Proof. induction es as [|e' r IH]; simpl; auto. unfold BP.memE in *. simpl. destruct (edge_eqb e' e) eqn:E1.
  - apply edge_eqb_eq in E1. subst. assert (edge_eqb e e = true) as -> by now apply edge_eqb_eq. reflexivity.
  - assert (edge_eqb e e' = false) as ->. { destruct (edge_eqb e e') eqn:E2; auto. apply edge_eqb_eq in E2. subst. assert (edge_eqb e' e' = true) by now apply edge_eqb_eq. congruence. }
    simpl. exact IH. Qed.

Lemma new_msg_dep nz (m : msgs R) i j : dep_on D (new_msg nz (getmsg m) i j).
Proof. unfold LBP.new_msg. intros y z E. f_equal.
  assert (DP : dep_on D (flood_of (getmsg m) i j)).
  { unfold LBP.flood_of. apply (@dep_on_sum_vars R shape). intros y' z' E'. f_equal. now apply psi_dep. f_equal. apply map_ext. intros k.
    unfold LBP.getmsg. destruct (getm (k, i) m); auto. now apply lk_dep. }
  now apply DP. Qed.

(* one materialised step is one normalised asynchronous step, on valid assignments *)
Lemma mstep_is_nstep es nz (m : msgs R) : veq (getmsg (mstep es nz m)) (nstep (Ues es) (cnorm nz) (getmsg m)).
Proof. intros i j x V.
  change (mstep es nz m) with (map (fun e' => (e', mat (new_msg nz (getmsg m) (fst e') (snd e')))) es ++ m).
  unfold BPlinkP.nstep, Ues. unfold LBP.getmsg at 1.
  pose proof (getm_map_new (fun e' => mat (new_msg nz (getmsg m) (fst e') (snd e'))) (i, j) es) as G. cbn [fst snd] in G.
  destruct (memE (i, j) es) eqn:EM.
  - rewrite (getm_app_some _ _ m _ G). rewrite mat_ok; auto. apply new_msg_dep.
  - rewrite (getm_app_none _ _ m G). reflexivity. Qed.

(* the run of the model, message level *)
Definition Us (fv vf : list (nat * nat)) := [(Ues fv, cnorm true); (Ues vf, cnorm false)].
Lemma sweep_is_nsweep fv vf (m : msgs R) M : veq (getmsg m) M -> veq (getmsg (lbp_sweep fv vf m)) (nsweep (Us fv vf) M).
Proof. intros E i j x V. unfold LBP.lbp_sweep, BPlinkP.nsweep, Us. cbn [fold_left fst snd].
  rewrite (mstep_is_nstep vf false (mstep fv true m) i j x V).
  apply nstep_veq; auto. intros i' j' x' V'. rewrite (mstep_is_nstep fv true m i' j' x' V'). apply nstep_veq; auto. Qed.
Lemma run_is_nsweeps fv vf n : veq (getmsg (lbp_run fv vf n)) (Nat.iter n (nsweep (Us fv vf)) (fun _ _ _ => one R)).
Proof. induction n as [|n IH]. intros i j x V. reflexivity. unfold LBP.lbp_run in *. simpl. apply sweep_is_nsweep. exact IH. Qed.

Lemma cnorm_nz nz M i j : cnorm nz M i j <> zero R.
Proof. unfold cnorm, LBP.norm_of. destruct nz; [|apply one_neq_zero].
  destruct (eqz R (sum_vars shape (sep scope i j) (flood_of M i j) base0)) eqn:E. apply one_neq_zero.
  intros Z. assert (NZ : sum_vars shape (sep scope i j) (flood_of M i j) base0 <> zero R) by (intro Q; apply eqz_spec in Q; congruence).
  pose proof (mul_div R (one R) NZ) as MD. rewrite Z, mul_0_l in MD. apply (one_neq_zero R). now symmetry. Qed.

Theorem lbp_exact_on_trees fv vf n total c x :
  (forall i j, In j (nbrs i) -> In (i, j) fv \/ In (i, j) vf) -> (forall i j, In j (nbrs i) -> height (tr nbrs sch i j) <= n) ->
  c < ncl -> valid x ->
  @sum_vars R shape (scope c) (belief_of_msgs R nbrs psi (Mtrue R shape scope nbrs psi sch) c) base0 <> zero R ->
  lbp_marginal fv vf n total c x = @brute R shape D ncl psi total (scope c) x.
Proof. intros COV H Hc V NZ.
  rewrite <- (nsweeps_exact R shape D ncl scope nbrs psi nbrs_nodup nbrs_sym nbrs_lt psi_dep psi_wf shape_pos D_nodup scope_nodup scope_sub sch sch_valid sch_complete roots_ok
                 (Us fv vf) n (fun _ _ _ => one R) total c x).
  - unfold LBP.lbp_marginal.
    assert (B : forall y, valid y -> lbelief (lbp_run fv vf n) c y
                                    = belief_of_msgs R nbrs psi (Nat.iter n (nsweep (Us fv vf)) (fun _ _ _ => one R)) c y).
    { intros y Vy.
      assert (L : map (fun k => getmsg (lbp_run fv vf n) k c y) (nbrs c) = map (fun k => Nat.iter n (nsweep (Us fv vf)) (fun _ _ _ => one R) k c y) (nbrs c))
        by (apply map_ext; intros k; apply run_is_nsweeps; exact Vy).
      unfold LBP.belief, belief_of_msgs, LBP.prodK, prodl. now rewrite L. }
    rewrite (B x V). f_equal. f_equal. apply sum_vars_ext_on. intros y A Rg. apply B. exact (@valid_fibre shape _ _ _ base0_ok A Rg).
  - intros Uc [<-|[<-|[]]]; intros; apply cnorm_nz.
  - intros i j Hj. unfold Us. cbn [existsb fst]. unfold Ues. destruct (COV i j Hj) as [I|I].
    + rewrite (proj2 (memE_In _ _) I). reflexivity.
    + rewrite (proj2 (memE_In _ _) I). now rewrite orb_true_r.
  - exact H. - exact Hc. - exact V. - exact NZ. Qed.

(* the table the driver prints is the marginal of the theorem, entry by entry *)
Theorem lbp_tables_are_marginals fv vf n total nf cellsof :
  @lbp_tables R shape D scope nbrs psi fv vf n total nf cellsof = map (fun c => map (fun x => lbp_marginal fv vf n total c x) (cellsof c)) (seq 0 nf).
Proof. reflexivity. Qed.
End LbpP.
