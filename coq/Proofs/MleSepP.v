(* C08: the separators GraphicalModel.mle computes are the tree separators.
   mle (graphical_model.py:178-191) walks self.cliques (the DFS preorder of the junction tree) keeping the set `variables` of all
   attributes seen so far and divides each clique marginal by its projection on  new = variables & set(cl).  On a tree with the
   running-intersection property (one top per attribute), that running intersection is exactly the separator with the PARENT:
   an attribute of cl seen in an earlier clique lies on the tree path to it, which passes through the parent.
   So the potentials mle builds are mu_c / (mu_c summed onto the parent separator) - the factorisation C08_mle_reproduces is about. *)
From Coq Require Import List Arith Lia Bool Permutation.
Import ListNotations.
Require Import PGM.Base.Alg PGM.Base.Sums PGM.Model.BP PGM.Proofs.JTP PGM.Proofs.JTreeP PGM.Proofs.WeightP.

Section MleSep.
Variable scope : nat -> list nat.
Notation vars := (vars scope).
Notation tops := (tops scope).
Notation one_top := (one_top scope).

(* the loop of mle over the preorder of t: seen = `variables` before the subtree; output = (clique, variables & set(clique)) in visiting order *)
Fixpoint mle_walk (seen : list nat) (t : rt) : list nat * list (nat * list nat) :=
  match t with Node c ks =>
    (fix walk (l : list rt) (acc : list nat * list (nat * list nat)) : list nat * list (nat * list nat) :=
       match l with
       | [] => acc
       | k :: r => let (s2, o2) := mle_walk (fst acc) k in walk r (s2, snd acc ++ o2)
       end) ks (seen ++ scope c, [(c, inter (scope c) seen)])
  end.
Definition walk_kids (l : list rt) (acc : list nat * list (nat * list nat)) :=
  (fix walk (l : list rt) (acc : list nat * list (nat * list nat)) : list nat * list (nat * list nat) :=
     match l with
     | [] => acc
     | k :: r => let (s2, o2) := mle_walk (fst acc) k in walk r (s2, snd acc ++ o2)
     end) l acc.
Lemma mle_walk_node seen c ks : mle_walk seen (Node c ks) = walk_kids ks (seen ++ scope c, [(c, inter (scope c) seen)]).
Proof. reflexivity. Qed.
Lemma walk_kids_cons k r acc : walk_kids (k :: r) acc = walk_kids r (fst (mle_walk (fst acc) k), snd acc ++ snd (mle_walk (fst acc) k)).
Proof. simpl. destruct (mle_walk (fst acc) k). reflexivity. Qed.

(* what has been seen after a subtree: what was seen before plus (exactly) the attributes of the subtree *)
Lemma seen_after a : forall t seen, In a (fst (mle_walk seen t)) <-> In a seen \/ In a (vars t).
Proof. induction t as [c ks IH] using rt_ind'. intros seen. rewrite mle_walk_node. unfold BP.vars. simpl nodes. simpl flat_map. rewrite in_app_iff.
  assert (G : forall l acc, Forall (fun k => forall seen, In a (fst (mle_walk seen k)) <-> In a seen \/ In a (vars k)) l ->
              (In a (fst (walk_kids l acc)) <-> In a (fst acc) \/ In a (flat_map scope (flat_map nodes l)))).
  { induction l as [|k r IHr]; intros acc F. simpl. tauto. inversion F as [|? ? Hk Hr]; subst. rewrite walk_kids_cons, IHr by assumption. simpl fst.
    rewrite Hk. simpl flat_map. rewrite flat_map_app, in_app_iff. unfold BP.vars. tauto. }
  rewrite G by exact IH. simpl fst. rewrite in_app_iff. tauto. Qed.

Definition parent_sep_spec (p : list nat) (c : nat) (s : list nat) : Prop := forall a, In a s <-> In a (scope c) /\ In a p.

(* the emitted pairs, with the parent scope of each node *)
Fixpoint with_parent (p : list nat) (t : rt) : list (nat * list nat) :=
  match t with Node c ks => (c, p) :: flat_map (with_parent (scope c)) ks end.

Lemma in_vars_root c ks a : In a (scope c) -> In a (vars (Node c ks)).
Proof. intros H. unfold BP.vars. simpl. apply in_app_iff. now left. Qed.
Lemma in_vars_kid c ks k a : In k ks -> In a (vars k) -> In a (vars (Node c ks)).
Proof. intros Hk H. unfold BP.vars in *. simpl. apply in_app_iff. right. apply in_flat_map in H. destruct H as [n [Hn Ha]].
  apply in_flat_map. exists n. split; auto. apply in_flat_map. exists k. auto. Qed.

(* if an attribute of the parent occurs in the subtree (one top per attribute) it occurs at the subtree's root *)
Lemma parent_attr_at_root p c ks a : one_top p (Node c ks) -> In a p -> In a (vars (Node c ks)) -> In a (scope c).
Proof. intros H Hp Hv. destruct (in_dec Nat.eq_dec a (scope c)) as [I|I]; auto. exfalso.
  specialize (H a). rewrite (proj2 (memb_In a p) Hp), (proj2 (memb_In a _) Hv) in H. cbn [andb WeightP.b2n] in H.
  (* a occurs below c but not at c: some child subtree has a top *)
  assert (T : 1 <= length (tops a p (Node c ks))).
  { simpl. rewrite app_length. assert (memb a (scope c) = false) as -> by now apply memb_nIn. simpl.
    unfold BP.vars in Hv. simpl in Hv. apply in_app_iff in Hv. destruct Hv as [Hv|Hv]; [contradiction|].
    apply in_flat_map in Hv. destruct Hv as [n [Hn Ha]]. apply in_flat_map in Hn. destruct Hn as [k [Hk Hn]].
    assert (Vk : In a (vars k)) by (unfold BP.vars; apply in_flat_map; exists n; auto).
    pose proof (occurs_has_top scope a k (scope c) Vk I) as Tk. rewrite list_sum_flat.
    clear -Hk Tk. induction ks as [|k' r IH]; simpl in *. contradiction. destruct Hk as [->|Hk]. lia. specialize (IH Hk). lia. }
  lia. Qed.

(* two sibling subtrees share only attributes of their parent *)
Lemma siblings_share_parent p c ks k1 k2 r1 r2 r3 a : one_top p (Node c ks) -> ks = r1 ++ k1 :: r2 ++ k2 :: r3 ->
  In a (vars k1) -> In a (vars k2) -> In a (scope c).
Proof. intros H E V1 V2. destruct (in_dec Nat.eq_dec a (scope c)) as [I|I]; auto. exfalso.
  destruct (one_top_kids scope p c ks H a) as [L _].
  pose proof (occurs_has_top scope a k1 (scope c) V1 I) as T1. pose proof (occurs_has_top scope a k2 (scope c) V2 I) as T2.
  subst ks. rewrite !map_app, !list_sum_app in L. simpl in L. rewrite !map_app, !list_sum_app in L. simpl in L. lia. Qed.

Theorem mle_walk_separators : forall t p seen, one_top p t ->
  (forall a, In a p -> In a seen) -> (forall a, In a seen -> In a (vars t) -> In a p) ->
  Forall2 (fun cs cp => fst cs = fst cp /\ parent_sep_spec (snd cp) (fst cs) (snd cs)) (snd (mle_walk seen t)) (with_parent p t).
Proof. induction t as [c ks IH] using rt_ind'. intros p seen OT PS SV. rewrite mle_walk_node. simpl with_parent.
  assert (HEAD : parent_sep_spec p c (inter (scope c) seen)).
  { intros a. unfold inter. rewrite filter_In, memb_In. split.
    - intros [Hc Hs]. split; auto. apply SV; auto. now apply in_vars_root.
    - intros [Hc Hp]. split; auto. }
  (* generalise over the part of the children already walked *)
  assert (G : forall done todo acc_s acc_o, ks = done ++ todo ->
            (forall a, In a acc_s <-> In a seen \/ In a (scope c) \/ In a (flat_map vars done)) ->
            Forall2 (fun cs cp => fst cs = fst cp /\ parent_sep_spec (snd cp) (fst cs) (snd cs)) acc_o ((c, p) :: flat_map (with_parent (scope c)) done) ->
            Forall2 (fun cs cp => fst cs = fst cp /\ parent_sep_spec (snd cp) (fst cs) (snd cs)) (snd (walk_kids todo (acc_s, acc_o))) ((c, p) :: flat_map (with_parent (scope c)) ks)).
  { intros done todo. revert done. induction todo as [|k r IHr]; intros done acc_s acc_o E SA FO.
    - simpl. rewrite app_nil_r in E. subst done. exact FO.
    - rewrite walk_kids_cons. simpl fst. simpl snd.
      assert (Hk : In k ks) by (rewrite E; apply in_app_iff; right; now left).
      assert (OTk : one_top (scope c) k) by (eapply one_top_inherit; eauto).
      assert (Fk : Forall2 (fun cs cp => fst cs = fst cp /\ parent_sep_spec (snd cp) (fst cs) (snd cs)) (snd (mle_walk acc_s k)) (with_parent (scope c) k)).
      { rewrite Forall_forall in IH. apply (IH k Hk (scope c) acc_s OTk).
        - intros a Ha. apply SA. tauto.
        - intros a Ha Va. apply SA in Ha. destruct Ha as [Ha|[Ha|Ha]]; auto.
          + (* seen before the whole subtree: then in p, hence at the root c *)
            assert (Vt : In a (vars (Node c ks))) by (eapply in_vars_kid; eauto).
            apply (parent_attr_at_root p c ks a OT (SV a Ha Vt) Vt).
          + (* in an earlier sibling *)
            apply in_flat_map in Ha. destruct Ha as [k0 [Hk0 Va0]]. apply in_split in Hk0. destruct Hk0 as [d1 [d2 Ed]].
            apply (siblings_share_parent p c ks k0 k d1 d2 r a OT); auto. rewrite E, Ed. rewrite <- app_assoc. reflexivity. }
      apply (IHr (done ++ [k])).
      + rewrite E, <- app_assoc. reflexivity.
      + intros a. rewrite seen_after, SA, flat_map_app, in_app_iff. simpl. rewrite app_nil_r. tauto.
      + rewrite flat_map_app. simpl. rewrite app_nil_r. rewrite app_comm_cons. apply Forall2_app; assumption. }
  apply (G [] ks (seen ++ scope c) [(c, inter (scope c) seen)]); auto.
  - intros a. rewrite in_app_iff. simpl. tauto.
  - simpl. constructor; [|constructor]. split; [reflexivity|exact HEAD]. Qed.

(* at the root: nothing has been seen, the first separator is empty *)
Corollary mle_separators_are_parent_separators t : (forall a, length (tops a [] t) <= 1) ->
  Forall2 (fun cs cp => fst cs = fst cp /\ parent_sep_spec (snd cp) (fst cs) (snd cs)) (snd (mle_walk [] t)) (with_parent [] t).
Proof. intros H. apply mle_walk_separators.
  - intros a. simpl. rewrite Nat.add_0_r. apply H.
  - intros a [].
  - intros a []. Qed.
(* the cliques are visited in the tree's preorder *)
Lemma mle_walk_order : forall t seen, map fst (snd (mle_walk seen t)) = nodes t.
Proof. induction t as [c ks IH] using rt_ind'. intros seen. rewrite mle_walk_node. simpl nodes.
  assert (G : forall l acc, Forall (fun k => forall seen, map fst (snd (mle_walk seen k)) = nodes k) l ->
              map fst (snd (walk_kids l acc)) = map fst (snd acc) ++ flat_map nodes l).
  { induction l as [|k r IHr]; intros acc F. simpl. now rewrite app_nil_r. inversion F as [|? ? Hk Hr]; subst.
    rewrite walk_kids_cons, IHr by assumption. simpl snd. rewrite map_app, Hk, <- app_assoc. reflexivity. }
  rewrite G by exact IH. reflexivity. Qed.
End MleSep.
