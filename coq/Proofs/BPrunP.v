(* C01, layer 1: the division-based run of Model/BP.v over ANY valid schedule produces beliefs
   psi_c * prod_k M(k,c) for the true (Shafer-Shenoy) messages M — zero entries included.
   Invariants: (H1) support containment, (H2) exactness wherever the reverse true message is non-zero. *)
From Coq Require Import List Arith Lia Bool FunctionalExtensionality.
Import ListNotations.
Require Import PGM.Base.Alg PGM.Base.Sums PGM.Model.BP.

Section Run.
Variable R : SF.
Notation K := (car R).
Notation zero := (zero R). Notation one := (one R). Notation add := (add R). Notation mul := (mul R).
Notation div := (div R). Notation eqz := (eqz R).
Variable shape : nat -> nat.
Variable D : list nat.
Variable ncl : nat.
Variable scope : nat -> list nat.
Variable nbrs : nat -> list nat.
Variable psi : nat -> tbl R.
Notation tbl := (tbl R).
Notation sum_vars := (@sum_vars R shape).
Notation valid := (valid shape).
Notation trie := (@trie R).
Notation lk := (@lk R D).
Notation mat := (@mat R shape D).
Notation st := (@st R).
Notation bel := (@bel R D).
Notation step := (@step R shape D scope).
Notation init := (@init R shape D ncl psi).
Notation elimv := (elimv scope).
Notation sdiv := (@sdiv R).

Hypothesis nbrs_nodup : forall c, NoDup (nbrs c).
Hypothesis nbrs_sym : forall i j, In j (nbrs i) -> In i (nbrs j).
Hypothesis nbrs_lt : forall i j, In j (nbrs i) -> j < ncl.
Hypothesis psi_dep : forall c, dep_on D (psi c).

(* ---------- materialisation ---------- *)
Definition over (Dl : list nat) (x base : asg) : asg := fun a => if memb a Dl then x a else base a.
Lemma look_build : forall Dl (f : tbl) base x, (forall a, In a Dl -> x a < shape a) ->
  @look R Dl (@build R shape Dl f base) x = f (over Dl x base).
Proof. induction Dl as [|a r IH]; intros f base x H; simpl.
  - f_equal.
  - rewrite nth_error_map.
    assert (L : x a < shape a) by (apply H; now left).
    assert (E : nth_error (seq 0 (shape a)) (x a) = Some (x a)).
    { rewrite nth_error_nth' with (d := 0) by (now rewrite seq_length). now rewrite seq_nth. }
    rewrite E. simpl. rewrite IH by (intros; apply H; now right). f_equal.
    extensionality b. unfold over, memb. simpl. destruct (Nat.eqb_spec b a) as [->|N]; simpl.
    + destruct (existsb (Nat.eqb a) r); auto. apply upd_eq.
    + destruct (existsb (Nat.eqb b) r); auto. now apply upd_neq. Qed.
Lemma mat_ok (f : tbl) x : dep_on D f -> valid x -> lk (mat f) x = f x.
Proof. intros Df V. unfold BP.lk, BP.mat. rewrite look_build by (intros; apply V).
  apply Df. intros a Ha. unfold over. now rewrite (proj2 (memb_In a D) Ha). Qed.
Lemma lk_dep (t : trie) : dep_on D (lk t).
Proof. unfold BP.lk. generalize D. intros Dl. revert t. induction Dl as [|a r IH]; intros t x y H; destruct t; simpl; auto.
  rewrite (H a) by now left. destruct (nth_error l (y a)); auto. apply IH. intros; apply H; now right. Qed.

Lemma dep_on_sum_vars l (f : tbl) S : dep_on S f -> dep_on S (sum_vars l f).
Proof. revert f. induction l as [|a r IH]; simpl; intros f H; auto. apply IH. intros x y E. unfold sum_var.
  apply sumn_ext. intros v _. apply H. intros b Hb. unfold upd. destruct (Nat.eqb b a); auto. Qed.

(* ---------- true (Shafer-Shenoy) messages: any family satisfying the recursion ---------- *)
Definition prodl (l : list K) : K := fold_right mul one l.
Variable M : nat -> nat -> tbl.
Definition F (i j : nat) : tbl := fun y => mul (psi i y) (prodl (map (fun k => M k i y) (others j (nbrs i)))).
Hypothesis M_rec : forall i j, In j (nbrs i) -> forall x, M i j x = sum_vars (elimv i j) (F i j) x.
Hypothesis M_indep : forall i j a, ~ In a (scope i) -> @indep R a (M i j).

Lemma sumn_zero_all n (f : nat -> K) : @sumn R n f = zero -> forall i, i < n -> f i = zero.
Proof. induction n; simpl; intros H i Hi; [lia|]. apply zero_sum_free in H. destruct H as [H1 H2].
  destruct (Nat.eq_dec i n) as [->|N]; auto. apply IHn; auto; lia. Qed.
Lemma sum_vars_zero_all l : forall (f : tbl) x, sum_vars l f x = zero ->
  forall y, agree_out l x y -> inrange shape l y -> f y = zero.
Proof. induction l as [|z r IH]; simpl; intros f x H y Hy Ry.
  - assert (y = x) as -> by (extensionality a; apply Hy; intros []). exact H.
  - specialize (IH (@sum_var R shape z f) x H).
    destruct (in_dec Nat.eq_dec z r) as [Zr|Zr].
    + assert (E : @sum_var R shape z f y = zero).
      { apply IH. intros a Ha. apply Hy. simpl. intros [<-|H']; auto. intros a Ha. apply Ry. now right. }
      unfold sum_var in E. pose proof (sumn_zero_all _ _ E _ (Ry z (or_introl eq_refl))) as E'.
      simpl in E'. now rewrite upd_same in E'.
    + set (y' := upd y z (x z)).
      assert (E : @sum_var R shape z f y' = zero).
      { apply IH.
        - intros a Ha. unfold y', upd. destruct (Nat.eqb_spec a z) as [->|N]; auto. apply Hy. simpl. intros [E0|H']; auto.
        - intros a Ha. unfold y', upd. destruct (Nat.eqb_spec a z) as [->|N]. contradiction. apply Ry. now right. }
      unfold sum_var in E. pose proof (sumn_zero_all _ _ E _ (Ry z (or_introl eq_refl))) as E'.
      simpl in E'. replace (upd y' z (y z)) with y in E'; auto.
      extensionality b. unfold y', upd. destruct (Nat.eqb_spec b z); subst; auto.
Qed.

Lemma prodl_zero l : prodl l = zero -> exists a, In a l /\ a = zero.
Proof. induction l as [|a l IH]; simpl; intros H. now contradiction (one_neq_zero R).
  apply no_zero_div in H. destruct H as [H|H]. exists a; auto. destruct (IH H) as [b [Hb Eb]]. exists b; auto. Qed.
Lemma prodl_has_zero l a : In a l -> a = zero -> prodl l = zero.
Proof. induction l as [|b l IH]; simpl; intros H E; [contradiction|]. destruct H as [->|H]; subst. apply mul_0_l. rewrite IH; auto. apply mul_0_r. Qed.
Lemma others_in j l k : In k (others j l) <-> In k l /\ k <> j.
Proof. unfold others. rewrite filter_In. rewrite negb_true_iff, Nat.eqb_neq. tauto. Qed.
Lemma prodl_split (g : nat -> K) j l : NoDup l -> In j l ->
  prodl (map g l) = mul (g j) (prodl (map g (others j l))).
Proof. induction l as [|a l IH]; simpl; intros ND Hj. contradiction.
  inversion ND; subst. destruct Hj as [->|Hj].
  - rewrite Nat.eqb_refl. simpl. f_equal. f_equal. f_equal.
    unfold others. symmetry. rewrite <- (filter_ext_in (fun _ => true)).
    2:{ intros k Hk. symmetry. apply negb_true_iff, Nat.eqb_neq. intros ->. contradiction. }
    clear. induction l; simpl; auto. now f_equal.
  - destruct (Nat.eqb_spec a j) as [->|N]. contradiction. simpl.
    rewrite (IH H2 Hj). rewrite !mul_assoc. f_equal. apply mul_comm. Qed.

(* ---------- invariant ---------- *)
Definition msg_of (s : st) (k c : nat) : tbl := match getm (k, c) (sent s) with Some m => lk m | None => fun _ => one end.
Record Inv (s : st) (done : list (nat * nat)) : Prop := {
  I0 : forall e, getm e (sent s) = None <-> ~ In e done;
  IL : length (belt s) = ncl;
  I1 : forall c x, c < ncl -> valid x -> bel s c x = mul (psi c x) (prodl (map (fun k => msg_of s k c x) (nbrs c)));
  H1 : forall i j m, getm (i, j) (sent s) = Some m -> forall x, valid x -> M i j x = zero -> lk m x = zero;
  H2 : forall i j m, getm (i, j) (sent s) = Some m -> forall x, valid x -> M j i x <> zero -> lk m x = M i j x }.

Definition vstep (done : list (nat * nat)) (e : nat * nat) :=
  In (snd e) (nbrs (fst e)) /\ ~ In e done /\ forall k, In k (nbrs (fst e)) -> k <> snd e -> In (k, fst e) done.

Lemma nth_map_seq (A : Type) (g : nat -> A) n c d : c < n -> nth c (map g (seq 0 n)) d = g c.
Proof. intros H. rewrite (nth_indep _ d (g 0)) by (now rewrite map_length, seq_length).
  rewrite map_nth. now rewrite seq_nth. Qed.

Lemma init_inv : Inv init [].
Proof. constructor; simpl; intros.
  - tauto.
  - now rewrite map_length, seq_length.
  - unfold BP.bel. simpl. rewrite nth_map_seq by assumption. rewrite mat_ok by auto.
    unfold msg_of. simpl. assert (E : forall l, prodl (map (fun _ : nat => one) l) = one).
    { induction l; simpl; auto. now rewrite IHl, mul_1_l. } now rewrite E, mul_1_r.
  - discriminate.
  - discriminate. Qed.

Lemma M_zero_F i j y : In j (nbrs i) -> valid y -> M i j y = zero -> F i j y = zero.
Proof. intros Hj V E. rewrite M_rec in E by assumption.
  destruct (self_fibre (elimv i j) V) as [A Rg]. exact (sum_vars_zero_all (elimv i j) (F i j) y E y A Rg). Qed.

Lemma edge_eqb_spec e e' : edge_eqb e e' = true <-> e = e'.
Proof. destruct e, e'. unfold edge_eqb. simpl. rewrite andb_true_iff, !Nat.eqb_eq. split. intros [-> ->]; auto. intros E; inversion E; auto. Qed.
Lemma getm_eq e l (m : trie) : getm e ((e, m) :: l) = Some m.
Proof. simpl. now rewrite (proj2 (edge_eqb_spec e e) eq_refl). Qed.
Lemma getm_neq e e' l (m : trie) : e' <> e -> getm e ((e', m) :: l) = getm e l.
Proof. intros N. simpl. destruct (edge_eqb e' e) eqn:E; auto. apply edge_eqb_spec in E. contradiction. Qed.

Section Step.
Variables (s : st) (done : list (nat * nat)) (i j : nat).
Hypothesis INV : Inv s done.
Hypothesis Hj : In j (nbrs i).
Hypothesis Hnew : ~ In (i, j) done.
Hypothesis Hdeps : forall k, In k (nbrs i) -> k <> j -> In (k, i) done.

Let Hi : i < ncl. Proof. apply (nbrs_lt j i). now apply nbrs_sym. Qed.
Let G : tbl := fun y => mul (psi i y) (prodl (map (fun k => msg_of s k i y) (others j (nbrs i)))).
Let tau : tbl := match getm (j, i) (sent s) with Some m => fun x => sdiv (bel s i x) (lk m x) | None => bel s i end.

Lemma sent_dep k : In k (others j (nbrs i)) -> exists mk, getm (k, i) (sent s) = Some mk.
Proof. intros Hk. apply others_in in Hk. destruct Hk as [Hk N].
  destruct (getm (k, i) (sent s)) eqn:E. eauto. apply (I0 _ _ INV) in E. exfalso. apply E. now apply Hdeps. Qed.

Lemma bel_i y : valid y -> bel s i y = mul (msg_of s j i y) (G y).
Proof. intros V. rewrite (I1 _ _ INV) by auto. rewrite (prodl_split (fun k => msg_of s k i y) j (nbrs i) (nbrs_nodup i) Hj).
  unfold G. rewrite !mul_assoc. f_equal. apply mul_comm. Qed.

Lemma tau_cases y : valid y -> tau y = G y \/ tau y = zero.
Proof. intros V. unfold tau. pose proof (bel_i y V) as B. unfold msg_of in B. destruct (getm (j, i) (sent s)) as [m|].
  - unfold BP.sdiv. destruct (eqz (lk m y)) eqn:E.
    + right. apply eqz_spec in E. rewrite B, E. apply mul_0_l.
    + left. rewrite B. rewrite (mul_comm R (lk m y)). apply div_mul. intro Z. apply eqz_spec in Z. congruence.
  - left. rewrite B. apply mul_1_l. Qed.

Lemma tau_nz y : valid y -> (forall m, getm (j, i) (sent s) = Some m -> lk m y <> zero) -> tau y = G y.
Proof. intros V H. unfold tau. pose proof (bel_i y V) as B. unfold msg_of in B. destruct (getm (j, i) (sent s)) as [m|].
  - unfold BP.sdiv. destruct (eqz (lk m y)) eqn:E.
    + apply eqz_spec in E. exfalso. now apply (H m).
    + rewrite B. rewrite (mul_comm R (lk m y)). apply div_mul. intro Z. apply eqz_spec in Z. congruence.
  - rewrite B. apply mul_1_l. Qed.

Lemma claimA y : valid y -> F i j y = zero -> G y = zero.
Proof. intros V E. unfold F in E. apply no_zero_div in E. destruct E as [E|E].
  - unfold G. rewrite E. apply mul_0_l.
  - apply prodl_zero in E. destruct E as [a [Ha Ea]]. apply in_map_iff in Ha. destruct Ha as [k [<- Hk]].
    destruct (sent_dep k Hk) as [mk Emk]. pose proof (H1 _ _ INV _ _ _ Emk _ V Ea) as Z.
    unfold G. rewrite (prodl_has_zero _ (msg_of s k i y)). apply mul_0_r.
    + apply in_map_iff. exists k. split; auto.
    + unfold msg_of. now rewrite Emk. Qed.

Lemma claimB y : valid y -> M j i y <> zero -> tau y = F i j y.
Proof. intros V NZ.
  destruct (eqz (F i j y)) eqn:EF.
  - apply eqz_spec in EF. rewrite EF. destruct (tau_cases y V) as [T|T]; rewrite T; auto. now apply claimA.
  - assert (FNZ : F i j y <> zero) by (intro Z; apply eqz_spec in Z; congruence).
    assert (EX : forall k, In k (others j (nbrs i)) -> msg_of s k i y = M k i y).
    { intros k Hk. destruct (sent_dep k Hk) as [mk Emk]. unfold msg_of. rewrite Emk.
      apply (H2 _ _ INV _ _ _ Emk _ V). intro Z.
      apply others_in in Hk. destruct Hk as [Hk N].
      pose proof (M_zero_F _ _ _ Hk V Z) as FZ. unfold F in FZ.
      apply FNZ. unfold F. apply no_zero_div in FZ. destruct FZ as [FZ|FZ].
      - rewrite FZ. apply mul_0_l.
      - apply prodl_zero in FZ. destruct FZ as [a [Ha Ea]]. apply in_map_iff in Ha. destruct Ha as [k' [<- Hk']].
        apply others_in in Hk'. destruct Hk' as [Hk' N'].
        destruct (Nat.eq_dec k' j) as [->|NJ]. contradiction.
        rewrite (prodl_has_zero _ (M k' i y)). apply mul_0_r.
        + apply in_map_iff. exists k'. split; auto. apply others_in. auto.
        + exact Ea. }
    assert (GF : G y = F i j y).
    { unfold G, F. f_equal. f_equal. apply map_ext_in. exact EX. }
    rewrite <- GF. apply tau_nz; auto. intros m Em.
    assert (MNZ : M i j y <> zero). { intro Z. apply FNZ. now apply M_zero_F. }
    rewrite (H2 _ _ INV _ _ _ Em _ V MNZ). exact NZ. Qed.

Lemma tau_dep : dep_on D tau.
Proof. unfold tau. destruct (getm (j, i) (sent s)) as [m|].
  - intros x y E. f_equal; [apply lk_dep|apply lk_dep]; auto.
  - apply lk_dep. Qed.

Definition m_new : trie := mat (sum_vars (elimv i j) tau).
Lemma m_new_val x : valid x -> lk m_new x = sum_vars (elimv i j) tau x.
Proof. intros V. unfold m_new. apply mat_ok; auto. apply dep_on_sum_vars, tau_dep. Qed.

Lemma new_H1 x : valid x -> M i j x = zero -> lk m_new x = zero.
Proof. intros V E. rewrite m_new_val by auto. apply sum_vars_all_zero. intros y A Rg.
  pose proof (valid_fibre V A Rg) as Vy.
  rewrite M_rec in E by assumption. pose proof (sum_vars_zero_all (elimv i j) (F i j) x E y A Rg) as FZ.
  destruct (tau_cases y Vy) as [T|T]; rewrite T; auto. now apply claimA. Qed.

Lemma elimv_notin a : In a (elimv i j) -> ~ In a (scope j).
Proof. unfold BP.elimv. rewrite diff_In. tauto. Qed.

Lemma new_H2 x : valid x -> M j i x <> zero -> lk m_new x = M i j x.
Proof. intros V NZ. rewrite m_new_val by auto. rewrite M_rec by assumption. apply sum_vars_ext_on. intros y A Rg.
  apply claimB. exact (valid_fibre V A Rg).
  rewrite (@indep_agree R (elimv i j) (M j i) x y); auto. intros a Ha. apply M_indep. now apply elimv_notin. Qed.
End Step.

Lemma edge_dec (e e' : nat * nat) : {e = e'} + {e <> e'}.
Proof. decide equality; apply Nat.eq_dec. Qed.

Lemma step_sent s i j : sent (step s (i, j)) = ((i, j), m_new s i j) :: sent s.
Proof. reflexivity. Qed.
Lemma replace_length (A : Type) n (x : A) l : length (replace n x l) = length l.
Proof. revert n. induction l; destruct n; simpl; auto. Qed.
Lemma replace_nth_same (A : Type) n (x d : A) l : n < length l -> nth n (replace n x l) d = x.
Proof. revert n. induction l; destruct n; simpl; intros; try lia; auto. apply IHl. lia. Qed.
Lemma replace_nth_other (A : Type) n c (x d : A) l : c <> n -> nth c (replace n x l) d = nth c l d.
Proof. revert n c. induction l; destruct n, c; simpl; intros; auto; try lia. Qed.
Lemma step_bel_other s i j c : c <> j -> bel (step s (i, j)) c = bel s c.
Proof. intros N. unfold BP.bel. simpl. now rewrite replace_nth_other. Qed.
Lemma step_bel_same s i j x : j < length (belt s) -> valid x -> bel (step s (i, j)) j x = mul (bel s j x) (lk (m_new s i j) x).
Proof. intros L V. unfold BP.bel at 1. simpl. rewrite replace_nth_same by assumption.
  rewrite mat_ok; auto. intros y z E. f_equal; apply lk_dep; auto. Qed.

Lemma msg_of_step_other s i j k c : (k, c) <> (i, j) -> msg_of (step s (i, j)) k c = msg_of s k c.
Proof. intros N. unfold msg_of. rewrite step_sent. rewrite getm_neq; auto. Qed.
Lemma msg_of_step_same s i j : msg_of (step s (i, j)) i j = lk (m_new s i j).
Proof. unfold msg_of. rewrite step_sent. now rewrite getm_eq. Qed.

Lemma step_inv s done i j : Inv s done -> vstep done (i, j) -> Inv (step s (i, j)) ((i, j) :: done).
Proof. intros INV [Hj [Hnew Hdeps]]. simpl in Hj, Hnew, Hdeps. constructor.
  - intros e. rewrite step_sent. destruct (edge_dec (i, j) e) as [<-|N].
    + rewrite getm_eq. split. discriminate. intros H. exfalso. apply H. now left.
    + rewrite getm_neq by assumption. rewrite (I0 _ _ INV). simpl. tauto.
  - simpl. rewrite replace_length. apply (IL _ _ INV).
  - intros c x Hc Vx. destruct (Nat.eq_dec c j) as [->|N].
    + rewrite step_bel_same by (auto; rewrite (IL _ _ INV); auto).
      rewrite (I1 _ _ INV) by auto. pose proof (nbrs_sym _ _ Hj) as Hi.
      rewrite (prodl_split (fun k => msg_of s k j x) i (nbrs j) (nbrs_nodup j) Hi).
      rewrite (prodl_split (fun k => msg_of (step s (i, j)) k j x) i (nbrs j) (nbrs_nodup j) Hi).
      rewrite msg_of_step_same.
      assert (E1 : msg_of s i j x = one).
      { unfold msg_of. destruct (getm (i, j) (sent s)) eqn:E; auto. exfalso.
        assert (getm (i, j) (sent s) <> None) by congruence. apply H. apply (I0 _ _ INV). exact Hnew. }
      rewrite E1, mul_1_l.
      assert (E2 : map (fun k => msg_of (step s (i, j)) k j x) (others i (nbrs j)) = map (fun k => msg_of s k j x) (others i (nbrs j))).
      { apply map_ext_in. intros k Hk. apply others_in in Hk. rewrite msg_of_step_other; auto. intros E. injection E as ->. now destruct Hk. }
      rewrite E2. rewrite <- !mul_assoc. f_equal. apply mul_comm.
    + rewrite step_bel_other by assumption. rewrite (I1 _ _ INV) by auto. f_equal. f_equal. apply map_ext_in. intros k Hk. rewrite msg_of_step_other; auto.
      intros E. injection E as -> ->. now apply N.
  - intros i0 j0 m Em x V Z. rewrite step_sent in Em. destruct (edge_dec (i, j) (i0, j0)) as [E|N].
    + injection E as <- <-. rewrite getm_eq in Em. injection Em as <-. now apply (new_H1 s done i j INV Hj Hdeps).
    + rewrite getm_neq in Em by assumption. exact (H1 _ _ INV _ _ _ Em _ V Z).
  - intros i0 j0 m Em x V Z. rewrite step_sent in Em. destruct (edge_dec (i, j) (i0, j0)) as [E|N].
    + injection E as <- <-. rewrite getm_eq in Em. injection Em as <-. now apply (new_H2 s done i j INV Hj Hdeps).
    + rewrite getm_neq in Em by assumption. exact (H2 _ _ INV _ _ _ Em _ V Z).
Qed.

Fixpoint valid_sched (done : list (nat * nat)) (sch : list (nat * nat)) : Prop :=
  match sch with [] => True | e :: r => vstep done e /\ valid_sched (e :: done) r end.
Notation run := (@run R shape D scope).

Lemma run_inv sch : forall s done, Inv s done -> valid_sched done sch -> Inv (run sch s) (rev sch ++ done).
Proof. induction sch as [|[i j] r IH]; simpl; intros s done INV V. exact INV.
  destruct V as [V1 V2]. rewrite <- app_assoc. simpl. apply IH; auto. now apply step_inv. Qed.

(* once every directed edge has been sent, the belief of each node is psi * product of the TRUE messages *)
Theorem run_beliefs sch : valid_sched [] sch ->
  (forall c k, In k (nbrs c) -> In (k, c) sch) ->
  forall c x, c < ncl -> valid x ->
  bel (run sch init) c x = mul (psi c x) (prodl (map (fun k => M k c x) (nbrs c))).
Proof. intros V ALL c x Hc Vx. pose proof (run_inv sch init [] init_inv V) as INV. rewrite app_nil_r in INV.
  set (s := run sch init) in *. rewrite (I1 _ _ INV) by auto.
  assert (SENT : forall k, In k (nbrs c) -> exists m, getm (k, c) (sent s) = Some m).
  { intros k Hk. destruct (getm (k, c) (sent s)) eqn:E; eauto. apply (I0 _ _ INV) in E. exfalso. apply E. apply in_rev. rewrite rev_involutive. now apply ALL. }
  destruct (eqz (mul (psi c x) (prodl (map (fun k => M k c x) (nbrs c))))) eqn:EB.
  - apply eqz_spec in EB. rewrite EB. apply no_zero_div in EB. destruct EB as [EB|EB].
    + rewrite EB. apply mul_0_l.
    + apply prodl_zero in EB. destruct EB as [a [Ha Ea]]. apply in_map_iff in Ha. destruct Ha as [k [<- Hk]].
      destruct (SENT k Hk) as [m Em]. rewrite (prodl_has_zero _ (msg_of s k c x)). apply mul_0_r.
      apply in_map_iff. exists k; auto. unfold msg_of. rewrite Em. exact (H1 _ _ INV _ _ _ Em _ Vx Ea).
  - assert (BNZ : mul (psi c x) (prodl (map (fun k => M k c x) (nbrs c))) <> zero) by (intro Z; apply eqz_spec in Z; congruence).
    f_equal. f_equal. apply map_ext_in. intros k Hk. destruct (SENT k Hk) as [m Em]. unfold msg_of. rewrite Em.
    apply (H2 _ _ INV _ _ _ Em _ Vx). intro Z. apply BNZ.
    pose proof (M_zero_F c k x Hk Vx Z) as FZ. unfold F in FZ.
    rewrite (prodl_split (fun k0 => M k0 c x) k (nbrs c) (nbrs_nodup c) Hk).
    rewrite (mul_comm R (M k c x)), mul_assoc, FZ. apply mul_0_l. Qed.
End Run.
