(* The junction-tree factorisation (used by GraphicalModel.mle, and behind calculate_many_marginals / synthetic_data):
   for locally consistent clique tables mu_c on a junction tree, the potentials  psi_c = mu_c / (mu_c summed onto the separator with
   the parent)  (psi_root = mu_root; guarded division x/0 := x as in the code) define a joint whose marginal on EVERY clique is mu_c.
   Proved over any zero-sum-free semifield, zeros included, for every rooting of the tree that satisfies the recursive
   running-intersection predicate `good` (the one C01 evaluates on the code's trees). *)
From Coq Require Import List Arith Lia Bool FunctionalExtensionality.
Import ListNotations.
Require Import PGM.Base.Alg PGM.Base.Sums PGM.Model.BP PGM.Proofs.JTP.

Section MLE.
Variable F : SF.
Notation K := (car F).
Notation zero := (zero F). Notation one := (one F). Notation add := (add F). Notation mul := (mul F).
Variable shape : nat -> nat.
Variable scope : nat -> list nat.
Variable mu : nat -> tbl F.
Variable par : nat -> option nat.
Hypothesis mu_dep : forall c a, ~ In a (scope c) -> @indep F a (mu c).
Notation sum_vars := (@sum_vars F shape).
Notation sum_var := (@sum_var F shape).
Notation sdiv := (@sdiv F).
Notation valid := (@valid shape).

(* ---- scalars ---- *)
Lemma sdiv_zero_l b : sdiv zero b = zero.
Proof. unfold BP.sdiv. destruct (eqz F b) eqn:E; auto.
  assert (N : b <> zero) by (intro Z; apply eqz_spec in Z; congruence).
  rewrite <- (mul_0_l F b) at 1. now apply div_mul. Qed.
Lemma sdiv_self s : s <> zero -> sdiv s s = one.
Proof. intros N. unfold BP.sdiv. destruct (eqz F s) eqn:E. apply eqz_spec in E; congruence.
  rewrite <- (mul_1_l F s) at 1. now apply div_mul. Qed.
Lemma sdiv_add a1 a2 b : sdiv (add a1 a2) b = add (sdiv a1 b) (sdiv a2 b).
Proof. unfold BP.sdiv. destruct (eqz F b) eqn:E; auto.
  assert (N : b <> zero) by (intro Z; apply eqz_spec in Z; congruence).
  rewrite <- (mul_div F a1 N) at 1. rewrite <- (mul_div F a2 N) at 1. rewrite <- distr_r. now apply div_mul. Qed.
Lemma sdiv_mul_cancel a b : (b = zero -> a = zero) -> mul (sdiv a b) b = a.
Proof. intros H. unfold BP.sdiv. destruct (eqz F b) eqn:E.
  - apply eqz_spec in E. rewrite (H E), E. apply mul_0_l.
  - apply mul_div. intro Z. apply eqz_spec in Z. congruence. Qed.

(* ---- sums ---- *)
Lemma sumn_sdiv n f b : sumn F n (fun v => sdiv (f v) b) = sdiv (sumn F n f) b.
Proof. induction n; simpl. symmetry; apply sdiv_zero_l. now rewrite IHn, sdiv_add. Qed.
Lemma sum_var_sdiv a (f g : tbl F) : @indep F a g -> forall x, sum_var a (fun y => sdiv (f y) (g y)) x = sdiv (sum_var a f x) (g x).
Proof. intros H x. unfold Sums.sum_var. rewrite <- sumn_sdiv. apply sumn_ext. intros v _. now rewrite H. Qed.
Lemma sum_vars_sdiv l : forall (f g : tbl F), @indep_l F l g -> forall x, sum_vars l (fun y => sdiv (f y) (g y)) x = sdiv (sum_vars l f x) (g x).
Proof. induction l as [|a l IH]; intros f g H x; simpl. reflexivity.
  replace (sum_var a (fun y => sdiv (f y) (g y))) with (fun y => sdiv (sum_var a f y) (g y)).
  - apply IH. intros b Hb. apply H. now right.
  - extensionality y. symmetry. apply sum_var_sdiv. apply H. now left. Qed.
Lemma sumn_zero_term n f : sumn F n f = zero -> forall v, v < n -> f v = zero.
Proof. induction n; simpl; intros H v Hv. lia. apply zero_sum_free in H. destruct H as [H1 H2].
  destruct (Nat.eq_dec v n) as [->|N]; auto. apply IHn; auto. lia. Qed.
Lemma sum_vars_zero_term l : forall (f : tbl F) x, sum_vars l f x = zero -> valid x -> f x = zero.
Proof. induction l as [|a l IH]; simpl; intros f x H V. exact H.
  pose proof (IH _ _ H V) as H1. unfold Sums.sum_var in H1. pose proof (sumn_zero_term _ _ H1 (x a) (V a)) as H2.
  cbv beta in H2. now rewrite upd_same in H2. Qed.

(* ---- products at a point ---- *)
Definition prodK (l : list K) : K := fold_right mul one l.
Lemma prodt_at (A : Type) (f : A -> tbl F) ks x : @prodt F (map f ks) x = prodK (map (fun k => f k x) ks).
Proof. unfold Sums.prodt. induction ks; simpl. reflexivity. unfold tmul at 1. now rewrite IHks. Qed.
Section Absorb.
Variable A : Type.
Variable b : A -> bool.
Variable w : A -> K.
Variables q s : K.
Lemma absorb0 l : (forall e, In e l -> w e = one \/ q = zero) -> mul q (prodK (map w l)) = q.
Proof. induction l as [|e l IH]; intros H; simpl. apply mul_1_r.
  destruct (H e (or_introl eq_refl)) as [E|E].
  - rewrite E, mul_1_l. apply IH. intros; apply H; now right.
  - rewrite E. apply mul_0_l. Qed.
Lemma absorbA l : (forall e, In e l -> if b e then w e = s else (w e = one \/ q = zero)) -> length (filter b l) = 0 -> mul q (prodK (map w l)) = q.
Proof. intros H C. apply absorb0. intros e He. specialize (H e He). destruct (b e) eqn:B; auto.
  exfalso. assert (In e (filter b l)) by (apply filter_In; auto). destruct (filter b l); simpl in *; [tauto|lia]. Qed.
Lemma absorbB l : (forall e, In e l -> if b e then w e = s else (w e = one \/ q = zero)) -> length (filter b l) = 1 -> mul q (prodK (map w l)) = mul q s.
Proof. induction l as [|e l IH]; intros H C; simpl in *. lia.
  pose proof (H e (or_introl eq_refl)) as He. destruct (b e) eqn:B.
  - simpl in C. rewrite He. rewrite (mul_comm F s), mul_assoc. rewrite absorbA. reflexivity. intros e' He'. apply H. now right. lia.
  - destruct He as [E|E]. rewrite E, mul_1_l. apply IH; [intros; apply H; now right | exact C]. rewrite E, !mul_0_l. reflexivity. Qed.
End Absorb.

(* ---- the construction ---- *)
Definition sigma (c p : nat) : tbl F := sum_vars (diff (scope c) (scope p)) (mu c).     (* mu_c summed onto scope c /\ scope p *)
Hypothesis cons : forall c p, par c = Some p -> forall x, valid x -> sigma c p x = sum_vars (diff (scope p) (scope c)) (mu p) x.
Definition psi (c : nat) : tbl F := match par c with None => mu c | Some p => fun x => sdiv (mu c x) (sigma c p x) end.
Definition ind (c p : nat) : tbl F := fun x => sdiv (sigma c p x) (sigma c p x).
(* message from d to its tree-neighbour c: an indicator if c is d's parent, the separator marginal if d is c's parent *)
Definition M (d c : nat) : tbl F :=
  match par d with Some c' => if Nat.eqb c' c then ind d c else sigma c d | None => sigma c d end.

Lemma sigma_indep c p a : ~ In a (scope c) -> @indep F a (sigma c p).
Proof. intros H. apply sum_vars_indep. now apply mu_dep. Qed.
Lemma psi_wf c a : ~ In a (scope c) -> @indep F a (psi c).
Proof. intros H. unfold psi. destruct (par c) as [p|]. intros x v. rewrite (mu_dep c a H x v), (sigma_indep c p a H x v). reflexivity. now apply mu_dep. Qed.
Lemma sigma_zero c p y : valid y -> sigma c p y = zero -> mu c y = zero.
Proof. intros V H. exact (sum_vars_zero_term _ _ _ H V). Qed.
Lemma psi_zero c y : mu c y = zero -> psi c y = zero.
Proof. intros H. unfold psi. destruct (par c); auto. rewrite H. apply sdiv_zero_l. Qed.
(* the indicator of a child e of d is 1 wherever mu_d is non-zero *)
Lemma ind_absorbed e d y : par e = Some d -> valid y -> ind e d y = one \/ mu d y = zero.
Proof. intros P V. destruct (eqz F (sigma e d y)) eqn:E.
  - right. apply eqz_spec in E. rewrite (cons e d P y V) in E. exact (sum_vars_zero_term _ _ _ E V).
  - left. apply sdiv_self. intro Z. apply eqz_spec in Z. congruence. Qed.

(* ---- trees: any rooting of the junction tree, with the parent map `par` of the ORIGINAL rooting (the order in which mle visits
        the cliques) recorded separately ---- *)
Definition rootof (t : rt) : nat := match t with Node c _ => c end.
Definition isroot (g : nat) (k : rt) : bool := Nat.eqb (rootof k) g.
(* q = label of the node above t in the current rooting.  Every tree edge is a par-edge in exactly one direction; the par-parent
   of a node is one of its tree neighbours, exactly once; labels along a path differ *)
Fixpoint oriented (q : option nat) (t : rt) : Prop :=
  match t with Node d ks =>
    match q with None => True | Some c => (par d = Some c /\ par c <> Some d) \/ (par c = Some d /\ par d <> Some c) end
    /\ match par d with None => True | Some g => q = Some g \/ length (filter (isroot g) ks) = 1 end
    /\ match q with Some c => ~ In c (map rootof ks) | None => True end
    /\ (fix ok (l : list rt) : Prop := match l with [] => True | k :: r => oriented (Some d) k /\ ok r end) ks
  end.
Lemma oriented_kids q d ks : oriented q (Node d ks) -> Forall (oriented (Some d)) ks.
Proof. simpl. intros (_ & _ & _ & H). induction ks as [|k r IH]; constructor; destruct H; auto. Qed.

Definition special (d : nat) (e : rt) : bool := match par d with Some g => isroot g e | None => false end.
Lemma child_msg d ks y : valid y -> Forall (oriented (Some d)) ks -> forall e, In e ks ->
  if special d e then M (rootof e) d y = sigma d (rootof e) y else (M (rootof e) d y = one \/ psi d y = zero).
Proof. intros V O e He. rewrite Forall_forall in O. specialize (O e He). destruct e as [re kks]. simpl in O. destruct O as (O1 & _).
  unfold special, isroot. cbn [rootof].
  assert (IA : par re = Some d -> M re d y = one \/ psi d y = zero).
  { intros P. unfold M. rewrite P, Nat.eqb_refl. destruct (ind_absorbed re d y P V) as [A|A]; auto. right. now apply psi_zero. }
  assert (SG : par re <> Some d -> M re d y = sigma d re y).
  { intros P. unfold M. destruct (par re) as [c'|]; auto. destruct (Nat.eqb_spec c' d) as [->|N]; auto. congruence. }
  destruct (par d) as [g|] eqn:Pd.
  - destruct (Nat.eqb_spec re g) as [->|N].
    + destruct O1 as [[_ A]|[_ A]]. congruence. auto.
    + destruct O1 as [[A _]|[A _]]. auto. congruence.
  - destruct O1 as [[A _]|[A _]]. auto. congruence. Qed.

Notation upm := (@up F shape scope psi).
(* value of a node's own potential times the incoming messages of its children in the current rooting *)
Lemma node_value d ks y : valid y -> Forall (oriented (Some d)) ks ->
  let v := mul (psi d y) (prodK (map (fun e => M (rootof e) d y) ks)) in
  match par d with
  | None => v = mu d y
  | Some g => (length (filter (isroot g) ks) = 0 -> v = psi d y) /\ (length (filter (isroot g) ks) = 1 -> v = mu d y)
  end.
Proof. intros V O v. pose proof (child_msg d ks y V O) as CM. unfold special in CM. destruct (par d) as [g|] eqn:Pd.
  - assert (H : forall e, In e ks -> if isroot g e then M (rootof e) d y = sigma d g y else (M (rootof e) d y = one \/ psi d y = zero)).
    { intros e He. specialize (CM e He). revert CM. destruct (isroot g e) eqn:B; intros CM; [|exact CM]. unfold isroot in B. apply Nat.eqb_eq in B. rewrite <- B. exact CM. }
    split; intros C; unfold v.
    + apply (absorbA _ (isroot g) (fun e => M (rootof e) d y) (psi d y) (sigma d g y) ks H C).
    + rewrite (absorbB _ (isroot g) (fun e => M (rootof e) d y) (psi d y) (sigma d g y) ks H C).
      unfold psi. rewrite Pd. apply sdiv_mul_cancel. now apply sigma_zero.
  - unfold v. rewrite absorb0. unfold psi. now rewrite Pd. intros e He. exact (CM e He). Qed.

(* the message a subtree sends upward in the current rooting *)
Theorem msg_spec : forall t c, oriented (Some c) t -> forall x, valid x -> upm (scope c) t x = M (rootof t) c x.
Proof. induction t as [d ks IH] using rt_ind'. intros c O x V. cbn [rootof].
  pose proof (oriented_kids _ _ _ O) as OK. simpl in O. destruct O as (O1 & O2 & O3 & _).
  simpl up.
  (* the integrand at every point of the fibre *)
  assert (INT : forall y, valid y -> tmul (psi d) (@prodt F (map (upm (scope d)) ks)) y = mul (psi d y) (prodK (map (fun e => M (rootof e) d y) ks))).
  { intros y Vy. unfold tmul. f_equal. rewrite prodt_at. f_equal. apply map_ext_in. intros e He.
    rewrite Forall_forall in IH, OK. apply IH; auto. }
  assert (NOc : forall g, g = c -> length (filter (isroot g) ks) = 0).
  { intros g ->. destruct (filter (isroot c) ks) as [|e r] eqn:E; auto. exfalso.
    assert (I : In e (filter (isroot c) ks)) by (rewrite E; now left). apply filter_In in I. destruct I as [I1 I2].
    apply O3. apply in_map_iff. exists e. split; auto. unfold isroot in I2. now apply Nat.eqb_eq in I2. }
  destruct O1 as [[P1 P2]|[P1 P2]].
  - (* c is d's parent: the message is the indicator *)
    unfold M. rewrite P1, Nat.eqb_refl.
    rewrite (@sum_vars_ext_on F shape (diff (scope d) (scope c)) _ (fun y => sdiv (mu d y) (sigma d c y)) x).
    + rewrite sum_vars_sdiv. reflexivity. intros a Ha. apply sum_vars_indep_in. exact Ha.
    + intros y A Rg. pose proof (valid_fibre V A Rg) as Vy. rewrite (INT y Vy).
      pose proof (node_value d ks y Vy OK) as NV. cbv zeta in NV. rewrite P1 in NV. destruct NV as [NV _].
      rewrite (NV (NOc c eq_refl)). unfold psi. now rewrite P1.
  - (* d is c's parent: the message is the separator marginal of mu_c *)
    assert (EM : M d c x = sigma c d x).
    { unfold M. destruct (par d) as [c'|]; auto. destruct (Nat.eqb_spec c' c) as [->|N]; auto. congruence. }
    rewrite EM, (cons c d P1 x V).
    apply sum_vars_ext_on. intros y A Rg. pose proof (valid_fibre V A Rg) as Vy. rewrite (INT y Vy).
    pose proof (node_value d ks y Vy OK) as NV. cbv zeta in NV. destruct (par d) as [g|] eqn:Pd; auto.
    destruct NV as [_ NV]. apply NV. destruct O2 as [Q|Q]; auto. congruence. Qed.

(* MAIN THEOREM.  For every rooting t of the tree that satisfies the running-intersection predicate, summing the joint of the mle
   potentials over everything outside the root clique gives back mu_root - at every valid assignment, zeros included *)
Theorem mle_reproduces d ks : good scope (Node d ks) -> oriented None (Node d ks) -> forall x, valid x ->
  sum_vars (flat_map (elimt scope (scope d)) ks) (jointt F psi (Node d ks)) x = mu d x.
Proof. intros G O x V. rewrite <- (root_belief F shape scope psi psi_wf d ks G).
  pose proof (oriented_kids _ _ _ O) as OK. simpl in O. destruct O as (_ & O2 & _ & _).
  unfold tmul. rewrite prodt_at.
  replace (map (fun k => upm (scope d) k x) ks) with (map (fun e => M (rootof e) d x) ks).
  - pose proof (node_value d ks x V OK) as NV. cbv zeta in NV. destruct (par d) as [g|]; auto.
    destruct NV as [_ NV]. apply NV. destruct O2 as [Q|Q]; auto. discriminate.
  - apply map_ext_in. intros e He. symmetry. rewrite Forall_forall in OK. apply msg_spec; auto. Qed.
End MLE.

(* non-vacuity: the chain ab - bc - cd visited from ab (par bc = ab, par cd = bc), re-rooted at the middle clique, meets the
   structural hypotheses of mle_reproduces *)
Example chain_rerooted_ok :
  let scope := fun c => match c with 0 => [0; 1] | 1 => [1; 2] | _ => [2; 3] end in
  let par := fun c => match c with 1 => Some 0 | 2 => Some 1 | _ => None end in
  let t := Node 1 [Node 0 []; Node 2 []] in
  good scope t /\ oriented par None t.
Proof. cbv zeta. split.
  - apply goodb_good. vm_compute. reflexivity.
  - simpl. repeat split; auto; try (right; split; [reflexivity|discriminate]); try (left; split; [reflexivity|discriminate]); intros []. Qed.
