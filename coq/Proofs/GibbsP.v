From Coq Require Import Reals Lra List.
Import ListNotations.
Open Scope R_scope.

(* ln x <= x - 1 for x > 0 *)
Lemma ln_le_sub1 x : 0 < x -> ln x <= x - 1.
Proof. intros Hx. pose proof (exp_ineq1_le (ln x)) as H. rewrite exp_ln in H by assumption. lra. Qed.

Fixpoint sumR (l : list R) : R := match l with [] => 0 | x :: r => x + sumR r end.
Fixpoint kl (p q : list R) : R :=
  match p, q with a :: p', b :: q' => a * (ln a - ln b) + kl p' q' | _, _ => 0 end.
Fixpoint allpos (l : list R) : Prop := match l with [] => True | x :: r => 0 < x /\ allpos r end.
Fixpoint allnn (l : list R) : Prop := match l with [] => True | x :: r => 0 <= x /\ allnn r end.

Lemma kl_term a b : 0 <= a -> 0 < b -> a - b <= a * (ln a - ln b).
Proof. intros Ha Hb. destruct Ha as [Ha|<-]. 2:{ rewrite Rmult_0_l. lra. }
  assert (H : ln (b / a) <= b / a - 1) by (apply ln_le_sub1; apply Rdiv_lt_0_compat; assumption).
  unfold Rdiv in H at 1. rewrite ln_mult in H; [|assumption|apply Rinv_0_lt_compat; assumption]. rewrite ln_Rinv in H by assumption.
  assert (a * (ln b - ln a) <= a * (b / a - 1)) by (apply Rmult_le_compat_l; lra).
  replace (a * (b / a - 1)) with (b - a) in H0 by (field; lra). lra. Qed.

(* Gibbs: generalised KL with equal (or larger-q) totals is non-negative *)
Lemma gibbs_gen p q : length p = length q -> allnn p -> allpos q -> sumR p - sumR q <= kl p q.
Proof. revert q. induction p as [|a p IH]; intros [|b q] L Hp Hq; simpl in *; try discriminate; try lra.
  destruct Hp as [Ha Hp], Hq as [Hb Hq]. injection L as L.
  pose proof (kl_term a b Ha Hb). pose proof (IH q L Hp Hq). lra. Qed.

Theorem gibbs p q : length p = length q -> allnn p -> allpos q -> sumR p = sumR q -> 0 <= kl p q.
Proof. intros L Hp Hq E. pose proof (gibbs_gen p q L Hp Hq). lra. Qed.

(* entropic mirror step and the three-point identity *)
Fixpoint dot (g w : list R) : R := match g, w with a :: g', b :: w' => a * b + dot g' w' | _, _ => 0 end.
(* Q_i = P_i * exp(-alpha g_i) * c   (c > 0 the normaliser) *)
Fixpoint tilt (alpha c : R) (P g : list R) : list R :=
  match P, g with a :: P', b :: g' => a * exp (- alpha * b) * c :: tilt alpha c P' g' | _, _ => [] end.

Lemma three_point_gen alpha c P g w : 0 < c -> length P = length g -> length w = length g -> allpos P ->
  kl w P - kl w (tilt alpha c P g) = - alpha * dot g w + ln c * sumR w.
Proof. intros Hc. revert g w. induction P as [|a P IH]; intros [|b g] [|x w] L1 L2 HP; simpl in *; try discriminate; try lra.
  destruct HP as [Ha HP]. injection L1 as L1. injection L2 as L2.
  assert (E : ln (a * exp (- alpha * b) * c) = ln a - alpha * b + ln c).
  { rewrite ln_mult; [|apply Rmult_lt_0_compat; [assumption|apply exp_pos]|assumption].
    rewrite ln_mult; [|assumption|apply exp_pos]. rewrite ln_exp. lra. }
  specialize (IH g w L1 L2 HP). rewrite E. lra. Qed.

(* Lyapunov step used by C19: if the step is accepted by   L(P) - L(Q) >= alpha/2 * g.(P0 - Q)
   and Q is the normalised tilt of P, then  L(Q) + KL(P0||Q)/2 <= L(P) + KL(P0||P)/2 - KL(Q||P)/2 *)
Lemma lyapunov alpha c P g P0 (LP LQ : R) :
  let Q := tilt alpha c P g in
  0 < c -> length P = length g -> length P0 = length g -> allpos P ->
  sumR Q = sumR P0 ->
  LP - LQ >= alpha / 2 * (dot g P0 - dot g Q) ->
  LQ + kl P0 Q / 2 <= LP + kl P0 P / 2 - kl Q P / 2.
Proof. intros Q Hc L1 L2 HP HS Hacc.
  pose proof (three_point_gen alpha c P g P0 Hc L1 L2 HP) as T0.
  assert (LQl : length Q = length g).
  { unfold Q. clear -L1. revert g L1. induction P as [|a P IHP]; intros [|b g] L; simpl in *; try discriminate; auto. }
  pose proof (three_point_gen alpha c P g Q Hc L1 LQl HP) as T1. fold Q in T0, T1.
  assert (K : kl Q Q = 0). { clear. induction Q; simpl; lra. }
  rewrite K in T1. rewrite HS in T1. nra. Qed.


(* ---- C19: the fit never gets worse than the start, for ANY loss (convex or not), although the acceptance test uses the stale P0 ---- *)
Lemma kl_self P : kl P P = 0. Proof. induction P; simpl; lra. Qed.
Lemma tilt_length alpha c P g : length P = length g -> length (tilt alpha c P g) = length g.
Proof. revert g. induction P as [|a P IH]; intros [|b g] L; simpl in *; try discriminate; auto. Qed.
Lemma tilt_pos alpha c P g : 0 < c -> allpos P -> allpos (tilt alpha c P g).
Proof. intros Hc. revert g. induction P as [|a P IH]; intros [|b g] HP; simpl in *; auto. destruct HP as [Ha HP]. split; auto.
  apply Rmult_lt_0_compat; auto. apply Rmult_lt_0_compat; auto. apply exp_pos. Qed.
Lemma allpos_nn l : allpos l -> allnn l.
Proof. induction l; simpl; auto. intros [H1 H2]. split; auto. lra. Qed.

Section Public.
Variable P0 : list R.            (* the start: public records weighted uniformly, scaled to the total *)
Variable L0 : R.                 (* its loss *)
Hypothesis P0pos : allpos P0.
(* states reachable by entropic mirror steps accepted by the test  L(P) - L(Q) >= alpha/2 <g, P0 - Q>  (g = gradient at P, P0 stale) *)
Inductive reach : list R -> R -> Prop :=
| r_start : reach P0 L0
| r_step P LP alpha c g LQ : reach P LP -> 0 < c -> length P = length g ->
    sumR (tilt alpha c P g) = sumR P0 ->
    LP - LQ >= alpha / 2 * (dot g P0 - dot g (tilt alpha c P g)) ->
    reach (tilt alpha c P g) LQ.

Lemma reach_inv P LP : reach P LP -> allpos P /\ length P = length P0 /\ sumR P = sumR P0 /\ LP + kl P0 P / 2 <= L0.
Proof. induction 1 as [|P LP alpha c g LQ R IH Hc Lg HS Hacc].
  - repeat split; auto. rewrite kl_self. lra.
  - destruct IH as [PP [LL [SS PH]]]. assert (L2 : length P0 = length g) by congruence.
    pose proof (lyapunov alpha c P g P0 LP LQ Hc Lg L2 PP HS Hacc) as LY.
    assert (QP : allpos (tilt alpha c P g)) by (apply tilt_pos; auto).
    assert (K : 0 <= kl (tilt alpha c P g) P). { apply gibbs; auto. rewrite tilt_length; auto. now apply allpos_nn. congruence. }
    repeat split; auto. rewrite tilt_length; auto. lra. Qed.

Theorem never_worse P LP : reach P LP -> LP <= L0.
Proof. intros H. destruct (reach_inv P LP H) as [PP [LL [SS PH]]].
  assert (0 <= kl P0 P). { apply gibbs; auto. now apply allpos_nn. } lra. Qed.
End Public.
