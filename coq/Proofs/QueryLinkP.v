(* C02/C08: the cached branch of project reads the belief-propagation marginal, which is the brute-force marginal (C01). *)
From Coq Require Import List Arith Lia Bool FunctionalExtensionality Permutation.
Import ListNotations.
Require Import PGM.Base.Alg PGM.Base.Sums PGM.Model.BP PGM.Model.Query PGM.Proofs.BPrunP PGM.Proofs.JTP PGM.Proofs.BPlinkP PGM.Proofs.QueryP.

Section QL.
Variable R : SF.
Variable shape : nat -> nat.
Variable D : list nat.
Variable ncl : nat.
Variable scope : nat -> list nat.
Variable nbrs : nat -> list nat.
Variable psi : nat -> tbl R.
Hypothesis nbrs_nodup : forall c, NoDup (nbrs c).
Hypothesis nbrs_sym : forall i j, In j (nbrs i) -> In i (nbrs j).
Hypothesis nbrs_lt : forall i j, In j (nbrs i) -> j < ncl.
Hypothesis psi_dep : forall c, dep_on D (psi c).
Hypothesis psi_wf : forall c a, ~ In a (scope c) -> @indep R a (psi c).
Hypothesis shape_pos : forall a, 0 < shape a.
Hypothesis D_nodup : NoDup D.
Hypothesis scope_nodup : forall c, c < ncl -> NoDup (scope c).
Hypothesis scope_sub : forall c, c < ncl -> incl (scope c) D.
Variable sch : list (nat * nat).
Hypothesis sch_valid : valid_sched nbrs [] sch.
Hypothesis sch_complete : forall c k, In k (nbrs c) -> In (k, c) sch.
Hypothesis roots_ok : forall c, c < ncl -> rootokb D ncl scope nbrs sch c = true.

Theorem project_cached_correct total c0 c attrs x : c0 < ncl -> c < ncl -> valid shape x -> NoDup attrs -> incl attrs (scope c) ->
  @project_cached R shape (@marginal R shape D ncl scope psi sch total c0 c) (scope c) attrs x = @brute R shape D ncl psi total attrs x.
Proof. intros H0 Hc Vx NA IA.
  rewrite <- (project_cached_brute R shape D ncl psi D_nodup total (scope c) attrs x (scope_nodup c Hc) NA IA (scope_sub c Hc)).
  unfold project_cached. apply sum_vars_ext_on. intros y A Rg.
  apply (bp_exact R shape D ncl scope nbrs psi nbrs_nodup nbrs_sym nbrs_lt psi_dep psi_wf shape_pos D_nodup scope_nodup scope_sub sch sch_valid sch_complete roots_ok total c0 c y H0 Hc).
  exact (@valid_fibre shape _ _ _ Vx A Rg). Qed.

(* the cache is irrelevant: the cached branch and the elimination branch give the same answer *)
Corollary project_cache_irrelevant total c0 c attrs elim x : c0 < ncl -> c < ncl -> valid shape x -> NoDup attrs -> incl attrs (scope c) ->
  (forall c, dep_on (scope c) (psi c)) -> Permutation elim (diff D attrs) ->
  @project_cached R shape (@marginal R shape D ncl scope psi sch total c0 c) (scope c) attrs x = @project_ve R shape ncl scope psi elim attrs total x.
Proof. intros H0 Hc Vx NA IA PD P. rewrite project_cached_correct by auto.
  rewrite (project_ve_correct R shape D ncl scope psi PD D_nodup elim attrs total P NA). reflexivity.
  intros a Ha. apply (scope_sub c Hc). auto. Qed.
End QL.
