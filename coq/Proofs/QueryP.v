(* C02: variable elimination is correct for EVERY elimination order; both branches of project return the
   brute-force marginal (hence the cache is irrelevant); answers sum to the total; krondot is the Kronecker query
   applied to the joint. *)
From Coq Require Import List Arith Lia Bool FunctionalExtensionality Permutation.
Import ListNotations.
Require Import PGM.Base.Alg PGM.Base.Sums PGM.Model.BP PGM.Model.Query PGM.Proofs.BPrunP PGM.Proofs.JTP PGM.Proofs.BPlinkP PGM.Proofs.DomainP.

Section VEP.
Variable R : SR.
Notation K := (car R).
Variable shape : nat -> nat.
Notation vfactor := (vfactor R).
Notation prodf := (@prodf R).
Notation sum_var := (@sum_var R shape).
Notation sum_vars := (@sum_vars R shape).
Notation tmul := (@tmul R).
Definition wf (f : vfactor) := dep_on (fst f) (snd f).

Lemma prodf_app l1 l2 : prodf (l1 ++ l2) = tmul (prodf l1) (prodf l2).
Proof. extensionality x. unfold Query.prodf, Sums.tmul. induction l1; simpl. now rewrite mul_1_l. now rewrite IHl1, mul_assoc. Qed.
Lemma prodf_partition p l : prodf l = tmul (prodf (filter (fun f => negb (p f)) l)) (prodf (filter p l)).
Proof. extensionality x. unfold Query.prodf, Sums.tmul. induction l as [|f l IH]; simpl. now rewrite mul_1_l.
  destruct (p f); simpl; rewrite IH.
  - rewrite !mul_assoc. f_equal. apply mul_comm.
  - now rewrite mul_assoc. Qed.
Lemma wf_nomention z f : wf f -> mentions z f = false -> @indep R z (snd f).
Proof. intros W M x v. apply W. intros a Ha. apply upd_neq. intros ->. apply memb_nIn in M. contradiction. Qed.
Lemma prodf_indep z l : Forall wf l -> (forall f, In f l -> mentions z f = false) -> @indep R z (prodf l).
Proof. intros W M x v. unfold Query.prodf. induction l as [|f l IH]; simpl; auto.
  inversion W; subst. rewrite IH; auto. 2:{ intros; apply M; now right. }
  f_equal. apply wf_nomention; auto. apply M; now left. Qed.

Lemma ve_step_prod z l : Forall wf l -> prodf (ve_step shape z l) = sum_var z (prodf l).
Proof. intros W. unfold ve_step. rewrite prodf_app.
  rewrite (prodf_partition (mentions z) l).
  rewrite sum_var_mul.
  - f_equal. extensionality x. unfold Query.prodf at 1. simpl. apply mul_1_r.
  - apply prodf_indep.
    + apply Forall_forall. intros f Hf. apply filter_In in Hf. rewrite Forall_forall in W. apply W, Hf.
    + intros f Hf. apply filter_In in Hf. destruct Hf as [_ H]. now apply negb_true_iff in H. Qed.

Lemma prodf_dep l : Forall wf l -> dep_on (flat_map fst l) (prodf l).
Proof. intros W x y H. unfold Query.prodf. induction l as [|f l IH]; simpl; auto.
  inversion W; subst. rewrite IH; auto.
  - f_equal. apply H2. intros a Ha. apply H. simpl. apply in_or_app; now left.
  - intros a Ha. apply H. simpl. apply in_or_app; now right. Qed.

Lemma ve_step_wf z l : Forall wf l -> Forall wf (ve_step shape z l).
Proof. intros W. unfold ve_step. apply Forall_app. split.
  - apply Forall_forall. intros f Hf. apply filter_In in Hf. rewrite Forall_forall in W. apply W, Hf.
  - constructor; [|constructor]. unfold wf. simpl. intros x y H.
    unfold Sums.sum_var. apply sumn_ext. intros v _.
    apply prodf_dep.
    + apply Forall_forall. intros f Hf. apply filter_In in Hf. rewrite Forall_forall in W. apply W, Hf.
    + intros a Ha. unfold upd. destruct (Nat.eqb_spec a z); auto.
      apply H. apply filter_In. split; auto. apply negb_true_iff. now apply Nat.eqb_neq. Qed.

(* for EVERY elimination list, with no side condition on the order *)
Theorem ve_correct elim : forall l, Forall wf l -> ve shape elim l = sum_vars elim (prodf l).
Proof. induction elim as [|z r IH]; simpl; intros l W; auto.
  rewrite IH by (now apply ve_step_wf). now rewrite ve_step_prod. Qed.

(* krondot: elimination of every domain attribute from potentials ++ query factors *)
Theorem krondot_correct Dl potsl qs : Forall wf potsl -> Forall wf qs ->
  krondot shape Dl potsl qs = sum_vars Dl (tmul (prodf potsl) (prodf qs)).
Proof. intros W1 W2. unfold krondot. rewrite ve_correct by (apply Forall_app; auto). now rewrite prodf_app. Qed.
End VEP.

Section QP.
Variable R : SF.
Notation K := (car R).
Variable shape : nat -> nat.
Variable D : list nat.
Variable ncl : nat.
Variable scope : nat -> list nat.
Variable psi : nat -> tbl R.
Notation sum_vars := (@sum_vars R shape).
Notation joint := (@joint R ncl psi).
Notation pots := (@pots R ncl scope psi).
Hypothesis psi_dep_scope : forall c, dep_on (scope c) (psi c).
Hypothesis D_nodup : NoDup D.

Lemma pots_wf : Forall (@wf R) pots.
Proof. unfold Query.pots. apply Forall_forall. intros f Hf. apply in_map_iff in Hf. destruct Hf as [c [<- _]]. apply psi_dep_scope. Qed.
Lemma prodf_pots : @prodf R pots = joint.
Proof. extensionality x. unfold Query.pots, Query.prodf, BP.joint, prodt. induction (seq 0 ncl); simpl; auto. unfold tmul. now rewrite IHl. Qed.

Lemma perm_diff_app' S : NoDup S -> incl S D -> Permutation (diff D S ++ S) D.
Proof. intros NS I. apply NoDup_Permutation; auto.
  - apply NoDup_app_disj; auto. unfold diff. now apply NoDup_filter. intros a Ha Hb. apply diff_In in Ha. tauto.
  - intros a. rewrite in_app_iff, diff_In. split. intros [[H _]|H]; auto. intros H. destruct (in_dec Nat.eq_dec a S); auto. Qed.

(* uncached project: any elimination order of the other attributes *)
Theorem project_ve_correct elim attrs total : Permutation elim (diff D attrs) -> NoDup attrs -> incl attrs D ->
  @project_ve R shape ncl scope psi elim attrs total = @brute R shape D ncl psi total attrs.
Proof. intros P NA IA. unfold project_ve, brute. rewrite (@ve_correct R shape elim pots pots_wf), prodf_pots.
  extensionality x. rewrite (@sum_vars_perm R shape _ _ joint P). f_equal. f_equal.
  rewrite <- sum_vars_app. apply (f_equal (fun f => f base0)). apply sum_vars_perm. now apply perm_diff_app'. Qed.

Lemma sum_vars_scale_r l (f : tbl R) k : sum_vars l (fun y => mul R (f y) k) = fun x => mul R (sum_vars l f x) k.
Proof. transitivity (sum_vars l (@tscale R k f)). f_equal. extensionality y. unfold tscale. apply mul_comm.
  rewrite sum_vars_scale. extensionality x. unfold tscale. apply mul_comm. Qed.

Lemma perm_diff_chain S A : NoDup S -> NoDup A -> incl A S -> incl S D -> Permutation (diff D S ++ diff S A) (diff D A).
Proof. intros NS NA IA IS. apply NoDup_Permutation.
  - apply NoDup_app_disj; try (unfold diff; now apply NoDup_filter). intros a Ha Hb. apply diff_In in Ha. apply diff_In in Hb. tauto.
  - unfold diff. now apply NoDup_filter.
  - intros a. rewrite in_app_iff, !diff_In. split.
    + intros [[H1 H2]|[H1 H2]]; split; auto.
    + intros [H1 H2]. destruct (in_dec Nat.eq_dec a S); auto. Qed.

(* cached project: summing the brute-force clique marginal over the attributes not requested *)
Theorem project_cached_brute total cl attrs x : NoDup cl -> NoDup attrs -> incl attrs cl -> incl cl D ->
  @project_cached R shape (@brute R shape D ncl psi total cl) cl attrs x = @brute R shape D ncl psi total attrs x.
Proof. intros NC NA IA IC. unfold project_cached, brute. rewrite sum_vars_scale_r. f_equal.
  rewrite <- sum_vars_app. apply (f_equal (fun f => f x)). apply sum_vars_perm. now apply perm_diff_chain. Qed.

(* every answer sums to the total *)
Theorem brute_sums_to_total total attrs : NoDup attrs -> incl attrs D -> sum_vars D joint base0 <> zero R ->
  sum_vars attrs (@brute R shape D ncl psi total attrs) base0 = total.
Proof. intros NA IA Z. unfold brute. rewrite sum_vars_scale_r. rewrite <- sum_vars_app.
  rewrite (@sum_vars_perm R shape _ _ joint (perm_diff_app' attrs NA IA)). rewrite mul_comm. now apply mul_div. Qed.
End QP.

(* ---- C08 / C10: consequences of "every answer is a marginal of the one explicit joint" ---- *)
Section Coherent.
Variable R : SF.
Variable shape : nat -> nat.
Variable D : list nat.
Variable ncl : nat.
Variable psi : nat -> tbl R.
Notation sum_vars := (@sum_vars R shape).
Notation brute := (@brute R shape D ncl psi).
Hypothesis D_nodup : NoDup D.

(* two answers agree on the attributes they share: both marginalise to the answer for the shared attributes *)
Theorem answers_agree total A1 A2 S x : NoDup A1 -> NoDup A2 -> NoDup S -> incl S A1 -> incl S A2 -> incl A1 D -> incl A2 D ->
  sum_vars (diff A1 S) (brute total A1) x = sum_vars (diff A2 S) (brute total A2) x.
Proof. intros N1 N2 NS I1 I2 D1 D2.
  change (@project_cached R shape (brute total A1) A1 S x = @project_cached R shape (brute total A2) A2 S x).
  rewrite !(project_cached_brute R shape D ncl psi D_nodup); auto. Qed.

(* a potential that vanishes on a declared cell annihilates that cell in EVERY answer whose attributes cover the declared ones *)
Theorem zero_cell_no_mass total c Z S x : c < ncl -> incl Z S ->
  (forall y, (forall a, In a Z -> y a = x a) -> psi c y = zero R) ->
  brute total S x = zero R.
Proof. intros Hc IZ HZ. unfold BP.brute. rewrite sum_vars_all_zero. apply mul_0_l.
  intros y A _. unfold BP.joint.
  assert (E : psi c y = zero R).
  { apply HZ. intros a Ha. apply A. intro Hd. apply diff_In in Hd. destruct Hd as [_ N]. apply N. auto. }
  assert (In c (seq 0 ncl)) by (apply in_seq; lia).
  clear -E H. induction (seq 0 ncl) as [|k l IH]; simpl. contradiction. unfold tmul. destruct H as [->|H].
  - rewrite E. apply mul_0_l.
  - rewrite (IH H). apply mul_0_r. Qed.

(* averaging (RDA / IG iterates): marginalisation is linear *)
Lemma sum_vars_add l (f g : tbl R) : sum_vars l (fun x => add R (f x) (g x)) = fun x => add R (sum_vars l f x) (sum_vars l g x).
Proof. revert f g. induction l as [|a l IH]; simpl; intros f g; auto.
  rewrite <- IH. f_equal. extensionality x. unfold sum_var. apply sumn_add. Qed.
End Coherent.
