(* C02, bulk queries: the table calculate_many_marginals builds for two ADJACENT cliques of the junction tree,
       results[(Ci, Cj)] = marginals[Ci] * (marginals[Cj] / marginals[Cj].project(sep))        (graphical_model.py:106-122; x / 0 := 0)
   is the marginal of the joint on Ci \/ Cj scaled like the clique marginals - zeros included.
   Tree rooted at i with j's subtree as first child: t = Node i (Node j ksj :: rest).
     a = psi_i * prod_{k in rest} up(Ci, k)       (everything on i's side)         b = psi_j * prod_{k in ksj} up(Cj, k)   (j's side)
     belief at i = a * u,  u = sum_{Cj \ Ci} b;    belief at j (tree re-rooted at j) = b * m,  m = sum_{Ci \ Cj} a      (definitional)
     a * b = sum over everything outside Ci \/ Cj of the product of all potentials                       (pair_joint, needs `good`). *)
From Coq Require Import List Arith Lia Bool Ring FunctionalExtensionality.
Import ListNotations.
Require Import PGM.Base.Alg PGM.Base.Sums PGM.Model.BP PGM.Proofs.JTP PGM.Proofs.MleP.

Section Pair.
Variable F : SF.
Notation K := (car F).
Notation zero := (zero F). Notation one := (one F). Notation add := (add F). Notation mul := (mul F).
Variable shape : nat -> nat.
Variable scope : nat -> list nat.
Variable psi : nat -> tbl F.
Hypothesis psi_wf : forall c a, ~ In a (scope c) -> @indep F a (psi c).
Notation sum_vars := (@sum_vars F shape).
Notation tmul := (@tmul F).
Notation prodt := (@prodt F).
Notation up := (up F shape scope psi).
Notation jointt := (jointt F psi).
Notation good := (good scope).
Notation elimt := (elimt scope).
Notation vars := (vars scope).
Notation valid := (@valid shape).

Lemma SRth : semi_ring_theory zero one add mul (@eq K).
Proof. constructor.
  - intros; apply add_0_l. - intros; apply add_comm. - intros; apply add_assoc. - intros; apply mul_1_l. - intros; apply mul_0_l.
  - intros; apply mul_comm. - intros; apply mul_assoc.
  - intros x y z. rewrite (mul_comm F (add x y) z), distr_l, (mul_comm F z x), (mul_comm F z y). reflexivity. Qed.
Add Ring Kring : SRth.

(* linear-space Factor division: x / 0 := 0 *)
Definition zdiv (a b : K) : K := if eqz F b then zero else div F a b.

Lemma cancel_r (x y k : K) : k <> zero -> mul x k = mul y k -> x = y.
Proof. intros Hk E. rewrite <- (div_mul F x Hk), E. now apply div_mul. Qed.

(* the scalar identity behind the conditional chaining *)
Lemma pair_scalar (c a_ b_ m u : K) : (m = zero -> a_ = zero) -> (u = zero -> b_ = zero) ->
  mul (mul c (mul a_ u)) (zdiv (mul c (mul b_ m)) (mul c (mul m u))) = mul c (mul a_ b_).
Proof. intros Hm Hu. unfold zdiv. destruct (eqz F (mul c (mul m u))) eqn:E.
  - apply eqz_spec in E. apply no_zero_div in E. destruct E as [E|E].
    + subst c. ring.
    + apply no_zero_div in E. destruct E as [E|E]. rewrite (Hm E). ring. rewrite (Hu E). ring.
  - assert (NZ : mul c (mul m u) <> zero) by (intro Z; apply eqz_spec in Z; congruence).
    assert (Nc : c <> zero) by (intro Z; apply NZ; subst c; ring).
    assert (Nm : m <> zero) by (intro Z; apply NZ; subst m; ring).
    set (q := div F (mul c (mul b_ m)) (mul c (mul m u))).
    assert (Q : mul q (mul c (mul m u)) = mul c (mul b_ m)) by (apply mul_div; exact NZ).
    assert (Ncm : mul c m <> zero). { intro Z. apply no_zero_div in Z. tauto. }
    assert (QU : mul q u = b_). { apply (cancel_r (mul q u) b_ (mul c m) Ncm). transitivity (mul q (mul c (mul m u))). ring. rewrite Q. ring. }
    transitivity (mul c (mul a_ (mul q u))). ring. rewrite QU. reflexivity. Qed.

Variables i j : nat.
Variable ksj rest : list rt.
Notation Ci := (scope i). Notation Cj := (scope j).
Definition tj : rt := Node j ksj.
Definition t : rt := Node i (tj :: rest).
Definition a_side : tbl F := tmul (psi i) (prodt (map (up Ci) rest)).
Definition b_side : tbl F := tmul (psi j) (prodt (map (up Cj) ksj)).
Definition u_msg : tbl F := up Ci tj.                       (* message j -> i *)
Definition m_msg : tbl F := up Cj (Node i rest).            (* message i -> j in the tree re-rooted at j *)
Definition belief_i : tbl F := tmul (psi i) (prodt (map (up Ci) (tj :: rest))).
Definition belief_j : tbl F := tmul (psi j) (prodt (map (up Cj) (Node i rest :: ksj))).

Lemma u_def : u_msg = sum_vars (diff Cj Ci) b_side. Proof. reflexivity. Qed.
Lemma m_def : m_msg = sum_vars (diff Ci Cj) a_side. Proof. reflexivity. Qed.
Lemma belief_i_split x : belief_i x = mul (a_side x) (u_msg x).
Proof. unfold belief_i, a_side, u_msg. simpl. unfold Sums.tmul. ring. Qed.
Lemma belief_j_split x : belief_j x = mul (b_side x) (m_msg x).
Proof. unfold belief_j, b_side, m_msg. simpl. unfold Sums.tmul. ring. Qed.

(* locality *)
Lemma a_side_indep v : ~ In v Ci -> @indep F v a_side.
Proof. intros H. unfold a_side. apply tmul_indep. now apply psi_wf. apply prodt_indep. intros f Hf. apply in_map_iff in Hf. destruct Hf as [k [<- Hk]].
  destruct k as [ck kks]. destruct (in_dec Nat.eq_dec v (scope ck)) as [I|I].
  - simpl. apply sum_vars_indep_in. apply diff_In. auto.
  - apply (up_indep F shape scope psi psi_wf (Node ck kks) Ci v). exact I. Qed.
Lemma m_msg_indep v : ~ In v Ci -> @indep F v m_msg.
Proof. intros H. rewrite m_def. apply sum_vars_indep. now apply a_side_indep. Qed.

(* a * b is the sum of the whole product over everything eliminated below j and in the other subtrees of i *)
Theorem pair_joint : good t ->
  tmul a_side b_side = sum_vars (flat_map (elimt Cj) ksj ++ flat_map (elimt Ci) rest) (jointt t).
Proof. intros G. destruct (good_kids F scope psi psi_wf _ _ G) as [KO GK]. inversion GK as [|? ? Gj Gr]; subst.
  simpl in KO. destruct KO as [K1 [K2 K3]].
  assert (Eb : b_side = sum_vars (flat_map (elimt Cj) ksj) (jointt tj)) by (apply (root_belief F shape scope psi psi_wf j ksj Gj)).
  assert (E1 : map (up Ci) rest = map (fun k => sum_vars (elimt Ci k) (jointt k)) rest).
  { apply map_ext_in. intros k Hk. rewrite Forall_forall in Gr. apply (up_is_subtree_sum F shape scope psi psi_wf); auto. }
  unfold a_side. rewrite E1.
  replace (tmul (tmul (psi i) (prodt (map (fun k => sum_vars (elimt Ci k) (jointt k)) rest))) b_side)
    with (tmul (tmul (psi i) b_side) (prodt (map (fun k => sum_vars (elimt Ci k) (jointt k)) rest))).
  2:{ extensionality x. unfold Sums.tmul. ring. }
  rewrite (pull_sums F shape scope psi psi_wf (elimt Ci) rest).
  2:{ eapply (@kids_ok_weaken F scope); [|exact K3]. intros v k Hk Hv Hi. apply tmul_indep; auto. rewrite Eb. apply sum_vars_indep.
      apply (jointt_indep F scope psi psi_wf). apply (K2 k v Hk Hv). }
  rewrite sum_vars_app. f_equal. rewrite Eb.
  set (P := prodt (map jointt rest)).
  replace (tmul (tmul (psi i) (sum_vars (flat_map (elimt Cj) ksj) (jointt tj))) P)
    with (tmul (tmul (psi i) P) (sum_vars (flat_map (elimt Cj) ksj) (jointt tj))) by (extensionality x; unfold Sums.tmul; ring).
  rewrite <- sum_vars_mul.
  - f_equal. unfold t. rewrite (jointt_node F psi). simpl map. fold P. extensionality x. unfold Sums.tmul, Sums.prodt. simpl. fold (Sums.prodt (map jointt rest)). fold P. unfold Sums.tmul. ring.
  - intros v Hv. assert (Hv' : In v (elimt Ci tj)) by (simpl; apply in_app_iff; now left).
    destruct (K1 v Hv') as [I1 I2]. apply tmul_indep; auto. unfold P. apply prodt_indep. intros f Hf. apply in_map_iff in Hf. destruct Hf as [k [<- Hk]].
    apply (jointt_indep F scope psi psi_wf). now apply I2. Qed.

(* the separator table sum_{Cj \ Ci} (c * belief_j) = c * m * u *)
Lemma sep_table c x : sum_vars (diff Cj Ci) (fun y => mul c (belief_j y)) x = mul c (mul (m_msg x) (u_msg x)).
Proof. rewrite u_def.
  replace (fun y => mul c (belief_j y)) with (tmul (fun y => mul c (m_msg y)) b_side).
  2:{ extensionality y. rewrite belief_j_split. unfold Sums.tmul. ring. }
  rewrite sum_vars_mul. unfold Sums.tmul. ring.
  intros v Hv. apply diff_In in Hv. destruct Hv as [_ Hv]. intros y w. f_equal. now apply m_msg_indep. Qed.

(* calculate_many_marginals for adjacent cliques, with the clique marginals mu_c = c * belief_c (c = total / Z) *)
Theorem pair_marginal c x : good t -> valid x ->
  mul (mul c (belief_i x)) (zdiv (mul c (belief_j x)) (sum_vars (diff Cj Ci) (fun y => mul c (belief_j y)) x))
  = mul c (sum_vars (flat_map (elimt Cj) ksj ++ flat_map (elimt Ci) rest) (jointt t) x).
Proof. intros G V. rewrite sep_table, belief_i_split, belief_j_split, <- (pair_joint G). unfold Sums.tmul at 1.
  apply pair_scalar.
  - rewrite m_def. intros Z. exact (sum_vars_zero_term F shape _ _ _ Z V).
  - rewrite u_def. intros Z. exact (sum_vars_zero_term F shape _ _ _ Z V). Qed.
End Pair.
