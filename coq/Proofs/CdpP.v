(* C07: theorems about the definitions GENERATED from mechanisms/cdp2adp.py (Gen/Cdp2adp_gen.v).
   Part 1 is generic in the number type (so it holds of the float run itself);
   Part 2 instantiates the numbers with Coq's reals. *)
From Coq Require Import ZArith Reals Lra Lia Bool.
From Coquelicot Require Import Coquelicot.
Require Import PGM.Base.Num PGM.Gen.Cdp2adp_gen.
Set Implicit Arguments.

(* ------------------------------------------------------------------ *)
(* Part 1: the two outer bisections only ever move their "sound" end to a point where the test passed *)
Section Generic.
Variable T : Type.
Variable O : NumOps T.
Definition ok_rho (eps delta r : T) := nleb O (cdp_delta O r eps) delta = true.
Definition ok_eps (rho delta e : T) := nleb O (cdp_delta O rho e) delta = true.

Theorem cdp_rho_sound eps delta :
  nleb O (lit O 1 1) delta = false ->            (* not the early exit delta >= 1 *)
  ok_rho eps delta (lit O 0 1) ->                 (* the initial rhomin=0 satisfies the test *)
  ok_rho eps delta (cdp_rho O eps delta).
Proof. intros H1 H0. unfold cdp_rho. rewrite H1. cbv zeta.
  set (f := fun st : T * T * T => _).
  assert (P : ok_rho eps delta (snd (fst (Nat.iter 1000 f (lit O 0 1, lit O 0 1, nadd O eps (lit O 1 1)))))).
  { apply (iter_inv (fun st : T * T * T => ok_rho eps delta (snd (fst st)))); auto.
    intros [[r mn] mx] Hs. simpl in Hs. unfold f. cbv zeta beta iota.
    destruct (nleb O (cdp_delta O (ndiv O (nadd O mn mx) (lit O 2 1)) eps) delta) eqn:E; simpl; auto. }
  destruct (Nat.iter 1000 f _) as [[r mn] mx]. exact P. Qed.

Theorem cdp_eps_sound rho delta :
  orb (nleb O (lit O 1 1) delta) (neqb O rho (lit O 0 1)) = false ->
  ok_eps rho delta (nadd O rho (nmul O (lit O 2 1) (nsqrt O (nmul O rho (nlog O (ndiv O (lit O 1 1) delta)))))) ->   (* the initial epsmax *)
  ok_eps rho delta (cdp_eps O rho delta).
Proof. intros H1 H0. unfold cdp_eps. rewrite H1. cbv zeta.
  set (f := fun st : T * T * T => _). set (e0 := nadd O rho _) in *.
  assert (P : ok_eps rho delta (snd (fst (Nat.iter 1000 f (lit O 0 1, e0, lit O 0 1))))).
  { apply (iter_inv (fun st : T * T * T => ok_eps rho delta (snd (fst st)))); auto.
    intros [[e mx] mn] Hs. simpl in Hs. unfold f. cbv zeta beta iota.
    destruct (nleb O (cdp_delta O rho (ndiv O (nadd O mn mx) (lit O 2 1))) delta) eqn:E; simpl; auto. }
  destruct (Nat.iter 1000 f _) as [[e mx] mn]. exact P. Qed.

(* the bisection of cdp_rho also keeps a point that FAILED the test at the other end (tightness bracket),
   provided the initial rhomax fails it *)
Theorem cdp_rho_bracket eps delta :
  nleb O (lit O 1 1) delta = false ->
  nleb O (cdp_delta O (nadd O eps (lit O 1 1)) eps) delta = false ->
  exists hi, nleb O (cdp_delta O hi eps) delta = false /\
     exists st, st = Nat.iter 1000 (fun st : T * T * T => let '(r, mn, mx) := st in
        let r := ndiv O (nadd O mn mx) (lit O 2 1) in
        let '(mn, mx) := if nleb O (cdp_delta O r eps) delta then (r, mx) else (mn, r) in (r, mn, mx))
        (lit O 0 1, lit O 0 1, nadd O eps (lit O 1 1)) /\ snd st = hi /\ snd (fst st) = cdp_rho O eps delta.
Proof. intros H1 H0. unfold cdp_rho. rewrite H1. cbv zeta.
  set (f := fun st : T * T * T => _).
  assert (P : nleb O (cdp_delta O (snd (Nat.iter 1000 f (lit O 0 1, lit O 0 1, nadd O eps (lit O 1 1)))) eps) delta = false).
  { apply (iter_inv (fun st : T * T * T => nleb O (cdp_delta O (snd st) eps) delta = false)); auto.
    intros [[r mn] mx] Hs. simpl in Hs. unfold f. cbv zeta beta iota.
    destruct (nleb O (cdp_delta O (ndiv O (nadd O mn mx) (lit O 2 1)) eps) delta) eqn:E; simpl; auto. }
  exists (snd (Nat.iter 1000 f (lit O 0 1, lit O 0 1, nadd O eps (lit O 1 1)))). split; auto.
  exists (Nat.iter 1000 f (lit O 0 1, lit O 0 1, nadd O eps (lit O 1 1))). split; [reflexivity|]. split; auto.
  destruct (Nat.iter 1000 f _) as [[r mn] mx]. reflexivity. Qed.
End Generic.

(* ------------------------------------------------------------------ *)
(* Part 2: on the reals *)
Open Scope R_scope.
Lemma litR n : lit RNum n 1 = IZR n. Proof. simpl. unfold Rdiv. rewrite Rinv_1. ring. Qed.

Section Delta.
Variables rho eps : R.
Hypothesis Hrho : 0 < rho.
Hypothesis Heps : 0 <= eps.

(* the tested expression (derivative of the log of the bound) and the published bound itself *)
Definition g (a : R) := (2 * a - 1) * rho - eps + ln (1 + - 1 / a).
Definition Bound (a : R) := exp ((a - 1) * (a * rho - eps) + a * ln (1 + - 1 / a)) / (a - 1).
Definition amax0 := (eps + 1) / (2 * rho) + 2.

(* the loop body exactly as generated, state = (alpha, derivative, amin, amax) *)
Definition body (st : R * R * R * R) : R * R * R * R :=
  let '(al, de, mn, mx) := st in
  let al := (mn + mx) / 2 in
  let de := g al in
  let '(mn, mx) := if Rltb de 0 then (al, mx) else (mn, al) in (al, de, mn, mx).
Definition st0 : R * R * R * R := (0, 0, 101 / 100, amax0).
Definition stn (n : nat) := Nat.iter n body st0.
Definition amin_n n := snd (fst (stn n)).
Definition amax_n n := snd (stn n).
Definition alpha_n n := fst (fst (fst (stn n))).

(* tie to the generated code: cdp_delta on the reals IS the published bound at the alpha the search ends with *)
Lemma gen_body_eq st :
  (let '(v_alpha, v_derivative, v_amin, v_amax) := st in
   let v_alpha := ndiv RNum (nadd RNum v_amin v_amax) (lit RNum 2 1) in
   let v_derivative := nadd RNum (nsub RNum (nmul RNum (nsub RNum (nmul RNum (lit RNum 2 1) v_alpha) (lit RNum 1 1)) rho) eps)
                              (nlog1p RNum (ndiv RNum (lit RNum (-1) 1) v_alpha)) in
   let '(v_amin, v_amax) := if nltb RNum v_derivative (lit RNum 0 1) then (let v_amin := v_alpha in (v_amin, v_amax)) else (let v_amax := v_alpha in (v_amin, v_amax)) in
   (v_alpha, v_derivative, v_amin, v_amax)) = body st.
Proof. destruct st as [[[al de] mn] mx]. unfold body. cbv zeta. rewrite !litR.
  change (nadd RNum) with Rplus. change (nsub RNum) with Rminus. change (nmul RNum) with Rmult. change (ndiv RNum) with Rdiv.
  change (nltb RNum) with Rltb. change (nlog1p RNum) with (fun x => ln (1 + x)). cbv beta. reflexivity. Qed.

Lemma iter_ext (A : Type) (f h : A -> A) : (forall s, f s = h s) -> forall n s, Nat.iter n f s = Nat.iter n h s.
Proof. intros E n s. induction n; simpl; auto. now rewrite IHn, E. Qed.

Theorem delta_is_renyi_bound : cdp_delta RNum rho eps = Rmin (Bound (alpha_n 1000)) 1.
Proof. unfold cdp_delta. assert (neqb RNum rho (lit RNum 0 1) = false) as ->.
  { change (neqb RNum) with Reqb. apply Reqb_false. rewrite litR. lra. }
  cbv zeta.
  rewrite (iter_ext _ body gen_body_eq).
  assert (S0 : (lit RNum 0 1, lit RNum 0 1, lit RNum 101 100, nadd RNum (ndiv RNum (nadd RNum eps (lit RNum 1 1)) (nmul RNum (lit RNum 2 1) rho)) (lit RNum 2 1)) = st0).
  { unfold st0, amax0. rewrite !litR. reflexivity. }
  rewrite S0. unfold alpha_n, stn. destruct (Nat.iter 1000 body st0) as [[[al de] mn] mx]. simpl fst.
  rewrite !litR. unfold Bound. reflexivity. Qed.

Lemma amax0_ge2 : 2 <= amax0.
Proof. unfold amax0. assert (0 <= (eps + 1) / (2 * rho)). { apply Rlt_le, Rdiv_lt_0_compat; lra. } lra. Qed.

Lemma range_inv n : 101 / 100 <= amin_n n /\ amin_n n <= amax_n n /\ amax_n n <= amax0.
Proof. unfold amin_n, amax_n, stn. induction n; simpl.
  - pose proof amax0_ge2. lra.
  - destruct (Nat.iter n body st0) as [[[al de] a] b]. simpl in *. unfold body.
    destruct (Rltb (g ((a + b) / 2)) 0); simpl; lra. Qed.

Theorem alpha_in_range n : 101 / 100 <= alpha_n (S n) <= amax0.
Proof. pose proof (range_inv n) as H. unfold alpha_n, amin_n, amax_n, stn in *. simpl.
  destruct (Nat.iter n body st0) as [[[al de] a] b]. simpl in *. unfold body.
  destruct (Rltb (g ((a + b) / 2)) 0); simpl; lra. Qed.

Theorem width n : amax_n n - amin_n n = (amax0 - 101 / 100) / 2 ^ n.
Proof. unfold amin_n, amax_n, stn. induction n; simpl.
  - lra.
  - destruct (Nat.iter n body st0) as [[[al de] a] b]. simpl in *. unfold body.
    assert (2 ^ n <> 0) by (apply pow_nonzero; lra).
    destruct (Rltb (g ((a + b) / 2)) 0); simpl.
    + replace (b - (a + b) / 2) with ((b - a) / 2) by lra. rewrite IHn. field. assumption.
    + replace ((a + b) / 2 - a) with ((b - a) / 2) by lra. rewrite IHn. field. assumption. Qed.

(* the final alpha lies inside the final bracket *)
Lemma alpha_in_bracket n : amin_n (S n) <= alpha_n (S n) <= amax_n (S n).
Proof. pose proof (range_inv n) as H. unfold alpha_n, amin_n, amax_n, stn in *. simpl.
  destruct (Nat.iter n body st0) as [[[al de] a] b]. simpl in *. unfold body.
  destruct (Rltb (g ((a + b) / 2)) 0); simpl; lra. Qed.

Lemma g_increasing a b : 1 < a -> a < b -> g a < g b.
Proof. intros Ha Hab. unfold g.
  assert (0 < 1 + - 1 / a). { assert (1 / a < 1). { apply (Rmult_lt_reg_r a); try lra. unfold Rdiv. rewrite Rmult_assoc, Rinv_l; lra. } lra. }
  assert (1 + - 1 / a < 1 + - 1 / b).
  { assert (/ b < / a) by (apply Rinv_lt_contravar; [apply Rmult_lt_0_compat|]; lra). unfold Rdiv. lra. }
  assert (ln (1 + - 1 / a) < ln (1 + - 1 / b)) by (apply ln_increasing; lra).
  assert ((2 * a - 1) * rho < (2 * b - 1) * rho) by (apply Rmult_lt_compat_r; lra). lra. Qed.

Lemma ln2_lt_1 : ln 2 < 1.
Proof. rewrite <- (ln_exp 1). apply ln_increasing. lra. pose proof (exp_ineq1 1). lra. Qed.

Lemma g_amax0_pos : 0 < g amax0.
Proof. unfold g. pose proof amax0_ge2 as A.
  replace ((2 * amax0 - 1) * rho - eps) with (1 + 3 * rho). 2:{ unfold amax0. field. apply Rgt_not_eq. lra. }
  assert (/ 2 <= 1 + - 1 / amax0).
  { assert (/ amax0 <= / 2) by (apply Rinv_le_contravar; lra). unfold Rdiv. lra. }
  assert (ln (/ 2) <= ln (1 + - 1 / amax0)).
  { destruct H as [H|H]. apply Rlt_le, ln_increasing; lra. rewrite <- H. lra. }
  rewrite ln_Rinv in H0 by lra. pose proof ln2_lt_1. lra. Qed.

Lemma bracket n : (g (amin_n n) < 0 \/ amin_n n = 101 / 100) /\ 0 <= g (amax_n n).
Proof. unfold amin_n, amax_n, stn. induction n; simpl.
  - split. now right. apply Rlt_le, g_amax0_pos.
  - destruct (Nat.iter n body st0) as [[[al de] a] b]. simpl in *. unfold body.
    destruct IHn as [I1 I2].
    destruct (Rltb (g ((a + b) / 2)) 0) eqn:L; simpl; split.
    + left. now apply Rltb_true.
    + exact I2.
    + exact I1.
    + apply Rltb_false in L. lra. Qed.

(* the stationary point of the (log-convex) bound is bracketed at every iteration, with the documented clamp at 1.01 *)
Theorem optimum_bracketed n a : 101 / 100 <= a ->
  (g a < 0 -> a < amax_n n) /\ (0 <= g a -> amin_n n <= a).
Proof. intros Ha. pose proof (bracket n) as [B1 B2]. pose proof (range_inv n) as [R1 [R2 R3]]. split; intros G.
  - destruct (Rlt_dec a (amax_n n)); auto. exfalso.
    destruct (Req_dec a (amax_n n)) as [->|N]. lra.
    assert (g (amax_n n) < g a) by (apply g_increasing; lra). lra.
  - destruct B1 as [B1|B1]; [|lra].
    destruct (Rle_dec (amin_n n) a); auto. exfalso.
    assert (g a < g (amin_n n)) by (apply g_increasing; lra). lra. Qed.

(* hence the alpha the code ends with is within the bracket width of the minimiser of the bound on [1.01, oo) *)
Corollary alpha_near_optimum n a : 101 / 100 <= a -> g a = 0 -> Rabs (alpha_n (S n) - a) <= (amax0 - 101 / 100) / 2 ^ (S n).
Proof. intros Ha G0. destruct (optimum_bracketed (S n) Ha) as [_ O2]. pose proof (O2 (Req_le_sym _ _ G0)) as L.
  assert (U : a <= amax_n (S n)).
  { destruct (Rle_dec a (amax_n (S n))); auto. exfalso. pose proof (bracket (S n)) as [_ B2]. pose proof (range_inv (S n)) as [R1 [R2 R3]].
    assert (g (amax_n (S n)) < g a) by (apply g_increasing; lra). lra. }
  pose proof (alpha_in_bracket n) as [A1 A2]. rewrite <- (width (S n)). apply Rabs_le. lra. Qed.
End Delta.

(* the tested expression is the derivative of the logarithm of the published Renyi bound *)
Theorem logB_derivative rho eps a : 1 < a ->
  is_derive (fun a => (a - 1) * (a * rho - eps) + a * ln (1 + - 1 / a) - ln (a - 1)) a (g rho eps a).
Proof. intros Ha. unfold g. auto_derive.
  - assert (1 / a < 1). { apply (Rmult_lt_reg_r a); try lra. unfold Rdiv. rewrite Rmult_assoc, Rinv_l; lra. }
    repeat split; try lra.
  - unfold Rdiv. replace (-1 * / a) with (- / a) by lra. replace (1 + -1 * / a) with (1 + - / a) by lra.
    generalize (ln (1 + - / a)). intros L. field. split; lra.
Qed.
Lemma ln_Bound rho eps a : 1 < a -> ln (Bound rho eps a) = (a - 1) * (a * rho - eps) + a * ln (1 + - 1 / a) - ln (a - 1).
Proof. intros Ha. unfold Bound. unfold Rdiv at 1. rewrite ln_mult; [|apply exp_pos|apply Rinv_0_lt_compat; lra].
  rewrite ln_exp, ln_Rinv by lra. lra. Qed.

(* for every Renyi order the bound grows with the budget and shrinks with epsilon *)
Theorem Bound_monotone a rho rho' eps eps' : 1 < a -> rho <= rho' -> eps' <= eps -> Bound rho eps a <= Bound rho' eps' a.
Proof. intros Ha Hr He. unfold Bound. apply Rmult_le_compat_r. apply Rlt_le, Rinv_0_lt_compat; lra.
  assert ((a - 1) * (a * rho - eps) <= (a - 1) * (a * rho' - eps')).
  { apply Rmult_le_compat_l. lra. assert (a * rho <= a * rho') by (apply Rmult_le_compat_l; lra). lra. }
  set (c := a * ln (1 + - 1 / a)).
  destruct (Rle_lt_or_eq_dec _ _ H) as [L|E]. apply Rlt_le, exp_increasing. lra. rewrite E. lra. Qed.
