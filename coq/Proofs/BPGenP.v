(* The definition GENERATED from GraphicalModel.belief_propagation (Gen/BP_gen.v) computes exactly the run of the hand-written
   model Model/BP.v: its message-passing loop body IS BP.step (same tries), its result is BP.marginal on every valid assignment,
   and its logZ branch is BP.Zof.  Hence C01_exact is a theorem about the definition regenerated from the source on every run.
   Hypotheses: shapes are positive; self.sep_axes[(i,j)] lists exactly the attributes clique i shares with clique j
   (junction_tree.py:36-37: tuple(set(i) & set(j)) - any order, the model only filters by membership). *)
From Coq Require Import List Arith Lia Bool.
Import ListNotations.
Require Import PGM.Base.Alg PGM.Base.Sums PGM.Model.BP PGM.Base.PyFactor PGM.Gen.BP_gen PGM.Proofs.BPrunP.

Section BPGenP.
Variable R : SF.
Variable shape : nat -> nat.
Variable D : list nat.
Variable ncl : nat.
Variable scope : nat -> list nat.
Variable sep_axes : nat -> nat -> list nat.
Variable psi : nat -> tbl R.
Notation trie := (@trie R).
Notation lk := (@lk R D).
Notation mat := (@mat R shape D).
Notation valid := (valid shape).
Notation step := (@step R shape D scope).
Notation loop1 := (@belief_propagation_loop1 R shape D scope sep_axes).
Notation loop2 := (@belief_propagation_loop2 R shape D).
Notation bp_gen := (@belief_propagation R shape D ncl scope sep_axes).

Hypothesis shape_pos : forall a, 0 < shape a.
Hypothesis sep_ok : forall i j a, In a (scope i) -> (In a (sep_axes i j) <-> In a (scope j)).

Lemma invert_is_elimv i j : py_invert (scope i) (sep_axes i j) = elimv scope i j.
Proof. unfold py_invert, elimv, diff. apply filter_ext_in. intros a Ha. f_equal.
  destruct (memb a (sep_axes i j)) eqn:E1, (memb a (scope j)) eqn:E2; auto.
  - apply memb_In in E1. apply (sep_ok i j a Ha) in E1. apply memb_In in E1. congruence.
  - apply memb_In in E2. apply (sep_ok i j a Ha) in E2. apply memb_In in E2. congruence. Qed.

Lemma build_ext (f g : tbl R) : forall Dl base,
  (forall y, (forall a, ~ In a Dl -> y a = base a) -> (forall a, In a Dl -> y a < shape a) -> f y = g y) ->
  @build R shape Dl f base = @build R shape Dl g base.
Proof. induction Dl as [|a r IH]; intros base H; simpl.
  - f_equal. apply H; intros; auto. contradiction.
  - f_equal. apply map_ext_in. intros v Hv. apply in_seq in Hv. apply IH. intros y Ho Hr. apply H.
    + intros b Hb. rewrite Ho by (intro; apply Hb; now right). apply upd_neq. intro; subst; apply Hb; now left.
    + intros b [<-|Hb]; [|now apply Hr]. destruct (in_dec Nat.eq_dec a r) as [I|I]. now apply Hr. rewrite (Ho a I), upd_eq. lia. Qed.
Lemma mat_ext (f g : tbl R) : (forall x, valid x -> f x = g x) -> mat f = mat g.
Proof. intros H. unfold BP.mat. apply build_ext. intros y Ho Hr. apply H. intros a.
  destruct (in_dec Nat.eq_dec a D) as [I|I]. now apply Hr. rewrite (Ho a I). apply shape_pos. Qed.

Lemma lk_mat (h : tbl R) x : dep_on D h -> valid x -> lk (mat h) x = h x.
Proof. intros. now apply mat_ok. Qed.
Lemma dep_sdiv (f g : trie) : dep_on D (fun x => @sdiv R (lk f x) (lk g x)).
Proof. intros y z E. f_equal; apply lk_dep; auto. Qed.

(* the generated loop body is the model's step (on the pair (messages, beliefs)) *)
Theorem loop1_is_step (m : list ((nat * nat) * trie)) (b : list trie) i j :
  loop1 (m, b) (i, j) = (sent (step {| belt := b; sent := m |} (i, j)), belt (step {| belt := b; sent := m |} (i, j))).
Proof. unfold belief_propagation_loop1, BP.step. cbn [belt sent]. rewrite invert_is_elimv.
  assert (M : f_logsumexp shape D (if py_haskey (j, i) m then f_sub shape D (py_get b i) (py_getm m (j, i)) else py_get b i) (elimv scope i j)
              = mat (@sum_vars R shape (elimv scope i j) (match getm (j, i) m with
                       | Some m0 => fun x => @sdiv R (@bel R D {| belt := b; sent := m |} i x) (lk m0 x)
                       | None => @bel R D {| belt := b; sent := m |} i end))).
  { unfold f_logsumexp, py_haskey, py_getm, f_sub, py_get, BP.bel. cbn [belt]. destruct (getm (j, i) m) as [m0|]; [|reflexivity].
    apply mat_ext. intros x V. apply sum_vars_ext_on. intros y A Rg. apply lk_mat. apply dep_sdiv. eapply valid_fibre; eauto. }
  unfold py_setm. rewrite M. f_equal. unfold py_set, f_add, py_getm, py_get, BP.bel. cbn [belt]. rewrite getm_eq. reflexivity. Qed.

Lemma fold_loop1 sch : forall m b, fold_left loop1 sch (m, b) =
  (sent (@run R shape D scope sch {| belt := b; sent := m |}), belt (@run R shape D scope sch {| belt := b; sent := m |})).
Proof. induction sch as [|[i j] r IH]; intros m b; cbn [fold_left]. reflexivity. rewrite loop1_is_step. rewrite IH.
  unfold BP.run. cbn [fold_left]. destruct (step {| belt := b; sent := m |} (i, j)); reflexivity. Qed.

Lemma dictcomp_copy (l : list trie) : py_dictcomp (fun c => f_copy (py_get l c)) (length l) = l.
Proof. unfold py_dictcomp, f_copy, py_get. apply nth_ext with (d := @Leaf R (zero R)) (d' := @Leaf R (zero R)). now rewrite map_length, seq_length.
  intros n Hn. rewrite map_length, seq_length in Hn. now rewrite nth_map_seq. Qed.

Lemma dictcomp_copy_n (l : list trie) n : n = length l -> py_dictcomp (fun c => f_copy (py_get l c)) n = l.
Proof. intros ->. apply dictcomp_copy. Qed.

(* the normalisation loop touches every clique once *)
Lemma fold_loop2 total z : forall (l : list nat) (b : list trie) c, NoDup l -> (forall k, In k l -> k < length b) ->
  nth c (fold_left (loop2 total z) l b) (@Leaf R (zero R)) =
  if memb c l then mat (fun x => mul R (lk (nth c b (@Leaf R (zero R))) x) (div R total z)) else nth c b (@Leaf R (zero R)).
Proof. induction l as [|k r IH]; intros b c ND L; simpl. reflexivity.
  inversion ND as [|? ? Hk Hr]; subst. unfold belief_propagation_loop2 at 2. unfold py_set, f_exp, f_scale, s_sub, s_log, py_get.
  assert (Lk : k < length b) by (apply L; now left).
  rewrite replace_nth_same by assumption.
  rewrite IH; auto. 2:{ intros k' Hk'. rewrite !replace_length. apply L. now right. }
  destruct (Nat.eqb_spec c k) as [->|N].
  - assert (memb k r = false) as -> by now apply memb_nIn. rewrite replace_nth_same by (rewrite replace_length; assumption). reflexivity.
  - rewrite !replace_nth_other by assumption. reflexivity. Qed.

Theorem bp_gen_is_model sch total c x : c < ncl -> valid x ->
  match bp_gen sch total (map (fun c => mat (psi c)) (seq 0 ncl)) false with
  | inr beliefs => lk (nth c beliefs (@Leaf R (zero R))) x = @marginal R shape D ncl scope psi sch total 0 c x
  | inl _ => False
  end.
Proof. intros Hc V. unfold belief_propagation.
  rewrite (dictcomp_copy_n (map (fun c0 : nat => mat (psi c0)) (seq 0 ncl)) ncl) by now rewrite map_length, seq_length.
  unfold py_empty. rewrite fold_loop1. fold (@init R shape D ncl psi).
  set (s := @run R shape D scope sch (@init R shape D ncl psi)).
  assert (Len : length (belt s) = ncl).
  { unfold s. clear. assert (G : forall sch (s0 : @st R), length (belt (@run R shape D scope sch s0)) = length (belt s0)).
    { intros sch0. induction sch0 as [|[i j] r IH0]; intros s0; simpl; auto. unfold BP.run in *. simpl. rewrite IH0. simpl. apply replace_length. }
    rewrite G. simpl. now rewrite map_length, seq_length. }
  rewrite fold_loop2; [| apply seq_NoDup | intros k Hk; apply in_seq in Hk; lia].
  assert (memb c (seq 0 ncl) = true) as -> by (apply memb_In; apply in_seq; lia).
  rewrite lk_mat by first [assumption | (intros y z E; f_equal; apply lk_dep; auto)].
  unfold marginal, f_logsumexp_all, py_get, BP.Zof, BP.bel. fold s. reflexivity. Qed.

Theorem bp_gen_logZ_is_model sch total :
  bp_gen sch total (map (fun c => mat (psi c)) (seq 0 ncl)) true = inl (@Zof R shape D scope (@run R shape D scope sch (@init R shape D ncl psi)) 0).
Proof. unfold belief_propagation.
  rewrite (dictcomp_copy_n (map (fun c0 : nat => mat (psi c0)) (seq 0 ncl)) ncl) by now rewrite map_length, seq_length.
  unfold py_empty. rewrite fold_loop1. reflexivity. Qed.
End BPGenP.
