(* C11: the rounding column has exactly the requested number of rows, stays within 1 of the expected count for every value, and
   never draws a value of zero probability. *)
From Coq Require Import List ZArith QArith Bool Lia Lqa Qround.
Import ListNotations.
Require Import PGM.Model.Synth.
Open Scope Z_scope.

Lemma memn_In i l : memn i l = true <-> In i l.
Proof. unfold memn. rewrite existsb_exists. split. intros [x [H E]]. apply Nat.eqb_eq in E. now subst. intros H. exists i. split; auto. apply Nat.eqb_refl. Qed.
Lemma zsum_add (A : Type) (f g : A -> Z) l : zsum (map (fun i => f i + g i) l) = zsum (map f l) + zsum (map g l).
Proof. induction l; simpl; lia. Qed.
Lemma zsum_zero (A : Type) (l : list A) : zsum (map (fun _ => 0) l) = 0.
Proof. induction l; simpl; lia. Qed.
Lemma zsum_ext (A : Type) (f g : A -> Z) l : (forall x, In x l -> f x = g x) -> zsum (map f l) = zsum (map g l).
Proof. induction l; simpl; intros H; auto. rewrite H by (now left). rewrite IHl; auto. Qed.
(* the indicator of a single in-range index sums to one over the range *)
Lemma ind_single a len : (a < len)%nat -> zsum (map (ind [a]) (seq 0 len)) = 1.
Proof. intros H. assert (G : forall n s, zsum (map (ind [a]) (seq s n)) = if ((s <=? a) && (a <? s + n))%nat then 1 else 0).
  { induction n; intros s; cbn [seq map zsum fold_right].
    - destruct (Nat.leb_spec s a), (Nat.ltb_spec a (s + 0)); simpl; lia.
    - change (fold_right Z.add 0 (map (ind [a]) (seq (S s) n))) with (zsum (map (ind [a]) (seq (S s) n))). rewrite IHn.
      unfold ind at 1. unfold memn. cbn [existsb]. rewrite orb_false_r.
      destruct (Nat.eqb_spec s a); destruct (Nat.leb_spec s a), (Nat.leb_spec (S s) a), (Nat.ltb_spec a (s + S n)), (Nat.ltb_spec a (S s + n)); simpl; lia. }
  rewrite G. simpl. destruct (Nat.ltb_spec a len); auto. lia. Qed.
Lemma ind_cons a r i : memn a r = false -> ind (a :: r) i = ind [a] i + ind r i.
Proof. intros H. unfold ind, memn in *. simpl. rewrite orb_false_r. destruct (Nat.eqb_spec i a) as [->|N]; simpl. rewrite H. reflexivity. destruct (existsb (Nat.eqb i) r); reflexivity. Qed.
Lemma ind_sum idx len : nodupn idx = true -> (forall i, In i idx -> (i < len)%nat) -> zsum (map (ind idx) (seq 0 len)) = Z.of_nat (length idx).
Proof. induction idx as [|a r IH]; intros ND H.
  - simpl length. unfold ind. simpl. apply zsum_zero.
  - simpl in ND. apply andb_prop in ND. destruct ND as [N1 N2]. apply negb_true_iff in N1.
    rewrite (zsum_ext _ (ind (a :: r)) (fun i => ind [a] i + ind r i) (seq 0 len)) by (intros; now apply ind_cons).
    rewrite (zsum_add _ (ind [a]) (ind r)), ind_single by (apply H; now left). rewrite IH; auto. simpl length. lia. intros; apply H; now right. Qed.

Lemma valid_parts counts n idx : valid_idx counts n idx = true ->
  nodupn idx = true /\ Z.of_nat (length idx) = extra counts n /\ forall i, In i idx -> (i < length counts)%nat /\ (0 < frac (nth i (scaled counts n) 0%Q))%Q.
Proof. unfold valid_idx. intros H. apply andb_prop in H. destruct H as [H H3]. apply andb_prop in H. destruct H as [H1 H2].
  split; auto. split. now apply Z.eqb_eq. intros i Hi. rewrite forallb_forall in H3. specialize (H3 i Hi). apply andb_prop in H3. destruct H3 as [A B].
  split. now apply Nat.ltb_lt. apply negb_true_iff in B. destruct (Qlt_le_dec 0%Q (frac (nth i (scaled counts n) 0%Q))); auto. apply Qle_bool_iff in q. congruence. Qed.

(* exactly the requested number of rows *)
Theorem round_col_total counts n idx : valid_idx counts n idx = true -> zsum (round_col counts n idx) = n.
Proof. intros V. destruct (valid_parts _ _ _ V) as [ND [EX IN]]. unfold round_col. rewrite zsum_add.
  rewrite ind_sum; auto. rewrite EX. unfold extra. lia. intros i Hi. apply IN. auto. Qed.

Lemma round_col_nth counts n idx i : (i < length counts)%nat -> nth i (round_col counts n idx) 0 = integ_at counts n i + ind idx i.
Proof. intros H. unfold round_col. rewrite (nth_indep _ 0 ((fun j => integ_at counts n j + ind idx j) 0%nat)) by (now rewrite map_length, seq_length).
  rewrite (map_nth (fun j => integ_at counts n j + ind idx j)). now rewrite seq_nth. Qed.

(* every value's count is within 1 of its expected (scaled) count: the error does not grow with the number of rows *)
Theorem round_col_error counts n idx i : valid_idx counts n idx = true -> (i < length counts)%nat ->
  (- 1 < inject_Z (nth i (round_col counts n idx) 0%Z) - nth i (scaled counts n) 0%Q < 1)%Q.
Proof. intros V Hi. destruct (valid_parts _ _ _ V) as [ND [EX IN]]. rewrite round_col_nth by auto. unfold integ_at.
  set (s := nth i (scaled counts n) 0%Q). pose proof (Qfloor_le s) as L1. pose proof (Qlt_floor s) as L2.
  set (f := inject_Z (Qfloor s)) in *.
  assert (E1 : (inject_Z (Qfloor s + 1) == f + 1)%Q) by (unfold f; rewrite inject_Z_plus; reflexivity).
  rewrite E1 in L2.
  unfold ind. destruct (memn i idx) eqn:E.
  - apply memn_In in E. destruct (IN i E) as [_ F]. unfold frac in F. fold s in F. fold f in F. rewrite E1. split; lra.
  - rewrite Z.add_0_r. fold f. split; lra. Qed.

(* a value of zero probability is never drawn *)
Theorem round_col_support counts n idx i : valid_idx counts n idx = true -> (i < length counts)%nat -> (nth i counts 0%Q == 0)%Q ->
  nth i (round_col counts n idx) 0 = 0.
Proof. intros V Hi Z0. destruct (valid_parts _ _ _ V) as [ND [EX IN]]. rewrite round_col_nth by auto. unfold integ_at.
  assert (S0 : (nth i (scaled counts n) 0%Q == 0)%Q).
  { unfold scaled. rewrite (nth_indep _ 0%Q ((fun c : Q => (c * (inject_Z n / qsum counts))%Q) 0%Q)) by (now rewrite map_length).
    rewrite (map_nth (fun c : Q => (c * (inject_Z n / qsum counts))%Q)). rewrite Z0. ring. }
  assert (F0 : Qfloor (nth i (scaled counts n) 0%Q) = 0). { rewrite S0. reflexivity. }
  rewrite F0. unfold ind. destruct (memn i idx) eqn:E; auto. apply memn_In in E. destruct (IN i E) as [_ F]. unfold frac in F. rewrite F0 in F. rewrite S0 in F. change (inject_Z 0) with 0%Q in F. lra. Qed.
