(* Link between the selection models (Model/Select.v, on the reals) and the exponential-mechanism probabilities of DpP.v:
   the probabilities the code hands to choice() are em_prob with the code's coefficient, hence eps-DP. *)
From Coq Require Import Reals Lra List Lia ZArith.
Import ListNotations.
Require Import PGM.Base.Num PGM.Model.Select PGM.Proofs.SelectP PGM.Proofs.GibbsP PGM.Proofs.DpP.
Open Scope R_scope.

Lemma sumR_same l : SelectP.sumR l = GibbsP.sumR l.
Proof. unfold SelectP.sumR. induction l; simpl; congruence. Qed.
Lemma nth_map_R (f : R -> R) l i : (i < length l)%nat -> nth i (map f l) 0 = f (nth i l 0).
Proof. revert i. induction l; intros [|i] H; simpl in *; try lia; auto. apply IHl. lia. Qed.

Lemma lse_probs_is_em c q i : q <> [] -> (i < length q)%nat -> nth i (lse_probs RNum (map (fun x => c * x) q)) 0 = em_prob c q i.
Proof. intros NE Hi. rewrite lse_probs_spec; [| destruct q; simpl; congruence | now rewrite map_length].
  unfold em_prob, wts. rewrite sumR_same, map_map, !nth_map_R by assumption. reflexivity. Qed.
Lemma softmax_is_em c q i : q <> [] -> (i < length q)%nat -> nth i (softmax RNum (map (fun x => c * x) q)) 0 = em_prob c q i.
Proof. intros NE Hi. rewrite softmax_spec; [| destruct q; simpl; congruence | now rewrite map_length].
  unfold em_prob, wts. rewrite sumR_same, map_map, !nth_map_R by assumption. reflexivity. Qed.
(* subtracting the maximum (any constant) from the qualities does not change the probabilities *)
Lemma em_prob_shift c m q i : q <> [] -> (i < length q)%nat -> em_prob c (map (fun x => x - m) q) i = em_prob c q i.
Proof. intros NE Hi. unfold em_prob, wts. rewrite !map_map.
  assert (E : map (fun x => exp (c * (x - m))) q = map (fun x => exp (- (c * m)) * exp (c * x)) q).
  { apply map_ext. intros x. rewrite <- exp_plus. f_equal. ring. }
  rewrite E. rewrite !nth_map_R by assumption.
  assert (S : GibbsP.sumR (map (fun x => exp (- (c * m)) * exp (c * x)) q) = exp (- (c * m)) * GibbsP.sumR (map (fun x => exp (c * x)) q)).
  { clear. induction q; simpl. ring. rewrite IHq. ring. }
  rewrite S. pose proof (exp_pos (- (c * m))).
  assert (0 < GibbsP.sumR (map (fun x => exp (c * x)) q)). { apply sumR_allpos. destruct q; simpl; congruence. apply (wts_pos c q). }
  field. split; lra. Qed.

(* mst.exponential_mechanism with the default (non-monotonic) coefficient is eps-DP for scores of sensitivity sens *)
Theorem em_mst_eps_dp q q' eps sens i : 0 <= eps -> 0 < sens -> q <> [] -> (i < length q)%nat ->
  Forall2 (fun a b => Rabs (a - b) <= sens) q q' ->
  nth i (em_mst RNum q eps sens false) 0 <= exp eps * nth i (em_mst RNum q' eps sens false) 0.
Proof. intros He Hs NE Hi F. unfold em_mst.
  assert (L : length q = length q') by (eapply F2_length; eauto).
  assert (NE' : q' <> []) by (destruct F; congruence).
  change (nmul RNum) with Rmult. change (ndiv RNum) with Rdiv.
  rewrite !lse_probs_is_em by (auto; congruence).
  assert (C : lit RNum 1 2 * eps / sens = eps / (2 * sens)). { cbn [lit RNum]. unfold Rdiv. simpl. field. lra. }
  rewrite C. apply exponential_mechanism_eps_dp; auto. Qed.
(* ... and with the monotonic coefficient when all scores move in the same direction by at most sens *)
Theorem em_mst_monotonic_eps_dp q q' eps sens i : 0 <= eps -> 0 < sens -> q <> [] -> (i < length q)%nat ->
  Forall2 (fun a b => 0 <= b - a <= sens) q q' ->
  nth i (em_mst RNum q eps sens true) 0 <= exp eps * nth i (em_mst RNum q' eps sens true) 0
  /\ nth i (em_mst RNum q' eps sens true) 0 <= exp eps * nth i (em_mst RNum q eps sens true) 0.
Proof. intros He Hs NE Hi F. unfold em_mst.
  assert (L : length q = length q') by (eapply F2_length; eauto).
  assert (NE' : q' <> []) by (destruct F; congruence).
  change (nmul RNum) with Rmult. change (ndiv RNum) with Rdiv.
  rewrite !lse_probs_is_em by (auto; congruence).
  assert (C : lit RNum 1 1 * eps / sens = eps / sens). { cbn [lit RNum]. unfold Rdiv. simpl. field. lra. }
  rewrite C. apply exponential_mechanism_monotonic_eps_dp; auto. Qed.
(* Mechanism.exponential_mechanism (qualities shifted by their maximum, softmax, no base measure) *)
Theorem em_mechanism_eps_dp q q' eps sens i : 0 <= eps -> 0 < sens -> q <> [] -> (i < length q)%nat ->
  Forall2 (fun a b => Rabs (a - b) <= sens) q q' ->
  nth i (em_mechanism RNum q eps sens None) 0 <= exp eps * nth i (em_mechanism RNum q' eps sens None) 0.
Proof. intros He Hs NE Hi F. unfold em_mechanism.
  assert (L : length q = length q') by (eapply F2_length; eauto).
  assert (NE' : q' <> []) by (destruct F; congruence).
  change (nmul RNum) with Rmult. change (ndiv RNum) with Rdiv. change (nsub RNum) with Rminus.
  assert (C : lit RNum 1 2 * eps / sens = eps / (2 * sens)). { cbn [lit RNum]. unfold Rdiv. simpl. field. lra. }
  rewrite C.
  assert (M : forall (l : list R) m, map (fun x => eps / (2 * sens) * (x - m)) l = map (fun x => eps / (2 * sens) * x) (map (fun x => x - m) l)) by (intros; now rewrite map_map).
  rewrite !M. rewrite !softmax_is_em by (rewrite ?map_length; auto; try congruence; destruct q, q'; simpl; congruence).
  rewrite !em_prob_shift by (auto; congruence). apply exponential_mechanism_eps_dp; auto. Qed.

(* adaptive_grid.exponential_mechanism: as mst's, on the qualities shifted by their maximum *)
Theorem em_adagrid_eps_dp q q' eps sens i : 0 <= eps -> 0 < sens -> q <> [] -> (i < length q)%nat ->
  Forall2 (fun a b => Rabs (a - b) <= sens) q q' ->
  nth i (em_adagrid RNum q eps sens false) 0 <= exp eps * nth i (em_adagrid RNum q' eps sens false) 0.
Proof. intros He Hs NE Hi F. unfold em_adagrid.
  assert (L : length q = length q') by (eapply F2_length; eauto).
  assert (NE' : q' <> []) by (destruct F; congruence).
  change (nmul RNum) with Rmult. change (ndiv RNum) with Rdiv. change (nsub RNum) with Rminus.
  assert (C : lit RNum 1 2 * eps / sens = eps / (2 * sens)). { cbn [lit RNum]. unfold Rdiv. simpl. field. lra. }
  rewrite C.
  assert (M : forall (l : list R) m, map (fun x => eps / (2 * sens) * (x - m)) l = map (fun x => eps / (2 * sens) * x) (map (fun x => x - m) l)) by (intros; now rewrite map_map).
  rewrite !M. rewrite !lse_probs_is_em by (rewrite ?map_length; auto; try congruence; destruct q, q'; simpl; congruence).
  rewrite !em_prob_shift by (auto; congruence). apply exponential_mechanism_eps_dp; auto. Qed.
(* mwem+pgm.worst_approximated: softmax(0.5*eps/sensitivity*(errors - max)), sensitivity = 2 under bounded adjacency else 1: eps-DP when every
   error moves by at most that sensitivity *)
Theorem em_mwem_eps_dp q q' eps (bounded : bool) i : 0 <= eps -> q <> [] -> (i < length q)%nat ->
  Forall2 (fun a b => Rabs (a - b) <= (if bounded then 2 else 1)) q q' ->
  nth i (em_mwem RNum q eps bounded) 0 <= exp eps * nth i (em_mwem RNum q' eps bounded) 0.
Proof. intros He NE Hi F. unfold em_mwem.
  assert (L : length q = length q') by (eapply F2_length; eauto).
  assert (NE' : q' <> []) by (destruct F; congruence).
  change (nmul RNum) with Rmult. change (ndiv RNum) with Rdiv. change (nsub RNum) with Rminus.
  set (sens := if bounded then 2 else 1) in *.
  assert (Hs : 0 < sens) by (unfold sens; destruct bounded; lra).
  assert (C : lit RNum 1 2 * eps / (if bounded then lit RNum 2 1 else lit RNum 1 1) = eps / (2 * sens)).
  { unfold sens. cbn [lit RNum]. destruct bounded; unfold Rdiv; simpl; field. }
  rewrite C.
  assert (M : forall (l : list R) m, map (fun x => eps / (2 * sens) * (x - m)) l = map (fun x => eps / (2 * sens) * x) (map (fun x => x - m) l)) by (intros; now rewrite map_map).
  rewrite !M. rewrite !softmax_is_em by (rewrite ?map_length; auto; try congruence; destruct q, q'; simpl; congruence).
  rewrite !em_prob_shift by (auto; congruence). apply exponential_mechanism_eps_dp; auto. Qed.
