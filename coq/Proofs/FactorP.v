(* C14: every Factor operation is pointwise by attribute NAME.  The single engine is `tbl_of_tabulate`:
   materialising a name-addressed table over a domain and reading it back by name is the identity. *)
From Coq Require Import List Arith Bool Lia.
Import ListNotations.
Require Import PGM.Base.Alg PGM.Base.Sums PGM.Model.Domain PGM.Model.Dataset PGM.Model.Factor PGM.Proofs.DatasetP PGM.Proofs.DomainP.
Set Implicit Arguments.

Definition valid_on (d : dom) (x : asg) := forall a n, lookup d a = Some n -> x a < n.

Lemma index_of_spec a : forall l i, index_of a l = Some i -> i < length l /\ forall d, nth i l d = a.
Proof. induction l as [|b l IH]; simpl; intros i H. discriminate.
  destruct (Nat.eqb_spec b a). injection H as <-. split. lia. now intros.
  destruct (index_of a l) eqn:E; try discriminate. injection H as <-. destruct (IH n0 eq_refl). split. lia. auto. Qed.
Lemma index_of_in a l : In a l -> exists i, index_of a l = Some i.
Proof. induction l as [|b l IH]; simpl; intros H. contradiction.
  destruct (Nat.eqb_spec b a). eauto. destruct H. contradiction. destruct (IH H) as [i ->]. simpl. eauto. Qed.
Lemma asg_of_cell l x a : In a l -> asg_of l (cell_of l x) a = x a.
Proof. intros H. unfold asg_of, cell_of. destruct (index_of_in _ _ H) as [i E]. rewrite E.
  destruct (index_of_spec _ _ E) as [L N]. rewrite (nth_indep _ 0 (x 0)) by now rewrite map_length.
  rewrite map_nth. now rewrite N. Qed.

Lemma lookup_NoDup d a n : NoDup (attrs d) -> In (a, n) d -> lookup d a = Some n.
Proof. induction d as [|[b m] d IH]; simpl; intros ND H. contradiction. inversion ND; subst.
  destruct H as [E|H]. injection E as -> ->. now rewrite Nat.eqb_refl.
  destruct (Nat.eqb_spec b a). subst. exfalso. apply H2. unfold attrs. change a with (fst (a, n)). now apply in_map.
  auto. Qed.
Lemma cell_inshape d x : NoDup (attrs d) -> valid_on d x -> inshape (cell_of (attrs d) x) (dshape d).
Proof. intros ND V. unfold inshape, cell_of, attrs, dshape.
  assert (H : forall a n, In (a, n) d -> x a < n) by (intros; eapply V, lookup_NoDup; eauto).
  clear ND V. induction d as [|[a n] d IH]; simpl; constructor. apply H. now left. apply IH. intros. apply H. now right. Qed.

Section FP.
Variable K : Type.
Variable dflt : K.
Notation factor := (factor K).
Notation tbl_of := (tbl_of dflt).

Lemma tbl_of_dep (f : factor) : dep_on (attrs (fdom f)) (tbl_of f).
Proof. intros x y H. unfold Factor.tbl_of. f_equal. f_equal. unfold cell_of. apply map_ext_in. exact H. Qed.
Lemma dep_on_incl S S' (t : asg -> K) : incl S S' -> dep_on S t -> dep_on S' t.
Proof. intros I D x y H. apply D. auto. Qed.
Lemma dep_on_indep S (t : asg -> K) a : dep_on S t -> ~ In a S -> forall x v, t (upd x a v) = t x.
Proof. intros D N x v. apply D. intros b Hb. apply upd_neq. intros ->. contradiction. Qed.

(* the engine *)
Theorem tbl_of_tabulate d (t : asg -> K) x : NoDup (attrs d) -> valid_on d x -> dep_on (attrs d) t ->
  tbl_of (tabulate d t) x = t x.
Proof. intros ND V D. unfold Factor.tbl_of, tabulate. simpl.
  pose proof (cell_inshape ND V) as IS. pose proof (ravel_lt IS) as L.
  rewrite (nth_indep _ dflt (t (asg_of (attrs d) []))) by (rewrite map_length, cells_length; auto).
  rewrite (map_nth (fun c => t (asg_of (attrs d) c))). rewrite (nth_ravel IS).
  apply D. intros a Ha. now apply asg_of_cell. Qed.
Lemma tabulate_dom d (t : asg -> K) : fdom (tabulate d t) = d. Proof. reflexivity. Qed.
Lemma tabulate_ext d (t t' : asg -> K) : (forall x, t x = t' x) -> tabulate d t = tabulate d t'.
Proof. intros H. unfold tabulate. f_equal. apply map_ext. intros; apply H. Qed.

(* expand: same values by name over the larger domain *)
Theorem expand_spec (f g : factor) d' : expand dflt f d' = Some g -> NoDup (attrs d') ->
  fdom g = d' /\ forall x, valid_on d' x -> tbl_of g x = tbl_of f x.
Proof. unfold expand. destruct (contains d' (fdom f)) eqn:C; try discriminate. intros H ND. injection H as <-.
  split; auto. intros x V. apply tbl_of_tabulate; auto. eapply dep_on_incl; [|apply tbl_of_dep]. now apply contains_spec. Qed.

Lemma seteqb_spec l m : seteqb l m = true <-> (incl l m /\ incl m l).
Proof. unfold seteqb. now rewrite andb_true_iff, !subsetb_spec. Qed.
(* transpose: axes in the requested order, same values by name *)
Theorem transpose_spec (f g : factor) l : transpose dflt f l = Some g -> NoDup l ->
  attrs (fdom g) = l /\ forall x, valid_on (fdom g) x -> tbl_of g x = tbl_of f x.
Proof. unfold transpose. destruct (seteqb l (attrs (fdom f))) eqn:S; try discriminate.
  destruct (project (fdom f) l) as [d'|] eqn:P; try discriminate. intros H ND. injection H as <-.
  pose proof (project_attrs _ _ _ P) as A. split; auto. intros x V. apply tbl_of_tabulate; auto.
  simpl. now rewrite A. simpl. rewrite A. eapply dep_on_incl; [|apply tbl_of_dep]. apply seteqb_spec in S. tauto. Qed.

(* binary operations: result over the ordered union, pointwise by name *)
Theorem fbin_spec op (f g h : factor) : fbin dflt op f g = Some h -> NoDup (attrs (fdom f)) -> NoDup (attrs (fdom g)) ->
  attrs (fdom h) = attrs (fdom f) ++ invert (fdom g) (attrs (fdom f)) /\
  forall x, valid_on (fdom h) x -> tbl_of h x = op (tbl_of f x) (tbl_of g x).
Proof. unfold fbin. destruct (merge (fdom f) (fdom g)) as [d|] eqn:M; try discriminate. intros H NDf NDg. injection H as <-.
  destruct (merge_attrs (fdom f) (fdom g)) as [m [M' A]]. rewrite M in M'. injection M' as <-.
  split; auto. intros x V. simpl in V. apply tbl_of_tabulate; auto.
  - simpl. exact (merge_NoDup _ _ _ NDf NDg M).
  - intros y z Hyz. f_equal; apply tbl_of_dep; intros a Ha; apply Hyz; simpl; apply (merge_In _ _ _ a M); auto. Qed.

Lemma project_nil d : project d [] = Some []. Proof. reflexivity. Qed.
Lemma invert_incl_nil d l : incl (attrs d) l -> invert d l = [].
Proof. intros I. unfold invert. induction (attrs d) as [|a r IH]; simpl; auto.
  assert (memb a l = true) as -> by (apply memb_In, I; now left). simpl. apply IH. intros x Hx. apply I. now right. Qed.
(* in-place variants agree with their pure counterparts *)
Theorem fibin_agrees op (f g : factor) : contains (fdom f) (fdom g) = true -> fibin dflt op f g = fbin dflt op f g.
Proof. intros C. unfold fibin, fbin. rewrite C. unfold merge, marginalize.
  rewrite invert_incl_nil by now apply contains_spec. simpl. now rewrite app_nil_r. Qed.

(* aggregation *)
Lemma fold_var_dep op u shape a S (t : asg -> K) : dep_on S t -> dep_on (filter (fun b => negb (Nat.eqb b a)) S) (fold_var op u shape a t).
Proof. intros D x y H. unfold fold_var. generalize (shape a) as n. induction n; simpl; auto. rewrite IHn. f_equal.
  apply D. intros b Hb. unfold upd. destruct (Nat.eqb_spec b a); auto. apply H. apply filter_In. split; auto.
  apply negb_true_iff. now apply Nat.eqb_neq. Qed.
Lemma fold_vars_dep op u shape l : forall S (t : asg -> K), dep_on S t -> dep_on (filter (fun b => negb (memb b l)) S) (fold_vars op u shape l t).
Proof. induction l as [|a l IH]; simpl; intros S t D.
  - eapply dep_on_incl; [|exact D]. intros b Hb. apply filter_In. auto.
  - eapply dep_on_incl; [|apply IH, fold_var_dep, D]. intros b Hb. apply filter_In in Hb. destruct Hb as [Hb Hn].
    apply filter_In in Hb. destruct Hb as [Hb Hn0]. apply filter_In. split; auto.
    apply negb_true_iff in Hn. apply negb_true_iff in Hn0. apply negb_true_iff. unfold memb in *. simpl.
    now rewrite Hn0, Hn. Qed.
Theorem fagg_spec op u (f g : factor) l : fagg dflt op u f l = Some g -> NoDup (attrs (fdom f)) ->
  attrs (fdom g) = invert (fdom f) l /\
  forall x, valid_on (fdom g) x -> tbl_of g x = fold_vars op u (key_size (fdom f)) l (tbl_of f) x.
Proof. unfold fagg. destruct (axes (fdom f) l); try discriminate.
  destruct (marginalize_defined (fdom f) l) as [d' [M A]]. rewrite M. intros H ND. injection H as <-.
  split; auto. intros x V. apply tbl_of_tabulate; auto.
  - simpl. rewrite A. now apply invert_NoDup.
  - simpl. rewrite A. unfold invert. apply fold_vars_dep, tbl_of_dep. Qed.

(* Factor.project: aggregate everything else, axes in the requested order *)
Theorem fproject_spec op u (f g : factor) l : fproject dflt op u f l = Some g -> NoDup (attrs (fdom f)) -> NoDup l ->
  attrs (fdom g) = l /\
  forall x, valid_on (fdom g) x -> exists s, fagg dflt op u f (invert (fdom f) l) = Some s /\ valid_on (fdom s) x /\
     tbl_of g x = fold_vars op u (key_size (fdom f)) (invert (fdom f) l) (tbl_of f) x.
Proof. unfold fproject. destruct (fagg dflt op u f (invert (fdom f) l)) as [s|] eqn:E; try discriminate.
  intros T NDf NDl. destruct (@fagg_spec op u f s _ E NDf) as [A V]. destruct (@transpose_spec s g l T NDl) as [A' V'].
  split; auto. intros x Vx. exists s. split; auto.
  assert (Vs : valid_on (fdom s) x).
  { unfold transpose in T. destruct (seteqb l (attrs (fdom s))) eqn:S; try discriminate.
    destruct (project (fdom s) l) as [d'|] eqn:P; try discriminate. injection T as <-. simpl in Vx.
    intros a n Hl. apply Vx. rewrite (project_lookup _ _ _ a P); auto. apply seteqb_spec in S. apply S.
    eapply lookup_some_in; eauto. }
  split; auto. rewrite V' by assumption. now apply V. Qed.

(* conditioning *)
Lemma override_notin ev x a : ~ In a (map fst ev) -> override ev x a = x a.
Proof. induction ev as [|[b v] ev IH]; simpl; intros H; auto. rewrite upd_neq by (intros ->; apply H; now left). apply IH. intro. apply H. now right. Qed.
Lemma override_dep ev : forall x y a, (x a = y a \/ In a (map fst ev)) -> override ev x a = override ev y a.
Proof. induction ev as [|[b v] ev IH]; simpl; intros x y a H. tauto.
  unfold upd. destruct (Nat.eqb_spec a b); auto. apply IH. destruct H as [H|[H|H]]; auto. congruence. Qed.
Theorem condition_spec (f g : factor) ev : condition dflt f ev = Some g -> NoDup (attrs (fdom f)) ->
  attrs (fdom g) = invert (fdom f) (map fst ev) /\
  forall x, valid_on (fdom g) x -> tbl_of g x = tbl_of f (override ev x).
Proof. unfold condition. destruct (evidence_ok (fdom f) ev); try discriminate.
  destruct (marginalize_defined (fdom f) (map fst ev)) as [d' [M A]]. rewrite M. intros H ND. injection H as <-.
  split; auto. intros x V. apply (@tbl_of_tabulate d' (fun x => tbl_of f (override ev x)) x); auto.
  - simpl. rewrite A. now apply invert_NoDup.
  - simpl. rewrite A. intros y z Hyz. apply tbl_of_dep. intros a Ha. apply override_dep.
    destruct (in_dec Nat.eq_dec a (map fst ev)); auto. left. apply Hyz. apply invert_In. auto. Qed.

(* scalar / elementwise maps act on every entry *)
Theorem fmap_spec (h : K -> K) (f : factor) x : ravel (dshape (fdom f)) (cell_of (attrs (fdom f)) x) < length (fvals f) ->
  Factor.tbl_of (h dflt) (fmap h f) x = h (tbl_of f x).
Proof. intros L. unfold Factor.tbl_of, fmap. simpl. now rewrite map_nth. Qed.

(* CliqueVector: clique by clique *)
Lemma add_into_spec op cl (g : factor) : forall (v : cvec K),
  (forall c f, In (c, f) v -> subsetb cl c = false) /\ add_into dflt op cl g v = v
  \/ exists v1 c f v2, v = v1 ++ (c, f) :: v2 /\ (forall c' f', In (c', f') v1 -> subsetb cl c' = false) /\ subsetb cl c = true /\
       add_into dflt op cl g v = v1 ++ (c, match fibin dflt op f g with Some h => h | None => f end) :: v2.
Proof. induction v as [|[c f] v IH]; simpl. left. split; auto. intros ? ? [].
  destruct (subsetb cl c) eqn:S.
  - right. exists [], c, f, v. simpl. repeat split; auto. intros ? ? []. destruct (fibin dflt op f g); auto.
  - destruct IH as [[N E]|[v1 [c' [f' [v2 [E [N [S' A]]]]]]]].
    + left. split. intros c0 f0 [H|H]. now injection H as <- <-. eauto. now rewrite E.
    + right. exists ((c, f) :: v1), c', f', v2. subst v. simpl. rewrite A. repeat split; auto.
      intros c0 f0 [H|H]. now injection H as <- <-. eauto. Qed.
End FP.

(* link to the sums of Base/Sums.v: aggregation with (+, 0) is sum_vars *)
From Coq Require Import FunctionalExtensionality.
Lemma foldn_sumn (R : SR) n : forall h, foldn (add R) (zero R) n h = @sumn R n h.
Proof. induction n; simpl; intros; auto. now rewrite IHn. Qed.
Lemma fold_var_sum (R : SR) shape a (t : asg -> car R) : fold_var (add R) (zero R) shape a t = @sum_var R shape a t.
Proof. extensionality x. unfold fold_var, sum_var. apply foldn_sumn. Qed.
Lemma fold_vars_sum (R : SR) shape l : forall (t : asg -> car R), fold_vars (add R) (zero R) shape l t = @sum_vars R shape l t.
Proof. induction l as [|a l IH]; simpl; intros t; auto. now rewrite IH, fold_var_sum. Qed.
