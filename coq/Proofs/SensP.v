(* Sensitivity of what the mechanisms release (C05): one record changes one cell of every marginal by its weight, hence the L1 and L2
   change of a marginal is 1 when a record is added/removed and at most 2 resp. sqrt 2 when one is replaced; L1 error scores move by at
   most the L1 change of the marginal. *)
From Coq Require Import List Arith Reals Lra Lia Bool.
Import ListNotations.
Require Import PGM.Base.Alg PGM.Base.Sums PGM.Model.Domain PGM.Model.Dataset PGM.Proofs.CertP.

(* ---- structure, for every semiring: adding a record changes the histogram in exactly one cell, and commutes with projection ---- *)
Section Generic.
Variable S : SR.
Lemma hist_add_record shape r w rs ws j :
  hist S shape (r :: rs) (w :: ws) j = if Nat.eqb j (ravel shape r) then add S (hist S shape rs ws j) w else hist S shape rs ws j.
Proof. reflexivity. Qed.
Definition add_record (D : dataset S) (r : list nat) (w : car S) : dataset S := {| ddom := ddom D; rows := r :: rows D; weights := w :: weights D |}.
Lemma project_add_record D r w cols : dproject (add_record D r w) cols =
  match project (ddom D) cols, axes (ddom D) cols, dproject D cols with
  | Some _, Some ax, Some D' => Some (add_record D' (select ax r) w)
  | _, _, _ => None
  end.
Proof. unfold dproject, add_record; cbn [ddom rows weights]. destruct (project (ddom D) cols); [|reflexivity]. destruct (axes (ddom D) cols); reflexivity. Qed.
End Generic.

(* ---- on the reals ---- *)
Open Scope R_scope.
Definition bump (h : nat -> R) (i : nat) (w : R) : nat -> R := fun j => if Nat.eqb j i then h j + w else h j.
Definition l1 (n : nat) (u v : nat -> R) : R := sumf n (fun j => Rabs (u j - v j)).
Definition l2sq (n : nat) (u v : nat -> R) : R := sumf n (fun j => (u j - v j) * (u j - v j)).

Lemma sumf_nonneg n f : (forall j, (j < n)%nat -> 0 <= f j) -> 0 <= sumf n f.
Proof. induction n as [|n IH]; intros H; simpl. lra. pose proof (H n ltac:(lia)). specialize (IH ltac:(intros; apply H; lia)). lra. Qed.
Lemma sumf_le n f g : (forall j, (j < n)%nat -> f j <= g j) -> sumf n f <= sumf n g.
Proof. induction n as [|n IH]; intros H; simpl. lra. pose proof (H n ltac:(lia)). specialize (IH ltac:(intros; apply H; lia)). lra. Qed.
Lemma sumf_outside n i a : (n <= i)%nat -> sumf n (fun j => if Nat.eqb j i then a else 0) = 0.
Proof. intros H. rewrite (sumf_ext n _ (fun _ => 0)). apply sumf_zero. intros j Hj. destruct (Nat.eqb_spec j i); [lia|reflexivity]. Qed.

(* add / remove one record of weight w: exactly |w| in L1 and w^2 in squared L2 (0 if the record falls outside the table) *)
Theorem l1_add_record n h i w : (i < n)%nat -> l1 n (bump h i w) h = Rabs w.
Proof. intros H. unfold l1, bump. rewrite (sumf_ext n _ (fun j => if Nat.eqb j i then Rabs w else 0)). apply sumf_single; exact H.
  intros j Hj. destruct (Nat.eqb j i). f_equal; ring. replace (h j - h j) with 0 by ring. apply Rabs_R0. Qed.
Theorem l2_add_record n h i w : (i < n)%nat -> l2sq n (bump h i w) h = w * w.
Proof. intros H. unfold l2sq, bump. rewrite (sumf_ext n _ (fun j => if Nat.eqb j i then w * w else 0)). apply sumf_single; exact H.
  intros j Hj. destruct (Nat.eqb j i); ring. Qed.
(* replace one record (both datasets are the common part plus one record each): at most 2|w| in L1, 2 w^2 in squared L2 *)
Theorem l2_replace_record n h i k w : (i < n)%nat -> (k < n)%nat -> l2sq n (bump h i w) (bump h k w) = if Nat.eqb i k then 0 else 2 * (w * w).
Proof. intros Hi Hk. unfold l2sq, bump. destruct (Nat.eqb_spec i k) as [E|E].
  - subst k. rewrite (sumf_ext n _ (fun _ => 0)). apply sumf_zero. intros j Hj. destruct (Nat.eqb j i); ring.
  - rewrite (sumf_ext n _ (fun j => (if Nat.eqb j i then w * w else 0) + (if Nat.eqb j k then w * w else 0))).
    + rewrite sumf_add, !sumf_single by assumption. ring.
    + intros j Hj. destruct (Nat.eqb_spec j i) as [A|A], (Nat.eqb_spec j k) as [B|B]; try ring. exfalso; apply E; congruence. Qed.
Theorem l1_replace_record n h i k w : (i < n)%nat -> (k < n)%nat -> l1 n (bump h i w) (bump h k w) = if Nat.eqb i k then 0 else 2 * Rabs w.
Proof. intros Hi Hk. unfold l1, bump. destruct (Nat.eqb_spec i k) as [E|E].
  - subst k. rewrite (sumf_ext n _ (fun _ => 0)). apply sumf_zero. intros j Hj. destruct (Nat.eqb j i); (replace (h j + w - (h j + w)) with 0 by ring) || (replace (h j - h j) with 0 by ring); apply Rabs_R0.
  - rewrite (sumf_ext n _ (fun j => (if Nat.eqb j i then Rabs w else 0) + (if Nat.eqb j k then Rabs w else 0))).
    + rewrite sumf_add, !sumf_single by assumption. ring.
    + intros j Hj. destruct (Nat.eqb_spec j i) as [A|A], (Nat.eqb_spec j k) as [B|B].
      * exfalso; apply E; congruence.
      * replace (h j + w - h j) with w by ring. ring.
      * replace (h j - (h j + w)) with (- w) by ring. rewrite Rabs_Ropp. ring.
      * replace (h j - h j) with 0 by ring. rewrite Rabs_R0. ring. Qed.

(* L1 error scores (MST, AIM, MWEM: || true marginal - model marginal ||_1, possibly shifted and scaled): they move by at most the L1
   change of the true marginal, for ANY model marginal m *)
Theorem l1_score_sensitivity n x x' m : Rabs (l1 n x' m - l1 n x m) <= l1 n x' x.
Proof. unfold l1. induction n as [|n IH]; simpl. rewrite Rminus_0_r, Rabs_R0. lra.
  assert (T : Rabs (Rabs (x' n - m n) - Rabs (x n - m n)) <= Rabs (x' n - x n)).
  { replace (x' n - x n) with ((x' n - m n) - (x n - m n)) by ring. apply Rabs_triang_inv2. }
  eapply Rle_trans. 2: apply Rplus_le_compat; [exact IH | exact T].
  eapply Rle_trans. 2: apply Rabs_triang. right. f_equal. ring. Qed.
(* affine scores w * (l1 - bias) with a data-independent bias: sensitivity |w| times the above *)
Theorem weighted_score_sensitivity n x x' m w b : Rabs (w * (l1 n x' m - b) - w * (l1 n x m - b)) <= Rabs w * l1 n x' x.
Proof. replace (w * (l1 n x' m - b) - w * (l1 n x m - b)) with (w * (l1 n x' m - l1 n x m)) by ring. rewrite Rabs_mult.
  apply Rmult_le_compat_l. apply Rabs_pos. apply l1_score_sensitivity. Qed.
(* a linear query with matrix rows q_r applied to the marginal: each answer moves by at most max |q_rj| times the L1 change *)
Theorem linear_query_sensitivity n q x x' c : (forall j, (j < n)%nat -> Rabs (q j) <= c) ->
  Rabs (sumf n (fun j => q j * x' j) - sumf n (fun j => q j * x j)) <= c * l1 n x' x.
Proof. intros H. unfold l1. induction n as [|n IH]; simpl. rewrite Rminus_0_r, Rabs_R0. lra.
  specialize (IH ltac:(intros; apply H; lia)). pose proof (H n ltac:(lia)) as Hn.
  replace (sumf n (fun j => q j * x' j) + q n * x' n - (sumf n (fun j => q j * x j) + q n * x n))
    with ((sumf n (fun j => q j * x' j) - sumf n (fun j => q j * x j)) + q n * (x' n - x n)) by ring.
  eapply Rle_trans. apply Rabs_triang. rewrite Rabs_mult.
  assert (Rabs (q n) * Rabs (x' n - x n) <= c * Rabs (x' n - x n)) by (apply Rmult_le_compat_r; [apply Rabs_pos | exact Hn]). lra. Qed.
