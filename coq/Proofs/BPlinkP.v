(* C01, layer 3: glue.  The true messages are M i j := up (scope j) (tree i j) with the rooted trees read off
   the schedule; they satisfy the Shafer-Shenoy recursion; the checked junction-tree conditions turn the
   belief at every clique into the brute-force marginal of the explicit joint; normalisation by Z. *)
From Coq Require Import List Arith Lia Bool FunctionalExtensionality Permutation.
Import ListNotations.
Require Import PGM.Base.Alg PGM.Base.Sums PGM.Model.BP PGM.Proofs.BPrunP PGM.Proofs.JTP PGM.Proofs.DomainP.

(* ---------- boolean checkers ---------- *)
Lemma count_count_occ a l : count a l = count_occ Nat.eq_dec l a.
Proof. unfold count. induction l as [|b l IH]; simpl; auto. destruct (Nat.eq_dec b a) as [->|N].
  - rewrite Nat.eqb_refl. simpl. now rewrite IH.
  - destruct (Nat.eqb_spec a b). congruence. exact IH. Qed.
Lemma count_notin a l : ~ In a l -> count a l = 0.
Proof. intros H. rewrite count_count_occ. now apply count_occ_not_In. Qed.
Lemma permb_perm l1 l2 : permb l1 l2 = true -> Permutation l1 l2.
Proof. unfold permb. rewrite forallb_forall. intros H. apply (Permutation_count_occ Nat.eq_dec). intros x.
  rewrite <- !count_count_occ. destruct (in_dec Nat.eq_dec x (l1 ++ l2)) as [I|I].
  - now apply Nat.eqb_eq, H.
  - rewrite !count_notin; auto; intro; apply I; apply in_or_app; auto. Qed.
Lemma nodupb_NoDup l : nodupb l = true -> NoDup l.
Proof. induction l as [|a l IH]; simpl; intros H. constructor. apply andb_prop in H. destruct H as [H1 H2].
  constructor; auto. apply negb_true_iff in H1. now apply memb_nIn. Qed.
Lemma memE_In e l : memE e l = true <-> In e l.
Proof. unfold memE. rewrite existsb_exists. split. intros [x [H E]]. apply edge_eqb_spec in E. now subst.
  intros H. exists e. split; auto. now apply edge_eqb_spec. Qed.

Section Link.
Variable R : SF.
Notation K := (car R).
Variable shape : nat -> nat.
Variable D : list nat.
Variable ncl : nat.
Variable scope : nat -> list nat.
Variable nbrs : nat -> list nat.
Variable psi : nat -> tbl R.
Notation tbl := (tbl R).
Notation sum_vars := (@sum_vars R shape).
Notation valid := (valid shape).

Hypothesis nbrs_nodup : forall c, NoDup (nbrs c).
Hypothesis nbrs_sym : forall i j, In j (nbrs i) -> In i (nbrs j).
Hypothesis nbrs_lt : forall i j, In j (nbrs i) -> j < ncl.
Hypothesis nbrs_irrefl : forall i, ~ In i (nbrs i).
Hypothesis psi_dep : forall c, dep_on D (psi c).
Hypothesis psi_wf : forall c a, ~ In a (scope c) -> @indep R a (psi c).
Hypothesis shape_pos : forall a, 0 < shape a.
Hypothesis D_nodup : NoDup D.
Hypothesis scope_nodup : forall c, c < ncl -> NoDup (scope c).
Hypothesis scope_sub : forall c, c < ncl -> incl (scope c) D.

Lemma vstepb_spec done e : vstepb nbrs done e = true <-> vstep nbrs done e.
Proof. unfold vstepb, vstep. rewrite !andb_true_iff, memb_In, negb_true_iff, forallb_forall. split.
  - intros [[H1 H2] H3]. split; auto. split. intro I. apply memE_In in I. congruence.
    intros k Hk N. specialize (H3 k Hk). apply orb_prop in H3. destruct H3 as [E|E]. apply Nat.eqb_eq in E. contradiction. now apply memE_In.
  - intros [H1 [H2 H3]]. split; [split|]; auto.
    destruct (memE e done) eqn:E; auto. apply memE_In in E. contradiction.
    intros k Hk. destruct (Nat.eqb_spec k (snd e)); simpl; auto. apply memE_In. auto. Qed.
Lemma vschedb_spec sch : forall done, vschedb nbrs done sch = true -> valid_sched nbrs done sch.
Proof. induction sch as [|e r IH]; simpl; intros done H; auto. apply andb_prop in H. destruct H as [H1 H2].
  split. now apply vstepb_spec. now apply IH. Qed.

(* ---------- trees read off the schedule ---------- *)
Notation tree_of := (tree_of).
Notation trees := (trees nbrs).
Record TInv (ts : list ((nat * nat) * rt)) (done : list (nat * nat)) : Prop := {
  T0 : forall e, gett e ts = None <-> ~ In e done;
  T1 : forall i j t, gett (i, j) ts = Some t -> t = Node i (map (fun k => tree_of ts k i) (others j (nbrs i)));
  T2 : forall i j, In (i, j) done -> forall k, In k (others j (nbrs i)) -> In (k, i) done }.

Lemma gett_eq e l t : gett e ((e, t) :: l) = Some t.
Proof. simpl. now rewrite (proj2 (edge_eqb_spec e e) eq_refl). Qed.
Lemma gett_neq e e' l t : e' <> e -> gett e ((e', t) :: l) = gett e l.
Proof. intros N. simpl. destruct (edge_eqb e' e) eqn:E; auto. apply edge_eqb_spec in E. contradiction. Qed.

Lemma tstep_inv ts done i j : TInv ts done -> vstep nbrs done (i, j) -> TInv (tstep nbrs ts (i, j)) ((i, j) :: done).
Proof. intros INV [Hj [Hnew Hdeps]]. simpl in Hj, Hnew, Hdeps. unfold tstep.
  assert (STAB : forall k i0, In (k, i0) done -> tree_of (((i, j), Node i (map (fun k0 => tree_of ts k0 i) (others j (nbrs i)))) :: ts) k i0 = tree_of ts k i0).
  { intros k i0 H. unfold BP.tree_of. rewrite gett_neq; auto. intros E. injection E as <- <-. contradiction. }
  constructor.
  - intros e. destruct (edge_dec (i, j) e) as [<-|N].
    + rewrite gett_eq. split. discriminate. intros H. exfalso. apply H. now left.
    + rewrite gett_neq by assumption. rewrite (T0 _ _ INV). simpl. tauto.
  - intros i0 j0 t Ht. destruct (edge_dec (i, j) (i0, j0)) as [E|N].
    + injection E as <- <-. rewrite gett_eq in Ht. injection Ht as <-. f_equal. apply map_ext_in. intros k Hk.
      symmetry. apply STAB. apply others_in in Hk. now apply Hdeps.
    + rewrite gett_neq in Ht by assumption. rewrite (T1 _ _ INV _ _ _ Ht). f_equal. apply map_ext_in. intros k Hk.
      symmetry. apply STAB. apply (T2 _ _ INV i0 j0); auto.
      destruct (in_dec edge_dec (i0, j0) done) as [I|I]; auto. apply (T0 _ _ INV) in I. congruence.
  - intros i0 j0 [E|H] k Hk.
    + injection E as <- <-. right. apply others_in in Hk. now apply Hdeps.
    + right. now apply (T2 _ _ INV i0 j0). Qed.

Lemma trees_inv sch : forall ts done, TInv ts done -> valid_sched nbrs done sch -> TInv (fold_left (tstep nbrs) sch ts) (rev sch ++ done).
Proof. induction sch as [|[i j] r IH]; simpl; intros ts done INV V. exact INV.
  destruct V as [V1 V2]. rewrite <- app_assoc. simpl. apply IH; auto. now apply tstep_inv. Qed.
Lemma TInv_nil : TInv [] [].
Proof. constructor; simpl; intros; try tauto; discriminate. Qed.

Variable sch : list (nat * nat).
Hypothesis sch_valid : valid_sched nbrs [] sch.
Hypothesis sch_complete : forall c k, In k (nbrs c) -> In (k, c) sch.

Definition tr (k i : nat) : rt := tree_of (trees sch) k i.
Lemma tr_unfold i j : In j (nbrs i) -> tr i j = Node i (map (fun k => tr k i) (others j (nbrs i))).
Proof. intros Hj. pose proof (trees_inv sch [] [] TInv_nil sch_valid) as INV. rewrite app_nil_r in INV.
  unfold tr, BP.tree_of at 1. destruct (gett (i, j) (trees sch)) eqn:E.
  - exact (T1 _ _ INV _ _ _ E).
  - apply (T0 _ _ INV) in E. exfalso. apply E. apply in_rev. rewrite rev_involutive. apply sch_complete. now apply nbrs_sym. Qed.
Lemma tr_root k i : match tr k i with Node c _ => c end = k.
Proof. pose proof (trees_inv sch [] [] TInv_nil sch_valid) as INV. unfold tr, BP.tree_of.
  destruct (gett (k, i) (trees sch)) eqn:E; auto. now rewrite (T1 _ _ INV _ _ _ E). Qed.

(* ---------- the true messages ---------- *)
Notation up := (up R shape scope psi).
Definition Mtrue (i j : nat) : tbl := up (scope j) (tr i j).

Lemma prodt_prodl (l : list nat) (g : nat -> tbl) y : @prodt R (map g l) y = prodl R (map (fun k => g k y) l).
Proof. induction l; simpl; auto. unfold tmul. now rewrite IHl. Qed.

Lemma Mtrue_rec i j : In j (nbrs i) -> forall x, Mtrue i j x = sum_vars (elimv scope i j) (F R nbrs psi Mtrue i j) x.
Proof. intros Hj x. unfold Mtrue at 1. rewrite (tr_unfold i j Hj). simpl. unfold BP.elimv.
  apply sum_vars_ext. intros y. unfold tmul, F. f_equal. rewrite map_map. apply prodt_prodl. Qed.
Lemma Mtrue_indep i j a : ~ In a (scope i) -> @indep R a (Mtrue i j).
Proof. intros H. unfold Mtrue. apply up_indep; auto. now rewrite tr_root. Qed.

(* ---------- beliefs are sums of the joint ---------- *)
Notation bel := (@bel R D).
Notation run := (@run R shape D scope).
Notation init := (@init R shape D ncl psi).
Notation jointt := (jointt R psi).
Definition rtree (c : nat) : rt := root_tree nbrs sch c.

Theorem belief_is_subtree_sum c x : c < ncl -> valid x -> goodb scope (rtree c) = true ->
  bel (run sch init) c x = sum_vars (flat_map (elimt scope (scope c)) (map (fun k => tr k c) (nbrs c))) (jointt (rtree c)) x.
Proof. intros Hc Vx G.
  rewrite (run_beliefs R shape D ncl scope nbrs psi nbrs_nodup nbrs_sym nbrs_lt psi_dep Mtrue Mtrue_rec Mtrue_indep sch sch_valid sch_complete c x Hc Vx).
  pose proof (root_belief R shape scope psi psi_wf c (map (fun k => tr k c) (nbrs c)) (goodb_good scope (Node c (map (fun k => tr k c) (nbrs c))) G)) as RB.
  change (rtree c) with (Node c (map (fun k => tr k c) (nbrs c))).
  rewrite <- RB. unfold tmul. f_equal. rewrite map_map.
  symmetry. apply (prodt_prodl (nbrs c) (fun k => up (scope c) (tr k c))). Qed.

Lemma perm_diff_app S : NoDup S -> incl S D -> Permutation (diff D S ++ S) D.
Proof. intros NS I. apply NoDup_Permutation; auto.
  - apply NoDup_app_disj; auto. unfold diff. now apply NoDup_filter. intros a Ha Hb. apply diff_In in Ha. tauto.
  - intros a. rewrite in_app_iff, diff_In. split. intros [[H _]|H]; auto. intros H. destruct (in_dec Nat.eq_dec a S); auto. Qed.

Hypothesis roots_ok : forall c, c < ncl -> rootokb D ncl scope nbrs sch c = true.
Notation joint := (joint R ncl psi).

Theorem belief_is_marginal c x : c < ncl -> valid x ->
  bel (run sch init) c x = sum_vars (diff D (scope c)) joint x.
Proof. intros Hc Vx. pose proof (roots_ok c Hc) as RO. unfold rootokb in RO.
  apply andb_prop in RO. destruct RO as [RO P2]. apply andb_prop in RO. destruct RO as [G P1].
  rewrite (belief_is_subtree_sum c x Hc Vx G).
  assert (Q2 : Permutation (flat_map (elimt scope (scope c)) (map (fun k => tr k c) (nbrs c))) (diff D (scope c))) by exact (permb_perm _ _ P2).
  assert (Q1 : Permutation (nodes (rtree c)) (seq 0 ncl)) by exact (permb_perm _ _ P1).
  rewrite (@sum_vars_perm R shape _ _ (jointt (rtree c)) Q2).
  f_equal. unfold JTP.jointt, BP.joint. apply prodt_perm. apply Permutation_map. exact Q1. Qed.

Lemma base0_valid : valid base0. Proof. intros a. apply shape_pos. Qed.

Theorem Z_is_total_mass c0 : c0 < ncl -> @Zof R shape D scope (run sch init) c0 = sum_vars D joint base0.
Proof. intros Hc. unfold Zof.
  rewrite (@sum_vars_ext_on R shape (scope c0) (bel (run sch init) c0) (sum_vars (diff D (scope c0)) joint) base0).
  - rewrite <- sum_vars_app. apply (f_equal (fun f => f base0)). apply sum_vars_perm.
    apply perm_diff_app; auto.
  - intros y A Rg. apply belief_is_marginal; auto. exact (@valid_fibre shape _ _ _ base0_valid A Rg). Qed.

(* C01: every clique marginal produced by belief propagation equals the brute-force marginal of the
   normalised product of the potentials, scaled to the total *)
Theorem bp_exact total c0 c x : c0 < ncl -> c < ncl -> valid x ->
  @marginal R shape D ncl scope psi sch total c0 c x = @brute R shape D ncl psi total (scope c) x.
Proof. intros H0 Hc Vx. unfold marginal, brute. rewrite belief_is_marginal by auto. now rewrite Z_is_total_mass. Qed.

(* ---------- C16: synchronous (flooding) message passing - what loopy propagation does on a tree ----------
   Every round recomputes EVERY message from the previous round's messages, m'(i->j) = sum_{C_i \ C_j} psi_i * prod_{k <> j} m(k->i)
   (division-free, unnormalised).  On a tree the message i->j only depends on the subtree hanging off i away from j, so after as
   many rounds as that subtree is high it IS the true message, whatever the initial messages were; once every message is true the
   beliefs psi_c * prod_k m(k->c), normalised to the total, are the brute-force marginals. *)
Definition flood (m : nat -> nat -> tbl) : nat -> nat -> tbl := fun i j => sum_vars (elimv scope i j) (F R nbrs psi m i j).
Fixpoint height (t : rt) : nat := match t with Node _ ks => S (fold_right (fun k acc => Nat.max (height k) acc) 0 ks) end.
Lemma height_child c ks k : In k ks -> height k < height (Node c ks).
Proof. simpl. induction ks as [|k' r IH]; simpl; intros H. contradiction. destruct H as [->|H]. lia. specialize (IH H). lia. Qed.

Theorem flood_reaches_true_messages n : forall i j, In j (nbrs i) -> height (tr i j) <= n ->
  forall m0 x, Nat.iter n flood m0 i j x = Mtrue i j x.
Proof. induction n as [|n IH]; intros i j Hj Hh m0 x.
  - exfalso. destruct (tr i j); simpl in Hh; lia.
  - simpl. unfold flood at 1. rewrite (Mtrue_rec i j Hj). apply sum_vars_ext. intros y. unfold F. f_equal. f_equal.
    apply map_ext_in. intros k Hk0. pose proof Hk0 as Hk. unfold others in Hk. apply filter_In in Hk. destruct Hk as [Hk _].
    apply IH. now apply nbrs_sym.
    assert (HC : height (tr k i) < height (tr i j)).
    { rewrite (tr_unfold i j Hj). apply height_child. apply in_map_iff. exists k. split; auto. }
    lia. Qed.

(* Asynchronous sweeps (what the code does: first every factor -> variable message, then every variable -> factor message, each
   half using the other half's latest values).  A step recomputes the messages selected by U from the current ones and keeps the others.
   As long as all messages of height <= k are true, any step keeps every true message of height <= k+1 true and makes every SELECTED
   message of height <= k+1 true; so a sweep - any sequence of steps that selects every message at least once - raises k by one. *)
Definition astep (U : nat -> nat -> bool) (m : nat -> nat -> tbl) : nat -> nat -> tbl :=
  fun i j => if U i j then flood m i j else m i j.
Definition exact_upto (k : nat) (m : nat -> nat -> tbl) : Prop :=
  forall i j, In j (nbrs i) -> height (tr i j) <= k -> forall x, m i j x = Mtrue i j x.
Lemma flood_from_exact k m i j : exact_upto k m -> In j (nbrs i) -> height (tr i j) <= S k -> forall x, flood m i j x = Mtrue i j x.
Proof. intros E Hj Hh x. unfold flood. rewrite (Mtrue_rec i j Hj). apply sum_vars_ext. intros y. unfold F. f_equal. f_equal.
  apply map_ext_in. intros k0 Hk0. pose proof Hk0 as Hk. unfold others in Hk. apply filter_In in Hk. destruct Hk as [Hk _].
  apply E. now apply nbrs_sym.
  assert (HC : height (tr k0 i) < height (tr i j)).
  { rewrite (tr_unfold i j Hj). apply height_child. apply in_map_iff. exists k0. split; auto. }
  lia. Qed.
Lemma astep_keeps k U m : exact_upto k m -> exact_upto k (astep U m).
Proof. intros E i j Hj Hh x. unfold astep. destruct (U i j). apply (flood_from_exact k m i j E Hj). lia. now apply E. Qed.
Lemma astep_edge k U m i j : exact_upto k m -> In j (nbrs i) -> height (tr i j) <= S k ->
  (U i j = true \/ forall x, m i j x = Mtrue i j x) -> forall x, astep U m i j x = Mtrue i j x.
Proof. intros E Hj Hh H x. unfold astep. destruct (U i j) eqn:EU. now apply (flood_from_exact k m i j E Hj Hh). destruct H as [H|H]. discriminate. apply H. Qed.
Definition asweep (Us : list (nat -> nat -> bool)) (m : nat -> nat -> tbl) := fold_left (fun m U => astep U m) Us m.
Lemma asweep_keeps k Us : forall m, exact_upto k m -> exact_upto k (asweep Us m).
Proof. induction Us as [|U r IH]; intros m E; simpl; auto. apply IH. now apply astep_keeps. Qed.
Lemma asweep_edge k Us : forall m i j, exact_upto k m -> In j (nbrs i) -> height (tr i j) <= S k ->
  (existsb (fun U => U i j) Us = true \/ forall x, m i j x = Mtrue i j x) -> forall x, asweep Us m i j x = Mtrue i j x.
Proof. induction Us as [|U r IH]; intros m i j E Hj Hh H; simpl in *.
  - destruct H as [H|H]. discriminate. exact H.
  - apply IH; auto. now apply astep_keeps.
    destruct H as [H|H].
    + apply orb_true_iff in H. destruct H as [H|H]. right. apply (astep_edge k U m i j E Hj Hh). now left. now left.
    + right. apply (astep_edge k U m i j E Hj Hh). now right. Qed.
(* one full sweep raises the exactness level by one; n sweeps reach level n from ANY initial messages *)
Definition covers (Us : list (nat -> nat -> bool)) : Prop := forall i j, In j (nbrs i) -> existsb (fun U => U i j) Us = true.
Lemma asweep_raises k Us m : covers Us -> exact_upto k m -> exact_upto (S k) (asweep Us m).
Proof. intros C E i j Hj Hh x. apply (asweep_edge k Us m i j E Hj Hh). left. now apply C. Qed.
Lemma exact_upto_0 m : exact_upto 0 m.
Proof. intros i j Hj Hh. exfalso. destruct (tr i j); simpl in Hh; lia. Qed.
Theorem asweeps_reach_true_messages Us (C : covers Us) n m0 : exact_upto n (Nat.iter n (asweep Us) m0).
Proof. induction n as [|n IH]; simpl. apply exact_upto_0. now apply asweep_raises. Qed.
Definition flood_belief (n : nat) (m0 : nat -> nat -> tbl) (c : nat) : tbl :=
  fun x => mul R (psi c x) (prodl R (map (fun k => Nat.iter n flood m0 k c x) (nbrs c))).
Theorem flood_exact n m0 total c0 c x : (forall i j, In j (nbrs i) -> height (tr i j) <= n) -> c0 < ncl -> c < ncl -> valid x ->
  mul R (flood_belief n m0 c x) (div R total (sum_vars (scope c0) (flood_belief n m0 c0) base0)) = @brute R shape D ncl psi total (scope c) x.
Proof. intros H H0 Hc Vx.
  assert (E : forall c' y, c' < ncl -> valid y -> flood_belief n m0 c' y = bel (run sch init) c' y).
  { intros c' y Hc' Vy.
    rewrite (run_beliefs R shape D ncl scope nbrs psi nbrs_nodup nbrs_sym nbrs_lt psi_dep Mtrue Mtrue_rec Mtrue_indep sch sch_valid sch_complete c' y Hc' Vy).
    unfold flood_belief. f_equal. f_equal. apply map_ext_in. intros k Hk. apply flood_reaches_true_messages. now apply nbrs_sym. apply H. now apply nbrs_sym. }
  rewrite <- (bp_exact total c0 c x H0 Hc Vx). unfold marginal. rewrite E by auto. f_equal. f_equal. unfold Zof.
  apply sum_vars_ext_on. intros y A Rg. apply E; auto. exact (@valid_fibre shape _ _ _ base0_valid A Rg). Qed.

(* beliefs from any messages that are true on every edge: the brute-force marginals *)
Definition belief_of_msgs (m : nat -> nat -> tbl) (c : nat) : tbl := fun x => mul R (psi c x) (prodl R (map (fun k => m k c x) (nbrs c))).
Theorem true_messages_give_marginals n m total c0 c x : exact_upto n m -> (forall i j, In j (nbrs i) -> height (tr i j) <= n) ->
  c0 < ncl -> c < ncl -> valid x ->
  mul R (belief_of_msgs m c x) (div R total (sum_vars (scope c0) (belief_of_msgs m c0) base0)) = @brute R shape D ncl psi total (scope c) x.
Proof. intros EX H H0 Hc Vx.
  assert (E : forall c' y, c' < ncl -> valid y -> belief_of_msgs m c' y = bel (run sch init) c' y).
  { intros c' y Hc' Vy.
    rewrite (run_beliefs R shape D ncl scope nbrs psi nbrs_nodup nbrs_sym nbrs_lt psi_dep Mtrue Mtrue_rec Mtrue_indep sch sch_valid sch_complete c' y Hc' Vy).
    unfold belief_of_msgs. f_equal. f_equal. apply map_ext_in. intros k Hk. apply EX. now apply nbrs_sym. apply H. now apply nbrs_sym. }
  rewrite <- (bp_exact total c0 c x H0 Hc Vx). unfold marginal. rewrite E by auto. f_equal. f_equal. unfold Zof.
  apply sum_vars_ext_on. intros y A Rg. apply E; auto. exact (@valid_fibre shape _ _ _ base0_valid A Rg). Qed.
Corollary asweeps_exact Us n m0 total c0 c x : covers Us -> (forall i j, In j (nbrs i) -> height (tr i j) <= n) -> c0 < ncl -> c < ncl -> valid x ->
  mul R (belief_of_msgs (Nat.iter n (asweep Us) m0) c x) (div R total (sum_vars (scope c0) (belief_of_msgs (Nat.iter n (asweep Us) m0) c0) base0))
  = @brute R shape D ncl psi total (scope c) x.
Proof. intros C. apply true_messages_give_marginals. now apply asweeps_reach_true_messages. Qed.

(* ---- the form the code runs: messages rescaled (normalised) after each update, computed by division ----
   Messages need only be true UP TO a non-zero scalar: the update is homogeneous, so rescaling the recomputed message by any non-zero
   factor (the code subtracts its logsumexp) keeps it proportional to the true one; the final normalisation of the beliefs removes
   the factors.  Division form (factor_graph.py:95-99, 106-109: sum of ALL incoming messages minus the one going back) agrees with the
   product over the others wherever the message going back is non-zero. *)
Definition pexact_upto (k : nat) (m : nat -> nat -> tbl) : Prop :=
  forall i j, In j (nbrs i) -> height (tr i j) <= k -> exists lam, lam <> zero R /\ forall x, m i j x = mul R lam (Mtrue i j x).
Lemma prodl_prop (m : nat -> nat -> tbl) i : forall l, (forall k0, In k0 l -> exists lam, lam <> zero R /\ forall y, m k0 i y = mul R lam (Mtrue k0 i y)) ->
  exists Lam, Lam <> zero R /\ forall y, prodl R (map (fun k0 => m k0 i y) l) = mul R Lam (prodl R (map (fun k0 => Mtrue k0 i y) l)).
Proof. induction l as [|k0 r IH]; intros H.
  - exists (one R). split. apply one_neq_zero. intros y. simpl. now rewrite mul_1_l.
  - destruct (H k0 (or_introl eq_refl)) as [lam [Hl El]]. destruct (IH (fun k1 Hk1 => H k1 (or_intror Hk1))) as [Lam [HL EL]].
    exists (mul R lam Lam). split.
    + intro Z. apply no_zero_div in Z. tauto.
    + intros y. simpl. rewrite El, EL. rewrite <- !mul_assoc. f_equal. rewrite !mul_assoc. f_equal. apply mul_comm. Qed.
Lemma pflood_from_pexact k (c : K) m i j : pexact_upto k m -> In j (nbrs i) -> height (tr i j) <= S k -> c <> zero R ->
  exists lam, lam <> zero R /\ forall x, mul R c (flood m i j x) = mul R lam (Mtrue i j x).
Proof. intros E Hj Hh Hc.
  destruct (prodl_prop m i (others j (nbrs i))) as [Lam [HL EL]].
  { intros k0 Hk0. pose proof Hk0 as Hk. unfold others in Hk. apply filter_In in Hk. destruct Hk as [Hk _]. apply E. now apply nbrs_sym.
    assert (HC : height (tr k0 i) < height (tr i j)).
    { rewrite (tr_unfold i j Hj). apply height_child. apply in_map_iff. exists k0. split; auto. }
    lia. }
  exists (mul R c Lam). split. intro Z. apply no_zero_div in Z. tauto.
  intros x. unfold flood. rewrite (Mtrue_rec i j Hj).
  rewrite (@sum_vars_ext R shape (elimv scope i j) (F R nbrs psi m i j) (@tscale R Lam (F R nbrs psi Mtrue i j))).
  2:{ intros y. unfold F, tscale. rewrite EL. rewrite !mul_assoc. f_equal. apply mul_comm. }
  rewrite (@sum_vars_scale R shape). unfold tscale. now rewrite mul_assoc. Qed.

(* a step of the code's form: selected messages are recomputed and rescaled by a non-zero factor that may depend on everything *)
Definition nstep (U : nat -> nat -> bool) (c : (nat -> nat -> tbl) -> nat -> nat -> K) (m : nat -> nat -> tbl) : nat -> nat -> tbl :=
  fun i j => if U i j then (fun x => mul R (c m i j) (flood m i j x)) else m i j.
Lemma nstep_keeps k U c m : (forall m' i j, c m' i j <> zero R) -> pexact_upto k m -> pexact_upto k (nstep U c m).
Proof. intros Hc E i j Hj Hh. unfold nstep. destruct (U i j). apply (pflood_from_pexact k (c m i j) m i j E Hj). lia. apply Hc. now apply E. Qed.
Lemma nstep_edge k U c m i j : (forall m' i j, c m' i j <> zero R) -> pexact_upto k m -> In j (nbrs i) -> height (tr i j) <= S k ->
  (U i j = true \/ exists lam, lam <> zero R /\ forall x, m i j x = mul R lam (Mtrue i j x)) ->
  exists lam, lam <> zero R /\ forall x, nstep U c m i j x = mul R lam (Mtrue i j x).
Proof. intros Hc E Hj Hh H. unfold nstep. destruct (U i j) eqn:EU. apply (pflood_from_pexact k (c m i j) m i j E Hj Hh). apply Hc.
  destruct H as [H|H]. discriminate. exact H. Qed.
Definition nsweep (Us : list ((nat -> nat -> bool) * ((nat -> nat -> tbl) -> nat -> nat -> K))) (m : nat -> nat -> tbl) :=
  fold_left (fun m Uc => nstep (fst Uc) (snd Uc) m) Us m.
Definition nz_scalings (Us : list ((nat -> nat -> bool) * ((nat -> nat -> tbl) -> nat -> nat -> K))) : Prop :=
  forall Uc, In Uc Us -> forall m' i j, snd Uc m' i j <> zero R.
Lemma nsweep_keeps k Us : nz_scalings Us -> forall m, pexact_upto k m -> pexact_upto k (nsweep Us m).
Proof. induction Us as [|Uc r IH]; intros NZ m E; simpl; auto. apply IH. intros Uc' H. apply NZ. now right.
  apply nstep_keeps; auto. apply (NZ Uc). now left. Qed.
Lemma nsweep_edge k Us : nz_scalings Us -> forall m i j, pexact_upto k m -> In j (nbrs i) -> height (tr i j) <= S k ->
  (existsb (fun Uc => fst Uc i j) Us = true \/ exists lam, lam <> zero R /\ forall x, m i j x = mul R lam (Mtrue i j x)) ->
  exists lam, lam <> zero R /\ forall x, nsweep Us m i j x = mul R lam (Mtrue i j x).
Proof. induction Us as [|Uc r IH]; intros NZ m i j E Hj Hh H; simpl in *.
  - destruct H as [H|H]. discriminate. exact H.
  - assert (NZ1 : forall m' i j, snd Uc m' i j <> zero R) by (apply (NZ Uc); now left).
    apply IH; auto. intros Uc' H'. apply NZ. now right. now apply nstep_keeps.
    destruct H as [H|H].
    + apply orb_true_iff in H. destruct H as [H|H]. right. apply (nstep_edge k (fst Uc) (snd Uc) m i j NZ1 E Hj Hh). now left. now left.
    + right. apply (nstep_edge k (fst Uc) (snd Uc) m i j NZ1 E Hj Hh). now right. Qed.
Definition ncovers (Us : list ((nat -> nat -> bool) * ((nat -> nat -> tbl) -> nat -> nat -> K))) : Prop :=
  forall i j, In j (nbrs i) -> existsb (fun Uc => fst Uc i j) Us = true.
Theorem nsweeps_reach_true_messages Us n m0 : nz_scalings Us -> ncovers Us -> pexact_upto n (Nat.iter n (nsweep Us) m0).
Proof. intros NZ C. induction n as [|n IH]; simpl.
  - intros i j Hj Hh. exfalso. destruct (tr i j); simpl in Hh; lia.
  - intros i j Hj Hh. apply (nsweep_edge n Us NZ _ i j IH Hj Hh). left. now apply C. Qed.

(* beliefs from messages that are true up to non-zero scalars, each belief normalised by ITS OWN mass (factor_graph.py:160-168) *)
Lemma SRth_link : semi_ring_theory (zero R) (one R) (add R) (mul R) (@eq K).
Proof. constructor.
  - intros; apply add_0_l. - intros; apply add_comm. - intros; apply add_assoc. - intros; apply mul_1_l. - intros; apply mul_0_l.
  - intros; apply mul_comm. - intros; apply mul_assoc.
  - intros x y z. rewrite (mul_comm R (add R x y) z), distr_l, (mul_comm R z x), (mul_comm R z y). reflexivity. Qed.
Add Ring Kring_link : SRth_link.
Lemma cancel_link (x y k : K) : k <> zero R -> mul R x k = mul R y k -> x = y.
Proof. intros Hk E. rewrite <- (div_mul R x Hk), E. now apply div_mul. Qed.
Lemma rescale_cancels (lam b total Zt : K) : lam <> zero R -> Zt <> zero R ->
  mul R (mul R lam b) (div R total (mul R lam Zt)) = mul R b (div R total Zt).
Proof. intros Hl Hz. set (q := div R total (mul R lam Zt)). set (r := div R total Zt).
  assert (NZ : mul R lam Zt <> zero R). { intro Z. apply no_zero_div in Z. tauto. }
  assert (Q : mul R q (mul R lam Zt) = total) by (apply mul_div; exact NZ).
  assert (Rr : mul R r Zt = total) by (apply mul_div; exact Hz).
  assert (E : mul R q lam = r). { apply (cancel_link (mul R q lam) r Zt Hz). rewrite Rr, <- Q. ring. }
  transitivity (mul R b (mul R q lam)). ring. now rewrite E. Qed.
Theorem proportional_messages_give_marginals n m total c x : pexact_upto n m -> (forall i j, In j (nbrs i) -> height (tr i j) <= n) ->
  c < ncl -> valid x -> sum_vars (scope c) (belief_of_msgs Mtrue c) base0 <> zero R ->
  mul R (belief_of_msgs m c x) (div R total (sum_vars (scope c) (belief_of_msgs m c) base0)) = @brute R shape D ncl psi total (scope c) x.
Proof. intros EX H Hc Vx NZ.
  destruct (prodl_prop m c (nbrs c)) as [Lam [HL EL]].
  { intros k0 Hk0. apply EX. now apply nbrs_sym. apply H. now apply nbrs_sym. }
  assert (B : forall y, belief_of_msgs m c y = mul R Lam (belief_of_msgs Mtrue c y)).
  { intros y. unfold belief_of_msgs. rewrite EL. ring. }
  assert (Zs : sum_vars (scope c) (belief_of_msgs m c) base0 = mul R Lam (sum_vars (scope c) (belief_of_msgs Mtrue c) base0)).
  { rewrite (@sum_vars_ext R shape (scope c) (belief_of_msgs m c) (@tscale R Lam (belief_of_msgs Mtrue c))) by (intros y; apply B).
    rewrite (@sum_vars_scale R shape). reflexivity. }
  rewrite B, Zs, rescale_cancels by assumption.
  apply (true_messages_give_marginals n Mtrue total c c x); auto. intros i j Hj Hh y. reflexivity. Qed.
Corollary nsweeps_exact Us n m0 total c x : nz_scalings Us -> ncovers Us -> (forall i j, In j (nbrs i) -> height (tr i j) <= n) ->
  c < ncl -> valid x -> sum_vars (scope c) (belief_of_msgs Mtrue c) base0 <> zero R ->
  mul R (belief_of_msgs (Nat.iter n (nsweep Us) m0) c x) (div R total (sum_vars (scope c) (belief_of_msgs (Nat.iter n (nsweep Us) m0) c) base0))
  = @brute R shape D ncl psi total (scope c) x.
Proof. intros NZ C. apply proportional_messages_give_marginals. now apply nsweeps_reach_true_messages. Qed.

(* the division form: (product over ALL neighbours) / (the message going back) = product over the others, wherever that message is non-zero *)
Lemma filter_all_true (f : nat -> bool) : forall l, (forall k, In k l -> f k = true) -> filter f l = l.
Proof. induction l as [|a r IH]; intros H; simpl; auto. rewrite (H a (or_introl eq_refl)). f_equal. apply IH. intros k Hk. apply H. now right. Qed.
Lemma prodl_split_div (g : nat -> K) j : forall l, NoDup l -> In j l -> g j <> zero R ->
  @sdiv R (prodl R (map g l)) (g j) = prodl R (map g (others j l)).
Proof. induction l as [|a r IH]; intros ND Hj Hg. contradiction. inversion ND as [|? ? Ha Hr]; subst. simpl. unfold others in *. simpl.
  assert (SD : forall p q : K, q <> zero R -> @sdiv R (mul R p q) q = p).
  { intros p q Hq. unfold BP.sdiv. destruct (eqz R q) eqn:E. apply eqz_spec in E. contradiction. now apply div_mul. }
  destruct (Nat.eqb_spec a j) as [->|N].
  - simpl. assert (NJ : filter (fun k => negb (k =? j)) r = r).
    { apply filter_all_true. intros k Hk. destruct (Nat.eqb_spec k j) as [->|]; [contradiction|reflexivity]. }
    rewrite NJ. rewrite (mul_comm R (g j)). now apply SD.
  - simpl. destruct Hj as [Hj|Hj]. contradiction. rewrite <- (IH Hr Hj Hg).
    unfold BP.sdiv. destruct (eqz R (g j)) eqn:E. apply eqz_spec in E. contradiction.
    (* (g a * P) / g j = g a * (P / g j) *)
    apply (cancel_link _ _ (g j) Hg). rewrite (mul_div R _ Hg). rewrite <- mul_assoc. now rewrite (mul_div R _ Hg). Qed.
End Link.
