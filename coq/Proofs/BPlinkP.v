(* C01, layer 3: glue.  The true messages are M i j := up (scope j) (tree i j) with the rooted trees read off
   the schedule; they satisfy the Shafer-Shenoy recursion; the checked junction-tree conditions turn the
   belief at every clique into the brute-force marginal of the explicit joint; normalisation by Z. *)
From Coq Require Import List Arith Lia Bool FunctionalExtensionality Permutation.
Import ListNotations.
Require Import PGM.Base.Alg PGM.Base.Sums PGM.Model.BP PGM.Proofs.BPrunP PGM.Proofs.JTP PGM.Proofs.DomainP.

(* ---------- boolean checkers ---------- *)
Lemma count_count_occ a l : count a l = count_occ Nat.eq_dec l a.
Proof. unfold count. induction l as [|b l IH]; simpl; auto. destruct (Nat.eq_dec b a) as [->|N].
  - rewrite Nat.eqb_refl. simpl. now rewrite IH.
  - destruct (Nat.eqb_spec a b). congruence. exact IH. Qed.
Lemma count_notin a l : ~ In a l -> count a l = 0.
Proof. intros H. rewrite count_count_occ. now apply count_occ_not_In. Qed.
Lemma permb_perm l1 l2 : permb l1 l2 = true -> Permutation l1 l2.
Proof. unfold permb. rewrite forallb_forall. intros H. apply (Permutation_count_occ Nat.eq_dec). intros x.
  rewrite <- !count_count_occ. destruct (in_dec Nat.eq_dec x (l1 ++ l2)) as [I|I].
  - now apply Nat.eqb_eq, H.
  - rewrite !count_notin; auto; intro; apply I; apply in_or_app; auto. Qed.
Lemma nodupb_NoDup l : nodupb l = true -> NoDup l.
Proof. induction l as [|a l IH]; simpl; intros H. constructor. apply andb_prop in H. destruct H as [H1 H2].
  constructor; auto. apply negb_true_iff in H1. now apply memb_nIn. Qed.
Lemma memE_In e l : memE e l = true <-> In e l.
Proof. unfold memE. rewrite existsb_exists. split. intros [x [H E]]. apply edge_eqb_spec in E. now subst.
  intros H. exists e. split; auto. now apply edge_eqb_spec. Qed.

Section Link.
Variable R : SF.
Notation K := (car R).
Variable shape : nat -> nat.
Variable D : list nat.
Variable ncl : nat.
Variable scope : nat -> list nat.
Variable nbrs : nat -> list nat.
Variable psi : nat -> tbl R.
Notation tbl := (tbl R).
Notation sum_vars := (@sum_vars R shape).
Notation valid := (valid shape).

Hypothesis nbrs_nodup : forall c, NoDup (nbrs c).
Hypothesis nbrs_sym : forall i j, In j (nbrs i) -> In i (nbrs j).
Hypothesis nbrs_lt : forall i j, In j (nbrs i) -> j < ncl.
Hypothesis nbrs_irrefl : forall i, ~ In i (nbrs i).
Hypothesis psi_dep : forall c, dep_on D (psi c).
Hypothesis psi_wf : forall c a, ~ In a (scope c) -> @indep R a (psi c).
Hypothesis shape_pos : forall a, 0 < shape a.
Hypothesis D_nodup : NoDup D.
Hypothesis scope_nodup : forall c, c < ncl -> NoDup (scope c).
Hypothesis scope_sub : forall c, c < ncl -> incl (scope c) D.

Lemma vstepb_spec done e : vstepb nbrs done e = true <-> vstep nbrs done e.
Proof. unfold vstepb, vstep. rewrite !andb_true_iff, memb_In, negb_true_iff, forallb_forall. split.
  - intros [[H1 H2] H3]. split; auto. split. intro I. apply memE_In in I. congruence.
    intros k Hk N. specialize (H3 k Hk). apply orb_prop in H3. destruct H3 as [E|E]. apply Nat.eqb_eq in E. contradiction. now apply memE_In.
  - intros [H1 [H2 H3]]. split; [split|]; auto.
    destruct (memE e done) eqn:E; auto. apply memE_In in E. contradiction.
    intros k Hk. destruct (Nat.eqb_spec k (snd e)); simpl; auto. apply memE_In. auto. Qed.
Lemma vschedb_spec sch : forall done, vschedb nbrs done sch = true -> valid_sched nbrs done sch.
Proof. induction sch as [|e r IH]; simpl; intros done H; auto. apply andb_prop in H. destruct H as [H1 H2].
  split. now apply vstepb_spec. now apply IH. Qed.

(* ---------- trees read off the schedule ---------- *)
Notation tree_of := (tree_of).
Notation trees := (trees nbrs).
Record TInv (ts : list ((nat * nat) * rt)) (done : list (nat * nat)) : Prop := {
  T0 : forall e, gett e ts = None <-> ~ In e done;
  T1 : forall i j t, gett (i, j) ts = Some t -> t = Node i (map (fun k => tree_of ts k i) (others j (nbrs i)));
  T2 : forall i j, In (i, j) done -> forall k, In k (others j (nbrs i)) -> In (k, i) done }.

Lemma gett_eq e l t : gett e ((e, t) :: l) = Some t.
Proof. simpl. now rewrite (proj2 (edge_eqb_spec e e) eq_refl). Qed.
Lemma gett_neq e e' l t : e' <> e -> gett e ((e', t) :: l) = gett e l.
Proof. intros N. simpl. destruct (edge_eqb e' e) eqn:E; auto. apply edge_eqb_spec in E. contradiction. Qed.

Lemma tstep_inv ts done i j : TInv ts done -> vstep nbrs done (i, j) -> TInv (tstep nbrs ts (i, j)) ((i, j) :: done).
Proof. intros INV [Hj [Hnew Hdeps]]. simpl in Hj, Hnew, Hdeps. unfold tstep.
  assert (STAB : forall k i0, In (k, i0) done -> tree_of (((i, j), Node i (map (fun k0 => tree_of ts k0 i) (others j (nbrs i)))) :: ts) k i0 = tree_of ts k i0).
  { intros k i0 H. unfold BP.tree_of. rewrite gett_neq; auto. intros E. injection E as <- <-. contradiction. }
  constructor.
  - intros e. destruct (edge_dec (i, j) e) as [<-|N].
    + rewrite gett_eq. split. discriminate. intros H. exfalso. apply H. now left.
    + rewrite gett_neq by assumption. rewrite (T0 _ _ INV). simpl. tauto.
  - intros i0 j0 t Ht. destruct (edge_dec (i, j) (i0, j0)) as [E|N].
    + injection E as <- <-. rewrite gett_eq in Ht. injection Ht as <-. f_equal. apply map_ext_in. intros k Hk.
      symmetry. apply STAB. apply others_in in Hk. now apply Hdeps.
    + rewrite gett_neq in Ht by assumption. rewrite (T1 _ _ INV _ _ _ Ht). f_equal. apply map_ext_in. intros k Hk.
      symmetry. apply STAB. apply (T2 _ _ INV i0 j0); auto.
      destruct (in_dec edge_dec (i0, j0) done) as [I|I]; auto. apply (T0 _ _ INV) in I. congruence.
  - intros i0 j0 [E|H] k Hk.
    + injection E as <- <-. right. apply others_in in Hk. now apply Hdeps.
    + right. now apply (T2 _ _ INV i0 j0). Qed.

Lemma trees_inv sch : forall ts done, TInv ts done -> valid_sched nbrs done sch -> TInv (fold_left (tstep nbrs) sch ts) (rev sch ++ done).
Proof. induction sch as [|[i j] r IH]; simpl; intros ts done INV V. exact INV.
  destruct V as [V1 V2]. rewrite <- app_assoc. simpl. apply IH; auto. now apply tstep_inv. Qed.
Lemma TInv_nil : TInv [] [].
Proof. constructor; simpl; intros; try tauto; discriminate. Qed.

Variable sch : list (nat * nat).
Hypothesis sch_valid : valid_sched nbrs [] sch.
Hypothesis sch_complete : forall c k, In k (nbrs c) -> In (k, c) sch.

Definition tr (k i : nat) : rt := tree_of (trees sch) k i.
Lemma tr_unfold i j : In j (nbrs i) -> tr i j = Node i (map (fun k => tr k i) (others j (nbrs i))).
Proof. intros Hj. pose proof (trees_inv sch [] [] TInv_nil sch_valid) as INV. rewrite app_nil_r in INV.
  unfold tr, BP.tree_of at 1. destruct (gett (i, j) (trees sch)) eqn:E.
  - exact (T1 _ _ INV _ _ _ E).
  - apply (T0 _ _ INV) in E. exfalso. apply E. apply in_rev. rewrite rev_involutive. apply sch_complete. now apply nbrs_sym. Qed.
Lemma tr_root k i : match tr k i with Node c _ => c end = k.
Proof. pose proof (trees_inv sch [] [] TInv_nil sch_valid) as INV. unfold tr, BP.tree_of.
  destruct (gett (k, i) (trees sch)) eqn:E; auto. now rewrite (T1 _ _ INV _ _ _ E). Qed.

(* ---------- the true messages ---------- *)
Notation up := (up R shape scope psi).
Definition Mtrue (i j : nat) : tbl := up (scope j) (tr i j).

Lemma prodt_prodl (l : list nat) (g : nat -> tbl) y : @prodt R (map g l) y = prodl R (map (fun k => g k y) l).
Proof. induction l; simpl; auto. unfold tmul. now rewrite IHl. Qed.

Lemma Mtrue_rec i j : In j (nbrs i) -> forall x, Mtrue i j x = sum_vars (elimv scope i j) (F R nbrs psi Mtrue i j) x.
Proof. intros Hj x. unfold Mtrue at 1. rewrite (tr_unfold i j Hj). simpl. unfold BP.elimv.
  apply sum_vars_ext. intros y. unfold tmul, F. f_equal. rewrite map_map. apply prodt_prodl. Qed.
Lemma Mtrue_indep i j a : ~ In a (scope i) -> @indep R a (Mtrue i j).
Proof. intros H. unfold Mtrue. apply up_indep; auto. now rewrite tr_root. Qed.

(* ---------- beliefs are sums of the joint ---------- *)
Notation bel := (@bel R D).
Notation run := (@run R shape D scope).
Notation init := (@init R shape D ncl psi).
Notation jointt := (jointt R psi).
Definition rtree (c : nat) : rt := root_tree nbrs sch c.

Theorem belief_is_subtree_sum c x : c < ncl -> valid x -> goodb scope (rtree c) = true ->
  bel (run sch init) c x = sum_vars (flat_map (elimt scope (scope c)) (map (fun k => tr k c) (nbrs c))) (jointt (rtree c)) x.
Proof. intros Hc Vx G.
  rewrite (run_beliefs R shape D ncl scope nbrs psi nbrs_nodup nbrs_sym nbrs_lt psi_dep Mtrue Mtrue_rec Mtrue_indep sch sch_valid sch_complete c x Hc Vx).
  pose proof (root_belief R shape scope psi psi_wf c (map (fun k => tr k c) (nbrs c)) (goodb_good scope (Node c (map (fun k => tr k c) (nbrs c))) G)) as RB.
  change (rtree c) with (Node c (map (fun k => tr k c) (nbrs c))).
  rewrite <- RB. unfold tmul. f_equal. rewrite map_map.
  symmetry. apply (prodt_prodl (nbrs c) (fun k => up (scope c) (tr k c))). Qed.

Lemma perm_diff_app S : NoDup S -> incl S D -> Permutation (diff D S ++ S) D.
Proof. intros NS I. apply NoDup_Permutation; auto.
  - apply NoDup_app_disj; auto. unfold diff. now apply NoDup_filter. intros a Ha Hb. apply diff_In in Ha. tauto.
  - intros a. rewrite in_app_iff, diff_In. split. intros [[H _]|H]; auto. intros H. destruct (in_dec Nat.eq_dec a S); auto. Qed.

Hypothesis roots_ok : forall c, c < ncl -> rootokb D ncl scope nbrs sch c = true.
Notation joint := (joint R ncl psi).

Theorem belief_is_marginal c x : c < ncl -> valid x ->
  bel (run sch init) c x = sum_vars (diff D (scope c)) joint x.
Proof. intros Hc Vx. pose proof (roots_ok c Hc) as RO. unfold rootokb in RO.
  apply andb_prop in RO. destruct RO as [RO P2]. apply andb_prop in RO. destruct RO as [G P1].
  rewrite (belief_is_subtree_sum c x Hc Vx G).
  assert (Q2 : Permutation (flat_map (elimt scope (scope c)) (map (fun k => tr k c) (nbrs c))) (diff D (scope c))) by exact (permb_perm _ _ P2).
  assert (Q1 : Permutation (nodes (rtree c)) (seq 0 ncl)) by exact (permb_perm _ _ P1).
  rewrite (@sum_vars_perm R shape _ _ (jointt (rtree c)) Q2).
  f_equal. unfold JTP.jointt, BP.joint. apply prodt_perm. apply Permutation_map. exact Q1. Qed.

Lemma base0_valid : valid base0. Proof. intros a. apply shape_pos. Qed.

Theorem Z_is_total_mass c0 : c0 < ncl -> @Zof R shape D scope (run sch init) c0 = sum_vars D joint base0.
Proof. intros Hc. unfold Zof.
  rewrite (@sum_vars_ext_on R shape (scope c0) (bel (run sch init) c0) (sum_vars (diff D (scope c0)) joint) base0).
  - rewrite <- sum_vars_app. apply (f_equal (fun f => f base0)). apply sum_vars_perm.
    apply perm_diff_app; auto.
  - intros y A Rg. apply belief_is_marginal; auto. exact (@valid_fibre shape _ _ _ base0_valid A Rg). Qed.

(* C01: every clique marginal produced by belief propagation equals the brute-force marginal of the
   normalised product of the potentials, scaled to the total *)
Theorem bp_exact total c0 c x : c0 < ncl -> c < ncl -> valid x ->
  @marginal R shape D ncl scope psi sch total c0 c x = @brute R shape D ncl psi total (scope c) x.
Proof. intros H0 Hc Vx. unfold marginal, brute. rewrite belief_is_marginal by auto. now rewrite Z_is_total_mass. Qed.

(* ---------- C16: synchronous (flooding) message passing - what loopy propagation does on a tree ----------
   Every round recomputes EVERY message from the previous round's messages, m'(i->j) = sum_{C_i \ C_j} psi_i * prod_{k <> j} m(k->i)
   (division-free, unnormalised).  On a tree the message i->j only depends on the subtree hanging off i away from j, so after as
   many rounds as that subtree is high it IS the true message, whatever the initial messages were; once every message is true the
   beliefs psi_c * prod_k m(k->c), normalised to the total, are the brute-force marginals. *)
Definition flood (m : nat -> nat -> tbl) : nat -> nat -> tbl := fun i j => sum_vars (elimv scope i j) (F R nbrs psi m i j).
Fixpoint height (t : rt) : nat := match t with Node _ ks => S (fold_right (fun k acc => Nat.max (height k) acc) 0 ks) end.
Lemma height_child c ks k : In k ks -> height k < height (Node c ks).
Proof. simpl. induction ks as [|k' r IH]; simpl; intros H. contradiction. destruct H as [->|H]. lia. specialize (IH H). lia. Qed.

Theorem flood_reaches_true_messages n : forall i j, In j (nbrs i) -> height (tr i j) <= n ->
  forall m0 x, Nat.iter n flood m0 i j x = Mtrue i j x.
Proof. induction n as [|n IH]; intros i j Hj Hh m0 x.
  - exfalso. destruct (tr i j); simpl in Hh; lia.
  - simpl. unfold flood at 1. rewrite (Mtrue_rec i j Hj). apply sum_vars_ext. intros y. unfold F. f_equal. f_equal.
    apply map_ext_in. intros k Hk0. pose proof Hk0 as Hk. unfold others in Hk. apply filter_In in Hk. destruct Hk as [Hk _].
    apply IH. now apply nbrs_sym.
    assert (HC : height (tr k i) < height (tr i j)).
    { rewrite (tr_unfold i j Hj). apply height_child. apply in_map_iff. exists k. split; auto. }
    lia. Qed.

Definition flood_belief (n : nat) (m0 : nat -> nat -> tbl) (c : nat) : tbl :=
  fun x => mul R (psi c x) (prodl R (map (fun k => Nat.iter n flood m0 k c x) (nbrs c))).
Theorem flood_exact n m0 total c0 c x : (forall i j, In j (nbrs i) -> height (tr i j) <= n) -> c0 < ncl -> c < ncl -> valid x ->
  mul R (flood_belief n m0 c x) (div R total (sum_vars (scope c0) (flood_belief n m0 c0) base0)) = @brute R shape D ncl psi total (scope c) x.
Proof. intros H H0 Hc Vx.
  assert (E : forall c' y, c' < ncl -> valid y -> flood_belief n m0 c' y = bel (run sch init) c' y).
  { intros c' y Hc' Vy.
    rewrite (run_beliefs R shape D ncl scope nbrs psi nbrs_nodup nbrs_sym nbrs_lt psi_dep Mtrue Mtrue_rec Mtrue_indep sch sch_valid sch_complete c' y Hc' Vy).
    unfold flood_belief. f_equal. f_equal. apply map_ext_in. intros k Hk. apply flood_reaches_true_messages. now apply nbrs_sym. apply H. now apply nbrs_sym. }
  rewrite <- (bp_exact total c0 c x H0 Hc Vx). unfold marginal. rewrite E by auto. f_equal. f_equal. unfold Zof.
  apply sum_vars_ext_on. intros y A Rg. apply E; auto. exact (@valid_fibre shape _ _ _ base0_valid A Rg). Qed.
End Link.
