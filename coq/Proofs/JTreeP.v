(* C12: triangulation covers the input cliques; the recursive running-intersection predicate implies the
   textbook statement (the nodes containing an attribute form a connected subtree = have a single top node);
   soundness of the structural and schedule checkers. *)
From Coq Require Import List Arith Lia Bool Permutation.
Import ListNotations.
Require Import PGM.Base.Sums PGM.Model.BP PGM.Model.JTree PGM.Proofs.JTP PGM.Proofs.BPrunP PGM.Proofs.BPlinkP.

(* ---------- elimination covers every input clique ---------- *)
Lemma removev_In v l u : In u (removev v l) <-> In u l /\ u <> v.
Proof. unfold removev. rewrite filter_In, negb_true_iff, Nat.eqb_neq. tauto. Qed.
Lemma adjacent_mono E E' a b : incl E E' -> adjacent E a b = true -> adjacent E' a b = true.
Proof. unfold adjacent. intros I H. apply orb_prop in H. apply orb_true_iff. destruct H as [H|H]; apply memE_In in H; [left|right]; apply memE_In; auto. Qed.

Theorem eliminate_covers C : forall order E alive,
  (forall a b, In a C -> In b C -> a <> b -> adjacent E a b = true) ->
  incl C alive -> (exists v, In v C /\ In v order) ->
  exists K, In K (eliminate order E alive) /\ incl C K.
Proof. induction order as [|v r IH]; intros E alive ADJ INC [w [Hw Ho]]. contradiction.
  simpl. destruct (in_dec Nat.eq_dec v C) as [I|I].
  - exists (v :: filter (adjacent E v) (removev v alive)). split. now left.
    intros u Hu. destruct (Nat.eq_dec u v) as [->|N]. now left. right. apply filter_In. split.
    apply removev_In. auto. apply ADJ; auto.
  - destruct (IH (pairs (filter (adjacent E v) (removev v alive)) ++ E) (removev v alive)) as [K [HK HC]].
    + intros a b Ha Hb N. eapply adjacent_mono; [|apply ADJ; auto]. intros e He. apply in_or_app. now right.
    + intros u Hu. apply removev_In. split; auto. intros ->. contradiction.
    + exists w. split; auto. destruct Ho as [->|Ho]; auto. contradiction.
    + exists K. split; auto. Qed.

Lemma pairs_In a b l : In (a, b) (pairs l) -> In a l /\ In b l.
Proof. induction l as [|c l IH]; simpl; intros H. contradiction. apply in_app_or in H. destruct H as [H|H].
  - apply in_map_iff in H. destruct H as [x [E Hx]]. injection E as <- <-. auto.
  - destruct (IH H). auto. Qed.
Lemma pairs_adjacent l a b : NoDup l -> In a l -> In b l -> a <> b -> adjacent (pairs l) a b = true.
Proof. induction l as [|c l IH]; simpl; intros ND Ha Hb N. contradiction. inversion ND; subst.
  unfold adjacent. apply orb_true_iff.
  destruct Ha as [->|Ha], Hb as [->|Hb]; try congruence.
  - left. apply memE_In. apply in_or_app. left. apply in_map_iff. eauto.
  - right. apply memE_In. apply in_or_app. left. apply in_map_iff. eauto.
  - specialize (IH H2 Ha Hb N). unfold adjacent in IH. apply orb_prop in IH. destruct IH as [H|H]; apply memE_In in H; [left|right]; apply memE_In; apply in_or_app; now right. Qed.

(* every input clique is inside some elimination clique of the triangulation *)
Theorem triangulation_covers attrs cliques order C : In C cliques -> NoDup C -> C <> [] -> incl C attrs -> incl C order ->
  exists K, In K (eliminate order (graph_of cliques) attrs) /\ incl C K.
Proof. intros HC ND NE IA IO. apply eliminate_covers; auto.
  - intros a b Ha Hb N. eapply adjacent_mono; [|apply (pairs_adjacent C a b); auto].
    intros e He. unfold graph_of. apply in_flat_map. eauto.
  - destruct C as [|w C]. congruence. exists w. split. now left. apply IO. now left. Qed.

(* ---------- recursive running intersection => single top node per attribute ---------- *)
Section RIP.
Variable scope : nat -> list nat.
Notation elimt := (elimt scope).
Notation vars := (vars scope).
Notation good := (good scope).

(* nodes of t that contain a while their parent (scope p) does not *)
Fixpoint tops (a : nat) (p : list nat) (t : rt) : list nat :=
  match t with Node c ks =>
    (if (memb a (scope c) && negb (memb a p))%bool then [c] else []) ++ flat_map (tops a (scope c)) ks end.

Lemma elimt_vars : forall t p a, In a (elimt p t) -> In a (vars t).
Proof. induction t as [c ks IH] using rt_ind'. intros p a H. simpl in H. unfold BP.vars. simpl.
  apply in_app_or in H. destruct H as [H|H].
  - apply in_flat_map in H. destruct H as [k [Hk Ha]]. rewrite Forall_forall in IH. specialize (IH k Hk _ _ Ha).
    apply in_or_app. right. unfold BP.vars in IH. apply in_flat_map in IH. destruct IH as [n [Hn Han]].
    apply in_flat_map. exists n. split; auto. apply in_flat_map. eauto.
  - apply diff_In in H. apply in_or_app. left. tauto. Qed.

Lemma tops_elimt : forall t p a n, In n (tops a p t) -> In a (elimt p t).
Proof. induction t as [c ks IH] using rt_ind'. intros p a n H. simpl in *. apply in_app_or in H. destruct H as [H|H].
  - destruct (memb a (scope c) && negb (memb a p))%bool eqn:E; [|contradiction]. apply andb_prop in E. destruct E as [E1 E2].
    apply in_or_app. right. apply diff_In. split. now apply memb_In. apply negb_true_iff in E2. now apply memb_nIn.
  - apply in_flat_map in H. destruct H as [k [Hk Hn]]. rewrite Forall_forall in IH.
    apply in_or_app. left. apply in_flat_map. exists k. split; auto. eapply IH; eauto. Qed.

Lemma good_unfold c k r : good (Node c (k :: r)) ->
  good k /\ (forall a, In a (elimt (scope c) k) -> ~ In a (scope c) /\ forall k', In k' r -> ~ In a (vars k'))
  /\ (forall k' a, In k' r -> In a (elimt (scope c) k') -> ~ In a (vars k)) /\ good (Node c r).
Proof. simpl. tauto. Qed.

Lemma flat_tops_le1 a c : forall ks, good (Node c ks) -> ~ In a (scope c) ->
  (forall k, In k ks -> length (tops a (scope c) k) <= 1) -> length (flat_map (tops a (scope c)) ks) <= 1.
Proof. induction ks as [|k r IH]; intros G Na L; simpl. lia.
  destruct (good_unfold _ _ _ G) as [Gk [A [B Gr]]]. rewrite app_length.
  assert (Lk : length (tops a (scope c) k) <= 1) by (apply L; now left).
  assert (Lr : length (flat_map (tops a (scope c)) r) <= 1) by (apply IH; auto; intros; apply L; now right).
  destruct (tops a (scope c) k) as [|n1 l1] eqn:E1; simpl in *. lia.
  destruct (flat_map (tops a (scope c)) r) as [|n2 l2] eqn:E2; simpl in *. lia.
  exfalso. assert (H1 : In a (elimt (scope c) k)) by (apply (tops_elimt k (scope c) a n1); rewrite E1; now left).
  assert (H2 : In n2 (flat_map (tops a (scope c)) r)) by (rewrite E2; now left).
  apply in_flat_map in H2. destruct H2 as [k' [Hk' Hn2]].
  destruct (A a H1) as [_ A2]. apply (A2 k' Hk'). eapply elimt_vars. eapply tops_elimt. eauto. Qed.

Lemma flat_tops_nil a c : forall ks, good (Node c ks) -> In a (scope c) -> flat_map (tops a (scope c)) ks = [].
Proof. induction ks as [|k r IH]; intros G Ia; simpl; auto.
  destruct (good_unfold _ _ _ G) as [Gk [A [B Gr]]]. rewrite IH by auto. rewrite app_nil_r.
  destruct (tops a (scope c) k) as [|n l] eqn:E; auto. exfalso.
  assert (H1 : In a (elimt (scope c) k)) by (apply (tops_elimt k (scope c) a n); rewrite E; now left).
  destruct (A a H1) as [A1 _]. contradiction. Qed.

(* the nodes containing a given attribute form ONE connected subtree: every such node but one has its parent in the set *)
Theorem good_single_top a : forall t p, good t -> length (tops a p t) <= 1.
Proof. induction t as [c ks IH] using rt_ind'. intros p G. simpl. rewrite app_length.
  assert (GK : Forall good ks).
  { clear IH. induction ks as [|k r IHr]. constructor. destruct (good_unfold _ _ _ G) as [Gk [_ [_ Gr]]]. constructor; auto. }
  destruct (in_dec Nat.eq_dec a (scope c)) as [I|I].
  - rewrite (flat_tops_nil a c ks G I). destruct (memb a (scope c) && negb (memb a p))%bool; simpl; lia.
  - assert (memb a (scope c) = false) as -> by now apply memb_nIn. simpl.
    apply flat_tops_le1; auto. intros k Hk. rewrite Forall_forall in IH, GK. apply IH; auto. Qed.
End RIP.

(* ---------- structural checkers ---------- *)
Theorem coverb_spec inputs nds : coverb inputs nds = true -> forall c, In c inputs -> exists n, In n nds /\ incl c n.
Proof. unfold coverb. rewrite forallb_forall. intros H c Hc. specialize (H c Hc). apply existsb_exists in H.
  destruct H as [n [Hn S]]. exists n. split; auto. now apply subsetb_spec. Qed.
Theorem attrs_coverb_spec attrs nds : attrs_coverb attrs nds = true -> forall a, In a attrs -> exists n, In n nds /\ In a n.
Proof. unfold attrs_coverb. rewrite forallb_forall. intros H a Ha. specialize (H a Ha). apply existsb_exists in H.
  destruct H as [n [Hn S]]. exists n. split; auto. now apply memb_In. Qed.
Theorem antichainb_spec nds : antichainb nds = true ->
  forall i j, i < j -> j < length nds -> ~ incl (nth i nds []) (nth j nds []) /\ ~ incl (nth j nds []) (nth i nds []).
Proof. induction nds as [|c r IH]; simpl; intros H i j Hij Hj. lia. apply andb_prop in H. destruct H as [H1 H2].
  destruct j. lia. destruct i.
  - rewrite forallb_forall in H1. assert (In (nth j r []) r) by (apply nth_In; lia). specialize (H1 _ H).
    apply andb_prop in H1. destruct H1 as [A B]. apply negb_true_iff in A, B. split; intro S; apply subsetb_spec in S; congruence.
  - apply IH; auto; lia. Qed.

(* ---------- schedule: each direction of each tree edge exactly once, after its dependencies ---------- *)
Lemma valid_sched_nodup nbrs : forall sch done, valid_sched nbrs done sch -> NoDup sch /\ forall e, In e sch -> ~ In e done.
Proof. induction sch as [|e r IH]; simpl; intros done V. split. constructor. tauto.
  destruct V as [[_ [N _]] V2]. destruct (IH _ V2) as [ND D]. split.
  - constructor; auto. intro I. apply (D e I). now left.
  - intros e' [<-|H]; auto. intro I. apply (D e' H). now right. Qed.
Theorem schedule_each_direction_once nbrs ncl sch :
  vschedb nbrs [] sch = true -> completeb ncl nbrs sch = true ->
  NoDup sch /\ (forall e, In e sch -> In (snd e) (nbrs (fst e))) /\ (forall c k, c < ncl -> In k (nbrs c) -> In (k, c) sch).
Proof. intros V C. apply vschedb_spec in V. split; [|split].
  - apply (valid_sched_nodup nbrs sch [] V).
  - clear C. revert V. generalize (@nil (nat * nat)). induction sch as [|e r IH]; simpl; intros done V e' H. contradiction.
    destruct V as [[A _] V2]. destruct H as [<-|H]; auto. eapply IH; eauto.
  - intros c k Hc Hk. unfold completeb in C. rewrite forallb_forall in C. assert (In c (seq 0 ncl)) by (apply in_seq; lia).
    specialize (C c H). rewrite forallb_forall in C. apply memE_In. now apply C. Qed.
