(* C04: the smoothness constant.  The L2 objective restricted to one clique is  sum_k c_k^2/2 * || Q_k (P_k z) - y_k ||^2  where P_k sums
   the clique table z (n cells) onto the measured sub-clique (p_k cells, each the sum of n/p_k cells of z).  Its Hessian's quadratic
   form is h(z) = sum_k c_k^2 ||Q_k P_k z||^2.  Given upper bounds e_k on the quadratic form of Q_k^T Q_k (the code takes the largest
   eigenvalue from eigsh: external), h(z) <= (sum_k e_k * (n/p_k) * c_k^2) ||z||^2  - the constant _lipschitz accumulates per clique;
   across cliques the Hessian is block diagonal, so the maximum over cliques bounds the whole form. *)
From Coq Require Import List Reals Lra Lia.
Import ListNotations.
Open Scope R_scope.

Definition lsum (l : list R) : R := fold_right Rplus 0 l.
Definition sumsq (l : list R) : R := fold_right (fun x acc => x * x + acc) 0 l.
Lemma sumsq_nonneg l : 0 <= sumsq l.
Proof. induction l; simpl. lra. pose proof (Rle_0_sqr a). unfold Rsqr in *. lra. Qed.
(* Cauchy-Schwarz against the all-ones vector *)
Lemma cross_bound l x : 2 * lsum l * x <= sumsq l + INR (length l) * (x * x).
Proof. induction l as [|a l IH]. simpl. lra. cbn [lsum sumsq fold_right length]. rewrite S_INR.
  fold (lsum l). fold (sumsq l). pose proof (Rle_0_sqr (a - x)) as H. unfold Rsqr in H. nra. Qed.
Lemma block_bound l : lsum l * lsum l <= INR (length l) * sumsq l.
Proof. induction l as [|a l IH]. simpl. lra. cbn [lsum sumsq fold_right length]. rewrite S_INR. fold (lsum l). fold (sumsq l).
  pose proof (cross_bound l a). pose proof (sumsq_nonneg l). pose proof (pos_INR (length l)). nra. Qed.

(* marginalisation: z is given as its blocks (one per cell of the sub-clique), every block has m = n/p cells *)
Definition marg (blocks : list (list R)) : list R := map lsum blocks.
Definition allsq (blocks : list (list R)) : R := fold_right (fun b acc => sumsq b + acc) 0 blocks.
Theorem marg_bound (m : nat) blocks : (forall b, In b blocks -> length b = m) -> sumsq (marg blocks) <= INR m * allsq blocks.
Proof. induction blocks as [|b r IH]; intros H; simpl. lra.
  specialize (IH ltac:(intros; apply H; now right)). pose proof (block_bound b) as B. rewrite (H b (or_introl eq_refl)) in B.
  fold (sumsq (marg r)). fold (allsq r). lra. Qed.

(* one measurement: a bound e on the quadratic form of Q^T Q carries over to the clique table with the factor n/p = m *)
Theorem measurement_bound (qform : list R -> R) e c (m : nat) blocks :
  0 <= e -> (forall w, qform w <= e * sumsq w) -> (forall b, In b blocks -> length b = m) ->
  c * c * qform (marg blocks) <= e * INR m * (c * c) * allsq blocks.
Proof. intros He Hq Hb. pose proof (Hq (marg blocks)) as H1. pose proof (marg_bound m blocks Hb) as H2.
  pose proof (Rle_0_sqr c) as Hc. unfold Rsqr in Hc.
  assert (H3 : e * sumsq (marg blocks) <= e * (INR m * allsq blocks)) by (apply Rmult_le_compat_l; assumption).
  assert (H4 : c * c * qform (marg blocks) <= c * c * (e * (INR m * allsq blocks))) by (apply Rmult_le_compat_l; lra). lra. Qed.
(* several measurements on one clique add up; several cliques take the maximum *)
Theorem clique_bound (hs Ls : list R) (nz : R) : length hs = length Ls -> (forall i, nth i hs 0 <= nth i Ls 0 * nz) ->
  lsum hs <= lsum Ls * nz.
Proof. revert Ls. induction hs as [|h hs IH]; intros [|L Ls] E H; simpl in *; try lia. lra.
  pose proof (H O) as H0. simpl in H0. specialize (IH Ls ltac:(lia) (fun i => H (S i))). lra. Qed.
Theorem max_over_cliques (hs Ls nzs : list R) (Lmax : R) : length hs = length Ls -> length hs = length nzs ->
  (forall i, nth i hs 0 <= nth i Ls 0 * nth i nzs 0) -> (forall i, nth i Ls 0 <= Lmax) -> (forall i, 0 <= nth i nzs 0) ->
  lsum hs <= Lmax * lsum nzs.
Proof. revert Ls nzs. induction hs as [|h hs IH]; intros [|L Ls] [|z zs] E1 E2 H HL Hz; simpl in *; try lia. lra.
  pose proof (H O) as A. pose proof (HL O) as B. pose proof (Hz O) as C. simpl in A, B, C.
  specialize (IH Ls zs ltac:(lia) ltac:(lia) (fun i => H (S i)) (fun i => HL (S i)) (fun i => Hz (S i))).
  assert (L * z <= Lmax * z) by (apply Rmult_le_compat_r; assumption). lra. Qed.
