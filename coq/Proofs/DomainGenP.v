(* The definitions GENERATED from src/mbi/domain.py (Gen/Domain_gen.v, module DomainGen) compute the same
   results as the hand-written model Model/Domain.v, on which the domain laws of C15 (and the Dataset /
   Factor models) are proved.  A change of the source changes the generated definitions; these
   equivalences are then re-checked, or break.
   Representation: a generated Domain (attrs, shape, config) is well formed when the two tuples have equal
   length and config is dict(zip(attrs, shape)) - what the constructor establishes; it represents the
   association list  combine attrs shape.  Python's dict keeps the LAST binding of a repeated key, the hand
   model's lookup the first: the equivalences about lookups need the attribute names to be distinct. *)
From Coq Require Import List Arith Bool Lia Permutation.
Import ListNotations.
Require Import PGM.Base.Sums PGM.Base.PyList PGM.Model.Domain PGM.Gen.Domain_gen PGM.Proofs.DomainP.
Import DomainGen.

Definition repr (g : Domain) : dom := combine (f_attrs g) (f_shape g).
Definition wf0 (g : Domain) : Prop :=
  length (f_attrs g) = length (f_shape g) /\ f_config g = combine (f_attrs g) (f_shape g).

Lemma map_fst_combine (a s : list nat) : length a = length s -> map fst (combine a s) = a.
Proof. revert s. induction a as [|x a IH]; intros [|y s] H; simpl in *; try discriminate; auto. f_equal. apply IH. lia. Qed.
Lemma map_snd_combine (a s : list nat) : length a = length s -> map snd (combine a s) = s.
Proof. revert s. induction a as [|x a IH]; intros [|y s] H; simpl in *; try discriminate; auto. f_equal. apply IH. lia. Qed.
Lemma combine_split_id (d : dom) : combine (map fst d) (map snd d) = d.
Proof. induction d as [|[a n] d IH]; simpl; congruence. Qed.

Lemma attrs_repr g : wf0 g -> attrs (repr g) = f_attrs g.
Proof. intros [L _]. apply map_fst_combine; exact L. Qed.
Lemma dshape_repr g : wf0 g -> dshape (repr g) = f_shape g.
Proof. intros [L _]. apply map_snd_combine; exact L. Qed.

(* the constructor *)
Lemma init_some a s g : init a s = Some g -> f_attrs g = a /\ f_shape g = s /\ wf0 g.
Proof. unfold init. destruct (Nat.eqb (length a) (length s)) eqn:E; [|discriminate]. intros H. inversion H; subst; clear H. simpl.
  apply Nat.eqb_eq in E. unfold wf0; simpl. auto. Qed.
Lemma init_ok a s : length a = length s -> exists g, init a s = Some g /\ repr g = combine a s /\ wf0 g.
Proof. intros L. unfold init. rewrite (proj2 (Nat.eqb_eq _ _) L). eexists. split; [reflexivity|]. unfold repr, wf0; simpl. auto. Qed.
Lemma init_none a s : length a <> length s -> init a s = None.
Proof. intros L. unfold init. destruct (Nat.eqb (length a) (length s)) eqn:E; auto. apply Nat.eqb_eq in E. contradiction. Qed.

(* dict lookup: last binding = first binding when the keys are distinct *)
Lemma getitem_none d a : ~ In a (map fst d) -> py_getitem d a = None.
Proof. induction d as [|[b n] d IH]; simpl; intros H; auto. rewrite IH by tauto.
  destruct (Nat.eqb b a) eqn:E; auto. apply Nat.eqb_eq in E. subst. tauto. Qed.
Lemma getitem_lookup d a : NoDup (map fst d) -> py_getitem d a = lookup d a.
Proof. induction d as [|[b n] d IH]; simpl; intros H; auto. inversion H as [|? ? Hn Hd]; subst.
  destruct (Nat.eqb b a) eqn:E.
  - apply Nat.eqb_eq in E. subst. rewrite getitem_none; auto.
  - rewrite IH by exact Hd. destruct (lookup d a); reflexivity. Qed.

Lemma mapM_length {A B} (f : A -> option B) l r : mapM f l = Some r -> length r = length l.
Proof. revert r. induction l as [|a l IH]; simpl; intros r H. inversion H; auto.
  destruct (f a); [|discriminate]. destruct (mapM f l) eqn:E; [|discriminate]. inversion H; subst. simpl. f_equal. apply IH. reflexivity. Qed.
Lemma mapM_ext {A B} (f g : A -> option B) l : (forall a, In a l -> f a = g a) -> mapM f l = mapM g l.
Proof. induction l as [|a l IH]; simpl; intros H; auto. rewrite (H a) by auto. rewrite IH; auto. Qed.

(* Domain.project *)
Lemma project_mapM d l : Domain.project d l = option_map (combine l) (mapM (lookup d) l).
Proof. induction l as [|a l IH]; simpl; auto. rewrite IH. destruct (lookup d a); simpl; auto.
  destruct (mapM (lookup d) l); simpl; auto. Qed.

Theorem gen_project g l : wf0 g -> NoDup (f_attrs g) ->
  option_map repr (project g (inr l)) = Domain.project (repr g) l
  /\ (forall g', project g (inr l) = Some g' -> wf0 g' /\ f_attrs g' = l).
Proof. intros W ND. unfold project. destruct W as [L C]. rewrite C.
  rewrite (mapM_ext _ (lookup (repr g)) l).
  2:{ intros a _. unfold repr. apply getitem_lookup. rewrite map_fst_combine; auto. }
  rewrite project_mapM. fold (repr g). destruct (mapM (lookup (repr g)) l) as [sh|] eqn:E; simpl.
  - pose proof (mapM_length _ _ _ E) as Len. destruct (init_ok l sh (eq_sym Len)) as [g' [I [R W']]]. rewrite I. simpl. rewrite R. split; auto.
    intros g'' H. inversion H; subst. split; auto. apply init_some in I. tauto.
  - split; auto. discriminate. Qed.

(* the string spelling of a single attribute *)
Theorem gen_project_str g a : project g (inl a) = project g (inr [a]).
Proof. reflexivity. Qed.

Theorem gen_invert g l : wf0 g -> invert g l = Some (Domain.invert (repr g) l).
Proof. intros W. unfold invert, Domain.invert. rewrite attrs_repr by exact W. reflexivity. Qed.

Theorem gen_marginalize g l : wf0 g -> NoDup (f_attrs g) ->
  option_map repr (marginalize g l) = Domain.marginalize (repr g) l
  /\ (forall g', marginalize g l = Some g' -> wf0 g' /\ f_attrs g' = Domain.invert (repr g) l).
Proof. intros W ND. unfold marginalize, Domain.marginalize, Domain.invert. rewrite attrs_repr by exact W. apply gen_project; auto. Qed.

Theorem gen_transpose g l : transpose g l = project g l.
Proof. reflexivity. Qed.

Lemma index_same a l : py_index a l = index_of a l.
Proof. induction l as [|b l IH]; simpl; auto. Qed.
Lemma axes_mapM d l : Domain.axes d l = mapM (fun a => index_of a (attrs d)) l.
Proof. induction l as [|a l IH]; simpl; auto. rewrite IH. reflexivity. Qed.
Theorem gen_axes g l : wf0 g -> axes g l = Domain.axes (repr g) l.
Proof. intros W. unfold axes. rewrite axes_mapM, attrs_repr by exact W. apply mapM_ext. intros a _. apply index_same. Qed.

Lemma combine_app (a1 a2 s1 s2 : list nat) : length a1 = length s1 -> combine (a1 ++ a2) (s1 ++ s2) = combine a1 s1 ++ combine a2 s2.
Proof. revert s1. induction a1 as [|x a1 IH]; intros [|y s1] H; simpl in *; try discriminate; auto. f_equal. apply IH. lia. Qed.

Theorem gen_merge g o : wf0 g -> wf0 o -> NoDup (f_attrs o) ->
  option_map repr (merge g o) = Domain.merge (repr g) (repr o)
  /\ (forall m, merge g o = Some m -> wf0 m /\ f_attrs m = f_attrs g ++ Domain.invert (repr o) (f_attrs g)).
Proof. intros W Wo ND. unfold merge, Domain.merge. rewrite attrs_repr by exact W.
  destruct (gen_marginalize o (f_attrs g) Wo ND) as [E P]. rewrite <- E.
  destruct (marginalize o (f_attrs g)) as [e|] eqn:M; simpl.
  - destruct (P e eq_refl) as [We Ae]. destruct W as [L C]. destruct We as [Le Ce].
    assert (LL : length (f_attrs g ++ f_attrs e) = length (f_shape g ++ f_shape e)) by (rewrite !app_length; lia).
    destruct (init_ok _ _ LL) as [m [I [R Wm]]]. rewrite I. simpl. rewrite R. split.
    + f_equal. unfold repr. apply combine_app. exact L.
    + intros m' H. inversion H; subst. split; auto. apply init_some in I. destruct I as [A _]. rewrite A, Ae. reflexivity.
  - split; auto. discriminate. Qed.

Theorem gen_contains g o : wf0 g -> wf0 o -> contains g o = Some (Domain.contains (repr g) (repr o)).
Proof. intros W Wo. unfold contains, Domain.contains, py_subset. rewrite !attrs_repr by assumption. reflexivity. Qed.

Lemma fold_left_mul l a : fold_left (fun x y => x * y) l a = a * prodn l.
Proof. revert a. induction l as [|n l IH]; simpl; intros a. lia. rewrite IH. unfold prodn. simpl. lia. Qed.
Theorem gen_size g : wf0 g -> size g None = Some (Domain.size (repr g)).
Proof. intros W. simpl. unfold size_None, Domain.size. rewrite dshape_repr by exact W. rewrite fold_left_mul. f_equal. lia. Qed.
Theorem gen_size_of g l : wf0 g -> NoDup (f_attrs g) -> size g (Some (inr l)) = Domain.size_of (repr g) l.
Proof. intros W ND. unfold size, Domain.size_of. destruct (gen_project g l W ND) as [E P]. rewrite <- E.
  destruct (project g (inr l)) as [g'|]; simpl; auto. destruct (P g' eq_refl) as [W' _].
  pose proof (gen_size g' W') as H. simpl in H. exact H. Qed.

(* sorted(): decorate - stable insertion - undecorate  =  stable insertion sort by the key *)
Lemma py_insert_map key a l : py_insert (key a, a) (map (fun b => (key b, b)) l) = map (fun b => (key b, b)) (insert_by key a l).
Proof. induction l as [|b l IH]; simpl; auto. destruct (Nat.leb (key a) (key b)); simpl; auto. rewrite IH. reflexivity. Qed.
Lemma py_sorted_sort_by key l : py_sorted_keys (map key l) l = sort_by key l.
Proof. unfold py_sorted_keys. assert (H : fold_right py_insert [] (combine (map key l) l) = map (fun b => (key b, b)) (sort_by key l)).
  { induction l as [|a l IH]; simpl; auto. rewrite IH. apply py_insert_map. }
  rewrite H. rewrite map_map. simpl. apply map_id. Qed.

Lemma lookup_in_combine (a s : list nat) x : length a = length s -> In x a -> exists n, lookup (combine a s) x = Some n.
Proof. intros L H. apply lookup_in. rewrite map_fst_combine; auto. Qed.

Lemma size_single g a : wf0 g -> NoDup (f_attrs g) -> In a (f_attrs g) -> size g (Some (inl a)) = Some (key_size (repr g) a).
Proof. intros W ND Ha. change (size g (Some (inl a))) with (size g (Some (inr [a]))). rewrite gen_size_of by assumption.
  unfold Domain.size_of. simpl. unfold key_size. destruct W as [L C].
  destruct (lookup_in_combine _ _ a L Ha) as [n Hn]. unfold repr. rewrite Hn. simpl. unfold Domain.size, prodn. simpl. f_equal. lia. Qed.

Lemma mapM_some {A B} (f : A -> option B) (h : A -> B) l : (forall a, In a l -> f a = Some (h a)) -> mapM f l = Some (map h l).
Proof. induction l as [|a l IH]; simpl; intros H; auto. rewrite (H a) by auto. rewrite IH; auto. Qed.

Theorem gen_sort_size g : wf0 g -> NoDup (f_attrs g) -> option_map repr (sort g 0) = Domain.sort_size (repr g).
Proof. intros W ND. unfold sort, Domain.sort_size. simpl Nat.eqb. cbv iota.
  rewrite (mapM_some _ (key_size (repr g)) (f_attrs g)) by (intros a Ha; apply size_single; assumption).
  simpl. rewrite py_sorted_sort_by. rewrite attrs_repr by exact W. apply gen_project; assumption. Qed.
Theorem gen_sort_name g : wf0 g -> NoDup (f_attrs g) -> option_map repr (sort g 1) = Domain.sort_name (repr g).
Proof. intros W ND. unfold sort, Domain.sort_name. simpl Nat.eqb. cbv iota. simpl.
  replace (py_sorted_keys (f_attrs g) (f_attrs g)) with (sort_by (fun a => a) (f_attrs g)).
  2:{ rewrite <- py_sorted_sort_by. rewrite map_id. reflexivity. }
  rewrite attrs_repr by exact W. apply gen_project; assumption. Qed.
(* an unknown `how` leaves `attrs` unbound: the call raises *)
Theorem gen_sort_other g how : how <> 0 -> how <> 1 -> sort g how = None.
Proof. intros H0 H1. unfold sort. destruct how as [|[|h]]; try contradiction. reflexivity. Qed.

Theorem gen_canonical g l : wf0 g -> canonical g l = Some (Domain.canonical (repr g) l).
Proof. intros W. unfold canonical, Domain.canonical. rewrite attrs_repr by exact W. reflexivity. Qed.
Theorem gen_dunder_contains g a : dunder_contains g a = Some (memb a (f_attrs g)).
Proof. reflexivity. Qed.
Theorem gen_getitem g a : wf0 g -> NoDup (f_attrs g) -> dunder_getitem g a = lookup (repr g) a.
Proof. intros [L C] ND. unfold dunder_getitem, repr. rewrite C. apply getitem_lookup. rewrite map_fst_combine; auto. Qed.
Theorem gen_len g : wf0 g -> dunder_len g = Some (length (repr g)).
Proof. intros [L C]. unfold dunder_len, repr. rewrite combine_length. f_equal. lia. Qed.

Lemma py_list_eqb_eq l m : py_list_eqb l m = true <-> l = m.
Proof. revert m. induction l as [|a l IH]; intros [|b m]; simpl; split; intros H; try discriminate; auto.
  - apply andb_prop in H. destruct H as [H1 H2]. apply Nat.eqb_eq in H1. apply IH in H2. congruence.
  - inversion H; subst. rewrite Nat.eqb_refl. simpl. apply IH. reflexivity. Qed.
Lemma dom_eqb_eq (d o : dom) : dom_eqb d o = true <-> d = o.
Proof. unfold dom_eqb. revert o. induction d as [|[a n] d IH]; intros [|[b m] o]; simpl; split; intros H; try discriminate; auto.
  - apply andb_prop in H. destruct H as [H1 H2]. apply andb_prop in H2. destruct H2 as [H2 H3]. apply andb_prop in H2. destruct H2 as [Ha Hn].
    apply Nat.eqb_eq in Ha, Hn. subst. f_equal. apply IH. rewrite H3. simpl in H1. rewrite H1. reflexivity.
  - inversion H; subst. rewrite !Nat.eqb_refl. simpl. specialize (proj2 (IH o) eq_refl). intros K. apply andb_prop in K. destruct K as [K1 K2]. rewrite K2. reflexivity. Qed.
Theorem gen_eq g o : wf0 g -> wf0 o -> dunder_eq g o = Some (dom_eqb (repr g) (repr o)).
Proof. intros W Wo. unfold dunder_eq. f_equal.
  destruct (dom_eqb (repr g) (repr o)) eqn:E.
  - apply dom_eqb_eq in E. assert (A : f_attrs g = f_attrs o) by (rewrite <- (attrs_repr g W), <- (attrs_repr o Wo); congruence).
    assert (S : f_shape g = f_shape o) by (rewrite <- (dshape_repr g W), <- (dshape_repr o Wo); congruence).
    rewrite A, S. rewrite (proj2 (py_list_eqb_eq _ _) eq_refl), (proj2 (py_list_eqb_eq _ _) eq_refl). reflexivity.
  - destruct (py_list_eqb (f_attrs g) (f_attrs o)) eqn:A; simpl; auto.
    destruct (py_list_eqb (f_shape g) (f_shape o)) eqn:S; simpl; auto.
    apply py_list_eqb_eq in A, S. assert (R : repr g = repr o) by (unfold repr; congruence).
    apply dom_eqb_eq in R. congruence. Qed.

(* every hand-model domain is the representation of a well-formed generated one (the constructor on its two tuples) *)
Theorem repr_surjective (d : dom) : exists g, init (attrs d) (dshape d) = Some g /\ repr g = d /\ wf0 g.
Proof. destruct (init_ok (attrs d) (dshape d)) as [g [I [R W]]]. unfold attrs, dshape. rewrite !map_length. reflexivity.
  exists g. split; auto. split; auto. rewrite R. apply combine_split_id. Qed.
(* the constructor's assertion *)
Theorem gen_init_assert a s : length a <> length s -> init a s = None.
Proof. exact (init_none a s). Qed.
