(* C17: the optimality certificate of the convex region-graph oracle.
   Regions 0..n-1; region r has d r cells; a table is a function nat -> R read on [0, d r).  E is the list of region-graph edges
   (parent, child); lift e turns a table over the child into a table over the parent (broadcast) and proj e marginalises a parent
   table to the child - only their adjointness <lift e m, v> = <m, proj e v> is used.  m e is the upward message of edge e.
   Beliefs:  b_r = N exp(phi_r)/Z_r  with  phi_r = theta_r + sum_{e: parent e = r} lift e (m e) - sum_{e: child e = r} m e. *)
From Coq Require Import List Arith Reals Lra Lia.
Import ListNotations.
Require Import PGM.Proofs.GibbsP.
Open Scope R_scope.

Fixpoint sumf (n : nat) (f : nat -> R) : R := match n with O => 0 | S m => sumf m f + f m end.
Lemma sumf_ext n f g : (forall i, (i < n)%nat -> f i = g i) -> sumf n f = sumf n g.
Proof. induction n; simpl; intros H; auto. rewrite H by auto. rewrite IHn; auto. Qed.
Lemma sumf_add n f g : sumf n (fun i => f i + g i) = sumf n f + sumf n g.
Proof. induction n; simpl; lra. Qed.
Lemma sumf_opp n f : sumf n (fun i => - f i) = - sumf n f.
Proof. induction n; simpl; lra. Qed.
Lemma sumf_zero n : sumf n (fun _ => 0) = 0.
Proof. induction n; simpl; lra. Qed.
Lemma sumf_single n k a : (k < n)%nat -> sumf n (fun r => if Nat.eqb r k then a else 0) = a.
Proof. induction n; intros H. lia. simpl. destruct (Nat.eqb_spec n k) as [->|N].
  - rewrite (sumf_ext k _ (fun _ => 0)). rewrite sumf_zero. lra. intros i Hi. destruct (Nat.eqb_spec i k); auto. lia.
  - rewrite IHn by lia. lra. Qed.
Definition dotf (d : nat) (u v : nat -> R) : R := sumf d (fun i => u i * v i).
Lemma dotf_add_l d u u' v : dotf d (fun i => u i + u' i) v = dotf d u v + dotf d u' v.
Proof. unfold dotf. rewrite <- sumf_add. apply sumf_ext. intros. ring. Qed.
Lemma dotf_opp_l d u v : dotf d (fun i => - u i) v = - dotf d u v.
Proof. unfold dotf. rewrite <- sumf_opp. apply sumf_ext. intros. ring. Qed.
Lemma dotf_zero_l d v : dotf d (fun _ => 0) v = 0.
Proof. unfold dotf. rewrite (sumf_ext d _ (fun _ => 0)) by (intros; ring). apply sumf_zero. Qed.

Lemma sumf_shift k : forall f : nat -> R, f 0%nat + sumf k (fun i => f (S i)) = sumf k f + f k.
Proof. induction k as [|k IH]; intros f. simpl. lra. cbn [sumf]. specialize (IH f). lra. Qed.
(* list view, to use Gibbs' inequality of GibbsP *)
Definition tolist (d : nat) (u : nat -> R) : list R := map u (seq 0 d).
Lemma sumR_tolist_gen (u : nat -> R) : forall d s, sumR (map u (seq s d)) = sumf d (fun i => u (s + i)%nat).
Proof. induction d; intros s; simpl. reflexivity. rewrite IHd.
  rewrite <- (sumf_shift d (fun i => u (s + i)%nat)). rewrite Nat.add_0_r. f_equal. apply sumf_ext. intros. f_equal. lia. Qed.
Lemma sumR_tolist d u : sumR (tolist d u) = sumf d u.
Proof. unfold tolist. rewrite sumR_tolist_gen. apply sumf_ext. intros; reflexivity. Qed.
Lemma kl_tolist_gen (u v : nat -> R) : forall d s, kl (map u (seq s d)) (map v (seq s d)) = sumf d (fun i => u (s + i)%nat * (ln (u (s + i)%nat) - ln (v (s + i)%nat))).
Proof. induction d; intros s; simpl. reflexivity. rewrite IHd.
  rewrite <- (sumf_shift d (fun i => u (s + i)%nat * (ln (u (s + i)%nat) - ln (v (s + i)%nat)))). rewrite Nat.add_0_r. f_equal.
  apply sumf_ext. intros. replace (S s + i)%nat with (s + S i)%nat by lia. reflexivity. Qed.
Lemma allpos_tolist d u : (forall i, (i < d)%nat -> 0 < u i) -> allpos (tolist d u).
Proof. unfold tolist. intros H. assert (G : forall s, (forall i, (i < d)%nat -> 0 < u (s + i)%nat) -> allpos (map u (seq s d))).
  { clear H. induction d; intros s H; simpl; auto. split. specialize (H 0%nat). rewrite Nat.add_0_r in H. apply H. lia.
    apply IHd. intros i Hi. replace (S s + i)%nat with (s + S i)%nat by lia. apply H. lia. }
  apply G. intros; apply H; auto. Qed.
Lemma allnn_tolist d u : (forall i, (i < d)%nat -> 0 <= u i) -> allnn (tolist d u).
Proof. unfold tolist. intros H. assert (G : forall s, (forall i, (i < d)%nat -> 0 <= u (s + i)%nat) -> allnn (map u (seq s d))).
  { clear H. induction d; intros s H; simpl; auto. split. specialize (H 0%nat). rewrite Nat.add_0_r in H. apply H. lia.
    apply IHd. intros i Hi. replace (S s + i)%nat with (s + S i)%nat by lia. apply H. lia. }
  apply G. intros; apply H; auto. Qed.

Lemma sumf_exp_pos (f : nat -> R) : forall d, (0 < d)%nat -> 0 < sumf d (fun i => exp (f i)).
Proof. intros d H. destruct d as [|k]. lia. simpl. assert (0 <= sumf k (fun i => exp (f i))).
  { clear. induction k; simpl. lra. pose proof (exp_pos (f k)). lra. } pose proof (exp_pos (f k)). lra. Qed.
Lemma sumf_scale c (f : nat -> R) : forall d, sumf d (fun i => c * f i) = c * sumf d f.
Proof. induction d; simpl. lra. rewrite IHd. lra. Qed.
Lemma sumf_scale_r c (f : nat -> R) : forall d, sumf d (fun i => f i * c) = sumf d f * c.
Proof. induction d; simpl. lra. rewrite IHd. lra. Qed.

(* ---- one region: <phi, nu> + H(nu) <= N ln Z, with equality exactly at the belief b = N exp(phi)/Z ---- *)
Section OneRegion.
Variables (d : nat) (phi nu : nat -> R) (N : R).
Hypothesis Npos : 0 < N.
Hypothesis dpos : (0 < d)%nat.
Definition Zr := sumf d (fun i => exp (phi i)).
Definition belief (i : nat) := N * exp (phi i) / Zr.
(* entropy of a table with total N, as the objective uses it: - sum nu ln(nu/N) (0 ln 0 = 0 is automatic: x * ln x at x = 0 is 0 * _ ) *)
Definition ent (v : nat -> R) := - sumf d (fun i => v i * (ln (v i) - ln N)).
Hypothesis nu_nn : forall i, (i < d)%nat -> 0 <= nu i.
Hypothesis nu_tot : sumf d nu = N.

Lemma Zr_pos : 0 < Zr.
Proof. unfold Zr. now apply sumf_exp_pos. Qed.
Lemma belief_pos i : 0 < belief i.
Proof. unfold belief. pose proof Zr_pos. apply Rdiv_lt_0_compat; auto. apply Rmult_lt_0_compat; auto. apply exp_pos. Qed.
Lemma belief_tot : sumf d belief = N.
Proof. unfold belief. pose proof Zr_pos as ZP. transitivity (N / Zr * Zr). 2:{ field. lra. }
  unfold Zr at 2. rewrite (sumf_ext d _ (fun i => (N / Zr) * exp (phi i))) by (intros; unfold Rdiv; ring).
  apply sumf_scale. Qed.

Theorem region_bound : dotf d phi nu + ent nu = N * ln Zr - kl (tolist d nu) (tolist d belief).
Proof. pose proof Zr_pos as ZP. unfold tolist. rewrite (kl_tolist_gen nu belief d 0). unfold dotf, ent.
  rewrite (sumf_ext d (fun i => nu (0 + i)%nat * (ln (nu (0 + i)%nat) - ln (belief (0 + i)%nat))) (fun i => nu i * (ln (nu i) - ln N) + (- (phi i * nu i)) + nu i * ln Zr)).
  - rewrite !sumf_add, sumf_opp. rewrite <- nu_tot at 1.
    rewrite (sumf_scale_r (ln Zr) nu d). lra.
  - intros i Hi. simpl. unfold belief.
    assert (E : ln (N * exp (phi i) / Zr) = ln N + phi i - ln Zr).
    { unfold Rdiv. rewrite ln_mult; [| apply Rmult_lt_0_compat; [exact Npos | apply exp_pos] | now apply Rinv_0_lt_compat].
      rewrite ln_mult; [| exact Npos | apply exp_pos]. rewrite ln_exp, ln_Rinv by exact ZP. ring. }
    rewrite E. ring. Qed.

Corollary region_upper : dotf d phi nu + ent nu <= N * ln Zr.
Proof. rewrite region_bound. assert (0 <= kl (tolist d nu) (tolist d belief)).
  { apply gibbs. unfold tolist. now rewrite !map_length. apply allnn_tolist; auto. apply allpos_tolist. intros; apply belief_pos.
    rewrite !sumR_tolist. now rewrite belief_tot. } lra. Qed.
End OneRegion.

(* ---- the whole region graph ---- *)
Section Graph.
Variable n : nat.                              (* regions 0..n-1 *)
Variable d : nat -> nat.                       (* number of cells of each region *)
Variable theta : nat -> nat -> R.              (* potentials *)
Variable E : list (nat * nat).                 (* edges (parent, child) *)
Variable msg : nat * nat -> nat -> R.          (* upward message of each edge: a table over the child *)
Variable lift proj : nat * nat -> (nat -> R) -> (nat -> R).
Variable N : R.
Hypothesis Npos : 0 < N.
Hypothesis dpos : forall r, (r < n)%nat -> (0 < d r)%nat.
Hypothesis E_in : forall e, In e E -> (fst e < n)%nat /\ (snd e < n)%nat.
(* broadcasting a child table into the parent is the adjoint of marginalising the parent onto the child *)
Hypothesis adjoint : forall e, In e E -> forall m v, dotf (d (fst e)) (lift e m) v = dotf (d (snd e)) m (proj e v).

Fixpoint phiE (l : list (nat * nat)) (r : nat) : nat -> R :=
  match l with
  | [] => theta r
  | e :: l' => fun i => phiE l' r i + (if Nat.eqb (fst e) r then lift e (msg e) i else 0) + - (if Nat.eqb (snd e) r then msg e i else 0)
  end.
Definition phi := phiE E.
Definition consistent (nu : nat -> nat -> R) := forall e, In e E -> forall i, (i < d (snd e))%nat -> proj e (nu (fst e)) i = nu (snd e) i.
Definition valid (nu : nat -> nat -> R) := forall r, (r < n)%nat -> (forall i, (i < d r)%nat -> 0 <= nu r i) /\ sumf (d r) (nu r) = N.
Definition objective (nu : nat -> nat -> R) := sumf n (fun r => dotf (d r) (theta r) (nu r) + ent (d r) N (nu r)).

Fixpoint edge_terms (l : list (nat * nat)) (nu : nat -> nat -> R) (r : nat) : R :=
  match l with
  | [] => 0
  | e :: l' => edge_terms l' nu r + (if Nat.eqb (fst e) r then dotf (d r) (lift e (msg e)) (nu r) else 0) - (if Nat.eqb (snd e) r then dotf (d r) (msg e) (nu r) else 0)
  end.
Lemma sumf_if (c : bool) k (f v : nat -> R) : sumf k (fun i => (if c then f i else 0) * v i) = if c then sumf k (fun i => f i * v i) else 0.
Proof. destruct c. reflexivity. rewrite (sumf_ext k _ (fun _ => 0)) by (intros; ring). apply sumf_zero. Qed.
Lemma pairing nu r : forall l, dotf (d r) (phiE l r) (nu r) = dotf (d r) (theta r) (nu r) + edge_terms l nu r.
Proof. induction l as [|e l IH]; simpl. lra. unfold dotf in *.
  rewrite (sumf_ext (d r) _ (fun i => phiE l r i * nu r i + (if Nat.eqb (fst e) r then lift e (msg e) i else 0) * nu r i + - ((if Nat.eqb (snd e) r then msg e i else 0) * nu r i))) by (intros; ring).
  rewrite !sumf_add, sumf_opp, !sumf_if, IH.
  destruct (Nat.eqb (fst e) r), (Nat.eqb (snd e) r); lra. Qed.

Lemma edge_terms_total nu : forall l, (forall e, In e l -> (fst e < n)%nat /\ (snd e < n)%nat) ->
  sumf n (edge_terms l nu) = fold_right (fun e acc => dotf (d (fst e)) (lift e (msg e)) (nu (fst e)) - dotf (d (snd e)) (msg e) (nu (snd e)) + acc) 0 l.
Proof. induction l as [|e l IH]; intros H; simpl. apply sumf_zero.
  destruct (H e (or_introl eq_refl)) as [Hp Hc].
  rewrite (sumf_ext n _ (fun r => edge_terms l nu r + ((if Nat.eqb r (fst e) then dotf (d (fst e)) (lift e (msg e)) (nu (fst e)) else 0) + - (if Nat.eqb r (snd e) then dotf (d (snd e)) (msg e) (nu (snd e)) else 0)))).
  - rewrite sumf_add, sumf_add, sumf_opp. rewrite !sumf_single by auto. rewrite IH by (intros; apply H; now right). lra.
  - intros r Hr. rewrite (Nat.eqb_sym r (fst e)), (Nat.eqb_sym r (snd e)).
    destruct (Nat.eqb_spec (fst e) r) as [E1|N1]; [rewrite ?E1|]; (destruct (Nat.eqb_spec (snd e) r) as [E2|N2]; [rewrite ?E2|]); lra. Qed.

(* under consistency every edge term vanishes: the message terms cancel *)
Lemma messages_cancel nu : consistent nu -> sumf n (edge_terms E nu) = 0.
Proof. intros C. rewrite edge_terms_total by exact E_in.
  assert (G : forall l, (forall e, In e l -> In e E) ->
    fold_right (fun e acc => dotf (d (fst e)) (lift e (msg e)) (nu (fst e)) - dotf (d (snd e)) (msg e) (nu (snd e)) + acc) 0 l = 0).
  { induction l as [|e l IH]; intros H; simpl. reflexivity. rewrite IH by (intros; apply H; now right).
    rewrite (adjoint e (H e (or_introl eq_refl))). unfold dotf. rewrite (sumf_ext _ _ (fun i => msg e i * nu (snd e) i)). lra.
    intros i Hi. rewrite (C e (H e (or_introl eq_refl)) i Hi). reflexivity. }
  apply G. auto. Qed.

(* the objective of any locally consistent, valid nu equals the sum of the per-region "phi" objectives *)
Lemma objective_reparam nu : consistent nu -> objective nu = sumf n (fun r => dotf (d r) (phi r) (nu r) + ent (d r) N (nu r)).
Proof. intros C. unfold objective, phi. rewrite (sumf_ext n (fun r => dotf (d r) (phiE E r) (nu r) + ent (d r) N (nu r)) (fun r => (dotf (d r) (theta r) (nu r) + ent (d r) N (nu r)) + edge_terms E nu r)).
  - rewrite (sumf_add n (fun r => dotf (d r) (theta r) (nu r) + ent (d r) N (nu r)) (edge_terms E nu)). rewrite (messages_cancel nu C). lra.
  - intros r Hr. rewrite pairing. lra. Qed.

Definition bel (r : nat) : nat -> R := belief (d r) (phi r) N.
(* CERTIFICATE: if the beliefs are consistent along the region-graph edges, they maximise the objective over ALL valid locally
   consistent pseudo-marginals *)
Theorem certificate nu : consistent nu -> valid nu -> consistent bel -> objective nu <= objective bel.
Proof. intros Cn Vn Cb. rewrite (objective_reparam nu Cn), (objective_reparam bel Cb).
  assert (U : sumf n (fun r => dotf (d r) (phi r) (nu r) + ent (d r) N (nu r)) <= sumf n (fun r => N * ln (Zr (d r) (phi r)))).
  { assert (G : forall k, (k <= n)%nat -> sumf k (fun r => dotf (d r) (phi r) (nu r) + ent (d r) N (nu r)) <= sumf k (fun r => N * ln (Zr (d r) (phi r)))).
    { induction k; intros Hk; simpl. lra. destruct (Vn k) as [V1 V2]. lia.
      pose proof (region_upper (d k) (phi k) (nu k) N Npos (dpos k ltac:(lia)) V1 V2). specialize (IHk ltac:(lia)). lra. }
    apply G. lia. }
  assert (B : sumf n (fun r => dotf (d r) (phi r) (bel r) + ent (d r) N (bel r)) = sumf n (fun r => N * ln (Zr (d r) (phi r)))).
  { apply sumf_ext. intros r Hr. unfold bel.
    rewrite (region_bound (d r) (phi r) (belief (d r) (phi r) N) N Npos (dpos r Hr)).
    - assert (K : kl (tolist (d r) (belief (d r) (phi r) N)) (tolist (d r) (belief (d r) (phi r) N)) = 0) by apply kl_self. rewrite K. lra.
    - apply belief_tot; auto. }
  lra. Qed.
End Graph.
