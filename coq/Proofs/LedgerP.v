(* C05: the budget skeletons of MST, MWEM+PGM (Gaussian mode), Adaptive Grid spend exactly rho; AIM never exceeds rho for ANY
   sequence of annealing decisions and any number of rounds, provided the one-way phase fits (0.9 d / rounds <= 1). On the reals. *)
From Coq Require Import List ZArith Reals Lra Lia Bool.
Import ListNotations.
Require Import PGM.Base.Num PGM.Model.Ledger.
Open Scope R_scope.

Notation cost := (@cost R RNum).
Notation total := (@total R RNum).
Lemma of_nat_INR n : of_nat RNum n = INR n.
Proof. induction n. simpl. lra. rewrite S_INR. simpl in *. rewrite IHn. lra. Qed.
Lemma total_nil : total [] = 0. Proof. unfold Ledger.total. simpl. lra. Qed.
Lemma total_cons e l : total (e :: l) = cost e + total l. Proof. reflexivity. Qed.
Lemma total_app l1 l2 : total (l1 ++ l2) = total l1 + total l2.
Proof. induction l1 as [|e l1 IH]. rewrite total_nil. simpl. lra. rewrite <- app_comm_cons, !total_cons, IH. lra. Qed.
Lemma total_repeat n e : total (repeat_ev n e) = INR n * cost e.
Proof. induction n. simpl repeat_ev. rewrite total_nil. simpl. lra. rewrite S_INR. cbn [repeat_ev]. rewrite total_cons, IHn. lra. Qed.
Lemma cost_gauss s d : s <> 0 -> cost (Gauss s d) = d * d / (2 * (s * s)).
Proof. intros. simpl. field. auto. Qed.
Lemma cost_select e f : cost (Select e f) = (e * f) * (e * f) / 8.
Proof. simpl. field. Qed.
Lemma sqrt_sq x : 0 <= x -> sqrt x * sqrt x = x. Proof. apply sqrt_sqrt. Qed.

Theorem mst_ledger rho k1 rm1 k2 : 0 < rho -> (0 < k1)%nat -> (0 < rm1)%nat -> (0 < k2)%nat ->
  total (mst_events RNum rho k1 rm1 k2) = rho.
Proof. intros Hr H1 H2 H3. unfold mst_events. rewrite !total_app, !total_repeat. rewrite !of_nat_INR.
  assert (K1 : 0 < INR k1) by (now apply lt_0_INR). assert (K2 : 0 < INR rm1) by (now apply lt_0_INR). assert (K3 : 0 < INR k2) by (now apply lt_0_INR).
  change (nsqrt RNum) with sqrt. change (nmul RNum) with Rmult. change (ndiv RNum) with Rdiv.
  set (sg := sqrt (lit RNum 3 1 / (lit RNum 2 1 * rho))).
  assert (SG : sg * sg = 3 / (2 * rho)). { unfold sg. rewrite sqrt_sq. simpl. field. lra. simpl. apply Rlt_le. apply Rdiv_lt_0_compat; lra. }
  assert (SGp : 0 < sg). { unfold sg. apply sqrt_lt_R0. simpl. apply Rdiv_lt_0_compat; lra. }
  rewrite !cost_gauss, cost_select.
  2,3: apply Rgt_not_eq, Rmult_lt_0_compat; auto; apply sqrt_lt_R0; auto.
  replace (sg * sqrt (INR k1) * (sg * sqrt (INR k1))) with ((sg * sg) * (sqrt (INR k1) * sqrt (INR k1))) by ring.
  replace (sg * sqrt (INR k2) * (sg * sqrt (INR k2))) with ((sg * sg) * (sqrt (INR k2) * sqrt (INR k2))) by ring.
  rewrite !sqrt_sq by lra. rewrite SG.
  set (e := sqrt (lit RNum 8 1 * (rho / lit RNum 3 1) / INR rm1)).
  assert (E : e * e = 8 * (rho / 3) / INR rm1). { unfold e. rewrite sqrt_sq. simpl. field. lra. simpl. apply Rlt_le. apply Rdiv_lt_0_compat; lra. }
  replace (e * lit RNum 1 1 * (e * lit RNum 1 1)) with (e * e) by (simpl; field). rewrite E. simpl. field. repeat split; lra. Qed.

Theorem adagrid_ledger rho1 rho2 rho3 n1 rm1 n3 : 0 < rho1 -> 0 < rho2 -> 0 < rho3 -> (0 < n1)%nat -> (0 < rm1)%nat -> (0 < n3)%nat ->
  total (adagrid_events RNum rho1 rho2 rho3 n1 rm1 n3) = rho1 + rho2 + rho3.
Proof. intros H1 H2 H3 N1 N2 N3. unfold adagrid_events. rewrite !total_app, !total_repeat, !of_nat_INR.
  assert (K1 : 0 < INR n1) by (now apply lt_0_INR). assert (K2 : 0 < INR rm1) by (now apply lt_0_INR). assert (K3 : 0 < INR n3) by (now apply lt_0_INR).
  change (nsqrt RNum) with sqrt. change (nmul RNum) with Rmult. change (ndiv RNum) with Rdiv.
  set (a := sqrt (lit RNum 1 2 / rho1)). set (c := sqrt (lit RNum 1 2 / rho3)).
  assert (A : a * a = 1 / 2 / rho1). { unfold a. rewrite sqrt_sq. simpl. field. lra. simpl. apply Rlt_le. apply Rdiv_lt_0_compat; lra. }
  assert (C : c * c = 1 / 2 / rho3). { unfold c. rewrite sqrt_sq. simpl. field. lra. simpl. apply Rlt_le. apply Rdiv_lt_0_compat; lra. }
  assert (Ap : 0 < a). { unfold a. apply sqrt_lt_R0. simpl. apply Rdiv_lt_0_compat; lra. }
  assert (Cp : 0 < c). { unfold c. apply sqrt_lt_R0. simpl. apply Rdiv_lt_0_compat; lra. }
  rewrite !cost_gauss, cost_select.
  2: apply Rgt_not_eq, Rmult_lt_0_compat; auto; apply sqrt_lt_R0; auto.
  2: apply Rgt_not_eq, Rmult_lt_0_compat; auto; apply sqrt_lt_R0; auto.
  replace (a * sqrt (INR n1) * (a * sqrt (INR n1))) with ((a * a) * (sqrt (INR n1) * sqrt (INR n1))) by ring.
  replace (sqrt (INR n3) * c * (sqrt (INR n3) * c)) with ((c * c) * (sqrt (INR n3) * sqrt (INR n3))) by ring.
  rewrite !sqrt_sq by lra. rewrite A, C.
  set (e := sqrt (lit RNum 8 1 * rho2 / INR rm1)).
  assert (E : e * e = 8 * rho2 / INR rm1). { unfold e. rewrite sqrt_sq. simpl. field. lra. simpl. apply Rlt_le. apply Rdiv_lt_0_compat; lra. }
  replace (e * lit RNum 1 1 * (e * lit RNum 1 1)) with (e * e) by (simpl; field). rewrite E. simpl. field. repeat split; lra. Qed.

Lemma total_flat_const (A : Type) (l : list A) (evs : list (event R)) : total (flat_map (fun _ => evs) l) = INR (length l) * total evs.
Proof. induction l. simpl flat_map. rewrite total_nil. simpl. lra. cbn [flat_map length]. rewrite total_app, IHl, S_INR. lra. Qed.

(* MWEM+PGM, Laplace mode: exactly eps under both adjacency notions *)
Lemma ptotal_app (l1 l2 : list (pevent R)) : ptotal RNum (l1 ++ l2) = ptotal RNum l1 + ptotal RNum l2.
Proof. unfold ptotal. induction l1 as [|e l1 IH]. simpl. lra. cbn [app fold_right]. rewrite IH. simpl. lra. Qed.
Lemma ptotal_flat_const (A : Type) (l : list A) (evs : list (pevent R)) : ptotal RNum (flat_map (fun _ => evs) l) = INR (length l) * ptotal RNum evs.
Proof. induction l. unfold ptotal. simpl. lra. cbn [flat_map length]. rewrite ptotal_app, IHl, S_INR. lra. Qed.
Theorem mwem_lap_ledger eps alpha rounds bounded : 0 < eps -> 0 < alpha < 1 -> (0 < rounds)%nat ->
  ptotal RNum (mwem_lap_events RNum eps alpha rounds bounded) = eps.
Proof. intros He [Ha1 Ha2] HT. unfold mwem_lap_events. rewrite ptotal_flat_const, seq_length, of_nat_INR.
  assert (K : 0 < INR rounds) by (now apply lt_0_INR).
  unfold ptotal. cbn [fold_right pcost]. destruct bounded; simpl; field; repeat split; lra. Qed.

(* MWEM+PGM, Gaussian mode: exactly rho when the selection sees the adjacency notion; (alpha + 4(1-alpha)) rho when it does not *)
Theorem mwem_ledger rho alpha rounds bounded fwd : 0 < rho -> 0 < alpha < 1 -> (0 < rounds)%nat ->
  total (mwem_events RNum rho alpha rounds bounded fwd) = if (bounded && negb fwd)%bool then (alpha + 4 * (1 - alpha)) * rho else rho.
Proof. intros Hr [Ha1 Ha2] HT. unfold mwem_events. rewrite total_flat_const, seq_length, of_nat_INR.
  assert (K : 0 < INR rounds) by (now apply lt_0_INR).
  change (nsqrt RNum) with sqrt. change (nmul RNum) with Rmult. change (ndiv RNum) with Rdiv. change (nsub RNum) with Rminus.
  set (rpr := rho / INR rounds). assert (RP : 0 < rpr) by (unfold rpr; apply Rdiv_lt_0_compat; lra).
  set (sg := sqrt (lit RNum 1 2 / (alpha * rpr))).
  assert (SG : sg * sg = 1 / 2 / (alpha * rpr)). { unfold sg. rewrite sqrt_sq. simpl. field. split; lra. simpl. apply Rlt_le, Rdiv_lt_0_compat. lra. apply Rmult_lt_0_compat; lra. }
  assert (SGp : 0 < sg). { unfold sg. apply sqrt_lt_R0. simpl. apply Rdiv_lt_0_compat. lra. apply Rmult_lt_0_compat; lra. }
  set (e := sqrt (lit RNum 8 1 * ((lit RNum 1 1 - alpha) * rpr))).
  assert (E : e * e = 8 * ((1 - alpha) * rpr)). { unfold e. rewrite sqrt_sq. simpl. field. simpl. apply Rlt_le. apply Rmult_lt_0_compat. lra. apply Rmult_lt_0_compat; lra. }
  rewrite !total_cons, total_nil. rewrite cost_select.
  assert (S2 : sqrt 2 * sqrt 2 = 2) by (apply sqrt_sq; lra). assert (S2p : 0 < sqrt 2) by (apply sqrt_lt_R0; lra).
  destruct bounded, fwd; cbn [andb negb].
  - rewrite cost_gauss by (apply Rgt_not_eq, Rmult_lt_0_compat; auto; simpl; replace (2/1) with 2 by field; auto).
    replace (sqrt (lit RNum 2 1)) with (sqrt 2) by (simpl; f_equal; field).
    replace (sqrt 2 * sg * (sqrt 2 * sg)) with ((sqrt 2 * sqrt 2) * (sg * sg)) by ring. rewrite S2, SG.
    replace (e * lit RNum 1 1 * (e * lit RNum 1 1)) with (e * e) by (simpl; field). rewrite E. unfold rpr. simpl. field. repeat split; lra.
  - rewrite cost_gauss by (apply Rgt_not_eq, Rmult_lt_0_compat; auto; simpl; replace (2/1) with 2 by field; auto).
    replace (sqrt (lit RNum 2 1)) with (sqrt 2) by (simpl; f_equal; field).
    replace (sqrt 2 * sg * (sqrt 2 * sg)) with ((sqrt 2 * sqrt 2) * (sg * sg)) by ring. rewrite S2, SG.
    replace (e * lit RNum 2 1 * (e * lit RNum 2 1)) with (4 * (e * e)) by (simpl; field). rewrite E. unfold rpr. simpl. field. repeat split; lra.
  - rewrite cost_gauss by (apply Rgt_not_eq, Rmult_lt_0_compat; auto; simpl; lra).
    replace (lit RNum 1 1 * sg * (lit RNum 1 1 * sg)) with (sg * sg) by (simpl; field). rewrite SG.
    replace (e * lit RNum 1 1 * (e * lit RNum 1 1)) with (e * e) by (simpl; field). rewrite E. unfold rpr. simpl. field. repeat split; lra.
  - rewrite cost_gauss by (apply Rgt_not_eq, Rmult_lt_0_compat; auto; simpl; lra).
    replace (lit RNum 1 1 * sg * (lit RNum 1 1 * sg)) with (sg * sg) by (simpl; field). rewrite SG.
    replace (e * lit RNum 1 1 * (e * lit RNum 1 1)) with (e * e) by (simpl; field). rewrite E. unfold rpr. simpl. field. repeat split; lra.
Qed.

(* ---- AIM: invariant over every decision sequence ---- *)
Definition aim_ok (rho : R) (s : aim_st R) := 0 < a_sigma s /\ (a_done s = false -> a_used s < rho) /\ (a_done s = true -> a_used s = rho).
Lemma round_cost_pos sigma eps : 0 < sigma -> 0 < round_cost RNum sigma eps.
Proof. intros H. unfold round_cost. simpl.
  assert (0 <= eps * eps) by nra.
  assert (0 < 1 / 2 / (sigma * sigma)). { apply Rdiv_lt_0_compat. lra. nra. } lra. Qed.

Lemma last_round_spends_remainder rem : 0 < rem ->
  round_cost RNum (sqrt (lit RNum 1 1 / (lit RNum 2 1 * (lit RNum 9 10 * rem)))) (sqrt (lit RNum 8 1 * (lit RNum 1 10 * rem))) = rem.
Proof. intros RM.
  assert (S1 : sqrt (lit RNum 1 1 / (lit RNum 2 1 * (lit RNum 9 10 * rem))) * sqrt (lit RNum 1 1 / (lit RNum 2 1 * (lit RNum 9 10 * rem))) = 1 / (2 * (9 / 10 * rem))).
  { rewrite sqrt_sq. simpl. field. lra. simpl. apply Rlt_le. apply Rdiv_lt_0_compat; lra. }
  assert (E1 : sqrt (lit RNum 8 1 * (lit RNum 1 10 * rem)) * sqrt (lit RNum 8 1 * (lit RNum 1 10 * rem)) = 8 * (1 / 10 * rem)).
  { rewrite sqrt_sq. simpl. field. simpl. lra. }
  unfold round_cost. change (nmul RNum) with Rmult. change (ndiv RNum) with Rdiv. change (nadd RNum) with Rplus. rewrite S1, E1. simpl. field. lra. Qed.

Lemma aim_round_ok rho s b : aim_ok rho s -> aim_ok rho (fst (aim_round RNum rho s b)).
Proof. intros [Sp [Un Dn]]. unfold aim_round. destruct (a_done s) eqn:DS. simpl. repeat split; auto; intros; congruence.
  specialize (Un eq_refl).
  change (nltb RNum) with Rltb. change (nsub RNum) with Rminus. change (nmul RNum) with Rmult. change (nsqrt RNum) with sqrt. change (ndiv RNum) with Rdiv. change (nadd RNum) with Rplus.
  set (rem := rho - a_used s). assert (RM : 0 < rem) by (unfold rem; lra).
  destruct (Rltb rem (lit RNum 2 1 * round_cost RNum (a_sigma s) (a_eps s))) eqn:L.
  - cbn [fst]. unfold aim_ok. cbn [a_used a_done a_sigma]. rewrite (last_round_spends_remainder rem RM). split; [|split].
    + apply sqrt_lt_R0. simpl. apply Rdiv_lt_0_compat; lra.
    + discriminate.
    + intros _. unfold rem. lra.
  - apply Rltb_false in L. pose proof (round_cost_pos (a_sigma s) (a_eps s) Sp) as CP.
    assert (C2 : round_cost RNum (a_sigma s) (a_eps s) <= rem / 2). { change (lit RNum 2 1) with (2 / 1) in L. lra. }
    destruct b; cbn [fst]; unfold aim_ok; cbn [a_used a_done a_sigma]; (split; [|split]); try discriminate.
    + simpl. lra.
    + intros _. unfold rem in *. lra.
    + exact Sp.
    + intros _. unfold rem in *. lra. Qed.

Lemma aim_run_ok rho decisions : forall s, aim_ok rho s -> aim_ok rho (fst (aim_run RNum rho s decisions)).
Proof. induction decisions as [|b r IH]; intros s H; simpl. exact H.
  destruct (aim_round RNum rho s b) as [s1 e1] eqn:E1. destruct (aim_run RNum rho s1 r) as [s2 e2] eqn:E2. simpl.
  replace s2 with (fst (aim_run RNum rho s1 r)) by (now rewrite E2). apply IH.
  replace s1 with (fst (aim_round RNum rho s b)) by (now rewrite E1). now apply aim_round_ok. Qed.

(* the one-way phase costs 0.9 d / rounds of the budget *)
Lemma aim_init_used rho rounds d : 0 < rho -> (0 < rounds)%nat -> a_used (aim_init RNum rho rounds d) = (9 / 10) * INR d / INR rounds * rho /\ 0 < a_sigma (aim_init RNum rho rounds d).
Proof. intros Hr HT. unfold aim_init. cbn [a_used a_sigma]. rewrite !of_nat_INR.
  assert (K : 0 < INR rounds) by (now apply lt_0_INR).
  change (nsqrt RNum) with sqrt. change (nmul RNum) with Rmult. change (ndiv RNum) with Rdiv.
  set (sg := sqrt (INR rounds / (lit RNum 2 1 * (lit RNum 9 10 * rho)))).
  assert (P : 0 < INR rounds / (lit RNum 2 1 * (lit RNum 9 10 * rho))). { simpl. apply Rdiv_lt_0_compat; lra. }
  assert (SG : sg * sg = INR rounds / (2 * (9 / 10 * rho))). { unfold sg. rewrite sqrt_sq by lra. simpl. field. lra. }
  split. rewrite SG. simpl. field. split; lra. now apply sqrt_lt_R0. Qed.

(* AIM never spends more than rho, for EVERY sequence of annealing decisions and every number of rounds with 0.9 d < rounds;
   once the terminating round has run it has spent exactly rho *)
Theorem aim_ledger_invariant rho rounds d decisions : 0 < rho -> (0 < rounds)%nat -> 9 / 10 * INR d < INR rounds ->
  let s := fst (aim_run RNum rho (aim_init RNum rho rounds d) decisions) in
  a_used s <= rho /\ (a_done s = true -> a_used s = rho).
Proof. intros Hr HT Hd s. assert (K : 0 < INR rounds) by (now apply lt_0_INR).
  assert (OK : aim_ok rho (aim_init RNum rho rounds d)).
  { destruct (aim_init_used rho rounds d Hr HT) as [U Sg]. split; auto. split.
    - intros _. rewrite U. apply Rlt_le_trans with (1 * rho); [|lra]. apply Rmult_lt_compat_r; auto.
      apply (Rmult_lt_reg_r (INR rounds)); auto. unfold Rdiv. rewrite Rmult_assoc, Rinv_l; lra.
    - unfold aim_init. cbn [a_done]. discriminate. }
  pose proof (aim_run_ok rho decisions _ OK) as [_ [A B]]. fold s in A, B. split; auto.
  destruct (a_done s) eqn:E. rewrite B; auto; lra. apply Rlt_le. auto. Qed.

(* and with fewer rounds than 0.9 d the one-way phase alone overspends (e.g. rounds = 1, d = 3: 2.7 rho) *)
Theorem aim_overspend rho : 0 < rho -> a_used (aim_init RNum rho 1 3) = 27 / 10 * rho.
Proof. intros Hr. destruct (aim_init_used rho 1 3 Hr Nat.lt_0_1) as [U _]. rewrite U. simpl. field. Qed.
