(* The definition GENERATED from GraphicalModel.mle (Gen/BP_gen.v) computes, for every clique c of a tree whose cliques are numbered
   in preorder (self.cliques = DFS preorder) and which has one top per attribute, the potential
        mu_c / (mu_c summed onto scope(c) /\ scope(parent c))        (guarded division; the root is divided by its total)
   i.e. the junction-tree factorisation of C08_mle_reproduces (up to the constant at the root, which the normalisation of
   belief_propagation removes).  Steps: the generated loop is the walk mle_walk of Proofs/MleSepP.v (same running set, same
   intersections); its intersections are the parent separators (mle_separators_are_parent_separators). *)
From Coq Require Import List Arith Lia Bool Permutation.
Import ListNotations.
Require Import PGM.Base.Alg PGM.Base.Sums PGM.Model.BP PGM.Base.PyFactor PGM.Gen.BP_gen PGM.Proofs.BPrunP PGM.Proofs.JTP PGM.Proofs.JTreeP PGM.Proofs.WeightP PGM.Proofs.MleSepP.

Section MleGenP.
Variable R : SF.
Variable shape : nat -> nat.
Variable D : list nat.
Variable ncl : nat.
Variable scope : nat -> list nat.
Variable sep_axes : nat -> nat -> list nat.
Variable mu : nat -> tbl R.
Notation trie := (@trie R).
Notation lk := (@lk R D).
Notation mat := (@mat R shape D).
Notation valid := (valid shape).
Notation leaf := (@Leaf R (zero R)).
Notation mle_gen := (@mle R shape D ncl scope).
Notation loop := (@mle_loop1 R shape D scope).
Hypothesis shape_pos : forall a, 0 < shape a.
Hypothesis mu_dep : forall c, dep_on D (mu c).

Definition marg : list trie := map (fun c => mat (mu c)) (seq 0 ncl).
(* the running set and the emitted intersections, as a fold over the visiting order *)
Definition stepw (acc : list nat * list (nat * list nat)) (c : nat) := (fst acc ++ scope c, snd acc ++ [(c, inter (scope c) (fst acc))]).

Lemma fold_stepw_app l : forall S o, fold_left stepw l (S, o) =
  (S ++ flat_map scope l, o ++ snd (fold_left stepw l (S, []))).
Proof. induction l as [|c r IH]; intros S o; cbn [fold_left flat_map]. now rewrite !app_nil_r.
  unfold stepw at 2 4. cbn [fst snd]. rewrite (IH (S ++ scope c) (o ++ [(c, inter (scope c) S)])).
  rewrite (IH (S ++ scope c) ([] ++ [(c, inter (scope c) S)])). cbn [snd app]. rewrite <- !app_assoc. reflexivity. Qed.

Lemma walk_is_fold : forall t seen, mle_walk scope seen t = fold_left stepw (nodes t) (seen, []).
Proof. induction t as [c ks IH] using rt_ind'. intros seen. rewrite mle_walk_node. cbn [nodes fold_left]. unfold stepw at 2. cbn [fst snd app].
  assert (G : forall l S o, Forall (fun k => forall seen, mle_walk scope seen k = fold_left stepw (nodes k) (seen, [])) l ->
              walk_kids scope l (S, o) = fold_left stepw (flat_map nodes l) (S, o)).
  { induction l as [|k r IHr]; intros S o F. reflexivity. inversion F as [|? ? Hk Hr]; subst.
    rewrite walk_kids_cons. cbn [fst snd flat_map]. rewrite fold_left_app. rewrite Hk.
    rewrite (fold_stepw_app (nodes k) S o). rewrite (fold_stepw_app (nodes k) S []). cbn [fst snd app]. apply IHr. exact Hr. }
  apply G. exact IH. Qed.

(* the generated loop: same running set; the potential of clique c is written at index c *)
Definition pot_of (c : nat) (new : list nat) : trie :=
  f_sub shape D (f_log (py_get marg c)) (f_log (f_project shape D (py_get marg c) (scope c) new)).
Lemma loop_step S P k : loop marg (S, P) k = (S ++ scope k, replace k (pot_of k (inter (scope k) S)) P).
Proof. reflexivity. Qed.
Lemma gen_fold : forall l S P, NoDup l ->
  fst (fold_left (loop marg) l (S, P)) = S ++ flat_map scope l
  /\ Forall (fun cn => fst cn < length P -> nth (fst cn) (snd (fold_left (loop marg) l (S, P))) leaf = pot_of (fst cn) (snd cn)) (snd (fold_left stepw l (S, [])))
  /\ (forall c, ~ In c l -> nth c (snd (fold_left (loop marg) l (S, P))) leaf = nth c P leaf)
  /\ length (snd (fold_left (loop marg) l (S, P))) = length P.
Proof. induction l as [|k r IH]; intros S P ND; cbn [fold_left flat_map].
  - rewrite app_nil_r. repeat split; auto. constructor.
  - inversion ND as [|? ? Hk Hr]; subst. rewrite loop_step. unfold stepw at 2. cbn [fst snd app].
    destruct (IH (S ++ scope k) (replace k (pot_of k (inter (scope k) S)) P) Hr) as [I1 [I2 [I3 I4]]].
    rewrite (fold_stepw_app r (S ++ scope k) [(k, inter (scope k) S)]). cbn [snd].
    split; [rewrite I1, <- app_assoc; reflexivity|]. split; [|split].
    + constructor.
      * cbn [fst snd]. intros L. rewrite (I3 k Hk). now apply replace_nth_same.
      * rewrite replace_length in I2. exact I2.
    + intros c Hc. rewrite I3 by (intro; apply Hc; now right). apply replace_nth_other. intro; subst; apply Hc; now left.
    + rewrite I4. apply replace_length. Qed.

(* value of one generated potential *)
Lemma pot_value c new x : c < ncl -> valid x ->
  lk (pot_of c new) x = @sdiv R (mu c x) (@sum_vars R shape (diff (scope c) new) (mu c) x).
Proof. intros Hc V. unfold pot_of, f_sub, f_log, f_project, py_get, marg. rewrite nth_map_seq by assumption.
  rewrite mat_ok; auto. 2:{ intros y z E. f_equal; apply lk_dep; auto. }
  rewrite mat_ok by (auto; apply mu_dep). f_equal.
  rewrite mat_ok; auto. 2:{ apply dep_on_sum_vars. apply lk_dep. }
  apply sum_vars_ext_on. intros y A Rg. apply mat_ok. apply mu_dep. eapply valid_fibre; eauto. Qed.

(* main theorem: on a tree numbered in preorder with one top per attribute, the generated mle yields the junction-tree factorisation *)
Theorem mle_gen_is_factorisation t : nodes t = seq 0 ncl -> (forall a, length (tops scope a [] t) <= 1) ->
  Forall (fun cp => forall x, valid x ->
            lk (nth (fst cp) (mle_gen marg) leaf) x = @sdiv R (mu (fst cp) x) (@sum_vars R shape (diff (scope (fst cp)) (snd cp)) (mu (fst cp)) x))
         (with_parent scope [] t).
Proof. intros NT ST. unfold mle. unfold py_emptyf, py_emptyset.
  destruct (gen_fold (seq 0 ncl) [] (repeat leaf ncl) (seq_NoDup ncl 0)) as [_ [G2 _]].
  destruct (fold_left (loop marg) (seq 0 ncl) ([], repeat leaf ncl)) as [S' P'] eqn:E. cbn [snd] in G2.
  pose proof (mle_separators_are_parent_separators scope t ST) as SEP. rewrite walk_is_fold, NT in SEP.
  rewrite repeat_length in G2.
  assert (INN : forall c, In c (map fst (with_parent scope [] t)) -> c < ncl).
  { assert (M : map fst (with_parent scope [] t) = nodes t).
    { clear. generalize (@nil nat). induction t as [c ks IH] using rt_ind'. intros p. simpl. f_equal. rewrite Forall_forall in IH.
      induction ks as [|k r IHr]; simpl; auto. rewrite map_app, (IH k) by now left. f_equal. apply IHr. intros; apply IH; now right. }
    rewrite M, NT. intros c Hc. apply in_seq in Hc. lia. }
  revert G2 INN. generalize (with_parent scope [] t) (snd (fold_left stepw (seq 0 ncl) ([], []))) SEP. clear SEP.
  intros wp outs SEP. induction SEP as [|[c new] [c' P] outs wp [EQ SP] _ IH]; intros G2 INN; constructor.
  - cbn [fst snd] in *. subst c'. intros x V. inversion G2 as [|? ? H1 H2]; subst. cbn [fst snd] in H1.
    assert (Hc : c < ncl) by (apply INN; now left).
    rewrite (H1 Hc). rewrite pot_value by assumption. f_equal. f_equal. unfold diff. apply filter_ext_in. intros a Ha. f_equal.
    destruct (memb a new) eqn:E1, (memb a P) eqn:E2; auto.
    + apply memb_In in E1. apply SP in E1. destruct E1 as [_ E1]. apply memb_In in E1. congruence.
    + apply memb_In in E2. assert (In a new) by (apply SP; auto). apply memb_In in H. congruence.
  - apply IH. inversion G2; auto. intros c0 Hc0. apply INN. now right. Qed.
End MleGenP.
