(* C15: datavector is the contingency table; projection commutes with marginalising/transposing it. *)
From Coq Require Import List Arith Bool Lia.
Import ListNotations.
Require Import PGM.Base.Alg PGM.Base.Sums PGM.Model.Domain PGM.Model.Dataset.
Set Implicit Arguments.

Definition inshape (c shape : list nat) := Forall2 lt c shape.

Lemma in_cells shape : forall c, In c (cells shape) <-> inshape c shape.
Proof. induction shape as [|n ns IH]; simpl; intros c.
  - split. intros [<-|[]]. constructor. intros H. inversion H. now left.
  - rewrite in_flat_map. split.
    + intros [v [Hv Hc]]. apply in_map_iff in Hc. destruct Hc as [c' [<- Hc']]. apply in_seq in Hv.
      constructor. lia. now apply IH.
    + intros H. inversion H as [|v n' c' ns' Hv Hc']; subst. exists v. split. apply in_seq. lia.
      apply in_map. now apply IH. Qed.

Lemma seq_shift_by n : forall s d, map (fun k => d + k) (seq s n) = seq (d + s) n.
Proof. induction n; simpl; intros; auto. f_equal. rewrite IHn. f_equal. lia. Qed.
Lemma blocks P : forall n a, flat_map (fun v => map (fun k => v * P + k) (seq 0 P)) (seq a n) = seq (a * P) (n * P).
Proof. induction n; simpl; intros a; auto. rewrite IHn. rewrite seq_app. f_equal.
  - rewrite seq_shift_by. f_equal. lia.
  - f_equal. lia. Qed.

Lemma ravel_cells shape : map (ravel shape) (cells shape) = seq 0 (prodn shape).
Proof. induction shape as [|n ns IH]; simpl; auto.
  rewrite flat_map_concat_map, concat_map, map_map, <- flat_map_concat_map.
  erewrite flat_map_ext. 2:{ intros v. rewrite map_map. simpl.
    rewrite <- (map_map (ravel ns) (fun k => v * prodn ns + k)). rewrite IH. reflexivity. }
  apply (blocks (prodn ns) n 0). Qed.

Lemma cells_length shape : length (cells shape) = prodn shape.
Proof. rewrite <- (map_length (ravel shape)), ravel_cells. apply seq_length. Qed.
Lemma cells_NoDup shape : NoDup (cells shape).
Proof. apply (NoDup_map_inv (ravel shape)). rewrite ravel_cells. apply seq_NoDup. Qed.
Lemma ravel_nth shape i : i < prodn shape -> ravel shape (nth i (cells shape) []) = i.
Proof. intros H. rewrite <- (map_nth (ravel shape)).
  replace (ravel shape []) with (ravel shape []) by reflexivity.
  rewrite (nth_indep _ _ 0) by (rewrite map_length, cells_length; auto).
  rewrite ravel_cells. now rewrite seq_nth. Qed.
Lemma ravel_lt shape c : inshape c shape -> ravel shape c < prodn shape.
Proof. intros H. apply in_cells in H. apply (in_map (ravel shape)) in H. rewrite ravel_cells in H. apply in_seq in H. lia. Qed.
Lemma nth_ravel shape c : inshape c shape -> nth (ravel shape c) (cells shape) [] = c.
Proof. intros H. pose proof (ravel_lt H) as L. apply in_cells in H.
  destruct (In_nth _ _ [] H) as [i [Hi Ei]]. rewrite cells_length in Hi.
  rewrite <- Ei at 1. now rewrite ravel_nth. Qed.
Lemma ravel_inj shape c c' : inshape c shape -> inshape c' shape -> ravel shape c = ravel shape c' -> c = c'.
Proof. intros H H' E. rewrite <- (nth_ravel H), <- (nth_ravel H'). now rewrite E. Qed.

Lemma list_eqb_spec a : forall b, list_eqb a b = true <-> a = b.
Proof. induction a as [|x a IH]; destruct b as [|y b]; simpl; try (split; congruence).
  rewrite andb_true_iff, Nat.eqb_eq, IH. split. intros [-> ->]; auto. intros E; inversion E; auto. Qed.

Section DS.
Variable R : SR.
Notation K := (car R).
Notation zero := (zero R). Notation add := (add R).

Definition suml (l : list K) : K := fold_right add zero l.
(* weighted number of records equal to cell c *)
Fixpoint wcount (c : list nat) (rs : list (list nat)) (ws : list K) : K :=
  match rs, ws with
  | r :: rs', w :: ws' => if list_eqb r c then add (wcount c rs' ws') w else wcount c rs' ws'
  | _, _ => zero
  end.

Lemma hist_wcount shape : forall rs ws c, Forall (fun r => inshape r shape) rs -> inshape c shape ->
  hist R shape rs ws (ravel shape c) = wcount c rs ws.
Proof. induction rs as [|r rs IH]; intros ws c HR Hc; simpl; auto. destruct ws as [|w ws]; auto.
  inversion HR; subst. rewrite IH by assumption.
  destruct (Nat.eqb_spec (ravel shape c) (ravel shape r)) as [E|N].
  - apply ravel_inj in E; auto. subst. assert (list_eqb r r = true) as -> by now apply list_eqb_spec. reflexivity.
  - destruct (list_eqb r c) eqn:E; auto. apply list_eqb_spec in E. subst. congruence. Qed.

Definition wf_dataset (D : dataset R) :=
  Forall (fun r => inshape r (dshape (ddom D))) (rows D) /\ length (weights D) = length (rows D).

(* the vector form IS the contingency table, cell by cell in row-major order *)
Theorem datavector_contingency (D : dataset R) : wf_dataset D ->
  datavector D = map (fun c => wcount c (rows D) (weights D)) (cells (dshape (ddom D))).
Proof. intros [HR _]. unfold datavector, size. rewrite <- ravel_cells, map_map.
  apply map_ext_in. intros c Hc. apply hist_wcount; auto. now apply in_cells. Qed.
Corollary datavector_length (D : dataset R) : length (datavector D) = size (ddom D).
Proof. unfold datavector. now rewrite map_length, seq_length. Qed.
Corollary datavector_entry (D : dataset R) c : wf_dataset D -> inshape c (dshape (ddom D)) ->
  nth (ravel (dshape (ddom D)) c) (datavector D) zero = wcount c (rows D) (weights D).
Proof. intros W Hc. unfold datavector. pose proof (ravel_lt Hc) as L.
  rewrite (nth_indep _ zero (hist R (dshape (ddom D)) (rows D) (weights D) 0)) by (rewrite map_length, seq_length; auto).
  rewrite map_nth, seq_nth by auto. simpl. apply hist_wcount; auto. apply W. Qed.

(* ---- projection ---- *)
Lemma suml_add_pointwise (A : Type) (l : list A) f g :
  suml (map (fun c => add (f c) (g c)) l) = add (suml (map f l)) (suml (map g l)).
Proof. induction l; simpl. now rewrite add_0_l. rewrite IHl.
  rewrite !add_assoc. f_equal. rewrite <- !add_assoc. f_equal. apply add_comm. Qed.
Lemma suml_zero (A : Type) (l : list A) : suml (map (fun _ => zero) l) = zero.
Proof. induction l; simpl; auto. now rewrite IHl, add_0_l. Qed.
Lemma suml_single (l : list (list nat)) (r : list nat) (g : list nat -> K) :
  NoDup l -> In r l -> suml (map (fun c => if list_eqb r c then g c else zero) l) = g r.
Proof. induction l as [|c l IH]; simpl; intros ND H. contradiction. inversion ND; subst.
  destruct H as [->|H].
  - assert (list_eqb r r = true) as -> by now apply list_eqb_spec.
    rewrite (map_ext_in _ (fun _ => zero)). rewrite suml_zero. apply add_0_r.
    intros c Hc. destruct (list_eqb r c) eqn:E; auto. apply list_eqb_spec in E. subst. contradiction.
  - destruct (list_eqb r c) eqn:E. apply list_eqb_spec in E. subst. contradiction.
    rewrite IH; auto. apply add_0_l. Qed.

(* marginal of the contingency table: sum the cells that select to c' *)
Definition marg_count (shape ax c' : list nat) (rs : list (list nat)) (ws : list K) : K :=
  suml (map (fun c => if list_eqb (select ax c) c' then wcount c rs ws else zero) (cells shape)).

Lemma wcount_project shape ax c' : forall rs ws, Forall (fun r => inshape r shape) rs ->
  wcount c' (map (select ax) rs) ws = marg_count shape ax c' rs ws.
Proof. unfold marg_count. induction rs as [|r rs IH]; intros ws HR; simpl.
  - symmetry. erewrite map_ext. apply suml_zero. intros c. now destruct (list_eqb (select ax c) c').
  - destruct ws as [|w ws].
    { symmetry. erewrite map_ext. apply suml_zero. intros c. now destruct (list_eqb (select ax c) c'). }
    inversion HR; subst.
    transitivity (add (suml (map (fun c => if list_eqb (select ax c) c' then wcount c rs ws else zero) (cells shape)))
                      (suml (map (fun c => if list_eqb r c then (if list_eqb (select ax c) c' then w else zero) else zero) (cells shape)))).
    + rewrite suml_single by (try apply cells_NoDup; now apply in_cells).
      rewrite <- IH by assumption. destruct (list_eqb (select ax r) c'); auto. now rewrite add_0_r.
    + rewrite <- suml_add_pointwise. f_equal. apply map_ext. intros c.
      destruct (list_eqb (select ax c) c'), (list_eqb r c); auto; now rewrite ?add_0_r, ?add_0_l. Qed.

Lemma axes_lt d : forall cols ax, axes d cols = Some ax -> Forall (fun i => i < length d) ax.
Proof. induction cols as [|a cols IH]; simpl; intros ax H. injection H as <-. constructor.
  destruct (index_of a (attrs d)) eqn:E; try discriminate. destruct (axes d cols) eqn:E2; try discriminate.
  injection H as <-. constructor; auto.
  clear -E. unfold attrs in E. revert n E. induction d as [|[b m] d IHd]; simpl; intros n E. discriminate.
  destruct (Nat.eqb b a). injection E as <-. lia. destruct (index_of a (map fst d)); try discriminate.
  injection E as <-. specialize (IHd n0 eq_refl). lia. Qed.

Lemma project_axes_shape d : forall cols d' ax, project d cols = Some d' -> axes d cols = Some ax ->
  dshape d' = map (fun i => nth i (dshape d) 0) ax.
Proof. induction cols as [|a cols IH]; simpl; intros d' ax H1 H2.
  - injection H1 as <-. injection H2 as <-. reflexivity.
  - destruct (lookup d a) eqn:EL; try discriminate. destruct (project d cols) eqn:EP; try discriminate.
    destruct (index_of a (attrs d)) eqn:EI; try discriminate. destruct (axes d cols) eqn:EA; try discriminate.
    injection H1 as <-. injection H2 as <-. simpl. f_equal; [|now apply IH].
    clear -EL EI. unfold attrs, dshape in *. revert n n0 EL EI. induction d as [|[b m] d IHd]; simpl; intros n n0 EL EI. discriminate.
    destruct (Nat.eqb b a). injection EL as <-. injection EI as <-. reflexivity.
    destruct (index_of a (map fst d)); try discriminate. injection EI as <-. simpl. eapply IHd; eauto. Qed.

Lemma select_inshape shape ax r : inshape r shape -> Forall (fun i => i < length shape) ax ->
  inshape (select ax r) (map (fun i => nth i shape 0) ax).
Proof. intros H HA. induction HA as [|i ax Hi HA IH]; simpl; constructor; auto.
  clear -H Hi. revert i Hi. induction H; simpl; intros i Hi. lia. destruct i; auto. apply IHForall2. lia. Qed.

Theorem dproject_wf (D : dataset R) cols D' : wf_dataset D -> dproject D cols = Some D' -> wf_dataset D'.
Proof. intros [HR HW] H. unfold dproject in H.
  destruct (project (ddom D) cols) eqn:EP; try discriminate. destruct (axes (ddom D) cols) eqn:EA; try discriminate.
  injection H as <-. split; simpl.
  - rewrite (project_axes_shape _ _ EP EA). apply Forall_forall. intros r' Hr'. apply in_map_iff in Hr'.
    destruct Hr' as [r [<- Hr]]. rewrite Forall_forall in HR. apply select_inshape; auto.
    pose proof (axes_lt _ _ EA) as L. unfold dshape. now rewrite map_length.
  - now rewrite map_length. Qed.

(* Projection commutes with marginalising + transposing the contingency table, weights carried along *)
Theorem project_commutes (D : dataset R) cols D' ax : wf_dataset D -> dproject D cols = Some D' -> axes (ddom D) cols = Some ax ->
  datavector D' = map (fun c' => marg_count (dshape (ddom D)) ax c' (rows D) (weights D)) (cells (dshape (ddom D'))).
Proof. intros W H EA. rewrite (datavector_contingency (dproject_wf _ W H)).
  unfold dproject in H. destruct (project (ddom D) cols) eqn:EP; try discriminate. rewrite EA in H.
  injection H as <-. simpl. apply map_ext. intros c'. apply wcount_project. apply W. Qed.

(* the marginal count expressed through the entries of D's own vector *)
Lemma marg_count_via_vector (D : dataset R) ax c' : wf_dataset D ->
  marg_count (dshape (ddom D)) ax c' (rows D) (weights D) =
  suml (map (fun c => if list_eqb (select ax c) c' then nth (ravel (dshape (ddom D)) c) (datavector D) zero else zero) (cells (dshape (ddom D)))).
Proof. intros W. unfold marg_count. f_equal. apply map_ext_in. intros c Hc. apply in_cells in Hc.
  now rewrite datavector_entry. Qed.

(* mass is preserved: the vector sums to the total weight *)
Lemma wcount_total shape : forall rs ws, Forall (fun r => inshape r shape) rs -> length ws = length rs ->
  suml (map (fun c => wcount c rs ws) (cells shape)) = suml ws.
Proof. induction rs as [|r rs IH]; intros ws HR HL; destruct ws as [|w ws]; simpl in *; try discriminate.
  - apply suml_zero.
  - inversion HR; subst.
    transitivity (add (suml (map (fun c => wcount c rs ws) (cells shape))) (suml (map (fun c => if list_eqb r c then w else zero) (cells shape)))).
    + rewrite <- suml_add_pointwise. f_equal. apply map_ext. intros c. destruct (list_eqb r c); auto. now rewrite add_0_r.
    + rewrite (@suml_single (cells shape) r (fun _ => w)) by (try apply cells_NoDup; now apply in_cells).
      rewrite IH by (auto; lia). apply add_comm. Qed.
Theorem datavector_total (D : dataset R) : wf_dataset D -> suml (datavector D) = suml (weights D).
Proof. intros W. rewrite datavector_contingency by assumption. apply wcount_total; apply W. Qed.
End DS.
