(* C09: the estimate of the total taken from one measurement is the BEST linear unbiased one.
   estimate_total solves Q^T v = 1 for the minimum-norm v (lsmr) and uses <v, y>, whose variance is sigma^2 |v|^2.  Any w with Q^T w = 1
   gives an unbiased linear estimate <w, y>; a solution v that lies in the column space of Q (v = Q z - which the minimum-norm solution of
   Q^T v = 1 does) has the smallest norm among them, hence the smallest variance:  |w|^2 = |v|^2 + |w - v|^2. *)
From Coq Require Import List Arith QArith Qcanon Lia.
Import ListNotations.
Require Import PGM.Base.Qnn PGM.Model.Loss PGM.Proofs.LossP.
Local Open Scope Qc_scope.

Lemma dot_sub_expand n (v w : vec) : dot n w w = dot n v v + dot n (fun i => w i - v i) (fun i => w i - v i) + (1 + 1) * dot n v (fun i => w i - v i).
Proof. unfold dot. rewrite <- qsum_scale, <- !qsum_add. apply qsum_ext. intros i _. ring. Qed.

Theorem min_norm_is_blue Q m p (v w z : vec) :
  (forall j, (j < p)%nat -> tmatvec Q m v j = 1) -> (forall j, (j < p)%nat -> tmatvec Q m w j = 1) ->
  (forall i, (i < m)%nat -> v i = matvec Q p z i) ->
  dot m v v <= dot m w w.
Proof. intros Hv Hw Hz.
  assert (O : dot m v (fun i => w i - v i) = 0).
  { transitivity (dot m (matvec Q p z) (fun i => w i - v i)).
    - unfold dot. apply qsum_ext. intros i Hi. now rewrite (Hz i Hi).
    - rewrite adjoint. unfold dot. transitivity (qsum p (fun j => z j * 0)). 2:{ transitivity (qsum p (fun j => 0 * z j)). apply qsum_ext; intros; ring. rewrite qsum_scale. ring. }
      apply qsum_ext. intros j Hj. f_equal. unfold tmatvec.
      transitivity (qsum m (fun i => Q i j * w i) - qsum m (fun i => Q i j * v i)).
      + transitivity (qsum m (fun i => Q i j * w i + (- (1)) * (Q i j * v i))). apply qsum_ext. intros; ring. rewrite qsum_add, qsum_scale. ring.
      + pose proof (Hw j Hj) as A. pose proof (Hv j Hj) as B. unfold tmatvec in A, B. rewrite A, B. ring. }
  rewrite (dot_sub_expand m v w), O. pose proof (dot_self_nonneg m (fun i => w i - v i)) as N.
  replace (dot m v v + dot m (fun i => w i - v i) (fun i => w i - v i) + (1 + 1) * 0) with (dot m v v + dot m (fun i => w i - v i) (fun i => w i - v i)) by ring.
  rewrite <- (Qcplus_0_r (dot m v v)) at 1. apply Qcplus_le_compat. apply Qcle_refl. exact N. Qed.

(* ... and so has the smallest variance sigma^2 |.|^2 *)
Corollary min_norm_minimises_variance Q m p (v w z : vec) sigma :
  (forall j, (j < p)%nat -> tmatvec Q m v j = 1) -> (forall j, (j < p)%nat -> tmatvec Q m w j = 1) ->
  (forall i, (i < m)%nat -> v i = matvec Q p z i) -> var_of m v sigma <= var_of m w sigma.
Proof. intros Hv Hw Hz. unfold var_of. rewrite (Qcmult_comm (sigma * sigma) (dot m v v)), (Qcmult_comm (sigma * sigma) (dot m w w)).
  apply Qcmult_le_compat_r. now apply (min_norm_is_blue Q m p v w z). apply Qc_sq_nonneg. Qed.
