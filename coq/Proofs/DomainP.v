(* C15 (domain part): set and product laws of the Domain operations. *)
From Coq Require Import List Arith Bool Lia Permutation Sorted.
Import ListNotations.
Require Import PGM.Base.Sums PGM.Model.Domain.

Lemma lookup_some_in d a n : lookup d a = Some n -> In a (attrs d).
Proof. induction d as [|[b m] d IH]; simpl; intros H. discriminate.
  destruct (Nat.eqb_spec b a). now left. right. auto. Qed.
Lemma lookup_in d a : In a (attrs d) -> exists n, lookup d a = Some n.
Proof. induction d as [|[b m] d IH]; simpl; intros H. contradiction.
  destruct (Nat.eqb_spec b a). eauto. destruct H. contradiction. auto. Qed.

(* project returns its axes in the order requested, with the sizes of the source domain *)
Lemma project_attrs d : forall l d', project d l = Some d' -> attrs d' = l.
Proof. induction l as [|a l IH]; simpl; intros d' H. now injection H as <-.
  destruct (lookup d a); try discriminate. destruct (project d l); try discriminate.
  injection H as <-. simpl. f_equal. now apply IH. Qed.
Lemma project_lookup d : forall l d' a, project d l = Some d' -> In a l -> lookup d' a = lookup d a.
Proof. induction l as [|b l IH]; simpl; intros d' a H Ha. contradiction.
  destruct (lookup d b) eqn:E; try discriminate. destruct (project d l) eqn:E2; try discriminate.
  injection H as <-. simpl. destruct (Nat.eqb_spec b a). now subst. destruct Ha. contradiction. eapply IH; eauto. Qed.
Lemma project_defined d l : incl l (attrs d) <-> exists d', project d l = Some d'.
Proof. induction l as [|a l IH]; simpl. split; eauto. intros _ x [].
  split.
  - intros H. destruct (lookup_in d a) as [n ->]. apply H; now left.
    destruct (proj1 IH) as [d' ->]. intros x Hx; apply H; now right. eauto.
  - intros [d' H]. destruct (lookup d a) eqn:E; try discriminate. destruct (project d l) eqn:E2; try discriminate.
    intros x [<-|Hx]. eapply lookup_some_in; eauto. apply (proj2 IH); eauto. Qed.
Lemma project_project d l d1 : project d l = Some d1 -> forall m, incl m l -> project d1 m = project d m.
Proof. intros H. induction m as [|a m IH]; simpl; intros I; auto.
  rewrite (project_lookup _ _ _ a H) by (apply I; now left). rewrite IH by (intros x Hx; apply I; now right). reflexivity. Qed.
Lemma project_self d : NoDup (attrs d) -> project d (attrs d) = Some d.
Proof. induction d as [|[a n] d IH]; simpl; intros ND; auto. rewrite Nat.eqb_refl. inversion ND; subst.
  assert (E : project ((a, n) :: d) (attrs d) = project d (attrs d)).
  { clear IH ND H2. revert H1. generalize (attrs d) as l. induction l as [|b l IHl]; simpl; intros H; auto.
    destruct (Nat.eqb_spec a b). subst. exfalso. apply H. now left.
    rewrite IHl by (intro; apply H; now right). reflexivity. }
  rewrite E, IH; auto. Qed.

(* invert / marginalize = complement *)
Lemma invert_In d l a : In a (invert d l) <-> In a (attrs d) /\ ~ In a l.
Proof. unfold invert. rewrite filter_In, negb_true_iff, memb_nIn. tauto. Qed.
Lemma marginalize_defined d l : exists d', marginalize d l = Some d' /\ attrs d' = invert d l.
Proof. unfold marginalize. destruct (proj1 (project_defined d (invert d l))) as [d' H].
  intros a Ha. now apply invert_In in Ha. exists d'. split; auto. eapply project_attrs; eauto. Qed.
Lemma marginalize_is_project_invert d l : marginalize d l = project d (invert d l).
Proof. reflexivity. Qed.
Lemma invert_NoDup d l : NoDup (attrs d) -> NoDup (invert d l).
Proof. apply NoDup_filter. Qed.

Lemma NoDup_app_disj (l1 l2 : list nat) : NoDup l1 -> NoDup l2 -> (forall a, In a l1 -> ~ In a l2) -> NoDup (l1 ++ l2).
Proof. induction l1 as [|a l1 IH]; simpl; intros H1 H2 D; auto. inversion H1; subst. constructor.
  - rewrite in_app_iff. intros [H|H]; auto. apply (D a); auto.
  - apply IH; auto. Qed.
(* merge = ordered union *)
Theorem merge_attrs d o : exists m, merge d o = Some m /\ attrs m = attrs d ++ invert o (attrs d).
Proof. unfold merge. destruct (marginalize_defined o (attrs d)) as [e [-> E]]. exists (d ++ e). split; auto.
  unfold attrs in *. now rewrite map_app, E. Qed.
Theorem merge_In d o m a : merge d o = Some m -> (In a (attrs m) <-> In a (attrs d) \/ In a (attrs o)).
Proof. intros H. destruct (merge_attrs d o) as [m' [H' E]]. rewrite H in H'. injection H' as <-.
  rewrite E, in_app_iff, invert_In. destruct (in_dec Nat.eq_dec a (attrs d)); tauto. Qed.
Theorem merge_NoDup d o m : NoDup (attrs d) -> NoDup (attrs o) -> merge d o = Some m -> NoDup (attrs m).
Proof. intros Hd Ho H. destruct (merge_attrs d o) as [m' [H' E]]. rewrite H in H'. injection H' as <-.
  rewrite E. apply NoDup_app_disj; auto. now apply invert_NoDup.
  intros a Ha Hb. apply invert_In in Hb. tauto. Qed.

(* sizes *)
Lemma prodn_app l1 l2 : prodn (l1 ++ l2) = prodn l1 * prodn l2.
Proof. induction l1; simpl. lia. rewrite IHl1. lia. Qed.
Lemma prodn_perm l1 l2 : Permutation l1 l2 -> prodn l1 = prodn l2.
Proof. intros P. induction P; simpl; lia. Qed.
Theorem merge_size d o m : merge d o = Some m -> exists e, marginalize o (attrs d) = Some e /\ size m = size d * size e.
Proof. unfold merge. destruct (marginalize o (attrs d)) as [e|]; try discriminate. intros H. injection H as <-.
  exists e. split; auto. unfold size, dshape. now rewrite map_app, prodn_app. Qed.
Lemma project_shape d : forall l d', project d l = Some d' -> dshape d' = map (key_size d) l.
Proof. induction l as [|a l IH]; simpl; intros d' H. now injection H as <-.
  unfold key_size at 1. destruct (lookup d a); try discriminate. destruct (project d l); try discriminate.
  injection H as <-. simpl. f_equal. now apply IH. Qed.
Theorem size_project_perm d l l' d1 d2 : Permutation l l' -> project d l = Some d1 -> project d l' = Some d2 -> size d1 = size d2.
Proof. intros P H1 H2. unfold size. rewrite (project_shape _ _ _ H1), (project_shape _ _ _ H2).
  apply prodn_perm. now apply Permutation_map. Qed.

(* canonical order *)
Lemma canonical_In d l a : In a (canonical d l) <-> In a (attrs d) /\ In a l.
Proof. unfold canonical. rewrite filter_In, memb_In. tauto. Qed.
Theorem canonical_set_only d l l' : (forall a, In a l <-> In a l') -> canonical d l = canonical d l'.
Proof. intros H. unfold canonical. apply filter_ext. intros a.
  destruct (memb a l) eqn:E1, (memb a l') eqn:E2; auto.
  apply memb_In in E1. apply memb_nIn in E2. now apply H in E1.
  apply memb_nIn in E1. apply memb_In in E2. now apply H in E2. Qed.
Theorem canonical_perm d l : NoDup l -> NoDup (attrs d) -> incl l (attrs d) -> Permutation (canonical d l) l.
Proof. intros ND NDd I. apply NoDup_Permutation; auto. now apply NoDup_filter.
  intros a. rewrite canonical_In. split. tauto. intros H. split; auto. Qed.

(* sorted() *)
Lemma insert_by_perm key a l : Permutation (insert_by key a l) (a :: l).
Proof. induction l as [|b l IH]; simpl; auto. destruct (Nat.leb (key a) (key b)); auto.
  rewrite IH. apply perm_swap. Qed.
Theorem sort_by_perm key l : Permutation (sort_by key l) l.
Proof. induction l; simpl; auto. rewrite insert_by_perm. now constructor. Qed.
Lemma insert_by_sorted key a l : StronglySorted (fun x y => key x <= key y) l -> StronglySorted (fun x y => key x <= key y) (insert_by key a l).
Proof. induction l as [|b l IH]; simpl; intros H. repeat constructor.
  inversion H; subst. destruct (Nat.leb_spec (key a) (key b)).
  - constructor; auto. constructor; auto. rewrite Forall_forall in *. intros x Hx. specialize (H3 x Hx). lia.
  - constructor; auto. apply Forall_forall. intros x Hx. apply (Permutation_in _ (insert_by_perm key a l)) in Hx.
    destruct Hx as [<-|Hx]. lia. rewrite Forall_forall in H3. auto. Qed.
Theorem sort_by_sorted key l : StronglySorted (fun x y => key x <= key y) (sort_by key l).
Proof. induction l; simpl. constructor. now apply insert_by_sorted. Qed.

Theorem contains_spec d o : contains d o = true <-> incl (attrs o) (attrs d).
Proof. apply subsetb_spec. Qed.
