(* C20: on the reals the computed probabilities are exactly exp(s_i) / sum_j exp(s_j) (the max / logsumexp shift cancels),
   hence proportional to base_i * exp(eps*q_i/(2*sens)), shift invariant, summing to one, with non-positive exponents. *)
From Coq Require Import List ZArith Reals Lra Bool.
Import ListNotations.
Require Import PGM.Base.Num PGM.Model.Select.
Open Scope R_scope.

Definition sumR (l : list R) : R := fold_right Rplus 0 l.
Lemma lsum_R l : lsum RNum l = sumR l.
Proof. unfold lsum, sumR. induction l as [|a l IH]; cbn [fold_right].
  - cbn [lit RNum]. unfold Rdiv. rewrite Rinv_1. ring.
  - rewrite IH. reflexivity. Qed.
Lemma sumR_scale k (f : R -> R) l : sumR (map (fun x => k * f x) l) = k * sumR (map f l).
Proof. induction l; simpl. ring. rewrite IHl. ring. Qed.
Lemma sumR_exp_pos l : l <> [] -> 0 < sumR (map exp l).
Proof. destruct l as [|a l]; intros H. congruence. simpl. clear H.
  assert (0 <= sumR (map exp l)). { induction l; simpl. lra. pose proof (exp_pos a0). lra. } pose proof (exp_pos a). lra. Qed.
Lemma lmax_ge l x : In x l -> x <= lmax RNum l.
Proof. destruct l as [|a l]; simpl. tauto. revert a. induction l as [|b l IH]; simpl; intros a [<-|H].
  - lra. - contradiction.
  - change (nmax RNum) with Rmax. destruct l; simpl; [apply Rmax_r|]. eapply Rle_trans; [|apply Rmax_r]. specialize (IH a (or_introl eq_refl)).
    clear -IH. revert IH. simpl. intros. exact IH.
  - change (nmax RNum) with Rmax. destruct H as [<-|H]. apply Rmax_l.
    eapply Rle_trans; [|apply Rmax_r]. apply (IH a). now right. Qed.

(* softmax (max-shifted) = exp(s_i) / sum exp(s_j) *)
Theorem softmax_spec s i : s <> [] -> (i < length s)%nat ->
  nth i (softmax RNum s) 0 = exp (nth i s 0) / sumR (map exp s).
Proof. intros NE Hi. unfold softmax. set (m := lmax RNum s). rewrite lsum_R, map_map.
  change (nsub RNum) with Rminus. change (nexp RNum) with exp. change (ndiv RNum) with Rdiv.
  rewrite (nth_indep _ 0 ((fun x => exp (x - m) / sumR (map (fun x0 => exp (x0 - m)) s)) 0)) by (now rewrite map_length).
  rewrite (map_nth (fun x => exp (x - m) / sumR (map (fun x0 => exp (x0 - m)) s))).
  assert (E : sumR (map (fun x0 => exp (x0 - m)) s) = exp (- m) * sumR (map exp s)).
  { rewrite <- sumR_scale. f_equal. apply map_ext. intros a. unfold Rminus. rewrite exp_plus. ring. }
  rewrite E. unfold Rminus. rewrite exp_plus. pose proof (exp_pos (- m)). pose proof (sumR_exp_pos s NE). field. split; lra. Qed.

(* exp(s_i - logsumexp s) = exp(s_i) / sum exp(s_j) *)
Theorem lse_probs_spec s i : s <> [] -> (i < length s)%nat ->
  nth i (lse_probs RNum s) 0 = exp (nth i s 0) / sumR (map exp s).
Proof. intros NE Hi. unfold lse_probs, lse. set (m := lmax RNum s). rewrite lsum_R.
  change (nsub RNum) with Rminus. change (nexp RNum) with exp. change (nadd RNum) with Rplus. change (nlog RNum) with ln.
  set (z := m + ln (sumR (map (fun x => exp (x - m)) s))).
  rewrite (nth_indep _ 0 ((fun x => exp (x - z)) 0)) by (now rewrite map_length).
  rewrite (map_nth (fun x => exp (x - z))).
  assert (E : sumR (map (fun x0 => exp (x0 - m)) s) = exp (- m) * sumR (map exp s)).
  { rewrite <- sumR_scale. f_equal. apply map_ext. intros a. unfold Rminus. rewrite exp_plus. ring. }
  pose proof (exp_pos (- m)). pose proof (sumR_exp_pos s NE).
  unfold z. rewrite E. set (W := exp (- m) * sumR (map exp s)). assert (HW : 0 < W) by (apply Rmult_lt_0_compat; lra).
  transitivity (exp (nth i s 0) * exp (- m) * exp (- ln W)). { rewrite <- !exp_plus. f_equal. ring. }
  rewrite (exp_Ropp (ln W)), exp_ln by lra. unfold W. field. split; lra. Qed.

(* probabilities sum to one *)
Lemma sumR_nth_ext l1 l2 : length l1 = length l2 -> (forall i, (i < length l1)%nat -> nth i l1 0 = nth i l2 0) -> l1 = l2.
Proof. revert l2. induction l1 as [|a l1 IH]; destruct l2; simpl; intros L H; try discriminate; auto.
  f_equal. apply (H 0%nat). apply Nat.lt_0_succ. apply IH. congruence. intros i Hi. apply (H (S i)). now apply -> Nat.succ_lt_mono. Qed.
Lemma softmax_length s : length (softmax RNum s) = length s.
Proof. unfold softmax. cbv zeta. now rewrite !map_length. Qed.
Theorem softmax_sums_to_one s : s <> [] -> sumR (softmax RNum s) = 1.
Proof. intros NE. assert (E : softmax RNum s = map (fun x => exp x / sumR (map exp s)) s).
  { apply sumR_nth_ext. rewrite softmax_length. symmetry. apply map_length.
    intros i Hi. rewrite softmax_length in Hi. rewrite softmax_spec by auto.
    rewrite (nth_indep (map (fun x => exp x / sumR (map exp s)) s) 0 ((fun x => exp x / sumR (map exp s)) 0)) by (now rewrite map_length).
    now rewrite (map_nth (fun x => exp x / sumR (map exp s))). }
  rewrite E. pose proof (sumR_exp_pos s NE).
  transitivity (/ sumR (map exp s) * sumR (map exp s)). 2:{ field. lra. }
  rewrite <- sumR_scale. f_equal. apply map_ext. intros. unfold Rdiv. ring. Qed.

(* after the max shift every exponent is <= 0: well defined for scores of any magnitude *)
Theorem exponents_nonpositive s x : In x s -> x - lmax RNum s <= 0.
Proof. intros H. pose proof (lmax_ge s x H). lra. Qed.

(* exp(c*(q - m) + ln b) = b * exp(c q) * exp(-c m): the softmax of the mechanism's scores is proportional to base * exp(c q) *)
Theorem em_proportional c m q b : 0 < b -> exp (c * (q - m) + ln b) = b * exp (c * q) * exp (- (c * m)).
Proof. intros Hb. rewrite exp_plus, exp_ln by assumption. replace (c * (q - m)) with (c * q + - (c * m)) by ring. rewrite exp_plus. ring. Qed.

(* adding a constant to every score does not change exp(s_i)/sum exp(s_j) *)
Theorem shift_invariant s k i : s <> [] -> exp (nth i s 0 + k) / sumR (map exp (map (fun x => x + k) s)) = exp (nth i s 0) / sumR (map exp s).
Proof. intros NE. rewrite map_map.
  assert (E : sumR (map (fun x => exp (x + k)) s) = exp k * sumR (map exp s)).
  { rewrite <- sumR_scale. f_equal. apply map_ext. intros. rewrite exp_plus. ring. }
  rewrite E, exp_plus. pose proof (exp_pos k). pose proof (sumR_exp_pos s NE). field. split; lra. Qed.

Theorem laplace_scale_spec bounded l1 eps : laplace_scale RNum bounded l1 eps = (if bounded then 2 * l1 else l1) / eps.
Proof. unfold laplace_scale. destruct bounded; simpl; unfold Rdiv; rewrite ?Rinv_1; ring. Qed.
Theorem gaussian_scale_spec bounded l2 s : gaussian_scale RNum bounded l2 s = (if bounded then 2 * l2 else l2) * s.
Proof. unfold gaussian_scale. destruct bounded; simpl; unfold Rdiv; rewrite ?Rinv_1; ring. Qed.
