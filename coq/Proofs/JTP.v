(* C01, layer 2: on a rooted tree satisfying the recursive running-intersection predicate `good`,
   the Shafer-Shenoy message `up` is the sum of the subtree's joint over the eliminated variables,
   and the belief at the root is the sum of the whole joint over everything outside the root's scope. *)
From Coq Require Import List Arith Lia Bool FunctionalExtensionality.
Import ListNotations.
Require Import PGM.Base.Alg PGM.Base.Sums PGM.Model.BP.

Section JT.
Variable R : SR.
Notation K := (car R).
Variable shape : nat -> nat.
Variable scope : nat -> list nat.
Variable psi : nat -> tbl R.
Hypothesis psi_wf : forall c a, ~ In a (scope c) -> @indep R a (psi c).
Notation tbl := (tbl R).
Notation sum_vars := (@sum_vars R shape).
Notation tmul := (@tmul R).
Notation prodt := (@prodt R).
Notation indep := (@indep R).
Notation indep_l := (@indep_l R).
Notation vars := (vars scope).
Notation elimt := (elimt scope).

Fixpoint up (p : list nat) (t : rt) : tbl :=
  match t with Node c ks => sum_vars (diff (scope c) p) (tmul (psi c) (prodt (map (up (scope c)) ks))) end.
Definition jointt (t : rt) : tbl := prodt (map psi (nodes t)).

Fixpoint good (t : rt) : Prop :=
  match t with Node c ks =>
    (fix gk (l : list rt) : Prop :=
       match l with
       | [] => True
       | k :: r => good k
                   /\ (forall a, In a (elimt (scope c) k) -> ~ In a (scope c) /\ forall k', In k' r -> ~ In a (vars k'))
                   /\ (forall k' a, In k' r -> In a (elimt (scope c) k') -> ~ In a (vars k))
                   /\ gk r
       end) ks
  end.

Lemma jointt_indep a t : ~ In a (vars t) -> indep a (jointt t).
Proof. intros H. unfold jointt. apply prodt_indep. intros f Hf. apply in_map_iff in Hf. destruct Hf as [c [<- Hc]].
  apply psi_wf. intro Ha. apply H. unfold BP.vars. apply in_flat_map. exists c; auto. Qed.

Lemma jointt_node c ks : jointt (Node c ks) = tmul (psi c) (prodt (map jointt ks)).
Proof. unfold jointt. simpl. f_equal. induction ks as [|k r IH]; simpl; auto.
  rewrite map_app, prodt_app. f_equal. apply IH. Qed.

Fixpoint kids_ok (E : rt -> list nat) (g : tbl) (ks : list rt) : Prop :=
  match ks with
  | [] => True
  | k :: r => (forall a, In a (E k) -> indep a g /\ forall k', In k' r -> ~ In a (vars k'))
              /\ (forall k' a, In k' r -> In a (E k') -> ~ In a (vars k))
              /\ kids_ok E g r
  end.

Lemma kids_ok_weaken E g g' ks :
  (forall a k, In k ks -> In a (E k) -> indep a g -> indep a g') -> kids_ok E g ks -> kids_ok E g' ks.
Proof. induction ks as [|k r IH]; simpl; auto. intros W [A [B C]]. split; [|split]; auto.
  - intros a Ha. destruct (A a Ha) as [A1 A2]. split; auto. apply (W a k); auto.
  - apply IH; auto. intros a k' Hk'. apply W. now right. Qed.

Lemma pull_sums (E : rt -> list nat) (ks : list rt) : forall g, kids_ok E g ks ->
  tmul g (prodt (map (fun k => sum_vars (E k) (jointt k)) ks)) =
  sum_vars (flat_map E ks) (tmul g (prodt (map jointt ks))).
Proof. induction ks as [|k r IH]; intros g H; simpl; auto.
  destruct H as [H1 [H2 H3]].
  set (S := prodt (map (fun k0 => sum_vars (E k0) (jointt k0)) r)).
  set (PJ := prodt (map jointt r)).
  assert (HS : indep_l (E k) S).
  { intros a Ha. apply prodt_indep. intros f Hf. apply in_map_iff in Hf. destruct Hf as [k' [<- Hk']].
    apply sum_vars_indep. apply jointt_indep. now apply H1. }
  assert (Hg : indep_l (E k) g) by (intros a Ha; now apply H1).
  replace (tmul g (tmul (sum_vars (E k) (jointt k)) S)) with (tmul (tmul g S) (sum_vars (E k) (jointt k))).
  2:{ rewrite <- !tmul_assoc. f_equal. apply tmul_comm. }
  rewrite <- sum_vars_mul.
  2:{ intros a Ha. apply tmul_indep. now apply Hg. now apply HS. }
  rewrite (tmul_swap g S (jointt k)).
  unfold S. rewrite (IH (tmul g (jointt k))).
  - rewrite sum_vars_comm, <- sum_vars_app. fold PJ. now rewrite <- tmul_assoc.
  - eapply kids_ok_weaken; [|exact H3]. intros a k' Hk' Ha Hi. apply tmul_indep; auto.
    apply jointt_indep. now apply (H2 k' a).
Qed.

Lemma good_kids c ks : good (Node c ks) ->
  kids_ok (elimt (scope c)) (psi c) ks /\ Forall good ks.
Proof. simpl. induction ks as [|k r IH]; simpl; intros H. split; auto.
  destruct H as [G [A [B C]]]. destruct (IH C) as [I1 I2]. split; [|constructor; auto].
  split; [|split]; auto. intros a Ha. destruct (A a Ha) as [A1 A2]. split; auto. Qed.

Lemma rt_ind' (P : rt -> Prop) : (forall c ks, Forall P ks -> P (Node c ks)) -> forall t, P t.
Proof. intros H. fix IH 1. intros [c ks]. apply H. induction ks; constructor; auto. Qed.

Theorem up_is_subtree_sum : forall t, good t -> forall p, up p t = sum_vars (elimt p t) (jointt t).
Proof. induction t as [c ks IH] using rt_ind'. intros G p.
  destruct (good_kids _ _ G) as [KO GK]. simpl up. simpl BP.elimt.
  assert (E1 : map (up (scope c)) ks = map (fun k => sum_vars (elimt (scope c) k) (jointt k)) ks).
  { apply map_ext_in. intros k Hk. rewrite Forall_forall in IH, GK. apply IH; auto. }
  rewrite E1. rewrite pull_sums by exact KO. rewrite sum_vars_app. now rewrite jointt_node. Qed.

Corollary root_belief c ks : good (Node c ks) ->
  tmul (psi c) (prodt (map (up (scope c)) ks)) = sum_vars (flat_map (elimt (scope c)) ks) (jointt (Node c ks)).
Proof. intros G. destruct (good_kids _ _ G) as [KO GK].
  assert (E1 : map (up (scope c)) ks = map (fun k => sum_vars (elimt (scope c) k) (jointt k)) ks).
  { apply map_ext_in. intros k Hk. rewrite Forall_forall in GK. apply up_is_subtree_sum; auto. }
  rewrite E1, pull_sums by exact KO. now rewrite jointt_node. Qed.

(* locality of up: it does not depend on attributes outside the root clique of the subtree *)
Lemma up_indep : forall t p a, ~ In a (scope (match t with Node c _ => c end)) -> indep a (up p t).
Proof. induction t as [c ks IH] using rt_ind'. intros p a Ha. simpl in *. apply sum_vars_indep.
  apply tmul_indep. now apply psi_wf. apply prodt_indep. intros f Hf. apply in_map_iff in Hf. destruct Hf as [k [<- Hk]].
  rewrite Forall_forall in IH. destruct k as [ck kks] eqn:Ek.
  (* a not in scope c: either a is summed inside the child, or the child does not mention it at its root *)
  destruct (in_dec Nat.eq_dec a (scope ck)) as [I|I].
  - simpl. apply sum_vars_indep_in. apply diff_In. auto.
  - rewrite <- Ek. apply IH. now rewrite Ek. rewrite Ek. exact I. Qed.

(* boolean reflection of good *)
Lemma disjb_spec l1 l2 : disjb l1 l2 = true <-> forall a, In a l1 -> ~ In a l2.
Proof. unfold disjb. rewrite forallb_forall. split; intros H a Ha; specialize (H a Ha).
  apply negb_true_iff in H. now apply memb_nIn. apply negb_true_iff. now apply memb_nIn. Qed.
Lemma goodb_good : forall t, goodb scope t = true -> good t.
Proof. induction t as [c ks IH] using rt_ind'. simpl. induction ks as [|k r IHr]; auto.
  intros H. apply andb_prop in H. destruct H as [H H5]. apply andb_prop in H. destruct H as [H H4].
  apply andb_prop in H. destruct H as [H H3]. apply andb_prop in H. destruct H as [H1 H2].
  inversion IH; subst. split; [auto|]. split; [|split].
  - intros a Ha. split. apply (proj1 (disjb_spec _ _) H2 a Ha).
    intros k' Hk'. rewrite forallb_forall in H3. apply (proj1 (disjb_spec _ _) (H3 k' Hk') a Ha).
  - intros k' a Hk' Ha. rewrite forallb_forall in H4. apply (proj1 (disjb_spec _ _) (H4 k' Hk') a Ha).
  - apply IHr; auto. Qed.
End JT.
